#!/usr/bin/env python3
"""tools/try_seed.py <ID> <seed-dir> [extra check ids...]

Confirms a seeded defect and runs our check(s) against it, in a scratch worktree of /repo's HEAD (never in /repo itself,
because other builds read /repo's working tree at the same time):
  1. the demonstration passes on the unmodified tree and fails with the patch;
  2. `VERIF_REPO=<worktree> ./check <ID>` (and the extra ids) -> expect VIOLATION;
  3. the worktree is removed and ./check is re-run on /repo so that evidence files come from the real tree.
If the seed is kept, it is stored as /verif/seeded/<ID>[-n]/ (patch.diff, demo, meta.json).
"""
import sys, os, subprocess, json, shutil, time, glob

V = os.path.dirname(os.path.dirname(os.path.abspath(__file__)))


def sh(cmd, timeout=1800, cwd=None, env=None):
    try:
        r = subprocess.run(cmd, shell=isinstance(cmd, str), stdout=subprocess.PIPE, stderr=subprocess.STDOUT, universal_newlines=True,
                           timeout=timeout, cwd=cwd, env=env, errors='replace')
        return r.returncode, r.stdout
    except subprocess.TimeoutExpired as e:
        return 124, (e.stdout or b'').decode(errors='replace') if isinstance(e.stdout, bytes) else (e.stdout or '') + '\n[timeout]'


def main():
    pid, seed = sys.argv[1], sys.argv[2].rstrip('/')
    extra = sys.argv[3:]
    out = os.path.join(seed, 'out') if os.path.isdir(os.path.join(seed, 'out')) else seed
    patch = os.path.join(out, 'patch.diff')
    wt = '/tmp/try-%s-%d' % (pid, os.getpid())
    res = {'property': pid, 'seed_dir': seed}
    sh(['git', '-C', '/repo', 'worktree', 'add', '--detach', wt, 'HEAD'])
    try:
        rc, o = sh(['git', '-C', wt, 'apply', '--whitespace=nowarn', patch])
        res['patch_applies'] = rc == 0
        if rc != 0:
            rc, o2 = sh('patch -p1 -F3 --no-backup-if-mismatch < %s' % patch, cwd=wt)
            res['patch_applies_with_fuzz'] = rc == 0
            o += o2
        if rc != 0:
            res['apply_error'] = o[-500:]
            print(json.dumps(res, indent=1))
            return 1
        demo = os.path.join(out, 'run_demo.sh')
        if os.path.exists(demo):
            rc0, o0 = sh(['bash', demo, '/repo'], timeout=900, cwd=out)
            rc1, o1 = sh(['bash', demo, wt], timeout=900, cwd=out)
            res['demo_on_clean_rc'] = rc0
            res['demo_on_patched_rc'] = rc1
            res['demo_tail_patched'] = o1[-400:]
            if rc0 != 0:
                res['demo_tail_clean'] = o0[-400:]
        env = dict(os.environ)
        env['VERIF_REPO'] = wt
        res['checks'] = {}
        for cid in [pid] + extra:
            t = time.time()
            rc, o = sh([os.path.join(V, 'check'), cid], timeout=3000, cwd=V, env=env)
            lines = [l for l in o.split('\n') if l.startswith(('VIOLATION', 'OK', 'KNOWN'))]
            res['checks'][cid] = {'rc': rc, 'wall_s': round(time.time() - t), 'lines': [l[:300] for l in lines[:6]],
                                  'detail': [l.strip()[:400] for l in o.split('\n') if l.startswith('  ')][:3]}
    finally:
        sh(['git', '-C', '/repo', 'worktree', 'remove', '--force', wt])
        shutil.rmtree(wt, ignore_errors=True)
    # restore evidence from the real tree
    env = dict(os.environ)
    env.pop('VERIF_REPO', None)
    for cid in [pid] + extra:
        rc, o = sh([os.path.join(V, 'check'), cid], timeout=3000, cwd=V, env=env)
        res['checks'][cid]['clean_rerun_rc'] = rc
    # clean mutant replays
    for cid in [pid] + extra:
        for f in glob.glob(os.path.join(V, 'replays', cid, '*')):
            os.unlink(f)
    print(json.dumps(res, indent=1))
    return 0


if __name__ == '__main__':
    sys.exit(main())
