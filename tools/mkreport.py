#!/usr/bin/env python3
"""Regenerates the machine-written tail of DESIGN.md (sections 13-15: status per property, findings, seeded changes)
from MANIFEST.json, known_findings.json, evidence/*.json and seeded/*/meta.json."""
import os, json, glob, re, subprocess
V = os.path.dirname(os.path.dirname(os.path.abspath(__file__)))
MARK = '\n<!-- GENERATED TAIL: tools/mkreport.py rewrites everything below this line -->\n'


def main():
    props = [json.loads(l) for l in open(os.path.join(V, 'properties.jsonl'))]
    man = json.load(open(os.path.join(V, 'MANIFEST.json')))
    claimed = {c['property_id']: c for c in man['checks']}
    na = {c['property_id']: c['reason'] for c in man.get('not_applicable', [])}
    kf = json.load(open(os.path.join(V, 'known_findings.json')))['findings']
    out = MARK
    out += '\n## 13. Status per property (generated)\n\n'
    out += '| id | claimed | obligations (last run) | evaluations | findings: fixed / known | title |\n|----|---------|------------------------|-------------|-------------------------|-------|\n'
    for p in props:
        pid = p['id']
        ev = {}
        f = os.path.join(V, 'evidence', pid + '.json')
        if os.path.exists(f):
            try:
                ev = json.load(open(f))
            except Exception:
                ev = {}
        cov = ev.get('coverage', {})
        fixed = [k for k in kf if k['property'] == pid and k.get('status') == 'fixed']
        known = [k for k in kf if k['property'] == pid and k.get('status') == 'known']
        out += '| %s | %s | %s | %s | %d / %d | %s |\n' % (
            pid, 'yes' if pid in claimed else 'no', ('%s/%s' % (cov.get('discharged', '-'), cov.get('obligations', '-'))) if pid in claimed else '-',
            cov.get('evaluations', '-') if pid in claimed else '-', len(fixed), len(known), p['title'])
    if na:
        out += '\nNot claimed:\n\n'
        for k, v in na.items():
            out += '* %s — %s\n' % (k, v)
    out += '\n## 14. Findings on the tree as received (generated from known_findings.json)\n\n'
    out += 'Repaired in /repo by `fix:` commits (the check passes on the repaired tree with no KNOWN-FINDING line; reverting the commit makes it report a concrete VIOLATION):\n\n'
    for k in kf:
        if k.get('status') == 'fixed':
            out += '* **%s** `%s` (%s): %s\n' % (k['property'], k.get('commit', '?'), k['key'], re.sub(r'^fixed: property=\S+ \S+ ', '', k['what'])[:420])
    out += '\nRecorded as known findings (genuine deviations from the property text that have no small, safe repair; each is the exclusion domain — a Gallina boolean — of the corresponding `…_holds_except` theorem, so anything outside it is still reported):\n\n'
    for k in kf:
        if k.get('status') == 'known':
            out += '* **%s** (%s): %s\n' % (k['property'], k['key'], k['what'][:420])
    out += '\n## 15. Seeded changes and which checks catch them (generated from seeded/*/meta.json)\n\n'
    out += ('Each change was written by a fresh sub-agent that saw only the property text and its own scratch worktree of /repo (nothing from /verif); '
            'it compiles and passes the existing unit tests of the touched components, and its demonstration fails with the change and passes without. '
            '`tools/try_seed.py` re-confirmed that and ran our check(s) against a scratch worktree of /repo HEAD with the patch applied.\n\n')
    out += '| seed | breaks | needs in order to manifest | first run of our check | after strengthening |\n|------|--------|----------------------------|------------------------|---------------------|\n'
    for d in sorted(glob.glob(os.path.join(V, 'seeded', '*'))):
        try:
            m = json.load(open(os.path.join(d, 'meta.json')))
        except Exception:
            continue

        def verdict(ch):
            if not isinstance(ch, dict):
                return str(ch)[:80] if ch else '-'
            res = []
            for cid, v in ch.items():
                if not isinstance(v, dict):
                    res.append('%s: %s' % (cid, str(v)[:60]))
                    continue
                lines = ' '.join(v.get('lines', []))
                if v.get('rc') == 0:
                    r = 'MISSED (OK)'
                elif 'no-failing-input-found' in lines and 'replay-' not in lines:
                    r = 'VIOLATION no-failing-input-found'
                else:
                    r = 'VIOLATION with concrete replay'
                res.append('%s: %s' % (cid, r))
            return '; '.join(res)
        first = m.get('first_attempt', m.get('our_checks'))
        after = m.get('our_checks_after')
        out += '| %s | %s | %s | %s | %s |\n' % (os.path.basename(d), str(m.get('breaks') or '')[:160].replace('|', '/').replace('\n', ' '),
                                                 str(m.get('needs_to_manifest') or '')[:200].replace('|', '/').replace('\n', ' '),
                                                 verdict(first) if first else '-', (verdict(after) + (' — ' + str(m.get('strengthening'))[:200] if m.get('strengthening') else '')) if after else '-')
    p = os.path.join(V, 'DESIGN.md')
    s = open(p).read()
    if MARK in s:
        s = s[:s.index(MARK)]
    open(p, 'w').write(s.rstrip('\n') + '\n' + out)
    print('DESIGN.md tail regenerated')


main()
