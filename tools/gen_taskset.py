"""Translator group `taskset`: the inline-vs-queue decision code of TaskSet / ConcurrentTaskSet / ThreadPool  ->  coq/Gen/GenTaskSet.v
(C02, C04, C05, C47).  Registered in tools/gen.py as GROUPS['taskset'].

The schedule overloads are templates with effects (they call the functor, package it, hand it to the pool).  What is
regenerated is their *decision tree*: every path of the function body ends in exactly one ACTION, and the generated
Gallina function maps the values the body reads (atomic loads, thread-local predicates, parameters) to the code of that action:

   0  return without touching the functor (skip)
   1  f()                      -- the raw functor is called on the calling thread by this function
   5  scheduleImpl(...)        -- enqueue (central queue path)          [ThreadPool::forceEnqueue<false>]
   6  scheduleImplPlaced(...)  -- enqueue (placed / steal-ring path)    [ThreadPool::forceEnqueue<true>]
   10 + a                      -- packageTask(f) was handed to the ThreadPool overload whose own action is a
                                  (11 = the packaged wrapper runs on the caller, 15/16 = the wrapper is enqueued)

Inputs (fixed order, every generated decision function takes all of them whether it reads them or not):
   outstandingTaskCount_ taskSetLoadFactor_ canceled canInlineSchedule skipRecheck isPoolRecursive workRemaining_ numThreads_
   poolLoadFactor_ poolRecursiveLoadFactor cost_
Reads are mapped by NAME: `<atomic member>.load(..)` -> the input named like the member; `canceled()`, `canInlineSchedule()`,
`isPoolRecursive(..)`, `pool_.numThreads()` -> the inputs of that name; `__builtin_expect(a,b)` -> a.
Hand-modelled leaf (float arithmetic is outside the translator's subset):
   static_cast<ssize_t>(static_cast<float>(n) * lf)  ->  prim_fscale n lf   with lf carried as the Z  2*lf  (exact for lf in {k/2}, n < 2^23)
Anything else aborts the function (`Definition <name>_unsupported := tt.`), so its tie lemma stops compiling.
"""
import os, sys, json, re
sys.path.insert(0, os.path.dirname(os.path.abspath(__file__)))
from translate import *

INPUTS = [('outstandingTaskCount_', 'Z'), ('taskSetLoadFactor_', 'Z'), ('canceled', 'bool'), ('canInlineSchedule', 'bool'),
          ('skipRecheck', 'bool'), ('isPoolRecursive', 'bool'), ('workRemaining_', 'Z'), ('numThreads_', 'Z'),
          ('poolLoadFactor_', 'Z'), ('poolRecursiveLoadFactor', 'Z'), ('cost_', 'Z')]
ARGS = ' '.join(coq_id(n) for n, _ in INPUTS)
SIG = ' '.join('(%s : %s)' % (coq_id(n), t) for n, t in INPUTS)

A_SKIP, A_INLINE, A_ENQ, A_ENQ_PLACED = 0, 1, 5, 6
I64 = Ty('int', 64, True)
BOOL = Ty('bool', 1)


def strip(n):
    while n['kind'] in PASS_THROUGH or n['kind'] == 'ImplicitCastExpr':
        n = n['inner'][0]
    return n


def has_type(n, sub):
    return sub in json.dumps(n.get('type', {}))


def subtree_has(n, pred):
    if pred(n):
        return True
    return any(subtree_has(c, pred) for c in n.get('inner', []))


class DecisionTranslator(FnTranslator):
    """FnTranslator + reads-by-name + action statements; result type Z (action code)"""

    def __init__(self, spec, gen, pool_level):
        FnTranslator.__init__(self, spec, gen)
        self.pool_level = pool_level       # True: ThreadPool member (f() is the pool's functor)
        self.pre = []

    def inputs_env(self):
        env = {}
        for n, t in INPUTS:
            env['@' + n] = (coq_id(n), BOOL if t == 'bool' else I64)
        return env

    # ---- expressions
    def expr(self, n, env):
        k = n['kind']
        inner = n.get('inner', [])
        if k == 'SubstNonTypeTemplateParmExpr':
            return self.expr(inner[-1], env)     # [parameter declaration, substituted value]
        if k == 'CXXMemberCallExpr':
            callee = strip(inner[0])
            if callee['kind'] == 'MemberExpr':
                m = callee['name']
                if m == 'load':
                    obj = strip(callee['inner'][0])
                    while obj['kind'] == 'MemberExpr' and '@' + obj['name'] not in env and obj.get('inner'):
                        break
                    if obj['kind'] == 'MemberExpr' and '@' + obj['name'] in env:
                        return env['@' + obj['name']]
                    raise Unsupported('load of %s' % obj.get('name'))
                if m in ('canceled',):
                    return env['@canceled']
                if m == 'numThreads':
                    return env['@numThreads_']
                if m == 'shouldRunInline' and not inner[1:]:
                    return '(gen_pool_shouldRunInline %s)' % ARGS, BOOL
                if m == 'shouldInlineBulk':
                    avs = [self.expr(a, env)[0] for a in inner[1:]]
                    return '(gen_shouldInlineBulk %s %s)' % (ARGS, ' '.join(avs)), BOOL
            raise Unsupported('member call %s' % callee.get('name'))
        if k == 'CallExpr':
            callee = strip(inner[0])
            if callee['kind'] == 'DeclRefExpr':
                fn = callee['referencedDecl']['name']
                if fn == '__builtin_expect':
                    return self.expr(inner[1], env)
                if fn == 'canInlineSchedule':
                    return env['@canInlineSchedule']
                if fn == 'isPoolRecursive':
                    return env['@isPoolRecursive']
        if k == 'MemberExpr' and '@' + n.get('name', '') in env:
            base = strip(inner[0]) if inner else {}
            if base.get('kind') == 'CXXThisExpr':
                return env['@' + n['name']]
        if k in ('ImplicitCastExpr', 'CXXStaticCastExpr', 'CStyleCastExpr', 'CXXFunctionalCastExpr'):
            ck = n.get('castKind')
            if ck in ('UncheckedDerivedToBase', 'DerivedToBase'):
                return self.expr(inner[0], env)
            if ck == 'FloatingToIntegral':
                m = strip(inner[0])
                if m['kind'] == 'BinaryOperator' and m.get('opcode') == '*':
                    a, b = m['inner'][0], m['inner'][1]
                    sa = a
                    while sa['kind'] in PASS_THROUGH or (sa['kind'] in ('ImplicitCastExpr', 'CXXStaticCastExpr') and sa.get('castKind') in ('NoOp', 'LValueToRValue')):
                        sa = sa['inner'][0]
                    sb = strip(b)
                    if sa.get('castKind') == 'IntegralToFloating' and sb['kind'] == 'DeclRefExpr' and norm_type(qt(sb)) == 'float':
                        e, _ = self.expr(sa['inner'][0], env)
                        nm = sb['referencedDecl']['name']
                        if nm in env:
                            return '(prim_fscale %s %s)' % (e, env[nm][0]), I64
                        if '@' + nm in env:
                            return '(prim_fscale %s %s)' % (e, env['@' + nm][0]), I64
                raise Unsupported('float expression other than (float)n * factor')
        if k == 'DeclRefExpr':
            name = n['referencedDecl']['name']
            if name not in env and '@' + name in env:
                return env['@' + name]
        return FnTranslator.expr(self, n, env)

    # ---- actions
    def action_of(self, s, env):
        """returns a Coq term (action code) when statement s is an action, else None"""
        s0 = strip(s)
        k = s0['kind']
        if k == 'CXXOperatorCallExpr':
            args = s0['inner'][1:]
            if args and strip(args[0])['kind'] == 'DeclRefExpr' and strip(args[0])['referencedDecl']['name'] == 'f':
                return str(A_INLINE)
            raise Unsupported('operator call on something other than f')
        if k == 'CXXMemberCallExpr':
            callee = strip(s0['inner'][0])
            if callee['kind'] != 'MemberExpr':
                raise Unsupported('callee %s' % callee['kind'])
            m = callee['name']
            args = s0['inner'][1:]
            obj = strip(callee['inner'][0])
            if m in ('fetch_add', 'fetch_sub', 'store'):
                return None if False else 'SIDE'
            if m in ('scheduleImpl', 'scheduleImplPlaced') and obj['kind'] == 'CXXThisExpr':
                return str(A_ENQ if m == 'scheduleImpl' else A_ENQ_PLACED)
            if m in ('schedule', 'schedulePlaced', 'forceEnqueue'):
                force = any(has_type(a, 'ForceQueuingTag') for a in args)
                tok = any(has_type(a, 'ProducerToken') for a in args)
                packaged = any(subtree_has(a, lambda x: x.get('kind') == 'MemberExpr' and x.get('name') == 'packageTask') for a in args)
                on_pool = obj['kind'] == 'MemberExpr' and obj.get('name') == 'pool_'
                on_this = obj['kind'] == 'CXXThisExpr'
                if m == 'forceEnqueue' and on_this:
                    return '(gen_pool_forceEnqueue_%s %s)' % ('placed' if self.force_placed(callee) else 'central', ARGS)
                if on_pool or (on_this and self.pool_level):
                    fn = 'gen_pool_%s%s%s' % (m, '_tok' if tok else '', '_force' if force else '')
                    call = '(%s %s)' % (fn, ARGS)
                    if on_pool:
                        if not packaged:
                            raise Unsupported('pool_.%s with an unpackaged functor' % m)
                        return '(Z.add 10 %s)' % call
                    return call
                if on_this and not self.pool_level:
                    if force or packaged:
                        raise Unsupported('unexpected this->%s' % m)
                    # ConcurrentTaskSet::schedule -> schedulePlaced(f, skipRecheck, poolRecursiveLoadFactor): same inputs
                    passed = [strip(a) for a in args[1:]]
                    names = [a.get('referencedDecl', {}).get('name') for a in passed]
                    if names != ['skipRecheck', 'poolRecursiveLoadFactor']:
                        raise Unsupported('this->%s called with transformed arguments' % m)
                    return '(gen_cts_%s %s)' % (m, ARGS)
            raise Unsupported('member call %s in statement position' % m)
        return None

    def force_placed(self, callee):
        # forceEnqueue<kPlaced, F>: first template argument is printed in the referenced member's type/name
        rid = callee.get('referencedMemberDecl')
        if rid in self.gen.fe_placed:
            return self.gen.fe_placed[rid]
        raise Unsupported('cannot determine kPlaced of forceEnqueue')

    def stmts(self, lst, env, acted=None):
        """acted: Coq term of the action already taken on this path (None = none yet)"""
        if not lst:
            return self.flush() + (acted if acted is not None else str(A_SKIP))
        s, rest = lst[0], lst[1:]
        k = s['kind']
        if k == 'CompoundStmt':
            return self.stmts(s.get('inner', []) + rest, env, acted)
        if k == 'NullStmt' or (k == 'ParenExpr' and norm_type(qt(s)) == 'void') or (k == 'CStyleCastExpr' and s.get('castKind') == 'ToVoid'):
            return self.stmts(rest, env, acted)
        if k == 'ReturnStmt':
            if s.get('inner'):
                if acted is not None:
                    raise Unsupported('return value after an action')
                e, t = self.expr(s['inner'][0], env)
                return self.flush() + e
            return self.flush() + (acted if acted is not None else str(A_SKIP))
        if k == 'DeclStmt':
            keep = []
            for d in s.get('inner', []):
                if d['kind'] == 'VarDecl' and ('InlineDepthGuard' in qt(d) or 'ProducerToken' in qt(d)):
                    continue          # depth guard object / producer-token lookup: no influence on the decision
                keep.append(d)
            if not keep:
                return self.stmts(rest, env, acted)
            if acted is not None:
                raise Unsupported('declaration after an action')
            s2 = dict(s)
            s2['inner'] = keep
            return FnTranslator.stmts(self, [s2] + rest, env)
        if k == 'IfStmt':
            if acted is not None:
                raise Unsupported('branch after an action')
            inner = s['inner']
            c, ct = self.expr(inner[0], env)
            pre = self.flush()
            cb = self.cast(c, ct, BOOL)
            a = self.stmts([inner[1]] + rest, dict(env), None)
            b = self.stmts(([inner[2]] if len(inner) > 2 else []) + rest, dict(env), None)
            return pre + 'if %s then\n  %s\n  else\n  %s' % (cb, a, b)
        act = self.action_of(s, env)
        if act == 'SIDE':
            return self.stmts(rest, env, acted)
        if act is not None:
            if acted is not None:
                raise Unsupported('two actions on one path')
            return self.stmts(rest, env, act)
        raise Unsupported('statement %s' % k)

    def translate(self, fn):
        self.pre = []
        body = [c for c in fn.get('inner', []) if c['kind'] == 'CompoundStmt']
        if not body:
            raise Unsupported('no body for ' + self.name)
        self.has_loop = False
        env = self.inputs_env()
        for c in fn.get('inner', []):
            if c['kind'] == 'ParmVarDecl' and c.get('name') in ('skipRecheck', 'poolRecursiveLoadFactor'):
                env[c['name']] = env['@' + c['name']]
        for nm in ('curWork', 'numPool'):
            pass
        term = self.stmts([body[0]], env, None)
        return 'Definition %s %s : Z :=\n  %s.\n' % (self.name, SIG, term)


class BoolFnTranslator(DecisionTranslator):
    """plain bool/integer member functions (shouldRunInline, shouldInlineBulk): ordinary translation with reads-by-name"""

    def stmts(self, lst, env, acted=None):
        return FnTranslator.stmts(self, lst, env)

    def translate(self, fn, extra_params=()):
        self.pre = []
        body = [c for c in fn.get('inner', []) if c['kind'] == 'CompoundStmt'][0]
        self.has_loop = False
        env = self.inputs_env()
        sig = SIG
        for c in fn.get('inner', []):
            if c['kind'] == 'ParmVarDecl':
                t = ty_of(c, self.gen.structs)
                nm = coq_id('p_' + c['name'])
                if norm_type(qt(c)) == 'float':
                    env[c['name']] = (nm, I64)
                elif t.kind in ('int', 'bool'):
                    env[c['name']] = (nm, t)
                else:
                    raise Unsupported('param %s' % c['name'])
                sig += ' (%s : %s)' % (nm, 'bool' if t.kind == 'bool' else 'Z')
        term = FnTranslator.stmts(self, [body], env)
        return 'Definition %s %s :=\n  %s.\n' % (self.name, sig, term)


def methods_named(docs, name):
    out = []
    for d in docs:
        find_nodes(d, lambda n: n.get('kind') == 'CXXMethodDecl' and n.get('name') == name and
                   any(c['kind'] == 'CompoundStmt' for c in n.get('inner', [])), out)
    return out


def this_class(fn):
    found = []
    find_nodes(fn, lambda n: n.get('kind') == 'CXXThisExpr', found)
    for f in found:
        return norm_type(f['type']['qualType']).replace('*', '').strip()
    return ''


def param_sig(fn):
    return [norm_type(qt(c)) for c in fn.get('inner', []) if c['kind'] == 'ParmVarDecl']


HEADER = ('(* GENERATED by tools/gen.py (group taskset, tools/gen_taskset.py) from %s -- do not edit *)\n'
          'From Coq Require Import ZArith List Bool.\nFrom DV Require Import Base.MachInt.\nImport ListNotations.\nLocal Open Scope Z_scope.\n\n')


def group_taskset(errors, workdir):
    g = Generator(workdir)
    tu = ('#include <dispenso/task_set.h>\nstruct VFn { void operator()(); };\n'
          'template void dispenso::TaskSet::schedule<VFn>(VFn&&);\n'
          'template void dispenso::TaskSet::schedule<VFn>(VFn&&, dispenso::ForceQueuingTag);\n'
          'template void dispenso::ConcurrentTaskSet::schedule<VFn>(VFn&&, bool, float);\n'
          'template void dispenso::ConcurrentTaskSet::schedule<VFn>(VFn&&, dispenso::ForceQueuingTag);\n'
          'template void dispenso::ThreadPool::schedule<VFn>(VFn&&);\n'
          'template void dispenso::ThreadPool::schedule<VFn>(VFn&&, dispenso::ForceQueuingTag);\n'
          'template void dispenso::ThreadPool::schedule<VFn>(moodycamel::ProducerToken&, VFn&&);\n'
          'template void dispenso::ThreadPool::schedule<VFn>(moodycamel::ProducerToken&, VFn&&, dispenso::ForceQueuingTag);\n'
          'template void dispenso::ThreadPool::schedulePlaced<VFn>(VFn&&);\n'
          'template void dispenso::ThreadPool::schedulePlaced<VFn>(VFn&&, dispenso::ForceQueuingTag);\n'
          'template void dispenso::ThreadPool::schedulePlaced<VFn>(moodycamel::ProducerToken&, VFn&&);\n'
          'template void dispenso::ThreadPool::schedulePlaced<VFn>(moodycamel::ProducerToken&, VFn&&, dispenso::ForceQueuingTag);\n')
    out = HEADER % 'dispenso/task_set.h, dispenso/detail/task_set_impl.h, dispenso/thread_pool.h'
    out += '(* action codes: 0 skip | 1 raw functor called by this function | 5 enqueue central | 6 enqueue placed | 10+a packaged wrapper handed to a pool overload with action a *)\n'
    out += '(* hand-modelled leaf: static_cast<ssize_t>(static_cast<float>(n) * lf), lf carried as 2*lf *)\n'
    out += 'Definition prim_fscale (n lf2 : Z) : Z := Z.quot (n * lf2) 2.\n'
    # enumerators
    try:
        import subprocess
        src = ('#include <cstdio>\n#include <dispenso/task_set.h>\nint main(){ printf("{\\"kHeavy\\": %d, \\"kLightweight\\": %d, \\"kMaxInlineDepth\\": %d, \\"kDefaultStealingMultiplier\\": %d}\\n", '
               '(int)dispenso::TaskCost::kHeavy, (int)dispenso::TaskCost::kLightweight, (int)dispenso::detail::kMaxInlineDepth, (int)dispenso::kDefaultStealingMultiplier); }\n')
        os.makedirs(workdir, exist_ok=True)
        p = os.path.join(workdir, 'ts_consts.cpp')
        open(p, 'w').write(src)
        exe = os.path.join(workdir, 'ts_consts')
        subprocess.run(['g++', '-std=c++14', '-I' + REPO, '-isystem', REPO + '/dispenso/third-party', p, '-o', exe], check=True,
                       stdout=subprocess.PIPE, stderr=subprocess.PIPE)
        consts = json.loads(subprocess.run([exe], stdout=subprocess.PIPE, universal_newlines=True, check=True).stdout)
        for kname in ('kHeavy', 'kLightweight', 'kMaxInlineDepth', 'kDefaultStealingMultiplier'):
            g.consts[kname] = consts[kname]
            out += 'Definition c_%s : Z := %d.\n' % (kname, consts[kname])
    except Exception as e:
        errors.append('taskset consts: %r' % (e,))
        out += 'Definition c_kHeavy_unsupported := tt.\n'

    def emit(cls, spec, fn, pool_level):
        try:
            tr = cls(spec, g, pool_level)
            return tr.translate(fn)
        except Unsupported as e:
            errors.append('%s: %s' % (spec['coq'], e))
            return '(* UNSUPPORTED: %s *)\nDefinition %s_unsupported := tt.\n' % (str(e).replace('*)', '* )')[:300], spec['coq'])
        except (KeyError, IndexError, TypeError) as e:
            errors.append('%s: translator error %r' % (spec['coq'], e))
            return '(* UNSUPPORTED: translator error *)\nDefinition %s_unsupported := tt.\n' % spec['coq']

    def pick(cands, cls_sub, sig_pred, what):
        sel = [f for f in cands if cls_sub(this_class(f)) and sig_pred(param_sig(f))]
        # prefer the instantiation with VFn (explicit), else any instantiation (non-dependent body)
        pref = [f for f in sel if any('VFn' in x for x in param_sig(f))]
        sel = pref or [f for f in sel if not any(x in ('F', 'F &&') for x in param_sig(f))]
        if not sel:
            if what != 'gen_cts_schedulePlaced_force':     # private helper without callers: never instantiated
                errors.append('%s not found' % what)
            return None
        return sel[0]

    is_pool = lambda c: c.endswith('ThreadPool')
    is_ts = lambda c: c.endswith('::TaskSet') or c == 'TaskSet'
    is_cts = lambda c: c.endswith('ConcurrentTaskSet')
    is_base = lambda c: c.endswith('TaskSetBase')
    has = lambda sub: (lambda sig: any(sub in x for x in sig))
    hasnt = lambda sub: (lambda sig: not any(sub in x for x in sig))
    both = lambda *ps: (lambda sig: all(p(sig) for p in ps))

    # ---- ThreadPool
    try:
        d_ps = ast_dump(tu, 'ThreadPool::', workdir)
        d_sri = d_fe = d_ps
        d_ts = ast_dump(tu, 'TaskSet::schedule', workdir)
        d_sib = ast_dump(tu, 'TaskSetBase::shouldInlineBulk', workdir)
    except Unsupported as e:
        errors.append(str(e))
        return {'GenTaskSet.v': out + 'Definition gen_taskset_unsupported := tt.\n'}
    f = pick(methods_named(d_sri, 'shouldRunInline'), is_pool, lambda s: True, 'ThreadPool::shouldRunInline')
    out += emit(BoolFnTranslator, {'coq': 'gen_pool_shouldRunInline'}, f, True) if f else 'Definition gen_pool_shouldRunInline_unsupported := tt.\n'
    fes = methods_named(d_fe, 'forceEnqueue')
    g.fe_placed = {}
    for fn in fes:
        targs = [c for c in fn.get('inner', []) if c['kind'] == 'TemplateArgument']
        if targs and 'value' in targs[0]:
            g.fe_placed[fn['id']] = bool(targs[0]['value'])
    for placed in (False, True):
        nm = 'gen_pool_forceEnqueue_' + ('placed' if placed else 'central')
        sel = [fn for fn in fes if g.fe_placed.get(fn['id']) == placed]
        if not sel:
            errors.append('forceEnqueue<%s> instantiation not found' % placed)
            out += 'Definition %s_unsupported := tt.\n' % nm
        else:
            out += emit(DecisionTranslator, {'coq': nm}, sel[0], True)
    pool_over = [('schedule', False, True), ('schedule', True, True), ('schedulePlaced', False, True), ('schedulePlaced', True, True),
                 ('schedule', False, False), ('schedule', True, False), ('schedulePlaced', False, False), ('schedulePlaced', True, False)]
    for m, tok, force in pool_over:
        nm = 'gen_pool_%s%s%s' % (m, '_tok' if tok else '', '_force' if force else '')
        pred = both(has('ProducerToken') if tok else hasnt('ProducerToken'), has('ForceQueuingTag') if force else hasnt('ForceQueuingTag'))
        f = pick(methods_named(d_ps, m), is_pool, pred, 'ThreadPool::%s(tok=%s,force=%s)' % (m, tok, force))
        if f is None:
            # the overload is a template that this TU never instantiates: fall back to any instantiation reachable from task sets
            out += 'Definition %s_unsupported := tt.\n' % nm
        else:
            out += emit(DecisionTranslator, {'coq': nm}, f, True)
    # ---- TaskSetBase::shouldInlineBulk
    f = pick(methods_named(d_sib, 'shouldInlineBulk'), is_base, lambda s: True, 'TaskSetBase::shouldInlineBulk')
    out += emit(BoolFnTranslator, {'coq': 'gen_shouldInlineBulk'}, f, False) if f else 'Definition gen_shouldInlineBulk_unsupported := tt.\n'
    # ---- task sets
    ts_m = methods_named(d_ts, 'schedule') + methods_named(d_ts, 'schedulePlaced')
    specs = [('gen_cts_schedulePlaced_force', 'schedulePlaced', is_cts, has('ForceQueuingTag')),
             ('gen_cts_schedulePlaced', 'schedulePlaced', is_cts, hasnt('ForceQueuingTag')),
             ('gen_cts_schedule', 'schedule', is_cts, hasnt('ForceQueuingTag')),
             ('gen_cts_schedule_force', 'schedule', is_cts, has('ForceQueuingTag')),
             ('gen_tsk_schedule', 'schedule', is_ts, hasnt('ForceQueuingTag')),
             ('gen_tsk_schedule_force', 'schedule', is_ts, has('ForceQueuingTag'))]
    for nm, m, clsp, pred in specs:
        f = pick([x for x in ts_m if x['name'] == m], clsp, pred, nm)
        if f is None:
            if nm == 'gen_cts_schedulePlaced_force':
                continue        # private helper without callers: never instantiated, nothing to generate
            out += 'Definition %s_unsupported := tt.\n' % nm
        else:
            out += emit(DecisionTranslator, {'coq': nm}, f, False)
    return {'GenTaskSet.v': out}
