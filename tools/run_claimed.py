#!/usr/bin/env python3
"""Run every claimed check (props/claimed.txt) on /repo, a few in parallel; print one line per check.  usage: tools/run_claimed.py [ids...]"""
import sys, os, subprocess, time, concurrent.futures as cf
V = os.path.dirname(os.path.dirname(os.path.abspath(__file__)))
TIER = os.environ.get('TIER', 'quick')
ids = sys.argv[1:] or open(os.path.join(V, 'props', 'claimed.txt')).read().split()
def one(pid):
    t = time.time()
    env = dict(os.environ); env.pop('VERIF_REPO', None)
    r = subprocess.run([os.path.join(V, 'check'), pid, '--tier', TIER], stdout=subprocess.PIPE, stderr=subprocess.STDOUT, universal_newlines=True, cwd=V, env=env)
    lines = [l for l in r.stdout.split('\n') if l.startswith(('OK', 'VIOLATION', 'KNOWN'))]
    return pid, r.returncode, time.time() - t, lines
with cf.ThreadPoolExecutor(max_workers=int(os.environ.get('JOBS', '3'))) as ex:
    for pid, rc, dt, lines in ex.map(one, ids):
        print('%s rc=%d %.0fs %s' % (pid, rc, dt, ' | '.join(l[:140] for l in lines)), flush=True)
