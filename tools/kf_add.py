#!/usr/bin/env python3
"""tools/kf_add.py <property> <key> <what...>    append a known finding (status=known) to known_findings.json under a lock.
Only for defects REPRODUCED against the real code on the unchanged tree.  Never called by checks at run time."""
import sys, os, json
sys.path.insert(0, os.path.join(os.path.dirname(os.path.dirname(os.path.abspath(__file__))), 'lib'))
import dv
pid, key, what = sys.argv[1], sys.argv[2], ' '.join(sys.argv[3:])
p = os.path.join(dv.VERIF, 'known_findings.json')
with dv.Lock('kf'):
    d = json.load(open(p))
    d['findings'] = [e for e in d['findings'] if not (e['property'] == pid and e.get('key') == key)]
    d['findings'].append({'property': pid, 'status': 'known', 'key': key, 'what': what})
    json.dump(d, open(p, 'w'), indent=1)
print('ok')
