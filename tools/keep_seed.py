#!/usr/bin/env python3
"""tools/keep_seed.py <ID> <seed-dir> <result.json> [suffix]  -- archive a confirmed seeded defect under /verif/seeded/<ID>[suffix]/"""
import sys, os, json, shutil, glob
V = os.path.dirname(os.path.dirname(os.path.abspath(__file__)))
pid, seed, resf = sys.argv[1], sys.argv[2].rstrip('/'), sys.argv[3]
suffix = sys.argv[4] if len(sys.argv) > 4 else ''
dst = os.path.join(V, 'seeded', pid + suffix)
os.makedirs(dst, exist_ok=True)
out = os.path.join(seed, 'out') if os.path.isdir(os.path.join(seed, 'out')) else seed
for f in glob.glob(os.path.join(out, '*')):
    if os.path.isfile(f) and os.path.getsize(f) < 400000 and not f.endswith(('.o', '.bin')) and os.access(f, os.R_OK):
        if os.path.basename(f) in ('a.out',) or (os.access(f, os.X_OK) and not f.endswith('.sh')):
            continue
        shutil.copy(f, dst)
notes = {}
try:
    notes = json.load(open(os.path.join(out, 'notes.json')))
except Exception:
    pass
res = json.load(open(resf))
meta = {'property': pid, 'breaks': notes.get('summary'), 'needs_to_manifest': notes.get('needs'), 'seeder_tests_run': notes.get('tests_run'),
        'demo_reliability': notes.get('demo_reliability'),
        'confirmed_by_us': {'patch_applies_at_HEAD': res.get('patch_applies'), 'demo_on_clean_rc': res.get('demo_on_clean_rc'),
                            'demo_on_patched_rc': res.get('demo_on_patched_rc')},
        'our_checks': res.get('checks'),
        'what_we_ran': 'tools/try_seed.py: scratch worktree of /repo HEAD + patch; run_demo.sh on /repo and on the patched tree; VERIF_REPO=<worktree> ./check <ID>; worktree removed; ./check re-run on /repo'}
json.dump(meta, open(os.path.join(dst, 'meta.json'), 'w'), indent=1)
print('kept', dst, os.listdir(dst))
