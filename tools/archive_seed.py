#!/usr/bin/env python3
"""tools/archive_seed.py <ID> <seed-dir> <try.json> <round> <first_run: caught|missed|nfif> [<after.json>]
Stores a confirmed seeded change as /verif/seeded/<ID>-<round>/ (patch.diff, demonstration, notes.json, meta.json)."""
import sys, os, json, shutil, glob
V = os.path.dirname(os.path.dirname(os.path.abspath(__file__)))
pid, seed, tryf, rnd, first = sys.argv[1:6]
after = json.load(open(sys.argv[6])) if len(sys.argv) > 6 else None
out = os.path.join(seed, 'out')
dst = os.path.join(V, 'seeded', '%s-%s' % (pid, rnd))
os.makedirs(dst, exist_ok=True)
for f in glob.glob(os.path.join(out, '*')):
    if os.path.isfile(f) and os.path.getsize(f) < 400000 and not os.access(f, os.X_OK) or f.endswith('.sh'):
        shutil.copy(f, dst)
notes = json.load(open(os.path.join(out, 'notes.json')))
t = json.load(open(tryf))
meta = {'property': pid, 'breaks': notes.get('summary'), 'needs_to_manifest': notes.get('needs'), 'seeder_tests_run': notes.get('tests_run'),
        'demo_reliability': notes.get('demo_reliability'),
        'confirmed_by_us': {'patch_applies_at_HEAD': t.get('patch_applies'), 'demo_on_clean_rc': t.get('demo_on_clean_rc'), 'demo_on_patched_rc': t.get('demo_on_patched_rc')},
        'first_run': first, 'our_checks_first_run': t.get('checks'),
        'what_we_ran': 'tools/try_seed.py: scratch worktree of /repo HEAD + patch; run_demo.sh on /repo and on the patched tree; VERIF_REPO=<worktree> ./check <ID>; '
                       'worktree removed; ./check re-run on /repo',
        'round': int(rnd)}
if after:
    meta['first_attempt'] = t.get('checks')
    meta['our_checks_after'] = after.get('checks')
    meta['our_checks'] = after.get('checks')
    meta['strengthening'] = after.get('strengthening')
else:
    meta['our_checks'] = t.get('checks')
json.dump(meta, open(os.path.join(dst, 'meta.json'), 'w'), indent=1)
print(dst, sorted(os.listdir(dst)))
