#!/usr/bin/env python3
"""Assemble /verif/MANIFEST.json from the META dictionaries of props/C*.py (claimed checks) and props/not_claimed.json."""
import os, sys, json, importlib, glob
V = os.path.dirname(os.path.dirname(os.path.abspath(__file__)))
sys.path.insert(0, os.path.join(V, 'lib')); sys.path.insert(0, os.path.join(V, 'props'))
ids = [json.loads(l)['id'] for l in open(os.path.join(V, 'properties.jsonl'))]
checks, na = [], []
reasons = json.load(open(os.path.join(V, 'props', 'not_claimed.json')))
claimed = set(open(os.path.join(V, 'props', 'claimed.txt')).read().split())
for pid in ids:
    p = os.path.join(V, 'props', pid + '.py')
    meta = None
    if os.path.exists(p) and pid in claimed:
        meta = getattr(importlib.import_module(pid), 'META', None)
    if meta is None:
        na.append({'property_id': pid, 'reason': reasons.get(pid, 'not claimed yet: model/theorems/correspondence for this property are not built in this snapshot (see DESIGN.md section 6 for the plan)')})
        continue
    checks.append({
        'property_id': pid,
        'quick_cmd': './check %s --tier quick' % pid,
        'thorough_cmd': './check %s --tier thorough' % pid,
        'evidence_file': 'evidence/%s.json' % pid,
        'replay_cmd_template': './check %s --replay {path}' % pid,
        'engine': 'coq-dv',
        'level_claimed': {'category': meta.get('category', 'proof'), 'text': meta['text'], 'design_ref': meta.get('design_ref', 'DESIGN.md section 6, ' + pid)},
        'level_note': meta['note'],
        'technique': meta['technique'],
    })
hooks = json.load(open(os.path.join(V, 'props', 'hooks.json')))
import subprocess
try:
    out = subprocess.run(['git', '-C', '/repo', 'log', '--format=%h %s'], stdout=subprocess.PIPE, universal_newlines=True).stdout
    hooks['source_commits'] = [l.split()[0] for l in out.split('\n') if l[8:].startswith('verif hooks') or ' verif hooks' in l[:20]][::-1]
except Exception:
    pass
m = {
    'version': 1,
    'setup_cmd': './setup.sh',
    'hooks': hooks,
    'engines': [{'name': 'coq-dv', 'path': 'coq/', 'serves_properties': [c['property_id'] for c in checks],
                 'kind_free_text': 'Coq 8.16.1 development (logical root DV): models, proofs, property theorems; translator tools/gen.py regenerates coq/Gen from /repo on every run; correspondence harnesses under harness/ run the real code and the Gallina model (vm_compute inside coqc) on the same cases'}],
    'checks': checks,
    'not_applicable': na,
    'notes': 'Technique family: machine-checked proof in Coq. Every check = (regenerate Gen from /repo) + (make the property theorems) + (differential/lockstep correspondence between the Gallina model and the real code built from /repo working tree with -DDISPENSO_VERIF). See DESIGN.md.',
}
json.dump(m, open(os.path.join(V, 'MANIFEST.json'), 'w'), indent=1)
print('claimed', len(checks), 'not claimed', len(na))
