#!/usr/bin/env python3
"""Translator T: clang JSON AST of small integer C++ functions in /repo  ->  shallow Gallina.

Subset: integer/bool locals, struct locals with integer fields, + - * / % << >> & | ^ ~ ! comparisons,
&& || (pure operands), ?:, casts, std::min/std::max, calls to other translated functions, if/else,
return, compound assignment, ++/--, for/while/do loops (-> Fixpoint on explicit fuel, None when exhausted),
constant local arrays with subscripts.  Anything else raises Unsupported (never guessed).

Semantics emitted (see coq/Base/MachInt.v): unsigned w-bit ops are `wrap w (..)`; signed ops are unbounded Z
(signed overflow is UB, stated separately); / and % are Z.quot / Z.rem; casts are explicit wrap / wrap_s.
"""
import json, os, re, subprocess, sys, hashlib

REPO = os.environ.get('VERIF_REPO', '/repo')
CLANG = 'clang++'
CXXFLAGS = ['-std=c++14', '-DNDEBUG', '-I' + REPO, '-isystem', REPO + '/dispenso/third-party', '-fsyntax-only', '-w']


class Unsupported(Exception):
    pass


INT_TYPES = {
    'bool': (1, False), '_Bool': (1, False),
    'char': (8, True), 'signed char': (8, True), 'unsigned char': (8, False),
    'short': (16, True), 'unsigned short': (16, False),
    'int': (32, True), 'unsigned int': (32, False),
    'long': (64, True), 'unsigned long': (64, False),
    'long long': (64, True), 'unsigned long long': (64, False),
    '__int128': (128, True), 'unsigned __int128': (128, False),
}


def parse_docs(s):
    dec = json.JSONDecoder()
    i, docs = 0, []
    while i < len(s):
        while i < len(s) and s[i].isspace():
            i += 1
        if i >= len(s):
            break
        o, j = dec.raw_decode(s, i)
        docs.append(o)
        i = j
    return docs


def ast_dump(tu_text, filt, workdir):
    os.makedirs(workdir, exist_ok=True)
    h = hashlib.sha1((tu_text + filt).encode()).hexdigest()[:12]
    src = os.path.join(workdir, 'tu_%s.cpp' % h)
    with open(src, 'w') as f:
        f.write(tu_text)
    cmd = [CLANG] + CXXFLAGS + ['-Xclang', '-ast-dump=json', '-Xclang', '-ast-dump-filter=' + filt, src]
    r = subprocess.run(cmd, stdout=subprocess.PIPE, stderr=subprocess.PIPE, universal_newlines=True, timeout=120)
    os.unlink(src)
    if r.returncode != 0:
        raise Unsupported('clang failed on %s: %s' % (filt, r.stderr[-2000:]))
    return parse_docs(r.stdout)


def qt(node):
    t = node.get('type', {})
    return t.get('desugaredQualType', t.get('qualType', ''))


def norm_type(s):
    s = s.replace('const ', '').replace('volatile ', '').strip()
    s = re.sub(r'\s*&+$', '', s).strip()
    return s


def int_type(s):
    s = norm_type(s)
    if s in INT_TYPES:
        return INT_TYPES[s]
    return None


class Ty:
    """'int' with (w, signed) | 'bool' | 'struct' name | 'arr' | 'tuple'"""
    def __init__(self, kind, w=0, signed=False, name='', n=0):
        self.kind, self.w, self.signed, self.name, self.n = kind, w, signed, name, n

    def __repr__(self):
        return '%s%s%d' % (self.kind, 's' if self.signed else 'u', self.w)


def ty_of(node, structs):
    s = norm_type(qt(node))
    it = int_type(s)
    if it:
        if it[0] == 1:
            return Ty('bool', 1, False)
        return Ty('int', it[0], it[1])
    for sn in structs:
        if s == sn or s.endswith('::' + sn) or re.sub(r'<.*>$', '', s).endswith(sn):
            return Ty('struct', name=sn)
    if s.startswith('std::pair') or s.startswith('std::tuple') or s.startswith('pair<') or s.startswith('tuple<'):
        return Ty('tuple')
    m = re.match(r'(.*)\[(\d+)\]$', s)
    if m:
        return Ty('arr', n=int(m.group(2)))
    return Ty('other', name=s)


def coq_id(s):
    s = re.sub(r'[^A-Za-z0-9_]', '_', s)
    if s in ('end', 'start', 'in', 'as', 'at', 'fix', 'fun', 'if', 'then', 'else', 'let', 'match', 'with', 'return',
             'Type', 'Set', 'Prop', 'for', 'exists', 'forall', 'where', 'mod', 'using', 'cofix', 'struct'):
        s = s + '_'
    return s


PASS_THROUGH = ('ParenExpr', 'ExprWithCleanups', 'MaterializeTemporaryExpr', 'CXXBindTemporaryExpr', 'ConstantExpr',
                'SubstNonTypeTemplateParmExpr', 'CXXDefaultArgExpr')


class FnTranslator:
    def __init__(self, spec, gen):
        self.spec = spec          # dict
        self.gen = gen            # Generator (for calls/consts/structs)
        self.counter = {}
        self.loops = []           # emitted Fixpoints (text)
        self.nloop = 0
        self.name = spec['coq']

    # ---------- environment: dict cname -> (coqname, Ty) ; struct vars map 'v.f'
    def fresh(self, base):
        base = coq_id(base)
        n = self.counter.get(base, 0)
        self.counter[base] = n + 1
        return base if n == 0 else '%s_%d' % (base, n)

    def cast(self, e, src, dst):
        """e : coq expr of Ty src -> Ty dst"""
        if dst.kind == 'bool':
            if src.kind == 'bool':
                return e
            return '(negb (Z.eqb %s 0))' % e
        if dst.kind != 'int':
            raise Unsupported('cast to %r' % dst)
        if src.kind == 'bool':
            return '(b2z %s)' % e
        if src.kind != 'int':
            raise Unsupported('cast from %r' % src)
        if re.fullmatch(r'\d+', e) and int(e) < 2 ** (dst.w - (1 if dst.signed else 0)):
            return e
        if dst.signed:
            if (src.signed and src.w <= dst.w) or ((not src.signed) and src.w < dst.w):
                return e
            return '(wrap_s %d %s)' % (dst.w, e)
        else:
            if (not src.signed) and src.w <= dst.w:
                return e
            return '(wrap %d %s)' % (dst.w, e)

    def arith(self, op, a, b, t):
        m = {'+': 'Z.add', '-': 'Z.sub', '*': 'Z.mul', '/': 'Z.quot', '%': 'Z.rem', '&': 'Z.land', '|': 'Z.lor',
             '^': 'Z.lxor', '<<': 'Z.shiftl', '>>': 'Z.shiftr'}[op]
        e = '(%s %s %s)' % (m, a, b)
        if t.kind != 'int':
            raise Unsupported('arith on %r' % t)
        if not t.signed and op in ('+', '-', '*', '<<'):
            return '(wrap %d %s)' % (t.w, e)
        return e

    # ---------- expressions.  returns (coq, Ty); may append let-bindings to self.pre and update env
    def expr(self, n, env):
        k = n['kind']
        inner = n.get('inner', [])
        if k in PASS_THROUGH:
            return self.expr(inner[0], env)
        if k == 'IntegerLiteral':
            t = ty_of(n, self.gen.structs)
            return ('%s' % n['value'] if int(n['value']) >= 0 else '(%s)' % n['value']), t
        if k == 'CXXBoolLiteralExpr':
            return ('true' if n['value'] else 'false'), Ty('bool', 1)
        if k == 'DeclRefExpr':
            rd = n['referencedDecl']
            name = rd['name']
            if rd['kind'] == 'EnumConstantDecl':
                if name in self.gen.consts:      # enumerators whose value the group supplied (c_<name> is defined in its output)
                    return 'c_' + coq_id(name), Ty('int', 32, True)
                raise Unsupported('enum const ' + name)
            if name in env:
                return env[name]
            st = ty_of(n, self.gen.structs)
            if st.kind == 'struct' and all((name + '.' + f) in env for f, _ in self.gen.structs[st.name]):
                return '(' + ', '.join(env[name + '.' + f][0] for f, _ in self.gen.structs[st.name]) + ')', Ty('tuplev', name=st.name)
            if name in self.gen.consts:
                t = ty_of(n, self.gen.structs)
                return 'c_' + coq_id(name), t
            raise Unsupported('unknown variable %s in %s' % (name, self.name))
        if k == 'ImplicitCastExpr' or k in ('CXXStaticCastExpr', 'CStyleCastExpr', 'CXXFunctionalCastExpr'):
            ck = n.get('castKind')
            if ck in ('LValueToRValue', 'NoOp', 'FunctionToPointerDecay', 'ArrayToPointerDecay', 'ConstructorConversion'):
                return self.expr(inner[0], env)
            if ck in ('IntegralCast', 'IntegralToBoolean'):
                e, t = self.expr(inner[0], env)
                dt = ty_of(n, self.gen.structs)
                return self.cast(e, t, dt), dt
            if ck == 'ToVoid':
                return 'tt', Ty('void')
            raise Unsupported('castKind %s' % ck)
        if k == 'InitListExpr' or k == 'CXXConstructExpr' or k == 'CXXTemporaryObjectExpr':
            t = ty_of(n, self.gen.structs)
            if t.kind == 'int' or t.kind == 'bool':
                if not inner:
                    return ('false' if t.kind == 'bool' else '0'), t
                e, st = self.expr(inner[0], env)
                return self.cast(e, st, t), t
            if t.kind == 'struct' and len(inner) == 1 and ty_of(inner[0], self.gen.structs).kind == 'struct':
                return self.expr(inner[0], env)   # copy/move construction
            parts = [self.expr(c, env) for c in inner]
            if t.kind == 'struct':
                fields = self.gen.structs[t.name]
                if len(parts) != len(fields):
                    raise Unsupported('struct init arity %s' % t.name)
            return '(' + ', '.join(p[0] for p in parts) + ')', Ty('tuplev', n=len(parts), name=t.name if t.kind == 'struct' else '')
        if k == 'MemberExpr':
            base = inner[0]
            while base['kind'] in PASS_THROUGH or (base['kind'] == 'ImplicitCastExpr'):
                base = base['inner'][0]
            if base['kind'] == 'CXXThisExpr':
                key = 'this.' + n['name']
            elif base['kind'] == 'DeclRefExpr':
                key = base['referencedDecl']['name'] + '.' + n['name']
            else:
                raise Unsupported('member of %s' % base['kind'])
            if key in env:
                return env[key]
            raise Unsupported('unknown member %s in %s' % (key, self.name))
        if k == 'UnaryOperator':
            op = n['opcode']
            if op in ('++', '--'):
                e, t = self.expr(inner[0], env)
                key = self.lvalue_key(inner[0])
                one = self.arith('+' if op == '++' else '-', e, '1', t)
                nv = self.bind(key, one, t, env)
                return (e if n.get('isPostfix') else nv), t
            e, t = self.expr(inner[0], env)
            rt = ty_of(n, self.gen.structs)
            if op == '-':
                r = '(Z.opp %s)' % e
                return ('(wrap %d %s)' % (rt.w, r) if not rt.signed else r), rt
            if op == '+':
                return e, t
            if op == '~':
                r = '(Z.lnot %s)' % e
                return ('(wrap %d %s)' % (rt.w, r) if not rt.signed else r), rt
            if op == '!':
                return '(negb %s)' % self.cast(e, t, Ty('bool', 1)), Ty('bool', 1)
            raise Unsupported('unary ' + op)
        if k == 'BinaryOperator' or k == 'CompoundAssignOperator':
            op = n['opcode']
            if op == '=':
                e, t = self.expr(inner[1], env)
                lt = ty_of(inner[0], self.gen.structs)
                key = self.lvalue_key(inner[0])
                if lt.kind == 'struct':
                    self.bind_struct(key, e, lt, env)
                    return e, lt
                nv = self.bind(key, self.cast(e, t, lt) if t.kind in ('int', 'bool') else e, lt, env)
                return nv, lt
            if k == 'CompoundAssignOperator':
                bop = op[:-1]
                l, lt = self.expr(inner[0], env)
                r, rt_ = self.expr(inner[1], env)
                ct = n.get('computeResultType', {})
                cts = ct.get('desugaredQualType', ct.get('qualType'))
                it = int_type(cts) if cts else None
                comp = Ty('int', it[0], it[1]) if it else lt
                if bop in ('<<', '>>'):
                    val = self.arith(bop, self.cast(l, lt, comp), r, comp)
                else:
                    val = self.arith(bop, self.cast(l, lt, comp), self.cast(r, rt_, comp), comp)
                key = self.lvalue_key(inner[0])
                nv = self.bind(key, self.cast(val, comp, lt), lt, env)
                return nv, lt
            if op == ',':
                self.expr(inner[0], env)
                return self.expr(inner[1], env)
            l, lt = self.expr(inner[0], env)
            if op in ('&&', '||'):
                save = len(self.pre)
                r, rt_ = self.expr(inner[1], env)
                if len(self.pre) != save:
                    raise Unsupported('side effect in rhs of ' + op)
                lb, rb = self.cast(l, lt, Ty('bool', 1)), self.cast(r, rt_, Ty('bool', 1))
                return '(%s %s %s)' % ('andb' if op == '&&' else 'orb', lb, rb), Ty('bool', 1)
            r, rt_ = self.expr(inner[1], env)
            if op in ('<', '<=', '>', '>=', '==', '!='):
                if lt.kind == 'bool' and rt_.kind == 'bool':
                    l, r = '(b2z %s)' % l, '(b2z %s)' % r
                f = {'<': 'Z.ltb %s %s', '<=': 'Z.leb %s %s', '>': 'Z.ltb %s %s', '>=': 'Z.leb %s %s', '==': 'Z.eqb %s %s',
                     '!=': 'Z.eqb %s %s'}[op]
                a, b = (r, l) if op in ('>', '>=') else (l, r)
                e = '(' + f % (a, b) + ')'
                if op == '!=':
                    e = '(negb %s)' % e
                return e, Ty('bool', 1)
            rt = ty_of(n, self.gen.structs)
            return self.arith(op, l, r, rt), rt
        if k == 'ConditionalOperator':
            c, ct = self.expr(inner[0], env)
            save = len(self.pre)
            a, at = self.expr(inner[1], env)
            b, bt = self.expr(inner[2], env)
            if len(self.pre) != save:
                raise Unsupported('side effect in ?: arm')
            return '(if %s then %s else %s)' % (self.cast(c, ct, Ty('bool', 1)), a, b), at
        if k == 'ArraySubscriptExpr':
            a, at = self.expr(inner[0], env)
            i, it = self.expr(inner[1], env)
            et = ty_of(n, self.gen.structs)
            return '(nth (Z.to_nat %s) %s 0)' % (i, a), et
        if k == 'CallExpr' or k == 'CXXMemberCallExpr' or k == 'CXXOperatorCallExpr':
            callee = inner[0]
            while callee['kind'] in PASS_THROUGH or callee['kind'] == 'ImplicitCastExpr':
                callee = callee['inner'][0]
            args = inner[1:]
            if callee['kind'] == 'DeclRefExpr':
                fname = callee['referencedDecl']['name']
                if fname in ('min', 'max'):
                    (a, at), (b, bt) = self.expr(args[0], env), self.expr(args[1], env)
                    rt = ty_of(n, self.gen.structs)
                    return '(Z.%s %s %s)' % (fname, a, b), rt
                if fname in self.gen.callable:
                    tgt = self.gen.callable[fname]
                    avs = [self.expr(a, env)[0] for a in args[:tgt['nargs']]]
                    rt = ty_of(n, self.gen.structs)
                    if rt.kind == 'struct':
                        rt = Ty('tuplev', name=rt.name)
                    return '(%s %s)' % (tgt['coq'], ' '.join(avs)), rt
                if fname == 'get' and len(args) == 1:
                    # std::get<I>(tuple)
                    raise Unsupported('std::get')
                raise Unsupported('call to %s' % fname)
            if callee['kind'] == 'MemberExpr':
                mname = callee['name']
                obj = callee['inner'][0]
                while obj['kind'] in PASS_THROUGH or obj['kind'] == 'ImplicitCastExpr':
                    obj = obj['inner'][0]
                if obj['kind'] == 'CXXThisExpr':
                    oname = 'this'
                elif obj['kind'] == 'DeclRefExpr':
                    oname = obj['referencedDecl']['name']
                else:
                    raise Unsupported('method call on %s' % obj['kind'])
                meth = self.gen.methods.get(mname)
                if meth is None:
                    raise Unsupported('method %s' % mname)
                fvals = []
                for f in meth['fields']:
                    key = oname + '.' + f
                    if key not in env:
                        raise Unsupported('field %s for method %s' % (key, mname))
                    fvals.append(env[key][0])
                avs = [self.expr(a, env)[0] for a in args]
                rt = ty_of(n, self.gen.structs)
                return '(%s %s)' % (meth['coq'], ' '.join(fvals + avs)), rt
            raise Unsupported('callee kind %s' % callee['kind'])
        raise Unsupported('expr kind %s in %s' % (k, self.name))

    def lvalue_key(self, n):
        while n['kind'] in PASS_THROUGH:
            n = n['inner'][0]
        if n['kind'] == 'DeclRefExpr':
            return n['referencedDecl']['name']
        if n['kind'] == 'MemberExpr':
            base = n['inner'][0]
            while base['kind'] in PASS_THROUGH or base['kind'] == 'ImplicitCastExpr':
                base = base['inner'][0]
            if base['kind'] == 'DeclRefExpr':
                return base['referencedDecl']['name'] + '.' + n['name']
            if base['kind'] == 'CXXThisExpr':
                return 'this.' + n['name']
        raise Unsupported('lvalue %s' % n['kind'])

    def bind(self, key, e, t, env):
        nm = self.fresh(key.replace('.', '_'))
        self.pre.append((nm, e))
        env[key] = (nm, t)
        return nm

    def bind_struct(self, key, e, t, env):
        fields = self.gen.structs[t.name]
        nms = [self.fresh(key + '_' + f) for f, _ in fields]
        self.pre.append(("'(" + ', '.join(nms) + ')', e))
        for (f, ft), nm in zip(fields, nms):
            env[key + '.' + f] = (nm, ft)

    # ---------- statements -> Gallina term (string).  `rest` is the list of following statements
    def flush(self):
        lets = ''.join('let %s := %s in\n  ' % (nm, e) for nm, e in self.pre)
        self.pre = []
        return lets

    def stmts(self, lst, env):
        if not lst:
            raise Unsupported('fell off the end of %s without return' % self.name)
        s, rest = lst[0], lst[1:]
        k = s['kind']
        if k == 'CompoundStmt':
            return self.stmts(s.get('inner', []) + rest, env)
        if k == 'NullStmt':
            return self.stmts(rest, env)
        if k == 'DeclStmt':
            for d in s.get('inner', []):
                if d['kind'] in ('TypedefDecl', 'TypeAliasDecl', 'StaticAssertDecl', 'UsingDecl'):
                    continue
                if d['kind'] != 'VarDecl':
                    raise Unsupported('decl ' + d['kind'])
                t = ty_of(d, self.gen.structs)
                name = d['name']
                init = [c for c in d.get('inner', []) if c['kind'] not in ('FullComment',)]
                if t.kind == 'struct':
                    if init and not (init[0]['kind'] == 'CXXConstructExpr' and not init[0].get('inner')):
                        e, et = self.expr(init[0], env)
                        self.bind_struct(name, e, t, env)
                    else:
                        for f, ft in self.gen.structs[t.name]:
                            env[name + '.' + f] = ('0', ft)
                    continue
                if t.kind == 'arr':
                    il = init[0]
                    while il['kind'] in PASS_THROUGH:
                        il = il['inner'][0]
                    vals = [self.expr(c, env)[0] for c in il.get('inner', [])]
                    self.bind(name, '[' + '; '.join(vals) + ']', t, env)
                    continue
                if t.kind == 'other' and init:
                    # auto x = call(...) returning struct/tuple
                    e, et = self.expr(init[0], env)
                    if et.kind == 'tuplev' and et.name:
                        self.bind_struct(name, e, Ty('struct', name=et.name), env)
                        continue
                    raise Unsupported('decl of type %s' % t.name)
                if not init:
                    env[name] = ('0', t)      # uninitialised: any read before write is the source's bug
                    continue
                e, et = self.expr(init[0], env)
                self.bind(name, self.cast(e, et, t) if et.kind in ('int', 'bool') else e, t, env)
            pre = self.flush()
            return pre + self.stmts(rest, env)
        if k == 'ReturnStmt':
            e, t = self.expr(s['inner'][0], env)
            pre = self.flush()
            return pre + self.wrap_ret(e)
        if k == 'IfStmt':
            inner = s['inner']
            c, ct = self.expr(inner[0], env)
            pre = self.flush()
            cb = self.cast(c, ct, Ty('bool', 1))
            env1, env2 = dict(env), dict(env)
            then_l = [inner[1]]
            else_l = [inner[2]] if len(inner) > 2 else []
            a = self.stmts(then_l + rest, env1)
            b = self.stmts(else_l + rest, env2)
            return pre + 'if %s then\n  %s\n  else\n  %s' % (cb, a, b)
        if k in ('ForStmt', 'WhileStmt', 'DoStmt'):
            return self.loop(s, rest, env)
        # expression statement
        t = ty_of(s, self.gen.structs) if 'type' in s else None
        if k == 'ParenExpr' and norm_type(qt(s)) == 'void':
            return self.stmts(rest, env)     # assert() expansion under NDEBUG
        if k == 'CallExpr' and '"name": "abort"' in json.dumps(s['inner'][0]):
            if not self.has_loop:
                raise Unsupported('abort() in a loop-free function')
            return self.flush() + 'None'     # std::abort(): no result
        self.expr(s, env)
        pre = self.flush()
        return pre + self.stmts(rest, env)

    def wrap_ret(self, e):
        return ('Some %s' % e) if self.has_loop else e

    def loop(self, s, rest, env):
        k = s['kind']
        inner = s['inner']
        if k == 'ForStmt':
            init, _condvar, cond, inc, body = inner[0], inner[1], inner[2], inner[3], inner[4]
        elif k == 'WhileStmt':
            init, cond, inc, body = None, inner[0], None, inner[1]
        else:
            init, cond, inc, body = None, inner[1], None, inner[0]
        pre0 = ''
        if init and init.get('kind'):
            if init['kind'] == 'DeclStmt':
                for d in init['inner']:
                    t = ty_of(d, self.gen.structs)
                    e, et = self.expr(d['inner'][0], env)
                    self.bind(d['name'], self.cast(e, et, t), t, env)
            else:
                self.expr(init, env)
            pre0 = self.flush()
        self.nloop += 1
        lname = '%s_loop%d' % (self.name, self.nloop)
        keys = [kk for kk in env if env[kk][1].kind in ('int', 'bool', 'arr')]
        keys.sort()
        # loop function parameters: one per env key
        params = [(kk, coq_id('v_' + kk.replace('.', '_')), env[kk][1]) for kk in keys]
        lenv = dict(env)
        for kk, pn, t in params:
            lenv[kk] = (pn, t)

        def coqty(t):
            return 'bool' if t.kind == 'bool' else ('list Z' if t.kind == 'arr' else 'Z')
        tup_ty = ' * '.join(coqty(t) for _, _, t in params) if params else 'unit'

        def tup(e):
            return '(' + ', '.join(e[kk][0] for kk in keys) + ')' if keys else 'tt'
        save_pre, self.pre = self.pre, []
        parts = ''
        e1 = dict(lenv)
        if k == 'DoStmt':
            parts += self.block(body, e1)
            c, ct = self.expr(cond, e1)
            parts += self.flush()
            cb = self.cast(c, ct, Ty('bool', 1))
            rec = '%s fuel_ %s' % (lname, ' '.join(e1[kk][0] for kk in keys))
            term = parts + 'if %s then %s else Some %s' % (cb, rec, tup(e1))
        else:
            c, ct = self.expr(cond, e1)
            parts += self.flush()
            cb = self.cast(c, ct, Ty('bool', 1))
            e_exit = dict(e1)
            bparts = self.block(body, e1)
            if inc and inc.get('kind'):
                self.expr(inc, e1)
                bparts += self.flush()
            rec = '%s fuel_ %s' % (lname, ' '.join(e1[kk][0] for kk in keys))
            term = parts + 'if %s then\n    %s%s\n  else Some %s' % (cb, bparts, rec, tup(e_exit))
        self.pre = save_pre
        fx = 'Fixpoint %s (fuel : nat) %s {struct fuel} : option (%s) :=\n  match fuel with O => None | S fuel_ =>\n  %s\n  end.\n' % (
            lname, ' '.join('(%s : %s)' % (pn, coqty(t)) for _, pn, t in params), tup_ty, term)
        self.loops.append(fx)
        fuel = self.spec.get('fuel', {}).get(self.nloop, self.spec.get('fuel', {}).get(str(self.nloop)))
        if fuel is None:
            raise Unsupported('loop without fuel spec in %s' % self.name)
        # fuel expression may mention C variable names -> substitute env names
        def sub(m):
            v = m.group(1)
            if v in env:
                return env[v][0]
            raise Unsupported('fuel var ' + v)
        fuel_e = re.sub(r'\$([A-Za-z_][A-Za-z0-9_.]*)', sub, fuel)
        call = '%s (%s) %s' % (lname, fuel_e, ' '.join(env[kk][0] for kk in keys))
        # rebind after loop
        newnames = []
        for kk in keys:
            nm = self.fresh(kk.replace('.', '_'))
            newnames.append(nm)
            env[kk] = (nm, env[kk][1])
        pat = "'(" + ', '.join(newnames) + ')' if keys else '_'
        tail = self.stmts(rest, env)
        return pre0 + 'match %s with\n  | None => None\n  | Some %s =>\n  %s\n  end' % (call, pat.lstrip("'") if not keys else pat[1:], tail)

    def block(self, body, env):
        """translate a loop body (no return/break) into let-prefix text, updating env"""
        lst = body.get('inner', []) if body['kind'] == 'CompoundStmt' else [body]
        out = ''
        for s in lst:
            k = s['kind']
            if k == 'CompoundStmt':
                out += self.block(s, env)
            elif k == 'IfStmt':
                inner = s['inner']
                c, ct = self.expr(inner[0], env)
                out += self.flush()
                cb = self.cast(c, ct, Ty('bool', 1))
                e1, e2 = dict(env), dict(env)
                a = self.block(inner[1], e1)
                b = self.block(inner[2], e2) if len(inner) > 2 else ''
                mod = sorted(kk for kk in env if e1[kk][0] != env[kk][0] or e2[kk][0] != env[kk][0])
                if mod:
                    nms = [self.fresh(kk.replace('.', '_')) for kk in mod]
                    ta = '(' + ', '.join(e1[kk][0] for kk in mod) + ')'
                    tb = '(' + ', '.join(e2[kk][0] for kk in mod) + ')'
                    pat = "'(" + ', '.join(nms) + ')' if len(mod) > 1 else nms[0]
                    out += 'let %s := (if %s then %s%s else %s%s) in\n  ' % (pat, cb, a, ta, b, tb)
                    for kk, nm in zip(mod, nms):
                        env[kk] = (nm, env[kk][1])
            elif k == 'DeclStmt':
                for d in s['inner']:
                    t = ty_of(d, self.gen.structs)
                    if not d.get('inner'):
                        env[d['name']] = ('0', t)
                        continue
                    e, et = self.expr(d['inner'][0], env)
                    self.bind(d['name'], self.cast(e, et, t), t, env)
                out += self.flush()
            elif k in ('ReturnStmt', 'BreakStmt', 'ContinueStmt', 'ForStmt', 'WhileStmt', 'DoStmt'):
                raise Unsupported('%s inside loop body' % k)
            elif k == 'NullStmt':
                pass
            else:
                self.expr(s, env)
                out += self.flush()
        return out

    def translate(self, fn):
        self.pre = []
        body = None
        params = []
        for c in fn.get('inner', []):
            if c['kind'] == 'ParmVarDecl':
                params.append(c)
            elif c['kind'] == 'CompoundStmt':
                body = c
        if body is None:
            raise Unsupported('no body for ' + self.name)
        self.has_loop = bool(re.search(r'"kind": "(ForStmt|WhileStmt|DoStmt)"', json.dumps(body)))
        env = {}
        sig = []
        for f in self.spec.get('this_fields', []):
            ft = self.gen.field_type(self.spec['this_struct'], f, self.spec)
            nm = coq_id('this_' + f)
            self.counter[nm] = 1
            env['this.' + f] = (nm, ft)
            sig.append('(%s : %s)' % (nm, 'bool' if ft.kind == 'bool' else 'Z'))
        for p in params:
            t = ty_of(p, self.gen.structs)
            pname = p.get('name', '_')
            if t.kind == 'struct':
                for f, ft in self.gen.structs[t.name]:
                    nm = coq_id(pname + '_' + f)
                    self.counter[nm] = 1
                    env[pname + '.' + f] = (nm, ft)
                    sig.append('(%s : %s)' % (nm, 'bool' if ft.kind == 'bool' else 'Z'))
                continue
            if t.kind not in ('int', 'bool'):
                raise Unsupported('param %s of type %s' % (pname, t.name))
            nm = coq_id(pname)
            self.counter[nm] = 1
            env[pname] = (nm, t)
            sig.append('(%s : %s)' % (nm, 'bool' if t.kind == 'bool' else 'Z'))
        term = self.stmts([body], env)
        text = ''.join(self.loops)
        text += 'Definition %s %s :=\n  %s.\n' % (self.name, ' '.join(sig), term)
        return text


class Generator:
    def __init__(self, workdir):
        self.workdir = workdir
        self.structs = {}     # name -> [(field, Ty)]
        self.consts = {}
        self.callable = {}    # C function name -> {'coq':..., 'nargs':...}
        self.methods = {}     # method name -> {'coq':..., 'fields':[...]}

    def field_type(self, sname, f, spec):
        for ff, ft in self.structs[sname]:
            if ff == f:
                return ft
        raise Unsupported('field %s.%s' % (sname, f))


def find_nodes(node, pred, out):
    if pred(node):
        out.append(node)
    for c in node.get('inner', []):
        find_nodes(c, pred, out)
    return out


def template_arg_types(fn):
    return [norm_type(c.get('type', {}).get('qualType', '')) for c in fn.get('inner', []) if c['kind'] == 'TemplateArgument' and 'type' in c]
