#!/usr/bin/env python3
"""Order table O: every atomic operation of the covered dispenso components with its std::memory_order argument(s),
extracted from /repo's CURRENT working tree (clang JSON AST), emitted as coq/Gen/GenOrders.v.

usage: orders.py [--json]        prints a JSON report {sites, per_file, selfcheck, errors}; writes Gen/GenOrders.v when changed.

Site key   <file>:<Class::function>:<atomic member>:<op>#<k>     k = ordinal (by source position) among the sites with the
same file / function / member / op.  `file` is relative to /repo/dispenso.  Overloads share a function name.
An omitted order argument is seq_cst (the std default); an order that is not a literal enumerator (forwarded parameter,
conditional expression) is NEVER guessed: the site goes to `unresolved_sites`, and every call that passes a literal
memory_order to a non-atomic function is recorded as a site with op `call` (the caller fixes the order).
Self-check (independent of the AST): on `clang++ -E` output (comments and inactive #if branches removed, attributed to
files by the line markers) count `memory_order_*` tokens and atomic-call-looking patterns per file; both counts must
equal what the AST walk found.
"""
import os, sys, re, json, subprocess, hashlib
from concurrent.futures import ProcessPoolExecutor

VERIF = os.path.dirname(os.path.dirname(os.path.abspath(__file__)))
REPO = os.environ.get('VERIF_REPO', '/repo')
GEN = os.path.join(VERIF, 'coq', 'Gen')
WORK = os.path.join(VERIF, 'build', 'orders')
CLANG = 'clang++'
FLAGS = ['-std=c++14', '-DNDEBUG', '-I' + REPO, '-isystem', REPO + '/dispenso/third-party', '-w']

COVERED = ['spsc_ring_buffer.h', 'mpmc_ring_buffer.h', 'chase_lev_deque.h', 'detail/completion_event_impl.h', 'latch.h',
           'detail/future_impl.h', 'detail/future_impl2.h', 'async_request.h', 'concurrent_vector.h',
           'detail/concurrent_vector_impl.h', 'detail/concurrent_vector_impl2.h', 'concurrent_object_arena.h',
           'detail/rw_lock_impl.h', 'task_set.h', 'task_set.cpp', 'detail/task_set_impl.h', 'detail/graph_executor_impl.h',
           'graph_executor.cpp', 'graph.h', 'thread_pool.h', 'thread_pool.cpp']

TUS = {
    'rings': '#include <dispenso/spsc_ring_buffer.h>\n#include <dispenso/mpmc_ring_buffer.h>\n#include <dispenso/chase_lev_deque.h>\n'
             'template class dispenso::SPSCRingBuffer<int, 8>;\ntemplate class dispenso::MpmcRingBuffer<int, 8>;\n'
             'template class dispenso::ChaseLevDeque<int, 8>;\n',
    'event': '#include <dispenso/completion_event.h>\n#include <dispenso/latch.h>\n#include <dispenso/rw_lock.h>\n'
             '#include <dispenso/async_request.h>\ntemplate class dispenso::AsyncRequest<int>;\n',
    'future': '#include <dispenso/future.h>\n',
    'cvec': '#include <dispenso/concurrent_vector.h>\n#include <dispenso/concurrent_object_arena.h>\n'
            'template struct dispenso::ConcurrentObjectArena<int>;\n'
            # (an explicit instantiation of ConcurrentVector<int> does not compile: max_size() names Traits::kMaxVectorSize)
            'void orders_drive_cvec() { using V = dispenso::ConcurrentVector<int>; V a; V b(size_t(5), 1); V c(b); V d(std::move(c)); V e(8, dispenso::ReserveTag);\n'
            ' int arr[3] = {1, 2, 3}; V f(arr, arr + 3); V g{1, 2, 3}; a = b; a = std::move(d); a = {1, 2}; a.assign(size_t(3), 7); a.assign(arr, arr + 3);\n'
            ' a.reserve(100); a.resize(10); a.resize(20, 3); a.push_back(1); int x = 2; a.push_back(x); a.emplace_back(3); a.grow_by(3); a.grow_by(3, 9);\n'
            ' a.grow_by(arr, arr + 3); a.grow_by({1, 2}); a.grow_by_generator(2, []() { return 1; }); a.grow_to_at_least(5); a.grow_to_at_least(5, 1);\n'
            ' a.pop_back(); (void)a[0]; (void)a.at(0); (void)a.front(); (void)a.back(); (void)a.size(); (void)a.empty(); (void)a.capacity(); (void)a.default_capacity();\n'
            ' a.shrink_to_fit(); a.swap(b); a.erase(a.begin()); a.erase(a.begin(), a.end()); a.insert(a.begin(), 1); a.insert(a.begin(), size_t(2), 1); a.insert(a.begin(), arr, arr + 3);\n'
            ' for (auto& v : a) { (void)v; } const V& ca = a; for (auto& v : ca) { (void)v; } (void)ca[0]; (void)ca.at(0); (void)ca.front(); (void)ca.back();\n'
            ' auto it = a.begin(); ++it; --it; it += 1; (void)(it - a.begin()); (void)*it; (void)it[0]; auto r = a.rbegin(); (void)r; a.clear(); }\n',
    'taskset': '#include <dispenso/task_set.h>\n#include "%s/dispenso/task_set.cpp"\n' % REPO,
    'graph': '#include <dispenso/graph.h>\n#include <dispenso/graph_executor.h>\n#include "%s/dispenso/graph_executor.cpp"\n' % REPO,
    'pool': '#include <dispenso/thread_pool.h>\n#include "%s/dispenso/thread_pool.cpp"\n' % REPO,
}

OPS = {'load', 'store', 'exchange', 'fetch_add', 'fetch_sub', 'fetch_and', 'fetch_or', 'fetch_xor',
       'compare_exchange_weak', 'compare_exchange_strong', 'test_and_set', 'clear'}
MO = {'memory_order_relaxed': 'Relaxed', 'memory_order_consume': 'Consume', 'memory_order_acquire': 'Acquire',
      'memory_order_release': 'Release', 'memory_order_acq_rel': 'AcqRel', 'memory_order_seq_cst': 'SeqCst'}
FUNC_KINDS = {'FunctionDecl', 'CXXMethodDecl', 'CXXConstructorDecl', 'CXXDestructorDecl', 'CXXConversionDecl'}
REC_KINDS = {'CXXRecordDecl', 'ClassTemplateSpecializationDecl', 'ClassTemplatePartialSpecializationDecl'}


def rel(path):
    """path of a source file relative to <repo>/dispenso, or None when outside"""
    if not path:
        return None
    p = os.path.normpath(path)
    base = os.path.normpath(os.path.join(REPO, 'dispenso')) + os.sep
    return p[len(base):] if p.startswith(base) else None


def iter_docs(s):
    dec = json.JSONDecoder()
    i = 0
    while i < len(s):
        while i < len(s) and s[i].isspace():
            i += 1
        if i >= len(s):
            break
        o, i = dec.raw_decode(s, i)
        yield o


def annotate_locs(node, st):
    """clang prints `file`/`line` of a location only when they differ from the previously printed location: replay that
    (dict order = print order) and store the resolved file/line into every location dict"""
    if isinstance(node, dict):
        if 'offset' in node:
            if 'file' in node:
                st[0] = node['file']
            if 'line' in node:
                st[1] = node['line']
            node['_f'], node['_l'] = st[0], st[1]
            return
        for k, v in node.items():
            if k in ('inner', 'range', 'loc', 'begin', 'end', 'spellingLoc', 'expansionLoc') or isinstance(v, (dict, list)):
                annotate_locs(v, st)
    elif isinstance(node, list):
        for v in node:
            annotate_locs(v, st)


def begin_of(node):
    b = node.get('range', {}).get('begin', {})
    if 'expansionLoc' in b:
        b = b['expansionLoc']
    e = node.get('range', {}).get('end', {})
    if 'expansionLoc' in e:
        e = e['expansionLoc']
    return b.get('_f'), b.get('_l'), b.get('offset'), e.get('offset')


def strip(e):
    """look through casts / parens / temporaries"""
    while isinstance(e, dict) and e.get('kind') in ('ImplicitCastExpr', 'ParenExpr', 'CStyleCastExpr', 'CXXStaticCastExpr', 'ExprWithCleanups',
                                                     'MaterializeTemporaryExpr', 'CXXBindTemporaryExpr', 'CXXFunctionalCastExpr',
                                                     'ConstantExpr') and e.get('inner'):
        e = e['inner'][-1]
    return e


def order_of(arg):
    """('lit', 'Release') | ('default', 'SeqCst') | ('unresolved', text) | None when the argument is not a memory_order"""
    a = strip(arg)
    if not isinstance(a, dict):
        return None
    k = a.get('kind')
    if k == 'CXXDefaultArgExpr':
        t = a.get('type', {}).get('qualType', '')
        return ('default', 'SeqCst') if 'memory_order' in t else None
    t = a.get('type', {})
    ty = t.get('desugaredQualType', '') + ' ' + t.get('qualType', '')
    if k == 'DeclRefExpr':
        rd = a.get('referencedDecl', {})
        if rd.get('kind') == 'EnumConstantDecl' and rd.get('name') in MO:
            return ('lit', MO[rd['name']])
        if 'memory_order' in ty:
            return ('unresolved', rd.get('name', '?'))
        return None
    if 'memory_order' in ty:
        return ('unresolved', k)
    return None


def member_name(e):
    """name of the atomic object the operation is applied to"""
    e = strip(e)
    if not isinstance(e, dict):
        return '?'
    k = e.get('kind')
    if k in ('MemberExpr', 'CXXDependentScopeMemberExpr'):
        return e.get('name') or e.get('member') or '?'
    if k == 'DeclRefExpr':
        return e.get('referencedDecl', {}).get('name', '?')
    if k in ('ArraySubscriptExpr',):
        return member_name(e['inner'][0])
    if k == 'UnaryOperator' and e.get('inner'):
        return member_name(e['inner'][0])
    if k == 'CXXOperatorCallExpr' and len(e.get('inner', [])) >= 2:
        return member_name(e['inner'][1])
    if k in ('CXXMemberCallExpr', 'CallExpr') and e.get('inner'):
        c = strip(e['inner'][0])
        return (c.get('name') or c.get('member') or c.get('referencedDecl', {}).get('name') or '?') + '()'
    if k == 'CXXThisExpr':
        return 'this'
    return '?'


def callee_info(call):
    """-> (op, member, is_atomic_for_sure) or None"""
    inner = call.get('inner', [])
    if not inner:
        return None
    c = strip(inner[0])
    k = c.get('kind')
    if k == 'MemberExpr' and c.get('name') in OPS and c.get('inner'):
        base = c['inner'][0]
        bt = json.dumps(strip(base).get('type', {})) + json.dumps(base.get('type', {}))
        if 'atomic' in bt:
            return c['name'], member_name(base), True
        return None
    if k == 'CXXDependentScopeMemberExpr' and c.get('member') in OPS and c.get('inner'):
        base = c['inner'][0]
        bt = json.dumps(strip(base).get('type', {}))
        return c['member'], member_name(base), 'atomic' in bt
    name = None
    if k == 'DeclRefExpr':
        name = c.get('referencedDecl', {}).get('name')
    elif k == 'UnresolvedLookupExpr':
        name = c.get('name')
    if name and (name in ('atomic_thread_fence', 'atomic_signal_fence') or re.match(r'atomic_(load|store|exchange|fetch_\w+|compare_exchange_\w+|flag_\w+)', name)):
        if name.endswith('_fence'):
            return name, 'fence', True
        mem = member_name(inner[1]) if len(inner) > 1 else '?'
        return name, mem, True
    return None


class Walker:
    def __init__(self):
        self.sites = {}      # (file, boff, eoff) -> record
        self.refs = {}       # (file, off) -> enumerator name: every DeclRefExpr to a memory_order enumerator
        self.recs = {}       # decl id -> record name (for out-of-line method definitions)

    def walk(self, n, fn, cls, in_lambda):
        if not isinstance(n, dict):
            return
        k = n.get('kind')
        if k in REC_KINDS or k == 'ClassTemplateDecl':
            if n.get('name'):
                self.recs[n['id']] = n['name']
                if not in_lambda and k != 'ClassTemplateDecl':
                    cls = n['name']
        elif k in FUNC_KINDS and not in_lambda:
            nm = re.sub(r'<.*>$', '', n.get('name', '?'))
            if not (nm == 'operator()' and cls is None and fn is not None):
                owner = self.recs.get(n.get('parentDeclContextId')) or cls
                fn = (owner + '::' + nm) if owner else nm
        elif k == 'LambdaExpr':
            in_lambda = True
        elif k == 'DeclRefExpr':
            rd = n.get('referencedDecl', {})
            if rd.get('kind') == 'EnumConstantDecl' and rd.get('name') in MO:
                f, l, b, e = begin_of(n)
                r = rel(f)
                if r in COVERED:
                    self.refs[(r, n['range']['end'].get('expansionLoc', n['range']['end']).get('offset'))] = rd['name']
        if k in ('CXXMemberCallExpr', 'CallExpr'):
            self.call(n, fn)
        for c in n.get('inner', []):
            self.walk(c, fn, cls, in_lambda)

    def call(self, n, fn):
        f, l, b, e = begin_of(n)
        r = rel(f)
        if r not in COVERED:
            return
        info = callee_info(n)
        args = n.get('inner', [])[1:]
        orders = [o for o in (order_of(a) for a in args) if o]
        if info is None:
            lits = [o for o in orders if o[0] == 'lit']
            if not lits:
                return
            c = strip(n['inner'][0])
            nm = c.get('name') or c.get('member') or c.get('referencedDecl', {}).get('name') or '?'
            info = ('call', nm, True)
        op, mem, sure = info
        if not sure and not orders:
            return
        prio = 0 if op == 'call' else (2 if sure else 1)       # instantiated (resolved) bodies win over dependent template patterns
        rec = {'file': r, 'line': l, 'off': b, 'fn': fn or '?', 'member': mem, 'op': op, 'orders': orders, 'resolved': prio}
        old = self.sites.get((r, b, e))
        if old is None or old['resolved'] < prio or (old['resolved'] == prio and old['fn'] == '?' and rec['fn'] != '?'):
            self.sites[(r, b, e)] = rec


_SRC_HASH = []


def source_hash():
    """content hash of every source file under <repo>/dispenso (third-party included)"""
    if not _SRC_HASH:
        h = hashlib.sha1()
        for root, dirs, files in os.walk(os.path.join(REPO, 'dispenso')):
            dirs.sort()
            for f in sorted(files):
                if f.endswith(('.h', '.cpp', '.hpp', '.inl')):
                    q = os.path.join(root, f)
                    h.update(q.encode())
                    h.update(open(q, 'rb').read())
        _SRC_HASH.append(h.hexdigest())
    return _SRC_HASH[0]


def cache_path(name):
    hh = hashlib.sha1((source_hash() + TUS[name] + open(os.path.abspath(__file__)).read() + REPO).encode()).hexdigest()[:16]
    return os.path.join(WORK, 'cache_%s_%s.json' % (name, hh))


def run_tu(name):
    """-> (sites dict, refs dict, regex counts, error or None) for one translation unit.
    The result is a pure function of the source files under <repo>/dispenso, of the TU text and of this script: it is cached
    under the hash of all three, so a run on an unchanged source tree costs reading the files once."""
    os.makedirs(WORK, exist_ok=True)
    cache = cache_path(name)
    if os.path.exists(cache):
        try:
            c = json.load(open(cache))
            return c['sites'], c['refs'], c['rc'], None
        except Exception:
            pass
    src = os.path.join(WORK, 'tu_%s_%d.cpp' % (name, os.getpid()))
    with open(src, 'w') as f:
        f.write(TUS[name])
    try:
        e = subprocess.run([CLANG] + FLAGS + ['-E', src], stdout=subprocess.PIPE, stderr=subprocess.PIPE, universal_newlines=True, timeout=120)
        if e.returncode != 0:
            return {}, {}, {}, 'clang -E failed on TU %s: %s' % (name, e.stderr[-1500:])
        r = subprocess.run([CLANG] + FLAGS + ['-fsyntax-only', '-Xclang', '-ast-dump=json', '-Xclang', '-ast-dump-filter=dispenso', src],
                           stdout=subprocess.PIPE, stderr=subprocess.PIPE, universal_newlines=True, timeout=300)
        if r.returncode != 0:
            return {}, {}, {}, 'clang failed on TU %s: %s' % (name, r.stderr[-1500:])
        w = Walker()
        for doc in iter_docs(r.stdout):
            annotate_locs(doc, [None, None])
            w.walk(doc, None, None, False)
        res = ({'%s|%d|%d' % k: v for k, v in w.sites.items()}, {'%s|%d' % k: v for k, v in w.refs.items()}, regex_count(e.stdout))
        olds = sorted((os.path.join(WORK, x) for x in os.listdir(WORK) if x.startswith('cache_%s_' % name) and x.endswith('.json')), key=os.path.getmtime)
        for oldc in olds[:-3]:      # keep a few: mutation runs (VERIF_REPO) alternate with runs on the real tree
            os.unlink(oldc)
        tmp = cache + '.tmp%d' % os.getpid()
        json.dump({'sites': res[0], 'refs': res[1], 'rc': res[2]}, open(tmp, 'w'))
        os.replace(tmp, cache)
        return res + (None,)
    finally:
        if os.path.exists(src):
            os.unlink(src)


CALL_RE = re.compile(r'(?:\.|->)\s*(load|store|exchange|fetch_add|fetch_sub|fetch_and|fetch_or|fetch_xor|compare_exchange_weak|compare_exchange_strong)\s*\('
                     r'|\batomic_(?:thread|signal)_fence\s*\(|\batomic_(?:load|store|exchange|fetch_\w+|compare_exchange_\w+)_explicit\s*\(')
TOK_RE = re.compile(r'\bmemory_order_(?:relaxed|consume|acquire|release|acq_rel|seq_cst)\b')


def regex_count(pre):
    """independent count on preprocessed text: per covered file, the set of (line, col-ordinal) of memory_order tokens and of
    atomic-call patterns (sets, because a header is seen once per TU but several TUs include the same header)"""
    cur, line = None, 0
    toks, calls = {}, {}
    for ln in pre.split('\n'):
        m = re.match(r'# (\d+) "([^"]*)"', ln)
        if m:
            line, cur = int(m.group(1)), rel(m.group(2))
            continue
        if cur in COVERED:
            for i, _ in enumerate(TOK_RE.finditer(ln)):
                toks.setdefault(cur, set()).add((line, i))
            for i, _ in enumerate(CALL_RE.finditer(ln)):
                calls.setdefault(cur, set()).add((line, i))
        line += 1
    return {'toks': {f: sorted(v) for f, v in toks.items()}, 'calls': {f: sorted(v) for f, v in calls.items()}}


def extract():
    """-> (sites list sorted, report dict)"""
    sites, refs, errors = {}, {}, []
    rtoks, rcalls = {}, {}
    names = list(TUS)
    if all(os.path.exists(cache_path(n)) for n in names):
        outs = [run_tu(n) for n in names]                 # all cached: no clang, no worker processes
    else:
        with ProcessPoolExecutor(max_workers=len(TUS)) as ex:
            outs = list(ex.map(run_tu, names))
    if True:
        for name, (s, r, rc, err) in zip(names, outs):
            if err:
                errors.append(err)
                continue
            for k, v in s.items():
                old = sites.get(k)
                if old is None or old['resolved'] < v['resolved']:
                    sites[k] = v
            refs.update(r)
            for f, v in rc['toks'].items():
                rtoks.setdefault(f, set()).update(map(tuple, v))
            for f, v in rc['calls'].items():
                rcalls.setdefault(f, set()).update(map(tuple, v))
    lst = sorted(sites.values(), key=lambda x: (COVERED.index(x['file']), x['off']))
    # names
    cnt = {}
    for s in lst:
        base = '%s:%s:%s:%s' % (s['file'], s['fn'], s['member'], s['op'])
        k = cnt.get(base, 0)
        cnt[base] = k + 1
        s['key'] = '%s#%d' % (base, k)
    # self-check
    per_file, mism = {}, []
    for f in COVERED:
        fs = [s for s in lst if s['file'] == f]
        ast_calls = len([s for s in fs if s['op'] != 'call'])
        ast_refs = len([k for k in refs if k.split('|')[0] == f])
        per_file[f] = {'sites': len(fs), 'atomic_ops': ast_calls, 'memory_order_refs_ast': ast_refs,
                       'memory_order_tokens_regex': len(rtoks.get(f, ())), 'atomic_calls_regex': len(rcalls.get(f, ()))}
        if ast_refs != len(rtoks.get(f, ())):
            mism.append('%s: %d memory_order references in the AST vs %d tokens by regex' % (f, ast_refs, len(rtoks.get(f, ()))))
        if ast_calls != len(rcalls.get(f, ())):
            mism.append('%s: %d atomic operations in the AST vs %d call patterns by regex' % (f, ast_calls, len(rcalls.get(f, ()))))
    return lst, {'per_file': per_file, 'selfcheck_mismatches': mism, 'errors': errors}


COQ_HEAD = '''(* GENERATED by tools/orders.py from %s/dispenso (order table O) -- do not edit.
   One entry per atomic operation of the covered files: (site key, order, second order of a compare_exchange if written).
   An omitted order is SeqCst (the std default).  Sites whose order is not a literal enumerator are in `unresolved_sites`. *)
From Coq Require Import String List Bool.
Import ListNotations.
Local Open Scope string_scope.

Inductive mo := Relaxed | Consume | Acquire | Release | AcqRel | SeqCst.

Definition mo_eqb (a b : mo) : bool :=
  match a, b with
  | Relaxed, Relaxed | Consume, Consume | Acquire, Acquire | Release, Release | AcqRel, AcqRel | SeqCst, SeqCst => true
  | _, _ => false
  end.

(* order_ge have need: `have` provides at least the synchronisation of `need` (need in {Relaxed, Acquire, Release, AcqRel, SeqCst});
   Consume provides nothing beyond Relaxed here: the C++ model gives a consume load no synchronizes-with edge. *)
Definition order_ge (have need : mo) : bool :=
  match need with
  | Relaxed => true
  | Consume => match have with Relaxed => false | _ => true end
  | Acquire => match have with Acquire | AcqRel | SeqCst => true | _ => false end
  | Release => match have with Release | AcqRel | SeqCst => true | _ => false end
  | AcqRel => match have with AcqRel | SeqCst => true | _ => false end
  | SeqCst => match have with SeqCst => true | _ => false end
  end.

'''

COQ_TAIL = '''
Fixpoint lookup_in (l : list (string * mo * option mo)) (s : string) : option (mo * option mo) :=
  match l with
  | [] => None
  | (k, m, f) :: r => if String.eqb k s then Some (m, f) else lookup_in r s
  end.

Definition lookup (s : string) : option (mo * option mo) := lookup_in orders s.

Definition has_site (s : string) : bool := match lookup s with Some _ => true | None => false end.

(* order declared at a site; a site that is not in the table (renamed function, removed operation) counts as Relaxed,
   so every `order_ge (site_mo s) Release/Acquire = true` side condition about it fails *)
Definition site_mo (s : string) : mo := match lookup s with Some (m, _) => m | None => Relaxed end.

(* failure order of a compare_exchange when written explicitly; otherwise derived from the success order as the standard says *)
Definition site_fail_mo (s : string) : mo :=
  match lookup s with
  | Some (_, Some f) => f
  | Some (AcqRel, None) => Acquire
  | Some (Release, None) => Relaxed
  | Some (m, None) => m
  | None => Relaxed
  end.

Definition n_sites : nat := length orders.
'''


def coq_text(sites):
    out = COQ_HEAD % REPO
    res = [s for s in sites if all(o[0] != 'unresolved' for o in s['orders'])]
    unres = [s for s in sites if s not in res]
    out += 'Definition orders : list (string * mo * option mo) := [\n'
    rows = []
    for s in res:
        os_ = [o[1] for o in s['orders']]
        if s['op'].endswith('_fence') or s['op'] == 'call' or not os_:
            first, second = (os_[0] if os_ else 'SeqCst'), None
        else:
            first = os_[0]
            lits = [o for o in s['orders'][1:] if o[0] == 'lit']
            second = lits[0][1] if (lits and 'compare_exchange' in s['op']) else None
        rows.append('  ("%s", %s, %s)' % (s['key'], first, ('Some ' + second) if second else 'None'))
    out += ';\n'.join(rows) + '\n].\n\n'
    out += 'Definition unresolved_sites : list string := [\n' + ';\n'.join('  "%s"' % s['key'] for s in unres) + '\n].\n'
    out += COQ_TAIL
    return out


def write_if_changed(path, text):
    old = open(path).read() if os.path.exists(path) else None
    if old != text:
        tmp = path + '.tmp%d' % os.getpid()
        with open(tmp, 'w') as f:
            f.write(text)
        os.replace(tmp, path)
        return True
    return False


def generate():
    """used by tools/gen.py (group `orders`) and props/C10.py: returns (files dict, report)"""
    sites, rep = extract()
    rep['n_sites'] = len(sites)
    rep['sites'] = [{'key': s['key'], 'line': s['line'], 'orders': [o[1] for o in s['orders']]} for s in sites]
    if rep['errors'] or not sites:
        # never leave a stale table behind: an extraction failure yields an EMPTY table, so every tie lemma fails
        return {'GenOrders.v': coq_text([])}, rep
    return {'GenOrders.v': coq_text(sites)}, rep


def main(argv):
    files, rep = generate()
    os.makedirs(GEN, exist_ok=True)
    for fn, text in files.items():
        rep['rewritten'] = write_if_changed(os.path.join(GEN, fn), text)
    if '--json' in argv:
        print(json.dumps(rep, indent=1))
    else:
        print(json.dumps({k: v for k, v in rep.items() if k != 'sites'}, indent=1))
    return 0


if __name__ == '__main__':
    sys.exit(main(sys.argv[1:]))
