(* Executable model of dispenso::ConcurrentVector used single-threaded (concurrent_vector.h,
   detail/concurrent_vector_impl.h, detail/concurrent_vector_impl2.h).  Definitions only.

   Storage: an array of buckets (buffers_[b], null = None); bucket 0 and 1 hold firstBucketLen_ = 2^shift
   cells each, bucket b >= 2 holds 2^(shift+b-1).  Every cell carries the lifetime state of the object in it
   (Base/Life.v: Unborn / Alive / MovedFrom / Dead) and the element's tag; the lifetime events of every operation
   are accounted in a ledger (counters of Base/Life.v, list of misuses), exactly as harness/life.h does for the real
   element type.  The model describes the code as it is (after the repairs 6742701 / c8c0b30 of /repo: erase()
   destroys the vacated tail and returns the position of the removed element, insert(pos, value) assigns to the
   element insertPartial left at pos).  *)
From Coq Require Import ZArith List Bool Lia.
From DV Require Import Base.MachInt Base.Life.
Import ListNotations.
Local Open Scope Z_scope.

(* ------------------------------------------------------------------------------------------------ traits *)
Record traits := mkTraits {
  t_defcap : Z;       (* SizeTraits::kDefaultCapacity *)
  t_maxsize : Z;      (* SizeTraits::kMaxVectorSize *)
  t_strategy : Z;     (* Traits::kReallocStrategy: 0 kFullBufferAhead, 1 kHalfBufferAhead, 2 kAsNeeded *)
  t_inline : bool;    (* Traits::kPreferBuffersInline  (no influence on the sequential behaviour) *)
  t_fastiter : bool   (* Traits::kIteratorPreferSpeed  (no influence on positions: see the iterator model below) *)
}.
(* kMaxBuffers = log2const(kMaxVectorSize / (kDefaultCapacity / 2)) + 1 *)
Definition max_buffers (tr : traits) : Z := Z.log2 (t_maxsize tr / (t_defcap tr / 2)) + 1.

(* ------------------------------------------------------------------------------------------------ bucket arithmetic *)
(* bucketAndSubIndex(index) = (bucket, bucketIndex, bucketCapacity)   [tied to the source by GenTie/CVecGenTie.v] *)
Definition bsi (shift index : Z) : Z * Z * Z :=
  if index <? 2 ^ shift then (0, index, 2 ^ shift)
  else let l2 := Z.log2 index in (l2 + 1 - shift, index - 2 ^ l2, 2 ^ l2).
Definition bucket_cap (shift b : Z) : Z := if b <=? 1 then 2 ^ shift else 2 ^ (shift + b - 1).
Definition bucket_start (shift b : Z) : Z := if b <=? 0 then 0 else 2 ^ (shift + b - 1).

(* allocCheckIndex(bucketCapacity) *)
Definition alloc_check_index (strategy cap : Z) : Z :=
  if strategy =? 0 then 0 else if strategy =? 1 then Z.quot cap 2 else cap - 1.

(* detail::nextPow2 (for arguments >= 1) and the constructor's firstBucketShift_ *)
Definition next_pow2 (v : Z) : Z := if v <=? 1 then 1 else 2 ^ Z.log2_up v.
Definition first_shift (tr : traits) (startCapacity : Z) : Z :=
  Z.log2 (next_pow2 (Z.max startCapacity (Z.quot (t_defcap tr) 2))).

(* ------------------------------------------------------------------------------------------------ cells and the ledger *)
Record cell := mkCell { c_st : lstate; c_tag : Z }.
Definition raw : cell := mkCell Unborn 0.
Definition kMovedTag : Z := -1.
Definition kDeadTag : Z := -2.

Record cled := mkCL {
  cl_cnt : counters;        (* constructions by kind, assignments by kind, destructor calls *)
  cl_errs : list lerr;      (* misuses, newest first *)
  cl_glive : Z;             (* objects that still needed a destructor when their storage was released *)
  cl_gmoved : Z;            (* ... of which moved-from *)
  cl_bad : Z                (* accesses to storage that is not allocated / waits on a buffer nobody allocates *)
}.
Definition cled0 : cled := mkCL cnt0 [] 0 0 0.
Definition cl_with_cnt (f : counters -> counters) (L : cled) : cled :=
  mkCL (f (cl_cnt L)) (cl_errs L) (cl_glive L) (cl_gmoved L) (cl_bad L).
Definition cl_err (e : lerr) (L : cled) : cled := mkCL (cl_cnt L) (e :: cl_errs L) (cl_glive L) (cl_gmoved L) (cl_bad L).
Definition cl_add_bad (n : Z) (L : cled) : cled := mkCL (cl_cnt L) (cl_errs L) (cl_glive L) (cl_gmoved L) (cl_bad L + n).
Definition cl_grave (nl nm : Z) (L : cled) : cled := mkCL (cl_cnt L) (cl_errs L) (cl_glive L + nl) (cl_gmoved L + nm) (cl_bad L).

(* the five primitive lifetime events of Base/Life.v, on the state kept in the cell *)
Definition c_construct (k : ckind) (tag : Z) (c : cell) (L : cled) : cell * cled :=
  (mkCell Alive tag, cl_with_cnt (bump_ctor k) (if is_live (c_st c) then cl_err ConstructOverLive L else L)).
Definition c_destroy (c : cell) (L : cled) : cell * cled :=
  let L1 := cl_with_cnt bump_dtor L in
  match c_st c with
  | Alive | MovedFrom => (mkCell Dead kDeadTag, L1)
  | Dead => (mkCell Dead kDeadTag, cl_err DoubleDestroy L1)
  | Unborn => (mkCell Unborn kDeadTag, cl_err DestroyUnborn L1)
  end.
Definition c_move_from (c : cell) (L : cled) : cell * cled :=
  match c_st c with
  | Alive | MovedFrom => (mkCell MovedFrom (c_tag c), L)
  | Dead => (c, cl_err UseDead L)
  | Unborn => (c, cl_err UseUnborn L)
  end.
Definition c_use (c : cell) (L : cled) : cled :=
  match c_st c with
  | Alive | MovedFrom => L
  | Dead => cl_err UseDead L
  | Unborn => cl_err UseUnborn L
  end.
Definition c_assign_to (k : ckind) (tag : Z) (c : cell) (L : cled) : cell * cled :=
  let L1 := cl_with_cnt (bump_assign k) L in
  match c_st c with
  | Alive | MovedFrom => (mkCell Alive tag, L1)
  | Dead => (mkCell Dead tag, cl_err UseDead L1)
  | Unborn => (mkCell Unborn tag, cl_err UseUnborn L1)
  end.
Definition c_set_tag (tag : Z) (c : cell) : cell := mkCell (c_st c) tag.

(* ------------------------------------------------------------------------------------------------ the vector *)
Definition bucket := list cell.
Record cvec := mkV { v_shift : Z; v_bufs : list (option bucket); v_size : Z }.

Fixpoint list_upd {A} (l : list A) (n : nat) (x : A) : list A :=
  match l, n with
  | [], _ => []
  | _ :: r, O => x :: r
  | y :: r, S n' => y :: list_upd r n' x
  end.

Definition get_buf (bs : list (option bucket)) (b : Z) : option bucket :=
  if b <? 0 then None else nth (Z.to_nat b) bs None.
Definition is_alloc (bs : list (option bucket)) (b : Z) : bool :=
  match get_buf bs b with Some _ => true | None => false end.
Definition set_buf (bs : list (option bucket)) (b : Z) (x : option bucket) : list (option bucket) :=
  if b <? 0 then bs else list_upd bs (Z.to_nat b) x.
Definition fresh_bucket (cap : Z) : bucket := repeat raw (Z.to_nat cap).

(* bucket-addressed access: buffers_[b] + j *)
Definition valid_bs (v : cvec) (b j : Z) : bool :=
  match get_buf (v_bufs v) b with
  | Some l => (0 <=? j) && (j <? Z.of_nat (length l))
  | None => false
  end.
Definition get_bs (v : cvec) (b j : Z) : cell :=
  match get_buf (v_bufs v) b with
  | Some l => if 0 <=? j then nth (Z.to_nat j) l raw else raw
  | None => raw
  end.
Definition set_bs (v : cvec) (b j : Z) (c : cell) : cvec :=
  match get_buf (v_bufs v) b with
  | Some l => if (0 <=? j) && (j <? Z.of_nat (length l))
              then mkV (v_shift v) (set_buf (v_bufs v) b (Some (list_upd l (Z.to_nat j) c))) (v_size v) else v
  | None => v
  end.
(* index-addressed access: through bucketAndSubIndex, as operator[] and the iterators do *)
Definition valid_idx (v : cvec) (i : Z) : bool :=
  (0 <=? i) && let '(b, j, _) := bsi (v_shift v) i in valid_bs v b j.
Definition get_cell (v : cvec) (i : Z) : cell := let '(b, j, _) := bsi (v_shift v) i in get_bs v b j.
Definition set_cell (v : cvec) (i : Z) (c : cell) : cvec := let '(b, j, _) := bsi (v_shift v) i in set_bs v b j c.

Definition with_size (v : cvec) (n : Z) : cvec := mkV (v_shift v) (v_bufs v) n.
Definition with_bufs (v : cvec) (bs : list (option bucket)) : cvec := mkV (v_shift v) bs (v_size v).

(* apply a lifetime event to the object at index i / at (b, j); touching unallocated storage is recorded as bad *)
Definition upd_cell (f : cell -> cled -> cell * cled) (i : Z) (vl : cvec * cled) : cvec * cled :=
  let '(v, L) := vl in
  if valid_idx v i then let '(c', L') := f (get_cell v i) L in (set_cell v i c', L') else (v, cl_add_bad 1 L).
Definition upd_bs (f : cell -> cled -> cell * cled) (b j : Z) (vl : cvec * cled) : cvec * cled :=
  let '(v, L) := vl in
  if valid_bs v b j then let '(c', L') := f (get_bs v b j) L in (set_bs v b j c', L') else (v, cl_add_bad 1 L).

(* ------------------------------------------------------------------------------------------------ allocation *)
(* ConVecBuffer::allocAsNecessaryImpl(binfo): returns the buffers and 1 if the final wait would never end *)
Definition alloc1 (strat : Z) (bs : list (option bucket)) (b s cap : Z) : list (option bucket) * Z :=
  let bs1 := if s =? alloc_check_index strat cap
             then (if is_alloc bs (b + 1) then bs else set_buf bs (b + 1) (Some (fresh_bucket (cap * 2))))
             else bs in
  (bs1, if is_alloc bs1 b then 0 else 1).

(* for (; bucket <= bend.bucket; ++bucket, cap <<= 1) tryAssignBuffer(bucket, ..., cap, ...) *)
Fixpoint alloc_loop (n : nat) (bs : list (option bucket)) (bk cap : Z) : list (option bucket) * Z * Z :=
  match n with
  | O => (bs, bk, cap)
  | S n' => alloc_loop n' (if is_alloc bs bk then bs else set_buf bs bk (Some (fresh_bucket cap))) (bk + 1) (cap * 2)
  end.
Fixpoint count_unalloc (n : nat) (bs : list (option bucket)) (bk : Z) : Z :=
  match n with
  | O => 0
  | S n' => (if is_alloc bs bk then 0 else 1) + count_unalloc n' bs (bk + 1)
  end.
(* ConVecBuffer::allocAsNecessaryImpl(binfo, rangeLen, bend) *)
Definition alloc_range (strat : Z) (bs : list (option bucket)) (b s cap len eb es ecap : Z) : list (option bucket) * Z :=
  let chk := alloc_check_index strat cap in
  let cur := (s <=? chk) && (chk <? s + len) in
  let bs1 :=
    if cur || (b <? eb) then
      let c0 := cap * 2 ^ (b2z (negb (b =? 0)) + b2z (negb cur)) in
      let b0 := b + 1 + b2z (negb cur) in
      let '(bs', bk, capk) := alloc_loop (Z.to_nat (eb + 1 - b0)) bs b0 c0 in
      if alloc_check_index strat ecap <? es
      then (if is_alloc bs' bk then bs' else set_buf bs' bk (Some (fresh_bucket capk)))
      else bs'
    else bs in
  (bs1, count_unalloc (Z.to_nat (eb + 1 - b)) bs1 b).

(* allocateBuffer(bucketAndSubIndex(i)) / allocateBufferRange(bucketAndSubIndex(i), len, bucketAndSubIndex(i+len)) *)
Definition alloc_at (tr : traits) (i : Z) (vl : cvec * cled) : cvec * cled :=
  let '(v, L) := vl in
  let '(b, s, cap) := bsi (v_shift v) i in
  let '(bs, bad) := alloc1 (t_strategy tr) (v_bufs v) b s cap in
  (with_bufs v bs, cl_add_bad bad L).
Definition alloc_span (tr : traits) (i len : Z) (vl : cvec * cled) : cvec * cled :=
  let '(v, L) := vl in
  let '(b, s, cap) := bsi (v_shift v) i in
  let '(eb, es, ecap) := bsi (v_shift v) (i + len) in
  let '(bs, bad) := alloc_range (t_strategy tr) (v_bufs v) b s cap len eb es ecap in
  (with_bufs v bs, cl_add_bad bad L).

(* ------------------------------------------------------------------------------------------------ loops over cells *)
Definition vl_size (vl : cvec * cled) : Z := v_size (fst vl).
Definition vl_with_size (n : Z) (vl : cvec * cled) : cvec * cled := (with_size (fst vl) n, snd vl).

(* new (&*it) T(tag) for it = i, i+1, ... *)
Fixpoint construct_list (k : ckind) (tags : list Z) (i : Z) (vl : cvec * cled) : cvec * cled :=
  match tags with
  | [] => vl
  | t :: r => construct_list k r (i + 1) (upd_cell (c_construct k t) i vl)
  end.
(* new (&*it) T() for it = hi-1 down to lo  (insertPartial) *)
Fixpoint construct_down (n : nat) (hi : Z) (vl : cvec * cled) : cvec * cled :=
  match n with
  | O => vl
  | S n' => construct_down n' (hi - 1) (upd_cell (c_construct KValue 0) (hi - 1) vl)
  end.
(* (--it)->~T() for it = hi down to lo + 1 *)
Fixpoint destroy_down (n : nat) (hi : Z) (vl : cvec * cled) : cvec * cled :=
  match n with
  | O => vl
  | S n' => destroy_down n' (hi - 1) (upd_cell c_destroy (hi - 1) vl)
  end.
(* the same inside one buffer: t = buf + len; while (t != buf) (--t)->~T();   (clear) *)
Fixpoint destroy_down_bs (n : nat) (b hi : Z) (vl : cvec * cled) : cvec * cled :=
  match n with
  | O => vl
  | S n' => destroy_down_bs n' b (hi - 1) (upd_bs c_destroy b (hi - 1) vl)
  end.
(* buf[j] constructed for j = lo, lo+1, ...  (sizing constructors write through buffers_[0]) *)
Fixpoint construct_bs (k : ckind) (tags : list Z) (b j : Z) (vl : cvec * cled) : cvec * cled :=
  match tags with
  | [] => vl
  | t :: r => construct_bs k r b (j + 1) (upd_bs (c_construct k t) b j vl)
  end.

(* dst[0] = std::move(src[0])   (life::L::operator=(L&&): the source keeps its tag when it is the target itself) *)
Definition move_assign (src dst : Z) (vl : cvec * cled) : cvec * cled :=
  let t := c_tag (get_cell (fst vl) src) in
  let vl1 := upd_cell c_move_from src vl in
  let vl2 := upd_cell (c_assign_to KMove t) dst vl1 in
  if src =? dst then vl2
  else (if valid_idx (fst vl2) src then set_cell (fst vl2) src (c_set_tag kMovedTag (get_cell (fst vl2) src)) else fst vl2, snd vl2).
(* std::move(first, first + n, d) *)
Fixpoint move_fwd (n : nat) (src dst : Z) (vl : cvec * cled) : cvec * cled :=
  match n with
  | O => vl
  | S n' => move_fwd n' (src + 1) (dst + 1) (move_assign src dst vl)
  end.
(* std::move_backward(last - n, last, d_last) *)
Fixpoint move_bwd (n : nat) (last dlast : Z) (vl : cvec * cled) : cvec * cled :=
  match n with
  | O => vl
  | S n' => move_bwd n' (last - 1) (dlast - 1) (move_assign (last - 1) (dlast - 1) vl)
  end.
(* std::fill_n / std::copy_n: copy assignment from a live source outside the vector *)
Fixpoint assign_list (tags : list Z) (i : Z) (vl : cvec * cled) : cvec * cled :=
  match tags with
  | [] => vl
  | t :: r => assign_list r (i + 1) (upd_cell (c_assign_to KCopy t) i vl)
  end.

Definition zrepeat (x : Z) (n : Z) : list Z := repeat x (Z.to_nat n).
Definition zseq (start n : Z) : list Z := map (fun k => start + Z.of_nat k) (seq 0 (Z.to_nat n)).
(* contents as read by operator[] *)
Definition cells (v : cvec) : list cell := map (get_cell v) (zseq 0 (v_size v)).
Definition abs (v : cvec) : list Z := map c_tag (cells v).
(* reading every element of a (source) vector: use() on each *)
Definition use_all (v : cvec) (L : cled) : cled := fold_left (fun L c => c_use c L) (cells v) L.

(* ------------------------------------------------------------------------------------------------ operations *)
(* constructors *)
Definition empty_bufs (tr : traits) (shift : Z) : list (option bucket) :=
  Some (fresh_bucket (2 ^ shift)) :: Some (fresh_bucket (2 ^ shift)) :: repeat None (Z.to_nat (max_buffers tr) - 2).
Definition ctor_reserve (tr : traits) (startCapacity : Z) : cvec :=
  let sh := first_shift tr startCapacity in mkV sh (empty_bufs tr sh) 0.
Definition ctor_default (tr : traits) : cvec := ctor_reserve tr (Z.quot (t_defcap tr) 2).
(* ConcurrentVector(size_t startSize) / (size_t startSize, const T&): elements written through buffers_[0] *)
Definition ctor_sized (tr : traits) (k : ckind) (n t : Z) (L : cled) : cvec * cled :=
  construct_bs k (zrepeat t n) 0 0 (with_size (ctor_reserve tr n) n, L).
(* ConcurrentVector(size, first, last): internalInit through begin() *)
Definition ctor_range (tr : traits) (tags : list Z) (L : cled) : cvec * cled :=
  let n := Z.of_nat (length tags) in
  construct_list KCopy tags 0 (with_size (ctor_reserve tr n) n, L).

(* emplace_back / push_back *)
Definition emplace_back (tr : traits) (k : ckind) (t : Z) (vl : cvec * cled) : cvec * cled * Z :=
  let idx := vl_size vl in
  let vl1 := alloc_at tr idx (vl_with_size (idx + 1) vl) in
  (upd_cell (c_construct k t) idx vl1, idx).
(* growByUninitialized *)
Definition grow_uninit (tr : traits) (delta : Z) (vl : cvec * cled) : cvec * cled * Z :=
  let idx := vl_size vl in
  (alloc_span tr idx delta (vl_with_size (idx + delta) vl), idx).
Definition grow_by_list (tr : traits) (k : ckind) (tags : list Z) (vl : cvec * cled) : cvec * cled * Z :=
  let '(vl1, idx) := grow_uninit tr (Z.of_nat (length tags)) vl in
  (construct_list k tags idx vl1, idx).
Definition grow_to_at_least (tr : traits) (k : ckind) (n t : Z) (vl : cvec * cled) : cvec * cled * Z :=
  if vl_size vl <? n then grow_by_list tr k (zrepeat t (n - vl_size vl)) vl else (vl, n - 1).
Definition pop_back (vl : cvec * cled) : cvec * cled :=
  let n := vl_size vl - 1 in upd_cell c_destroy n (vl_with_size n vl).
Definition resize (tr : traits) (k : ckind) (len t : Z) (vl : cvec * cled) : cvec * cled :=
  let cur := vl_size vl in
  if cur <? len then fst (grow_to_at_least tr k len t vl)
  else if len <? cur then vl_with_size len (destroy_down (Z.to_nat (cur - len)) cur vl)
  else vl.
(* clear(): buffer by buffer, from the one that holds index size down to buffer 0 *)
Fixpoint clear_loop (n : nat) (b len cap : Z) (vl : cvec * cled) : cvec * cled :=
  match n with
  | O => vl
  | S n' =>
      let vl1 := if is_alloc (v_bufs (fst vl)) b then destroy_down_bs (Z.to_nat len) b len vl
                 else (fst vl, cl_add_bad (if 0 <? len then 1 else 0) (snd vl)) in
      let cap' := if 1 <? b then Z.shiftr cap 1 else cap in
      clear_loop n' (b - 1) cap' cap' vl1
  end.
Definition clear (vl : cvec * cled) : cvec * cled :=
  let '(b, len, cap) := bsi (v_shift (fst vl)) (vl_size vl) in
  vl_with_size 0 (clear_loop (Z.to_nat (b + 1)) b len cap vl).
Definition reserve (tr : traits) (capacity : Z) (vl : cvec * cled) : cvec * cled := alloc_span tr 0 capacity vl.

Definition count_state (p : lstate -> bool) (l : list cell) : Z :=
  fold_left (fun a c => a + (if p (c_st c) then 1 else 0)) l 0.
(* a buffer is released: what still needed a destructor in it is lost *)
Definition release_bucket (b : Z) (vl : cvec * cled) : cvec * cled :=
  match get_buf (v_bufs (fst vl)) b with
  | Some l => (with_bufs (fst vl) (set_buf (v_bufs (fst vl)) b None),
               cl_grave (count_state is_live l) (count_state (lstate_eqb MovedFrom) l) (snd vl))
  | None => vl
  end.
Fixpoint shrink_loop (n : nat) (b : Z) (vl : cvec * cled) : cvec * cled :=
  match n with
  | O => vl
  | S n' => if is_alloc (v_bufs (fst vl)) b then shrink_loop n' (b + 1) (release_bucket b vl) else vl
  end.
Definition shrink_to_fit (tr : traits) (vl : cvec * cled) : cvec * cled :=
  let '(b, _, _) := bsi (v_shift (fst vl)) (vl_size vl) in
  let start := Z.max 2 (b + 2) in
  shrink_loop (Z.to_nat (max_buffers tr - start)) start vl.
(* ~ConcurrentVector *)
Definition destruct_vec (tr : traits) (vl : cvec * cled) : cled :=
  snd (release_bucket 1 (release_bucket 0 (shrink_to_fit tr (clear vl)))).

(* insertPartial(pos) + assignment of the value (copy or move); insertPartial(pos, len) + fill_n / copy_n *)
Definition insert_one (tr : traits) (k : ckind) (pos t : Z) (vl : cvec * cled) : cvec * cled * Z :=
  let e := vl_size vl in
  let vl1 := alloc_at tr e (vl_with_size (e + 1) vl) in
  let vl2 := upd_cell (c_construct KValue 0) e vl1 in
  let vl3 := move_bwd (Z.to_nat (e - pos)) e (e + 1) vl2 in
  (upd_cell (c_assign_to k t) pos vl3, pos).
Definition insert_list (tr : traits) (pos : Z) (tags : list Z) (vl : cvec * cled) : cvec * cled * Z :=
  let e := vl_size vl in
  let len := Z.of_nat (length tags) in
  let vl1 := alloc_span tr e len (vl_with_size (e + len) vl) in
  let vl2 := construct_down (length tags) (e + len) vl1 in
  let vl3 := move_bwd (Z.to_nat (e - pos)) e (e + len) vl2 in
  (assign_list tags pos vl3, pos).
(* erase(pos): move the tail down, destroy the vacated last element, return the position of the removed element *)
Definition erase_one (pos : Z) (vl : cvec * cled) : cvec * cled * Z :=
  let e := vl_size vl in
  if e =? pos then (vl, e)
  else
    let vl1 := vl_with_size (e - 1) vl in
    if e - 1 =? pos then (upd_cell c_destroy (e - 1) vl1, e - 1)
    else (upd_cell c_destroy (e - 1) (move_fwd (Z.to_nat (e - (pos + 1))) (pos + 1) pos vl1), pos).
(* erase(first, last): move the tail down, destroy [e_it, end()) downwards, return first *)
Definition erase_range (first last : Z) (vl : cvec * cled) : cvec * cled * Z :=
  let len := last - first in
  if len =? 0 then (vl, first + len)
  else
    let sz := vl_size vl in
    let vl1 := move_fwd (Z.to_nat (sz - last)) last first vl in
    let e_it := first + (sz - last) in
    let vl2 := destroy_down (Z.to_nat (sz - e_it)) sz vl1 in
    (vl_with_size (sz - len) vl2, first).
Definition assign_tags (tr : traits) (tags : list Z) (vl : cvec * cled) : cvec * cled :=
  let n := Z.of_nat (length tags) in
  construct_list KCopy tags 0 (vl_with_size n (reserve tr n (clear vl))).

(* ---- operations of the differential / of the theorems *)
Inductive ctor :=
| CDefault | CReserve (n : Z) | CSized (n : Z) | CSizedVal (n t : Z) | CRange (ts : list Z) | CCopy | CMove.

Inductive op :=
| OPush (k : ckind) (t : Z)        (* KCopy: push_back(const T&)  KMove: push_back(T&&)  KValue: emplace_back(int) *)
| OGrowBy (n : Z) | OGrowByVal (n t : Z) | OGrowByRange (ts : list Z) | OGrowByGen (n t0 : Z)
| OGtal (n : Z) | OGtalVal (n t : Z)
| OPop | OResize (n : Z) | OResizeVal (n t : Z) | OClear
| OErase (i : Z) | OEraseRange (i j : Z)
| OInsert (k : ckind) (i t : Z)    (* KCopy: insert(pos, const T&)   KMove: insert(pos, T&&) *)
| OInsertN (i n t : Z) | OInsertRange (i : Z) (ts : list Z)
| OAssignN (n t : Z) | OAssignRange (ts : list Z)
| OReserve (n : Z) | OShrink
| OSwap | OCopyAssign | OMoveAssign | OSelfAssign
| ORecreate (c : ctor)
| OIter | OAt (i : Z) | OFrontBack | OCompare.

Record world := mkW { wa : cvec; wb : cvec; wl : cled }.
Definition w_self (sel : bool) (w : world) : cvec := if sel then wb w else wa w.
Definition w_other (sel : bool) (w : world) : cvec := if sel then wa w else wb w.
Definition w_put (sel : bool) (self other : cvec) (L : cled) : world := if sel then mkW other self L else mkW self other L.

Fixpoint lex_lt (a b : list Z) : bool :=
  match a, b with
  | _, [] => false
  | [], _ :: _ => true
  | x :: r, y :: s => if x <? y then true else if y <? x then false else lex_lt r s
  end.
Fixpoint zl_eqb (a b : list Z) : bool :=
  match a, b with
  | [], [] => true
  | x :: r, y :: s => (x =? y) && zl_eqb r s
  | _, _ => false
  end.
Definition compare_code (a b : list Z) : Z :=
  let eq := zl_eqb a b in let lt := lex_lt a b in let gt := lex_lt b a in
  b2z eq + 2 * b2z (negb eq) + 4 * b2z lt + 8 * b2z (negb gt) + 16 * b2z gt + 32 * b2z (negb lt).

Definition swap_vecs (self other : cvec) : cvec * cvec := (other, self).

(* one operation on (self, other, ledger); returns the new world and the returned position / value (-1 for void) *)
Definition step (tr : traits) (w : world) (sel : bool) (o : op) : world * Z :=
  let self := w_self sel w in
  let other := w_other sel w in
  let L := wl w in
  let one (r : cvec * cled * Z) := let '(v, L', ret) := r in (w_put sel v other L', ret) in
  let one_ (r : cvec * cled) := (w_put sel (fst r) other (snd r), -1) in
  match o with
  | OPush k t => one (emplace_back tr k t (self, L))
  | OGrowBy n => one (grow_by_list tr KValue (zrepeat 0 n) (self, L))
  | OGrowByVal n t => one (grow_by_list tr KCopy (zrepeat t n) (self, L))
  | OGrowByRange ts => one (grow_by_list tr KCopy ts (self, L))
  | OGrowByGen n t0 => one (grow_by_list tr KValue (zseq t0 n) (self, L))
  | OGtal n => one (grow_to_at_least tr KValue n 0 (self, L))
  | OGtalVal n t => one (grow_to_at_least tr KCopy n t (self, L))
  | OPop => one_ (pop_back (self, L))
  | OResize n => one_ (resize tr KValue n 0 (self, L))
  | OResizeVal n t => one_ (resize tr KCopy n t (self, L))
  | OClear => one_ (clear (self, L))
  | OErase i => one (erase_one i (self, L))
  | OEraseRange i j => one (erase_range i j (self, L))
  | OInsert k i t => one (insert_one tr k i t (self, L))
  | OInsertN i n t => one (insert_list tr i (zrepeat t n) (self, L))
  | OInsertRange i ts => one (insert_list tr i ts (self, L))
  | OAssignN n t => one_ (assign_tags tr (zrepeat t n) (self, L))
  | OAssignRange ts => one_ (assign_tags tr ts (self, L))
  | OReserve n => one_ (reserve tr n (self, L))
  | OShrink => one_ (shrink_to_fit tr (self, L))
  | OSwap => (w_put sel other self L, -1)
  | OCopyAssign =>
      let L1 := use_all other L in
      one_ (assign_tags tr (abs other) (self, L1))
  | OMoveAssign =>
      let '(s1, L1) := clear (self, L) in
      (w_put sel (mkV (v_shift other) (v_bufs other) (v_size other)) (mkV (v_shift s1) (v_bufs s1) (v_size s1)) L1, -1)
  | OSelfAssign => (w, -1)
  | ORecreate c =>
      let L1 := destruct_vec tr (self, L) in
      match c with
      | CDefault => (w_put sel (ctor_default tr) other L1, -1)
      | CReserve n => (w_put sel (ctor_reserve tr n) other L1, -1)
      | CSized n => let '(v, L2) := ctor_sized tr KValue n 0 L1 in (w_put sel v other L2, -1)
      | CSizedVal n t => let '(v, L2) := ctor_sized tr KCopy n t L1 in (w_put sel v other L2, -1)
      | CRange ts => let '(v, L2) := ctor_range tr ts L1 in (w_put sel v other L2, -1)
      | CCopy => let '(v, L2) := ctor_range tr (abs other) (use_all other L1) in (w_put sel v other L2, -1)
      | CMove => (w_put sel other (mkV (v_shift other) (empty_bufs tr (v_shift other)) 0) L1, -1)
      end
  | OIter => (w, 0)
  | OAt i => (mkW (wa w) (wb w) (c_use (get_cell self i) L), c_tag (get_cell self i))
  | OFrontBack => (w, c_tag (get_bs self 0 0) * 1000 + c_tag (get_cell self (v_size self - 1)))
  | OCompare => (w, compare_code (abs self) (abs other))
  end.

Definition world0 (tr : traits) : world := mkW (ctor_default tr) (ctor_default tr) cled0.
(* both vectors destroyed at the end *)
Definition finish (tr : traits) (w : world) : cled := destruct_vec tr (wb w, destruct_vec tr (wa w, wl w)).

Fixpoint run (tr : traits) (w : world) (ops : list (bool * op)) : world :=
  match ops with
  | [] => w
  | (sel, o) :: r => run tr (fst (step tr w sel o)) r
  end.
Definition run_all (tr : traits) (ops : list (bool * op)) : cled := finish tr (run tr (world0 tr) ops).

(* capacity(): 2 * firstBucketLen_, doubled for every allocated buffer from 2 up to the first null *)
Fixpoint cap_loop (n : nat) (bs : list (option bucket)) (b cap : Z) : Z :=
  match n with
  | O => cap
  | S n' => if is_alloc bs b then cap_loop n' bs (b + 1) (cap * 2) else cap
  end.
Definition capacity (tr : traits) (v : cvec) : Z :=
  cap_loop (Z.to_nat (max_buffers tr - 2)) (v_bufs v) 2 (2 * 2 ^ v_shift v).

(* what life::Ledger<0> shows (order of Life.ledger_obs): cv cc cm ac am d live moved e0..e4 *)
Definition all_cells (v : cvec) : list cell :=
  flat_map (fun ob => match ob with Some l => l | None => [] end) (v_bufs v).
Definition count_err_l (e : lerr) (l : list lerr) : Z := Z.of_nat (length (filter (lerr_eqb e) l)).
Definition live_now (w : world) : Z :=
  count_state is_live (all_cells (wa w)) + count_state is_live (all_cells (wb w)) + cl_glive (wl w).
Definition moved_now (w : world) : Z :=
  count_state (lstate_eqb MovedFrom) (all_cells (wa w)) + count_state (lstate_eqb MovedFrom) (all_cells (wb w)) + cl_gmoved (wl w).
Definition led_obs (L : cled) (live moved : Z) : list Z :=
  let c := cl_cnt L in
  [c_value c; c_copy c; c_move c; c_cassign c; c_massign c; c_dtor c; live; moved;
   count_err_l ConstructOverLive (cl_errs L); count_err_l DoubleDestroy (cl_errs L); count_err_l DestroyUnborn (cl_errs L);
   count_err_l UseDead (cl_errs L); count_err_l UseUnborn (cl_errs L)].
Definition world_obs (w : world) : list Z := led_obs (wl w) (live_now w) (moved_now w).
Definition final_obs (L : cled) : list Z := led_obs L (cl_glive L) (cl_gmoved L).

(* ------------------------------------------------------------------------------------------------ std::vector *)
(* the reference: the same operations on lists (std::vector semantics), with the position std::vector returns *)
Definition zfirstn (n : Z) (l : list Z) := firstn (Z.to_nat n) l.
Definition zskipn (n : Z) (l : list Z) := skipn (Z.to_nat n) l.
Definition zlen (l : list Z) : Z := Z.of_nat (length l).
Definition spec_resize (n t : Z) (l : list Z) : list Z :=
  if zlen l <? n then l ++ zrepeat t (n - zlen l) else zfirstn n l.

Definition spec_step (s : list Z * list Z) (sel : bool) (o : op) : (list Z * list Z) * Z :=
  let self := if sel then snd s else fst s in
  let other := if sel then fst s else snd s in
  let put (x y : list Z) := if sel then (y, x) else (x, y) in
  match o with
  | OPush _ t => (put (self ++ [t]) other, zlen self)
  | OGrowBy n => (put (self ++ zrepeat 0 n) other, zlen self)
  | OGrowByVal n t => (put (self ++ zrepeat t n) other, zlen self)
  | OGrowByRange ts => (put (self ++ ts) other, zlen self)
  | OGrowByGen n t0 => (put (self ++ zseq t0 n) other, zlen self)
  | OGtal n => (put (spec_resize (Z.max n (zlen self)) 0 self) other, if zlen self <? n then zlen self else n - 1)
  | OGtalVal n t => (put (spec_resize (Z.max n (zlen self)) t self) other, if zlen self <? n then zlen self else n - 1)
  | OPop => (put (removelast self) other, -1)
  | OResize n => (put (spec_resize n 0 self) other, -1)
  | OResizeVal n t => (put (spec_resize n t self) other, -1)
  | OClear => (put [] other, -1)
  | OErase i => (put (zfirstn i self ++ zskipn (i + 1) self) other, i)
  | OEraseRange i j => (put (zfirstn i self ++ zskipn j self) other, i)
  | OInsert _ i t => (put (zfirstn i self ++ t :: zskipn i self) other, i)
  | OInsertN i n t => (put (zfirstn i self ++ zrepeat t n ++ zskipn i self) other, i)
  | OInsertRange i ts => (put (zfirstn i self ++ ts ++ zskipn i self) other, i)
  | OAssignN n t => (put (zrepeat t n) other, -1)
  | OAssignRange ts => (put ts other, -1)
  | OReserve _ | OShrink | OSelfAssign => (s, -1)
  | OSwap => (put other self, -1)
  | OCopyAssign => (put other other, -1)
  | OMoveAssign => (put other [], -1)
  | ORecreate c =>
      match c with
      | CDefault | CReserve _ => (put [] other, -1)
      | CSized n => (put (zrepeat 0 n) other, -1)
      | CSizedVal n t => (put (zrepeat t n) other, -1)
      | CRange ts => (put ts other, -1)
      | CCopy => (put other other, -1)
      | CMove => (put other [], -1)
      end
  | OIter => (s, 0)
  | OAt i => (s, nth (Z.to_nat i) self 0)
  | OFrontBack => (s, nth 0 self 0 * 1000 + last self 0)
  | OCompare => (s, compare_code self other)
  end.

(* preconditions of the operations (those of std::vector; sizes stay below max_n) *)
Definition op_pre (max_n : Z) (self other : list Z) (o : op) : bool :=
  let n0 := zlen self in
  match o with
  | OPush _ _ => n0 + 1 <=? max_n
  | OGrowBy n | OGrowByVal n _ | OGrowByGen n _ => (0 <=? n) && (n0 + n <=? max_n)
  | OGrowByRange ts => n0 + zlen ts <=? max_n
  | OGtal n | OGtalVal n _ => (1 <=? n) && (n <=? max_n)
  | OPop => 1 <=? n0
  | OResize n | OResizeVal n _ => (0 <=? n) && (n <=? max_n)
  | OErase i => (0 <=? i) && (i <? n0)
  | OEraseRange i j => (0 <=? i) && (i <=? j) && (j <=? n0)
  | OInsert _ i _ => (0 <=? i) && (i <=? n0) && (n0 + 1 <=? max_n)
  | OInsertN i n _ => (0 <=? i) && (i <=? n0) && (0 <=? n) && (n0 + n <=? max_n)
  | OInsertRange i ts => (0 <=? i) && (i <=? n0) && (n0 + zlen ts <=? max_n)
  | OAssignN n _ => (0 <=? n) && (n <=? max_n)
  | OAssignRange ts => zlen ts <=? max_n
  | OReserve n => (0 <=? n) && (n <=? max_n)
  | ORecreate (CReserve n) | ORecreate (CSized n) | ORecreate (CSizedVal n _) => (0 <=? n) && (n <=? max_n)
  | ORecreate (CRange ts) => zlen ts <=? max_n
  | OAt i => (0 <=? i) && (i <? n0)
  | OFrontBack => 1 <=? n0
  | _ => true
  end.

Fixpoint seq_scan (f : list Z -> list Z -> op -> bool) (s : list Z * list Z) (ops : list (bool * op)) : bool :=
  match ops with
  | [] => true
  | (sel, o) :: r =>
      f (if sel then snd s else fst s) (if sel then fst s else snd s) o && seq_scan f (fst (spec_step s sel o)) r
  end.
Definition seq_pre (max_n : Z) (ops : list (bool * op)) : bool := seq_scan (op_pre max_n) ([], []) ops.
Fixpoint spec_run (s : list Z * list Z) (ops : list (bool * op)) : list Z * list Z :=
  match ops with
  | [] => s
  | (sel, o) :: r => spec_run (fst (spec_step s sel o)) r
  end.

(* what a client can observe after every operation: both contents and the returned position *)
Fixpoint model_trace (tr : traits) (w : world) (ops : list (bool * op)) : list (list Z * list Z * Z) :=
  match ops with
  | [] => []
  | (sel, o) :: r => let '(w', ret) := step tr w sel o in (abs (wa w'), abs (wb w'), ret) :: model_trace tr w' r
  end.
Fixpoint spec_trace (s : list Z * list Z) (ops : list (bool * op)) : list (list Z * list Z * Z) :=
  match ops with
  | [] => []
  | (sel, o) :: r => let '(s', ret) := spec_step s sel o in (fst s', snd s', ret) :: spec_trace s' r
  end.
Definition contents_of (t : list (list Z * list Z * Z)) : list (list Z * list Z) := map fst t.

(* "every element constructed is destroyed exactly once": no misuse was recorded (no construction over a live
   element, no double destruction, no use of a dead element), no live element was lost with its storage, no access
   outside allocated storage, and as many destructor calls as constructions *)
Definition life_balanced (L : cled) : Prop :=
  cl_errs L = [] /\ cl_glive L = 0 /\ cl_gmoved L = 0 /\ cl_bad L = 0 /\
  c_value (cl_cnt L) + c_copy (cl_cnt L) + c_move (cl_cnt L) = c_dtor (cl_cnt L).
Definition life_balancedb (L : cled) : bool :=
  match cl_errs L with [] => true | _ => false end && (cl_glive L =? 0) && (cl_gmoved L =? 0) && (cl_bad L =? 0) &&
  (c_value (cl_cnt L) + c_copy (cl_cnt L) + c_move (cl_cnt L) =? c_dtor (cl_cnt L)).

(* ------------------------------------------------------------------------------------------------ iterators *)
(* cv::ConcurrentVectorIterator (kIteratorPreferSpeed): (bucket, bucketPtr_ - bucketStart_, bucketEnd_ - bucketStart_);
   cv::CompactCVecIterator is just the index.  detail/concurrent_vector_impl2.h *)
Definition fit : Type := Z * Z * Z.
Definition fit_of_index (shift i : Z) : fit := bsi shift i.                       (* ConVecIterBase(vec, bucketAndSubIndex(i)) *)
(* "Reconstruct index": oldIndex = ptr - start + (bool)bucket * (end - start) *)
Definition fit_index (it : fit) : Z := let '(b, s, cap) := it in s + (if b =? 0 then 0 else cap).
Definition fit_inc (it : fit) : fit :=                                            (* operator++ *)
  let '(b, s, cap) := it in
  if s + 1 =? cap then (b + 1, 0, if 1 <? b + 1 then cap * 2 else cap) else (b, s + 1, cap).
Definition fit_dec (it : fit) : fit :=                                            (* operator-- *)
  let '(b, s, cap) := it in
  if s - 1 <? 0 then (if b =? 0 then (b, s - 1, cap) else let len := if 1 <? b then Z.shiftr cap 1 else cap in (b - 1, len - 1, len))
  else (b, s - 1, cap).
Definition fit_add (shift : Z) (it : fit) (n : Z) : fit :=                        (* operator+= / operator+ *)
  let '(b, s, cap) := it in
  if (0 <=? s + n) && (s + n <? cap) then (b, s + n, cap) else fit_of_index shift (fit_index it + n).
Definition fit_diff (a b : fit) : Z :=                                            (* operator-(a, b) *)
  let '(ba, sa, ca) := a in let '(bb, sb, cb) := b in
  if ba =? bb then sa - sb else (sa + (if ba =? 0 then 0 else ca)) - (sb + (if bb =? 0 then 0 else cb)).
Definition fit_lt (a b : fit) : bool :=                                           (* operator<: vb_ first, then the pointer *)
  let '(ba, sa, _) := a in let '(bb, sb, _) := b in (ba <? bb) || ((ba =? bb) && (sa <? sb)).
Definition fit_eq (a b : fit) : bool :=                                           (* operator==: the pointers (buffers are disjoint) *)
  let '(ba, sa, _) := a in let '(bb, sb, _) := b in (ba =? bb) && (sa =? sb).
