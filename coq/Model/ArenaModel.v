(* Executable model of dispenso::ConcurrentObjectArena<T, Index = size_t> (dispenso/concurrent_object_arena.h).
   No proofs here.

   Memory: a buffer is an id (its identity = its address; ids are never reused) plus kBufferSize cells;
   a cell is [None] (raw storage, no object constructed yet) or [Some v] (an object holding v).  T() yields [dflt].
   The buffer table buffers_ is a list of entries; an entry is [None] when `new T*[n]` left it uninitialised
   (reading it is undefined behaviour -> the operation yields [None]).  buffersSize_ is the length of the table.

   Layer (b), the interleaving model of grow_by, is the small-step function [step]; layer (a), the sequential
   operations, runs that same step function for one thread ([grow]) and adds the constructors, copy/move,
   assignment, swap, indexing and destruction.

   Integers: Index arithmetic is unbounded here; the theorems carry the hypothesis that pos + sum of deltas stays
   below 2^64, where `wrap 64` is the identity. *)
From Coq Require Import ZArith List Bool.
Import ListNotations.
Local Open Scope Z_scope.

Definition cell := option Z.
Definition dflt : Z := 7.
Record buf := Buf { bid : nat; cells : list cell }.

Record arena := Arena {
  a_lg : Z;                      (* kLog2BuffSize *)
  a_bsz : Z;                     (* kBufferSize *)
  a_mask : Z;                    (* kMask *)
  a_pos : Z;                     (* pos_ *)
  a_cap : Z;                     (* allocatedSize_ *)
  a_tbl : list (option buf);     (* buffers_[0 .. buffersSize_) ; [] = nullptr *)
  a_bpos : Z;                    (* buffersPos_ *)
  a_dl : Z }.                    (* deleteLater_.size() *)

Definition a_tsz (a : arena) : Z := Z.of_nat (length (a_tbl a)).      (* buffersSize_ *)

Definition set_pos (a : arena) (p : Z) := Arena (a_lg a) (a_bsz a) (a_mask a) p (a_cap a) (a_tbl a) (a_bpos a) (a_dl a).
Definition set_cap (a : arena) (c : Z) := Arena (a_lg a) (a_bsz a) (a_mask a) (a_pos a) c (a_tbl a) (a_bpos a) (a_dl a).
Definition set_tbl (a : arena) (t : list (option buf)) := Arena (a_lg a) (a_bsz a) (a_mask a) (a_pos a) (a_cap a) t (a_bpos a) (a_dl a).

Fixpoint upd {A} (n : nat) (x : A) (l : list A) : list A :=
  match l, n with
  | [], _ => []
  | _ :: r, O => x :: r
  | y :: r, S k => y :: upd k x r
  end.

(* ---- indexing: operator[] *)
Definition buf_index (a : arena) (i : Z) : Z := Z.shiftr i (a_lg a).
Definition buf_off (a : arena) (i : Z) : Z := Z.land i (a_mask a).

Definition get_buf (a : arena) (b : Z) : option buf :=
  match nth_error (a_tbl a) (Z.to_nat b) with Some (Some bf) => Some bf | _ => None end.
(* the location of element i: (buffer identity, offset) *)
Definition addr (a : arena) (i : Z) : option (nat * Z) :=
  match get_buf a (buf_index a i) with Some bf => Some (bid bf, buf_off a i) | None => None end.
Definition get_cell (a : arena) (i : Z) : option cell :=
  match get_buf a (buf_index a i) with Some bf => nth_error (cells bf) (Z.to_nat (buf_off a i)) | None => None end.
(* value read by a[i]; None = the read is undefined *)
Definition get (a : arena) (i : Z) : option Z := match get_cell a i with Some (Some v) => Some v | _ => None end.

Definition set_buf (a : arena) (b : Z) (bf : buf) : arena := set_tbl a (upd (Z.to_nat b) (Some bf) (a_tbl a)).
Definition put (a : arena) (i v : Z) : option arena :=
  match get_buf a (buf_index a i) with
  | Some bf => Some (set_buf a (buf_index a i) (Buf (bid bf) (upd (Z.to_nat (buf_off a i)) (Some v) (cells bf))))
  | None => None
  end.

Definition contents (a : arena) : list (option Z) := map (fun i => get a (Z.of_nat i)) (seq 0 (Z.to_nat (a_pos a))).

(* ---- allocateBuffer(): the new buffer gets identity [id] *)
Definition raw_buf (a : arena) (id : nat) : buf := Buf id (repeat None (Z.to_nat (a_bsz a))).
Definition alloc_buffer (a : arena) (id : nat) : arena :=
  let e := Some (raw_buf a id) in
  if a_bpos a <? a_tsz a then
    Arena (a_lg a) (a_bsz a) (a_mask a) (a_pos a) (a_cap a) (upd (Z.to_nat (a_bpos a)) e (a_tbl a)) (a_bpos a + 1) (a_dl a)
  else
    let old := a_tsz a in
    let nsz := if old =? 0 then 2 else old * 2 in
    let t' := a_tbl a ++ repeat None (Z.to_nat (nsz - old)) in        (* memcpy of the old entries; the rest uninitialised *)
    Arena (a_lg a) (a_bsz a) (a_mask a) (a_pos a) (a_cap a) (upd (Z.to_nat (a_bpos a)) e t') (a_bpos a + 1)
          (if old =? 0 then a_dl a else a_dl a + 1).

(* ---- constructObjects: one buffer of the loop *)
Fixpoint fill_from (i lo hi : Z) (l : list cell) : list cell :=
  match l with
  | [] => []
  | c :: r => (if (lo <=? i) && (i <? hi) then Some dflt else c) :: fill_from (i + 1) lo hi r
  end.
Definition fill (bf : buf) (lo hi : Z) : buf := Buf (bid bf) (fill_from 0 lo hi (cells bf)).

(* ------------------------------------------------------------------------------------------------------------
   Layer (b): grow_by as a small-step program; one thread = one call grow_by(delta).
   Shared accesses, one per step:
     PLoadPos     oldPos = pos_.load
     PLoadCap     curSize = allocatedSize_.load; branch on oldPos + delta >= curSize
     PLock        lock_guard(resizeMutex_)        (blocked while another thread owns it)
     PLockedLoad  curSize = allocatedSize_.load
     PLockedLoop  while (oldPos + delta >= curSize) allocateBuffer();   else unlock
     PStoreCap    allocatedSize_.store(curSize + kBufferSize); curSize += kBufferSize
     PCas         compare_exchange_weak(pos_, oldPos, oldPos + delta)   (may fail spuriously: oracle integer, odd = fail)
     PConstruct b bs   buffers_.load()[b]; placement-new into [bs, bufEnd) of that buffer
     PDone        returned oldPos *)
Inductive pc := PLoadPos | PLoadCap | PLock | PLockedLoad | PLockedLoop | PStoreCap | PCas | PConstruct (b bs : Z) | PDone.
Record thr := Thr { t_pc : pc; t_delta : Z; t_old : Z; t_cur : Z }.

Record cstate := CS {
  c_ar : arena;
  c_next : nat;                          (* next fresh buffer id *)
  c_mutex : option nat;                  (* owner of resizeMutex_ *)
  c_thr : list thr;
  c_log : list (nat * (Z * Z));          (* ghost: successful CASes in order: (thread, [old, old+delta)) *)
  c_ub : bool }.                         (* an uninitialised table entry was read *)

Definition site_of (p : pc) : Z :=
  match p with PLoadPos => 1 | PLoadCap => 2 | PLock => 3 | PLockedLoad => 4 | PLockedLoop => 5 | PStoreCap => 6
             | PCas => 7 | PConstruct _ _ => 8 | PDone => 9 end.

Definition set_thr (s : cstate) (t : nat) (th : thr) : cstate :=
  CS (c_ar s) (c_next s) (c_mutex s) (upd t th (c_thr s)) (c_log s) (c_ub s).
Definition set_ar (s : cstate) (a : arena) : cstate := CS a (c_next s) (c_mutex s) (c_thr s) (c_log s) (c_ub s).
Definition set_mutex (s : cstate) (m : option nat) : cstate := CS (c_ar s) (c_next s) m (c_thr s) (c_log s) (c_ub s).

Definition step (s : cstate) (t : nat) (ch : list Z) : option (cstate * list Z * Z) :=
  if c_ub s then None else
  match nth_error (c_thr s) t with
  | None => None
  | Some th =>
    let a := c_ar s in
    let d := t_delta th in
    let ret (s' : cstate) := Some (s', ch, site_of (t_pc th)) in
    match t_pc th with
    | PLoadPos => ret (set_thr s t (Thr PLoadCap d (a_pos a) (t_cur th)))
    | PLoadCap =>
        let cur := a_cap a in
        ret (set_thr s t (Thr (if t_old th + d >=? cur then PLock else PCas) d (t_old th) cur))
    | PLock =>
        match c_mutex s with
        | Some _ => None
        | None => ret (set_thr (set_mutex s (Some t)) t (Thr PLockedLoad d (t_old th) (t_cur th)))
        end
    | PLockedLoad => ret (set_thr s t (Thr PLockedLoop d (t_old th) (a_cap a)))
    | PLockedLoop =>
        if t_old th + d >=? t_cur th then
          ret (set_thr (CS (alloc_buffer a (c_next s)) (S (c_next s)) (c_mutex s) (c_thr s) (c_log s) (c_ub s)) t
                       (Thr PStoreCap d (t_old th) (t_cur th)))
        else ret (set_thr (set_mutex s None) t (Thr PCas d (t_old th) (t_cur th)))
    | PStoreCap =>
        ret (set_thr (set_ar s (set_cap a (t_cur th + a_bsz a))) t (Thr PLockedLoop d (t_old th) (t_cur th + a_bsz a)))
    | PCas =>
        let '(spur, ch') := match ch with c :: r => (Z.odd c, r) | [] => (false, []) end in
        if (a_pos a =? t_old th) && negb spur then
          Some (set_thr (CS (set_pos a (t_old th + d)) (c_next s) (c_mutex s) (c_thr s)
                            (c_log s ++ [(t, (t_old th, t_old th + d))]) (c_ub s)) t
                        (Thr (PConstruct (buf_index a (t_old th)) (buf_off a (t_old th))) d (t_old th) (t_cur th)),
                ch', site_of PCas)
        else Some (set_thr s t (Thr PLoadCap d (a_pos a) (t_cur th)), ch', site_of PCas)
    | PConstruct b bs =>
        let e := t_old th + d in
        let endB := buf_index a e in
        match get_buf a b with
        | None => ret (CS (c_ar s) (c_next s) (c_mutex s) (c_thr s) (c_log s) true)
        | Some bf =>
            let bufEnd := if b =? endB then buf_off a e else a_bsz a in
            ret (set_thr (set_ar s (set_buf a b (fill bf bs bufEnd))) t
                         (Thr (if b =? endB then PDone else PConstruct (b + 1) 0) d (t_old th) (t_cur th)))
        end
    | PDone => None
    end
  end.

Definition is_done (th : thr) : bool := match t_pc th with PDone => true | _ => false end.
Definition finished (s : cstate) : bool := forallb is_done (c_thr s).
(* threads that can take a step now (ascending) *)
Definition runnable (s : cstate) (th : thr) : bool :=
  match t_pc th with PDone => false | PLock => match c_mutex s with None => true | Some _ => false end | _ => true end.
Definition cands (s : cstate) : list nat :=
  if c_ub s then [] else filter (fun t => match nth_error (c_thr s) t with Some th => runnable s th | None => false end)
                                (seq 0 (length (c_thr s))).

Definition init_state (a : arena) (nid : nat) (deltas : list Z) : cstate :=
  CS a nid None (map (fun d => Thr PLoadPos d 0 0) deltas) [] false.

(* run an explicit schedule: entries that cannot step (blocked, finished, no such thread) are skipped.
   Every entry is (thread, oracle integer for that step) *)
Fixpoint run_sched (s : cstate) (sched : list (nat * Z)) : cstate :=
  match sched with
  | [] => s
  | (t, c) :: r => match step s t [c] with Some (s', _, _) => run_sched s' r | None => run_sched s r end
  end.

(* what the finished/claimed calls returned: (thread, [ret, ret + delta)) *)
Definition claimed (th : thr) : bool := match t_pc th with PConstruct _ _ | PDone => true | _ => false end.
Definition range_of (th : thr) : Z * Z := (t_old th, t_old th + t_delta th).

(* ------------------------------------------------------------------------------------------------------------
   Layer (a): sequential operations *)
Fixpoint run_thread (fuel : nat) (s : cstate) (t : nat) : option cstate :=
  match fuel with
  | O => None
  | S f =>
      match nth_error (c_thr s) t with
      | None => None
      | Some th =>
          if is_done th then Some s else
          match step s t [] with Some (s', _, _) => run_thread f s' t | None => None end
      end
  end.

Definition grow_fuel (a : arena) (delta : Z) : nat := Z.to_nat (16 + 4 * ((a_pos a + delta) / a_bsz a)).

(* grow_by(delta) with no other thread around: (arena, returned index, next fresh id); None = undefined / does not return *)
Definition grow (a : arena) (delta : Z) (nid : nat) : option (arena * Z * nat) :=
  match run_thread (grow_fuel a delta) (init_state a nid [delta]) 0 with
  | Some s => if c_ub s then None else
              match c_thr s with th :: _ => Some (c_ar s, t_old th, c_next s) | [] => None end
  | None => None
  end.

(* detail::log2i and the constructor's rounding of minBuffSize to a power of two *)
Definition log2i (v : Z) : Z := Z.log2 v.
Definition ctor_lg (m : Z) : Z := log2i m + (if Z.shiftl 1 (log2i m) =? m then 0 else 1).

Definition new_arena (m init : Z) (nid : nat) : option (arena * nat) :=
  let lg := ctor_lg m in
  let a0 := Arena lg (Z.shiftl 1 lg) (Z.shiftl 1 lg - 1) 0 0 [] 0 0 in
  let a1 := set_cap (alloc_buffer a0 nid) (Z.shiftl 1 lg) in
  if init >? 0 then match grow a1 init (S nid) with Some (a2, _, n2) => Some (a2, n2) | None => None end
  else Some (a1, S nid).

(* copy constructor: newBuffers = new T*[buffersSize_]; for (i = 0; i < buffersPos_; ++i) memcpy(new buffer, otherBuffers[i]).
   Only the entries of the buffers in use are read and written; the rest of the new table stays uninitialised.
   (Before the fix commit the loop ran to buffersSize_ and read never-written entries.) *)
Fixpoint copy_entries (l : list (option buf)) (nid : nat) : option (list (option buf)) :=
  match l with
  | [] => Some []
  | None :: _ => None                                                   (* read of an uninitialised pointer *)
  | Some bf :: r => match copy_entries r (S nid) with
                    | Some r' => Some (Some (Buf nid (cells bf)) :: r')
                    | None => None
                    end
  end.
Definition copy_ctor (o : arena) (nid : nat) : option (arena * nat) :=
  if a_bpos o >? a_tsz o then None else                                 (* would index past the table *)
  let used := Z.to_nat (a_bpos o) in
  match copy_entries (firstn used (a_tbl o)) nid with
  | Some t => Some (Arena (a_lg o) (a_bsz o) (a_mask o) (a_pos o) (a_cap o) (t ++ repeat None (length (a_tbl o) - used)) (a_bpos o) 0,
                    (nid + used)%nat)
  | None => None
  end.

Definition zero_arena : arena := Arena 0 0 0 0 0 [] 0 0.
(* destructor: frees buffers [0, buffersPos_) -- returns their ids *)
Definition destroy (a : arena) : list nat :=
  flat_map (fun e => match e with Some bf => [bid bf] | None => [] end) (firstn (Z.to_nat (a_bpos a)) (a_tbl a)).

(* ---- a few named arenas, each behind its own slot *)
Inductive op :=
| ONew (s : nat) (m init : Z)
| OGrow (s : nat) (d : Z)
| OWrite (s : nat) (i v : Z)
| ORead (s : nat)
| OCopy (d s : nat)          (* slot d (empty) = copy-construct from slot s *)
| OAssign (d s : nat)        (* slot d = slot s (copy assignment) *)
| OMove (d s : nat)          (* slot d (empty) = move-construct from slot s *)
| OMoveAssign (d s : nat)    (* slot d = std::move(slot s) *)
| OSwap (x y : nat)
| ODestroy (s : nat).

Record world := World { w_slots : list (option arena); w_next : nat; w_freed : list nat }.
Definition slot (w : world) (s : nat) : option arena := match nth_error (w_slots w) s with Some (Some a) => Some a | _ => None end.
Definition slot_empty (w : world) (s : nat) : bool := match nth_error (w_slots w) s with Some None => true | _ => false end.
Definition set_slot (w : world) (s : nat) (a : option arena) (n : nat) : world := World (upd s a (w_slots w)) n (w_freed w).

Definition digest_step (acc : Z * Z) (v : option Z) : Z * Z :=
  let '(i, h) := acc in (i + 1, (h + i * match v with Some x => x | None => -1 end) mod 1000003).
Definition digest (a : arena) : Z := snd (fold_left digest_step (contents a) (1, 0)).
Definition shape (a : arena) : list Z := [a_pos a; a_cap a; a_bpos a; a_tsz a].
Definition vals (a : arena) : list Z := map (fun v => match v with Some x => x | None => -1 end) (contents a).
Definition full (a : arena) : list Z := shape a ++ vals a.

(* result: new world and what the harness prints for the operation; None = undefined behaviour (or a misuse the
   generator never produces) *)
Definition exec_op (w : world) (o : op) : option (world * list Z) :=
  match o with
  | ONew s m init =>
      if slot_empty w s then
        match new_arena m init (w_next w) with
        | Some (a, n) => Some (set_slot w s (Some a) n, shape a ++ [digest a])
        | None => None
        end
      else None
  | OGrow s d =>
      match slot w s with
      | Some a => match grow a d (w_next w) with
                  | Some (a', r, n) => Some (set_slot w s (Some a') n, r :: shape a' ++ [1; 1; digest a'])
                  | None => None
                  end
      | None => None
      end
  | OWrite s i v =>
      match slot w s with
      | Some a => match put a i v with Some a' => Some (set_slot w s (Some a') (w_next w), [digest a']) | None => None end
      | None => None
      end
  | ORead s => match slot w s with Some a => Some (w, full a) | None => None end
  | OCopy d s =>
      match slot w s with
      | Some a => if slot_empty w d then
                    match copy_ctor a (w_next w) with
                    | Some (c, n) => Some (set_slot w d (Some c) n, full c ++ full a)
                    | None => None
                    end
                  else None
      | None => None
      end
  | OAssign d s =>
      match slot w s, slot w d with
      | Some a, Some old =>
          match copy_ctor a (w_next w) with
          | Some (c, n) =>       (* swap(this, copy); ~copy *)
              let w1 := World (upd d (Some c) (w_slots w)) n (w_freed w ++ destroy old) in
              Some (w1, full c ++ match slot w1 s with Some a' => full a' | None => [] end)
          | None => None
          end
      | _, _ => None
      end
  | OMove d s =>
      match slot w s with
      | Some a => if slot_empty w d then
                    Some (set_slot (set_slot w d (Some a) (w_next w)) s (Some zero_arena) (w_next w), full a ++ full zero_arena)
                  else None
      | None => None
      end
  | OMoveAssign d s | OSwap d s =>
      match slot w s, slot w d with
      | Some a, Some b => Some (set_slot (set_slot w d (Some a) (w_next w)) s (Some b) (w_next w),
                                full a ++ full b)
      | _, _ => None
      end
  | ODestroy s =>
      match slot w s with
      | Some a => Some (World (upd s None (w_slots w)) (w_next w) (w_freed w ++ destroy a), [])
      | None => None
      end
  end.

Definition init_world (nslots : nat) : world := World (repeat None nslots) 0 [].
