(* Interleaving model of detail::CompletionEventImpl (Linux futex variant), CompletionEvent and Latch
   (dispenso/detail/completion_event_impl.h, completion_event.h, latch.h) at the granularity of the
   DISPENSO_VERIF_POINT hooks: one step = one atomic access or one futex call.  Executable; no proofs. *)
From Coq Require Import ZArith List Bool.
From DV Require Import Base.MachInt Base.Sched.
Import ListNotations.
Local Open Scope Z_scope.

Inductive op :=
| ONotify (v : Z)            (* CompletionEventImpl::notify(v) *)
| OWait (v : Z)              (* CompletionEventImpl::wait(v) *)
| OWaitFor (v : Z) (pos : bool)   (* waitFor(v, rel): pos = (rel > 0) *)
| OCountDown (n : Z)         (* Latch::count_down(n) *)
| OTryWait                   (* Latch::try_wait *)
| OArrive                    (* Latch::arrive_and_wait *)
| OCompleted                 (* CompletionEvent::completed *)
| OReset.                    (* CompletionEvent::reset *)

Inductive pc :=
| PStart
| PNotifyStore (v : Z) | PNotifyWake
| PWaitLoad (v : Z) (kind : Z)          (* kind: 0 = wait(v), 1 = waitFor loop (timed), 2 = the wait inside arrive_and_wait *)
| PWaitFutex (v cur : Z) (kind : Z)
| PBlocked (v : Z) (kind : Z)
| PWoken (v : Z) (kind : Z)
| PWfLoad0 (v : Z) (pos : bool)
| PCdSub (n : Z) | PTwLoad | PArrSub | PComplLoad | PResetStore
| PDone.

Record thread := TH { tpc : pc; prog : list op; res : list (Z * Z) }.   (* res: (tag, value), newest first *)
Record state := ST { word : Z; timeouts : bool; threads : list thread }.

(* site ids = positions in props/C21.py SITES *)
Definition s_start := 0.      Definition s_notify_store := 1. Definition s_futex_wake := 2.
Definition s_wait_load := 3.  Definition s_futex_wait := 4.   Definition s_futex_woken := 5.
Definition s_futex_timeout := 6. Definition s_cd_sub := 7.    Definition s_tw_load := 8.
Definition s_arr_sub := 9.    Definition s_compl_load := 10.  Definition s_reset_store := 11.
Definition s_wf_load0 := 12.  Definition s_wf_load := 13.

(* result tags *)
Definition r_wait := 1. Definition r_waitfor := 2. Definition r_trywait := 3. Definition r_completed := 4.

Definition entry (o : op) : pc :=
  match o with
  | ONotify v => PNotifyStore v
  | OWait v => PWaitLoad v 0
  | OWaitFor v pos => PWfLoad0 v pos
  | OCountDown n => PCdSub n
  | OTryWait => PTwLoad
  | OArrive => PArrSub
  | OCompleted => PComplLoad
  | OReset => PResetStore
  end.

(* advance to the next operation of the thread's program *)
Definition next (th : thread) : thread :=
  match prog th with
  | [] => TH PDone [] (res th)
  | o :: r => TH (entry o) r (res th)
  end.
Definition goto (th : thread) (p : pc) : thread := TH p (prog th) (res th).
Definition logr (th : thread) (tag v : Z) : thread := TH (tpc th) (prog th) ((tag, v) :: res th).
(* result logged when a wait loop of the given kind observes completion: wait(v) logs the word it returned on
   (the harness reads the status word right after wait() returns, before any other thread can run) *)
Definition logk (th : thread) (kind w : Z) : thread :=
  if kind =? 2 then th else logr th (if kind =? 1 then r_waitfor else r_wait) (if kind =? 1 then 1 else w).

Fixpoint set_nth {A} (l : list A) (n : nat) (x : A) : list A :=
  match l, n with
  | [], _ => []
  | _ :: r, O => x :: r
  | y :: r, S m => y :: set_nth r m x
  end.

Definition wake_all (ths : list thread) : list thread :=
  map (fun th => match tpc th with PBlocked v kind => goto th (PWoken v kind) | _ => th end) ths.

Definition sub32 (a b : Z) : Z := wrap_s 32 (a - wrap_s 32 b).

Definition step (s : state) (t : nat) (ch : list Z) : option (state * list Z * Z) :=
  match nth_error (threads s) t with
  | None => None
  | Some th =>
      let w := word s in
      let upd (w' : Z) (th' : thread) (site : Z) := Some (ST w' (timeouts s) (set_nth (threads s) t th'), ch, site) in
      match tpc th with
      | PStart => upd w (next th) s_start
      | PNotifyStore v => upd v (goto th PNotifyWake) s_notify_store
      | PNotifyWake =>
          Some (ST w (timeouts s) (set_nth (wake_all (threads s)) t (next th)), ch, s_futex_wake)
      | PWaitLoad v kind =>
          if w =? v then upd w (next (logk th kind w)) (if kind =? 1 then s_wf_load else s_wait_load)
          else upd w (goto th (PWaitFutex v w kind)) (if kind =? 1 then s_wf_load else s_wait_load)
      | PWaitFutex v cur kind =>
          if w =? cur then upd w (goto th (PBlocked v kind)) s_futex_wait
          else upd w (goto th (PWaitLoad v kind)) s_futex_wait
      | PBlocked v kind =>
          if (kind =? 1) && timeouts s then upd w (next (logr th r_waitfor 0)) s_futex_timeout else None
      | PWoken v kind => upd w (goto th (PWaitLoad v kind)) s_futex_woken
      | PWfLoad0 v pos =>
          if w =? v then upd w (next (logr th r_waitfor 1)) s_wf_load0
          else if pos then upd w (goto th (PWaitLoad v 1)) s_wf_load0
          else upd w (next (logr th r_waitfor 0)) s_wf_load0
      | PCdSub n =>
          if w =? wrap_s 32 n then upd (sub32 w n) (goto th (PNotifyStore 0)) s_cd_sub
          else upd (sub32 w n) (next th) s_cd_sub
      | PTwLoad => upd w (next (logr th r_trywait (b2z (w =? 0)))) s_tw_load
      | PArrSub =>
          if 1 <? w then upd (sub32 w 1) (goto th (PWaitLoad 0 2)) s_arr_sub
          else upd (sub32 w 1) (goto th (PNotifyStore 0)) s_arr_sub
      | PComplLoad => upd w (next (logr th r_completed (b2z (negb (w =? 0))))) s_compl_load
      | PResetStore => upd 0 (next th) s_reset_store
      | PDone => None
      end
  end.

Definition runnable_pc (p : pc) : bool :=
  match p with PDone | PBlocked _ _ => false | _ => true end.
Definition timed_blocked_pc (p : pc) : bool :=
  match p with PBlocked _ k => k =? 1 | _ => false end.

Fixpoint tids_where (f : pc -> bool) (ths : list thread) (i : nat) : list nat :=
  match ths with
  | [] => []
  | th :: r => if f (tpc th) then i :: tids_where f r (S i) else tids_where f r (S i)
  end.

Definition cands (s : state) : list nat :=
  tids_where runnable_pc (threads s) 0 ++ (if timeouts s then tids_where timed_blocked_pc (threads s) 0 else []).

Definition finished (s : state) : bool :=
  forallb (fun th => match tpc th with PDone => true | _ => false end) (threads s).

Definition init (w0 : Z) (tmo : bool) (progs : list (list op)) : state :=
  ST w0 tmo (map (fun p => TH PStart p []) progs).

Definition run_event (fuel : nat) (w0 : Z) (tmo : bool) (progs : list (list op)) (sched : list Z) :=
  run step cands finished fuel (init w0 tmo progs) sched [].

(* the value a blocked/waiting thread is waiting for *)
Definition wait_target (p : pc) : option Z :=
  match p with
  | PBlocked v _ => Some v
  | _ => None
  end.
