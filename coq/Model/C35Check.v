(* Lockstep judge for C35: the implementation's trace under harness/vsched.h vs. Model/SpscModel.v run on the same
   schedule, plus the executable form of the property evaluated on what the implementation did. *)
From Coq Require Import ZArith List Bool.
From DV Require Import Base.MachInt Base.Corr Base.Sched Base.Life Model.SpscModel.
Import ListNotations.
Local Open Scope Z_scope.

Record scase := SC {
  c_k : Z;                           (* kBufferSize reported by the implementation *)
  c_fuel : nat; c_p0 : list op; c_p1 : list op; c_sched : list Z;
  i_trace : list (Z * Z);            (* implementation: (tid, site) per step *)
  i_results : list (list (Z * Z));   (* per thread, oldest first *)
  i_head : Z; i_tail : Z;
  i_slots : list (Z * Z);            (* per slot: (ledger state code, tag when alive else 0) *)
  i_errs : Z;                        (* lifetime misuses counted by the ledger during the run *)
  i_dtor_live : Z;                   (* after ~SPSCRingBuffer: slots still needing a destructor; -1 = run did not finish *)
  i_dtor_errs : Z;                   (* misuses counted after the destructor *)
  i_status : Z }.                    (* 0 done 1 deadlock 2 budget *)

(* ---------------- the property, evaluated on the implementation's output only ---------------- *)
Definition ivals (tag : Z) (r : list (Z * Z)) : list Z := map snd (filter (fun x => fst x =? tag) r).

Fixpoint prefixb (a b : list Z) : bool :=
  match a, b with
  | [], _ => true
  | x :: a', y :: b' => (x =? y) && prefixb a' b'
  | _ :: _, [] => false
  end.
Fixpoint memb (x : Z) (l : list Z) : bool := match l with [] => false | y :: r => (x =? y) || memb x r end.
Fixpoint nodupb (l : list Z) : bool := match l with [] => true | x :: r => negb (memb x r) && nodupb r end.

Fixpoint next_site (t : Z) (tr : list (Z * Z)) : option Z :=
  match tr with [] => None | (t', s) :: r => if t' =? t then Some s else next_site t r end.

(* walk along the implementation's trace with the abstract counters cw/cr = elements whose write/read was committed by a
   tail/head store, pw/pr = payload writes/reads not yet committed.  Checks, model-independently:
   try_push is accepted iff fewer than k-1 elements are committed-and-unreleased at its head load; try_pop is accepted
   iff at least one committed element is unreleased at its tail load; constructed-and-unreleased elements never exceed
   k-1; reads never overtake committed writes. *)
Fixpoint obs_ok (k : Z) (tr : list (Z * Z)) (cw cr pw pr : Z) : bool :=
  match tr with
  | [] => true
  | (t, site) :: r =>
      let occ := cw - cr in
      let chk :=
        if site =? s_push_head_load then
          match next_site t r with None => true | Some n => Bool.eqb (n =? s_push_data_write) (occ <? k - 1) end
        else if site =? s_pop_tail_load then
          match next_site t r with None => true | Some n => Bool.eqb (n =? s_pop_data_read) (0 <? occ) end
        else true in
      let '(cw', cr', pw', pr') :=
        if (site =? s_push_data_write) || (site =? s_pushb_data_write) then (cw, cr, pw + 1, pr)
        else if (site =? s_push_tail_store) || (site =? s_pushb_tail_store) then (cw + pw, cr, 0, pr)
        else if (site =? s_pop_data_read) || (site =? s_popb_data_read) then (cw, cr, pw, pr + 1)
        else if (site =? s_pop_head_store) || (site =? s_popb_head_store) then (cw, cr + pr, pw, 0)
        else (cw, cr, pw, pr) in
      chk && (cw' + pw' - cr' <=? k - 1) && (cr' + pr' <=? cw') && obs_ok k r cw' cr' pw' pr'
  end.

(* ---- second walk: operation results against the abstract occupancy, model-independently ----
   For every try_push_batch / try_pop_batch the number of payload accesses that follow its second index load must be exactly
   min(requested, free space / available elements as observed at that load) (free = capacity() - occupancy, with
   occupancy = committed writes - committed reads); size() must return committed writes at its tail load minus committed
   reads at its head load; empty() / full() must report occupancy = 0 / = capacity().  Requested counts come from the scripts,
   results from the implementation's result log. *)
Definition getl (l : list (list Z)) (t : Z) : list Z := nth (Z.to_nat t) l [].
Fixpoint setl (l : list (list Z)) (t : nat) (x : list Z) : list (list Z) :=
  match l, t with
  | [], _ => []
  | _ :: r, O => x :: r
  | y :: r, S m => y :: setl r m x
  end.
Definition popl (l : list (list Z)) (t : Z) : list (list Z) := setl l (Z.to_nat t) (tl (getl l t)).

(* number of entries [site] among thread t's next entries, ignoring its [skip] entries, up to its first other entry;
   the bool tells whether such an other entry was seen (the run is complete) *)
Fixpoint count_run (t site skip : Z) (tr : list (Z * Z)) : Z * bool :=
  match tr with
  | [] => (0, false)
  | (t', s) :: r =>
      if t' =? t then
        if s =? site then let '(n, b) := count_run t site skip r in (n + 1, b)
        else if s =? skip then count_run t site skip r
        else (0, true)
      else count_run t site skip r
  end.

Definition batch_lens (p : list op) : list Z :=
  concat (map (fun o => match o with OPushBatch vs => [Z.of_nat (length vs)] | _ => [] end) p).
Definition popbatch_ms (p : list op) : list Z :=
  concat (map (fun o => match o with OPopBatch m => [m] | _ => [] end) p).

Fixpoint walk2 (k : Z) (fin : bool) (tr : list (Z * Z)) (cw cr pw pr : Z)
               (bl ql szr emr fur shd : list (list Z)) : bool :=
  match tr with
  | [] => true
  | (t, site) :: r =>
      let occ := cw - cr in
      let next (cw' cr' pw' pr' : Z) (bl' ql' szr' emr' fur' shd' : list (list Z)) :=
        walk2 k fin r cw' cr' pw' pr' bl' ql' szr' emr' fur' shd' in
      if site =? s_pushb_head_load then
        let ok := match getl bl t with
                  | len :: _ => let '(n, closed) := count_run t s_pushb_data_write (-1) r in
                                negb (closed || fin) || (n =? Z.max 0 (Z.min len (k - 1 - occ)))
                  | [] => true end in
        ok && next cw cr pw pr (popl bl t) ql szr emr fur shd
      else if site =? s_popb_tail_load then
        let ok := match getl ql t with
                  | m :: _ => let '(n, closed) := count_run t s_popb_data_read s_popb_data_destroy r in
                              negb (closed || fin) || (n =? Z.max 0 (Z.min m occ))
                  | [] => true end in
        ok && next cw cr pw pr bl (popl ql t) szr emr fur shd
      else if site =? s_size_head_load then next cw cr pw pr bl ql szr emr fur (setl shd (Z.to_nat t) [cr])
      else if site =? s_size_tail_load then
        let ok := match getl szr t, getl shd t with v :: _, h :: _ => v =? cw - h | _, _ => true end in
        ok && next cw cr pw pr bl ql (popl szr t) emr fur shd
      else if site =? s_empty_loads then
        let ok := match getl emr t with v :: _ => v =? b2z (occ =? 0) | [] => true end in
        ok && next cw cr pw pr bl ql szr (popl emr t) fur shd
      else if site =? s_full_loads then
        let ok := match getl fur t with v :: _ => v =? b2z (occ =? k - 1) | [] => true end in
        ok && next cw cr pw pr bl ql szr emr (popl fur t) shd
      else if (site =? s_push_data_write) || (site =? s_pushb_data_write) then next cw cr (pw + 1) pr bl ql szr emr fur shd
      else if (site =? s_push_tail_store) || (site =? s_pushb_tail_store) then next (cw + pw) cr 0 pr bl ql szr emr fur shd
      else if (site =? s_pop_data_read) || (site =? s_popb_data_read) then next cw cr pw (pr + 1) bl ql szr emr fur shd
      else if (site =? s_pop_head_store) || (site =? s_popb_head_store) then next cw (cr + pr) pw 0 bl ql szr emr fur shd
      else next cw cr pw pr bl ql szr emr fur shd
  end.

(* the slots from head to tail as the implementation left them *)
Fixpoint iring (sl : list (Z * Z)) (k i : Z) (n : nat) : list (Z * Z) :=
  match n with O => [] | S m => nth (Z.to_nat i) sl (0, 0) :: iring sl k ((i + 1) mod k) m end.

Definition impl_contents (c : scase) : list (Z * Z) :=
  iring (i_slots c) (c_k c) (i_head c) (Z.to_nat ((i_tail c - i_head c) mod c_k c)).

Definition live_code (x : Z) : bool := (x =? 1) || (x =? 2).

Definition property_holds (c : scase) : bool :=
  let pushed := ivals r_push (nth 0 (i_results c) []) in
  let popped := ivals r_pop (nth 1 (i_results c) []) in
  let cont := impl_contents c in
  prefixb popped pushed                                                   (* delivered in push order, nothing invented *)
  && nodupb popped                                                        (* no element delivered twice (tags are unique) *)
  && (Z.of_nat (length pushed) - Z.of_nat (length popped) <=? c_k c - 1)  (* bounded *)
  && obs_ok (c_k c) (i_trace c) 0 0 0 0
  && walk2 (c_k c) (i_status c =? 0) (i_trace c) 0 0 0 0
       [batch_lens (c_p0 c); batch_lens (c_p1 c)] [popbatch_ms (c_p0 c); popbatch_ms (c_p1 c)]
       (map (ivals r_size) (i_results c)) (map (ivals r_empty) (i_results c)) (map (ivals r_full) (i_results c)) [[]; []]
  && forallb (fun x => (0 <=? snd x) && (snd x <=? c_k c - 1)) (filter (fun x => fst x =? r_size) (concat (i_results c)))
  && (i_errs c =? 0)
  && (negb (i_status c =? 0)
      || (list_eqb Z.eqb pushed (popped ++ map snd cont)                  (* quiescent: pushed = popped ++ contents *)
          && forallb (fun x => fst x =? 1) cont
          && (Z.of_nat (length (filter (fun x => live_code (fst x)) (i_slots c))) =? Z.of_nat (length cont))
          && (i_dtor_live c =? 0) && (i_dtor_errs c =? 0))).

(* ---------------- agreement with the model ---------------- *)
Definition model_slots (s : state) : list (Z * Z) :=
  map (fun i => let st := lget (led s) i in (lstate_code st, match st with Alive => slots s i | _ => 0 end)) (range (K s)).

(* misuses visible in the implementation's ledger trace of the slot addresses: reads of dead slots leave no event of their own *)
Definition slot_errs (l : ledger) : Z :=
  Z.of_nat (length (filter (fun e => match fst e with UseDead | UseUnborn => false | _ => true end) (l_errs l))).

Definition agrees (c : scase) : bool :=
  let '(s, tr, st) := run_spsc (c_fuel c) (c_k c) (c_p0 c) (c_p1 c) (c_sched c) in
  list_eqb zpair_eqb tr (i_trace c) && (status_code st =? i_status c)
  && list_eqb (list_eqb zpair_eqb) [rev (res (th0 s)); rev (res (th1 s))] (i_results c)
  && (head s =? i_head c) && (tail s =? i_tail c)
  && list_eqb zpair_eqb (model_slots s) (i_slots c)
  && (slot_errs (led s) =? i_errs c)
  && (negb (i_status c =? 0)
      || (let d := dtor s in
          (Z.of_nat (length (filter (fun i => is_live (lget d i)) (range (K s)))) =? i_dtor_live c)
          && (slot_errs d =? i_dtor_errs c))).

(* 0 agree & property holds; 1 differ, property holds; 2 property fails on the implementation's output *)
Definition judge_spsc (c : scase) : Z :=
  if negb (property_holds c) then 2 else if agrees c then 0 else 1.
