(* C44 -- hand-written executable model of dispenso's bit-math helpers (detail/math.h, platform.h).
   Definitions only; proofs are in Proofs/C44Proofs.v, the tie to the regenerated source in GenTie/BitMathGenTie.v.
   All values are Z; C++ unsigned 64/32-bit arithmetic is [wrap 64]/[wrap 32] (Base/MachInt.v). *)
From Coq Require Import ZArith List Bool.
From DV Require Import Base.MachInt.
Import ListNotations.
Local Open Scope Z_scope.

(* ---------------------------------------------------------------- nextPow2 (math.h:22) *)
(* v |= v >> k *)
Definition smear (k x : Z) : Z := Z.lor x (Z.shiftr x k).
Definition smear_all (x : Z) : Z := smear 32 (smear 16 (smear 8 (smear 4 (smear 2 (smear 1 x))))).
Definition nextPow2_m (v : Z) : Z := wrap 64 (smear_all (wrap 64 (v - 1)) + 1).

(* ---------------------------------------------------------------- log2const (math.h:35 and :50) *)
(* one loop body: if (v & b[i]) { v >>= S[i]; r |= S[i]; }   state = (r, v) *)
Definition l2step (mask s : Z) (st : Z * Z) : Z * Z :=
  let '(r, v) := st in
  if negb (Z.land v mask =? 0) then (Z.lor r s, Z.shiftr v s) else (r, v).
(* the tables of the source, highest index first (the loop counts i down) *)
Definition l2_table64 : list (Z * Z) :=
  [(18446744069414584320, 32); (4294901760, 16); (65280, 8); (240, 4); (12, 2); (2, 1)].
Definition l2_table32 : list (Z * Z) := [(4294901760, 16); (65280, 8); (240, 4); (12, 2); (2, 1)].
Definition l2run (tbl : list (Z * Z)) (st : Z * Z) : Z * Z :=
  fold_left (fun st ms => l2step (fst ms) (snd ms) st) tbl st.
Definition log2const64_m (v : Z) : Z := fst (l2run l2_table64 (0, v)).
Definition log2const32_m (v : Z) : Z := fst (l2run l2_table32 (0, v)).

(* ---------------------------------------------------------------- alignToCacheLine (platform.h:307) *)
Definition cacheLine : Z := 64.
Definition alignToCacheLine_m (val : Z) : Z :=
  let kMask := wrap 64 (cacheLine - 1) in
  Z.land (wrap 64 (val + kMask)) (wrap 64 (Z.lnot kMask)).

(* ---------------------------------------------------------------- compiler intrinsics: the model IS the specification *)
(* log2(uint64_t)/log2(uint32_t) = bsr: index of the highest set bit (undefined for 0) *)
Definition log2_m (v : Z) : Z := Z.log2 v.
(* countTrailingZeros = index of the lowest set bit, searched upwards from [i]; 64 when there is none (C++: undefined) *)
Fixpoint ctz_from (fuel : nat) (i v : Z) : Z :=
  match fuel with
  | O => i
  | S f => if Z.testbit v i then i else ctz_from f (i + 1) v
  end.
Definition ctz_m (v : Z) : Z := ctz_from 64 0 v.
(* countSetBits = number of positions 0..63 whose bit is set *)
Definition popcount_m (v : Z) : Z :=
  fold_left (fun acc i => acc + b2z (Z.testbit v (Z.of_nat i))) (seq 0 64) 0.

(* ---------------------------------------------------------------- alignedMalloc / alignedFree (platform.h:226, :244) *)
(* byte-addressed memory; a 64-bit word is 8 little-endian bytes *)
Definition mem := Z -> Z.
Definition upd (m : mem) (a b : Z) : mem := fun x => if x =? a then b else m x.
Fixpoint encode (n : nat) (v : Z) : list Z :=
  match n with O => [] | S k => (v mod 256) :: encode k (v / 256) end.
Fixpoint decode (l : list Z) : Z :=
  match l with [] => 0 | b :: r => b + 256 * decode r end.
Fixpoint store_bytes (m : mem) (a : Z) (l : list Z) : mem :=
  match l with [] => m | b :: r => store_bytes (upd m a b) (a + 1) r end.
Fixpoint load_bytes (m : mem) (a : Z) (n : nat) : list Z :=
  match n with O => [] | S k => m a :: load_bytes m (a + 1) k end.
Definition store64 (m : mem) (a v : Z) : mem := store_bytes m a (encode 8 v).
Definition load64 (m : mem) (a : Z) : Z := decode (load_bytes m a 8).

(* alignment = std::max(alignment, sizeof(uintptr_t)) *)
Definition am_align (alignment : Z) : Z := Z.max alignment 8.
(* argument of ::malloc: bytes + alignment (size_t arithmetic) *)
Definition am_request (bytes alignment : Z) : Z := wrap 64 (bytes + am_align alignment).
(* base += alignment; base &= ~mask   with p the value ::malloc returned *)
Definition am_base (p alignment : Z) : Z :=
  let a := am_align alignment in
  let mask := wrap 64 (a - 1) in
  Z.land (wrap 64 (p + a)) (wrap 64 (Z.lnot mask)).
(* address of the recovery word: base - sizeof(uintptr_t) *)
Definition am_recovery (p alignment : Z) : Z := wrap 64 (am_base p alignment - 8).
(* alignedMalloc given ::malloc's result p: new memory and returned pointer *)
Definition alignedMalloc_m (m : mem) (p alignment : Z) : mem * Z :=
  (store64 m (am_recovery p alignment) p, am_base p alignment).
(* alignedFree: the pointer handed to ::free (None = early return for nullptr) *)
Definition alignedFree_m (m : mem) (ptr : Z) : option Z :=
  if ptr =? 0 then None else Some (load64 m (wrap 64 (ptr - 8))).
