(* C09 judge: lockstep agreement + "after stop-all; wakeAll nobody is left parked" evaluated on the implementation's output. *)
From Coq Require Import ZArith List Bool Arith.
From DV Require Import Base.MachInt Base.Corr Base.Sched Model.WakeModel Model.WakeCheck.
Import ListNotations.
Local Open Scope Z_scope.

(* thread t has completed stop(i) and, after it, a whole wakeAll *)
Fixpoint stop_then_wakeall (i : nat) (stopped : bool) (l : list op) : bool :=
  match l with
  | [] => false
  | OStop j :: r => stop_then_wakeall i (stopped || (j =? i)%nat) r
  | OWakeAll :: r => stopped || stop_then_wakeall i stopped r
  | _ :: r => stop_then_wakeall i stopped r
  end.

Definition stopped_and_woken (c : wcase) (i : nat) : bool :=
  existsb (fun t => stop_then_wakeall i false (done_ops c t)) (seq O (length (w_progs c))).

(* the run ended with nothing runnable (timeouts off) and a worker still parked although its running flag was cleared and a
   complete wakeAll followed *)
Definition left_parked (c : wcase) : bool :=
  (i_status c =? 1) && proto_case c &&
  existsb (fun t => match parked_for c t with Some i => stopped_and_woken c i | None => false end) (i_blocked c).

(* domain of the known finding: a claimAndWakeOne / tryClaimSleeper took part (the claimed bit need not belong to the waiter the
   futex wake picks, so a parked worker can end up with its sleepMask bit clear and wakeAll skips the futex wake of its group) *)
Definition c09_known_domain (c : wcase) : bool := has_claim c.

(* 0 agree & property holds; 1 differ, property holds; 2 property fails; 4 property fails inside the known domain *)
Definition judge_c09 (c : wcase) : Z :=
  if left_parked c then (if c09_known_domain c then 4 else 2)
  else if agrees c then 0 else 1.
