(* Kind-generic hand-written mirrors of the parallel_for.h leaves that tools/gen.py regenerates once per index
   type (Gen/GenChunk.v: gen_computeGranularity_K, gen_adjustChunkSizing_K, gen_calcChunkSize_K, gen_range_size_K ...).
   GenTie/DynGenTie.v proves, for each of the 8 index kinds, that the regenerated definition equals the mirror, so
   every proof about the mirrors is a proof about the code that exists.  No proofs here. *)
From Coq Require Import ZArith List Bool.
From DV Require Import Base.MachInt Model.ChunkModel.
Import ListNotations.
Local Open Scope Z_scope.

(* arithmetic in ChunkedRange<IntegerT>::size_type (int64_t / uint64_t) *)
Definition W (k : ikind) (z : Z) : Z := wop (wide k) z.

Definition m_range_empty (s e : Z) : bool := e <=? s.
Definition m_isAuto (chunk : Z) : bool := chunk =? 0.
Definition m_isStatic (k : ikind) (chunk : Z) : bool := chunk =? kmax k.

(* static_cast<IntegerT>(range.end - static_cast<IntegerT>(rem)): for IntegerT narrower than int both casts narrow;
   for int32/int64 the inner cast narrows (int32) and the subtraction is done in IntegerT; for uint32/uint64 it wraps *)
Definition m_trim (k : ikind) (e rem : Z) : Z :=
  if ik_signed k then (if 32 <=? ik_w k then e - (if 64 <=? ik_w k then rem else castk k rem) else castk k (e - castk k rem))
  else castk k (e - (if 64 <=? ik_w k then rem else castk k rem)).

Definition m_computeGranularity (k : ikind) (s e chunk requested : Z) : Z * Z * bool :=
  let granularity := if (chunk =? 0) || (chunk =? kmax k) then Z.max 1 requested else 1 in
  if 1 <? granularity then
    let rem := Z.rem (range_size k s e) granularity in
    if 0 <? rem then (granularity, m_trim k e rem, true) else (granularity, e, false)
  else (granularity, e, false).

Definition m_adjustChunkSizing (k : ikind) (s e chunk maxThreads : Z) (isStatic : bool) (minItems poolThreads : Z) (wait : bool)
  : Z * bool :=
  let size := range_size k s e in
  let mt1 := Z.min maxThreads (W k (poolThreads + 1)) in
  if 1 <? minItems then
    let maxWorkers := Z.quot size minItems in
    if maxWorkers <? mt1 then
      if (0 <? maxWorkers) && (Z.quot size (W k (maxWorkers + b2z wait)) <? minItems) && m_isAuto chunk
      then (maxWorkers, true) else (maxWorkers, isStatic)
    else
      if (0 <? mt1) && (Z.quot size (W k (mt1 + b2z wait)) <? minItems) && m_isAuto chunk
      then (mt1, true) else (mt1, isStatic)
  else
    if size <=? W k (poolThreads + b2z wait) then
      if m_isAuto chunk then (mt1, true)
      else if negb (m_isStatic k chunk) then (Z.min mt1 (W k (size - b2z wait)), isStatic)
      else (mt1, isStatic)
    else (mt1, isStatic).

(* the do-while of calcChunkSize; the state tuple is the one the translator carries *)
Fixpoint m_ccs_loop (k : ikind) (fuel : nat) (v_chunkSize v_dynFactor v_g v_maxDyn v_minChunk v_numLaunched : Z)
  (v_one : bool) (v_chunk v_e v_s v_W : Z) {struct fuel}
  : option (Z * Z * Z * Z * Z * Z * bool * Z * Z * Z * Z) :=
  match fuel with
  | O => None
  | S fuel_ =>
      let roughChunks := W k (v_dynFactor * v_W) in
      let chunkSize := Z.quot (W k (W k (range_size k v_s v_e + roughChunks) - 1)) roughChunks in
      let chunkSize_2 :=
        if 1 <? v_g then W k (Z.quot (W k (W k (chunkSize + v_g) - 1)) v_g * v_g) else chunkSize in
      let dynFactor_1 := W k (v_dynFactor - 1) in
      if chunkSize_2 <? v_minChunk
      then m_ccs_loop k fuel_ chunkSize_2 dynFactor_1 v_g v_maxDyn v_minChunk v_numLaunched v_one v_chunk v_e v_s v_W
      else Some (chunkSize_2, dynFactor_1, v_g, v_maxDyn, v_minChunk, v_numLaunched, v_one, v_chunk, v_e, v_s, v_W)
  end.

Definition m_calcChunkSize (k : ikind) (s e chunk numLaunched : Z) (one : bool) (minChunk g maxDyn : Z) : option (Z * Z) :=
  let workingThreads := W k ((if ik_signed k then wrap_s 64 numLaunched else numLaunched) + b2z one) in
  if negb (negb (chunk =? 0)) then
    let dynFactor := Z.min maxDyn (Z.quot (range_size k s e) workingThreads) in
    match m_ccs_loop k (S (Z.to_nat maxDyn)) 0 dynFactor g maxDyn minChunk numLaunched one chunk e s workingThreads with
    | None => None
    | Some (cs, _, _, _, _, _, _, _, e1, s1, _) =>
        Some (cs, Z.quot (W k (W k (range_size k s1 e1 + cs) - 1)) cs)
    end
  else if chunk =? kmax k then None
  else Some (chunk, W k (Z.quot (range_size k s e) chunk + W k (if negb (Z.rem (range_size k s e) chunk =? 0) then 1 else 0))).
