(* Lockstep comparison shared by C07 / C09: the implementation's trace under harness/vsched.h (harness/h_wake.cpp, the REAL
   detail::PoolWakeState / detail::EpochWaiter) vs. Model/WakeModel.v run on the same schedule. *)
From Coq Require Import ZArith List Bool Arith.
From DV Require Import Base.MachInt Base.Corr Base.Sched Model.WakeModel.
Import ListNotations.
Local Open Scope Z_scope.

Record wcase := WC {
  w_cfg : cfg; w_fuel : nat; w_progs : list (list op); w_sched : list Z;
  i_trace : list (Z * Z);            (* implementation: (tid, site) per step *)
  i_results : list (list (Z * Z));   (* per thread, oldest first *)
  i_masks : list Z; i_epochs : list Z; i_total : Z; i_next : Z;
  i_status : Z;                      (* 0 done 1 deadlock 2 budget *)
  i_blocked : list Z;                (* tids blocked at the end *)
  i_cur : list Z;                    (* per thread: index of the operation it is in *)
  i_rings : list Z; i_central : Z; i_steals : list Z }.

Definition model_masks (s : state) : list Z :=
  map (fun g => mask_z (grp_bits (cf s) (bits (wks s)) g)) (seq O (ngroups (cf s))).

Definition blocked_tids (s : state) : list Z := map Z.of_nat (tids_where timed_blocked (threads s) O).

(* harness/vsched.h decides the final status in this order: all finished -> done; no candidate -> deadlock (done when nobody is
   blocked); step count = budget -> budget.  Base.Sched.run tests its fuel first, so a run that finishes (or deadlocks) exactly at
   the budget comes back as SBudget: re-derive the status from the final state the way vsched does. *)
Definition vstatus (s : state) (st : status) : status :=
  match st with
  | SBudget => if finished s then SDone
               else match cands s with
                    | [] => if existsb timed_blocked (threads s) then SDeadlock else SDone
                    | _ => SBudget
                    end
  | _ => st
  end.

Definition agrees (c : wcase) : bool :=
  let '(s, tr, st0) := run_wake (w_fuel c) (w_cfg c) (w_progs c) (w_sched c) in
  let st := vstatus s st0 in
  list_eqb zpair_eqb tr (i_trace c) && (status_code st =? i_status c) &&
  list_eqb (list_eqb zpair_eqb) (map (fun th => rev (res th)) (threads s)) (i_results c) &&
  zlist_eqb (model_masks s) (i_masks c) && zlist_eqb (epochs (wks s)) (i_epochs c) &&
  (total (wks s) =? i_total c) && (Z.of_nat (nextg (wks s)) =? i_next c) &&
  zlist_eqb (blocked_tids s) (i_blocked c) &&
  zlist_eqb (map (fun r => Z.of_nat (length r)) (rings (pl s))) (i_rings c) &&
  (Z.of_nat (central (pl s)) =? i_central c) &&
  zlist_eqb (map Z.of_nat (steals (pl s))) (i_steals c).

(* ---------- reading the implementation's output ---------- *)
Definition cur_op (c : wcase) (t : Z) : option op :=
  match nth_error (w_progs c) (Z.to_nat t) with
  | Some p => nth_error p (Z.to_nat (nth (Z.to_nat t) (i_cur c) 0))
  | None => None
  end.

(* the worker index a blocked thread is parked for (only the protocol-conformant park cycle counts) *)
Definition parked_for (c : wcase) (t : Z) : option nat :=
  match cur_op c t with Some (OPark i) => Some i | _ => None end.

(* ops of thread t that have completed *)
Definition done_ops (c : wcase) (t : nat) : list op :=
  match nth_error (w_progs c) t with
  | Some p => firstn (Z.to_nat (nth t (i_cur c) 0)) p
  | None => []
  end.

Definition is_worker_op (o : op) : bool := match o with OPark _ | OPoll _ => true | _ => false end.
Definition is_producer_op (o : op) : bool :=
  match o with
  | OStop _ | OClaim | OSeed _ | ORange _ | OWakeAll | OCascade _ | OTotal | OPushRing _ | OPushCentral | OPushSteal _ | ORunLoad _ => true
  | _ => false
  end.
Definition worker_index (o : op) : nat := match o with OPark i | OPoll i => i | _ => O end.

Fixpoint nodup_nat (l : list nat) : bool :=
  match l with [] => true | x :: r => negb (existsb (Nat.eqb x) r) && nodup_nat r end.

(* protocol-conformant case: every thread is either a worker (park cycles and polls of ONE index; distinct indices across threads)
   or a producer (wake / stop / push ops only) *)
Definition worker_prog (p : list op) : bool :=
  match p with
  | [] => false
  | o :: _ => forallb (fun o' => is_worker_op o' && (worker_index o' =? worker_index o)%nat) p
  end.
Definition proto_case (c : wcase) : bool :=
  forallb (fun p => worker_prog p || forallb is_producer_op p) (w_progs c) &&
  nodup_nat (map (fun p => worker_index (hd OTotal p)) (filter worker_prog (w_progs c))).

Definition has_claim (c : wcase) : bool :=
  existsb (existsb (fun o => match o with OClaim | OTryClaim _ => true | _ => false end)) (w_progs c).

(* ---------- the premise of C07: the pool is fully parked when the submission is made ---------- *)
(* worker threads of a protocol-conformant case *)
Definition worker_tids (c : wcase) : list nat :=
  filter (fun t => worker_prog (nth t (w_progs c) [])) (seq O (length (w_progs c))).

Definition parked_or_done (s : state) (u : nat) : bool :=
  match nth_error (threads s) u with
  | Some th => match tpc th with PBlocked _ _ | PDone => true | _ => false end
  | None => true
  end.

(* follows the schedule exactly like Base.Sched.run and reports whether every push of a task (ring / central / steal) was executed
   in a state in which every worker thread was blocked in the futex (or had finished its script) *)
Fixpoint pushes_when_parked (wts : list nat) (fuel : nat) (s : state) (ch : list Z) : bool :=
  match fuel with
  | O => true
  | S fuel' =>
      if finished s then true else
      match cands s with
      | [] => true
      | (c0 :: _) as cs =>
          match ch with
          | [] => true
          | c :: ch1 =>
              let t := nth (Z.to_nat (c mod Z.of_nat (length cs))) cs c0 in
              let ok := match nth_error (threads s) t with
                        | Some th => match tpc th with
                                     | PPushRing _ | PPushCentral | PPushSteal _ => forallb (parked_or_done s) wts
                                     | _ => true
                                     end
                        | None => true
                        end in
              match step s t ch1 with
              | None => ok
              | Some (s', ch2, _) => ok && pushes_when_parked wts fuel' s' ch2
              end
          end
      end
  end.

Definition submitted_to_parked_pool (c : wcase) : bool :=
  pushes_when_parked (worker_tids c) (w_fuel c) (init (w_cfg c) (w_progs c)) (w_sched c).
