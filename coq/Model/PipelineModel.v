(* Interleaving model of dispenso::pipeline (dispenso/pipeline.h, detail/pipeline_impl.h) at the granularity of the gate
   operations of detail::LimitGatedScheduler: one visible step = one DISPENSO_VERIF_POINT site of pipeline_impl.h (resources
   fetch_sub / fetch_add, queue enqueue / try_dequeue, outstanding inc / dec, exception checks), the user stage body, the
   generator call, the completion latch and the two stores of TaskSetBase::trySetCurrentException.  The thread pool and the
   ConcurrentTaskSet are abstracted to: a bag of dispatched tasks (each popped at most once, by construction of [deq]), the
   counter of dispatched-and-not-finished tasks, the inline-or-queue decision of ConcurrentTaskSet::schedule (threshold policy as
   in the code, or an oracle), the cancelled check of packageTask.  Executable; no proofs.

   A thread is a stack of frames (function activations), its inline depth and the exception it is unwinding with.  [mstep]
   executes ONE frame transition (visible or silent); [step] = one visible transition followed by the silent ones up to the
   next visible site (this is what one grant of harness/vsched.h executes). *)
From Coq Require Import ZArith List Bool.
From DV Require Import Base.MachInt Base.Sched.
Import ListNotations.
Local Open Scope Z_scope.

Definition item := (Z * Z)%type.                       (* unique tag, current value *)
Definition no_limit : Z := 9223372036854775807.        (* kStageNoLimit *)

Record stage_cfg := SC { sc_limit : Z; sc_filter : bool; sc_drops : list Z; sc_throws : list Z }.
Record cfg := CFG {
  c_npool : Z;                 (* ThreadPool::numThreads() *)
  c_plf : Z;                   (* poolLoadFactor_ *)
  c_glimit : Z; c_nitems : Z; c_gthrow : Z;     (* generator: limit, items, index at which it throws (-1 never) *)
  c_stages : list stage_cfg;   (* the later stages, the last one is the sink *)
  c_oracle : bool;             (* true: dequeue picks / misses and inline decisions are oracle integers; false: as in the lockstep runs *)
  c_workers : list (bool * Z)  (* per worker thread: registered with the pool?, initial inline depth *)
}.

Definition lim_of (sc : stage_cfg) : Z := Z.max 1 (sc_limit sc).          (* StageLimits<Stage<T>>::limit *)
Definition dflt_sc : stage_cfg := SC 1 false [] [].
Definition stage_at (c : cfg) (j : nat) : stage_cfg := nth j (c_stages c) dflt_sc.
Definition unlimited (c : cfg) (j : nat) : bool := lim_of (stage_at c j) =? no_limit.
Definition serial (c : cfg) (j : nat) : bool := lim_of (stage_at c j) =? 1.
Definition ninst (c : cfg) : Z := Z.max 1 (Z.min (c_npool c) (Z.max 1 (c_glimit c))).
Definition nstages (c : cfg) : nat := length (c_stages c).
Definition mem (x : Z) (l : list Z) : bool := existsb (Z.eqb x) l.
Definition throws_at (c : cfg) (j : nat) (it : item) : bool := mem (fst it) (sc_throws (stage_at c j)).
Definition drops_at (c : cfg) (j : nat) (it : item) : bool := sc_filter (stage_at c j) && mem (fst it) (sc_drops (stage_at c j)).
Definition sval (j : nat) (v : Z) : Z := v * 16 + Z.of_nat j + 1.          (* what stage j computes (harness/h_pipeline.cpp) *)
Definition exc_id (j : nat) (it : item) : Z := (Z.of_nat j + 1) * 1000 + fst it.

(* domains of the known findings of C29 (Properties_C29.v), as predicates on the case *)
Definition has_throw (c : cfg) : bool :=                       (* some stage, or the generator, can throw *)
  (0 <=? c_gthrow c) || existsb (fun sc => match sc_throws sc with [] => false | _ => true end) (c_stages c).
Definition leak_domain (c : cfg) : bool := has_throw c.

(* the value with which item [tag] arrives at stage j *)
Fixpoint chain (j : nat) (tag : Z) : Z := match j with O => tag | S m => sval m (chain m tag) end.

Inductive ptask := TGen | TL (j : nat) (it : item) | TU (j : nat) (it : item).

Inductive spc := SOinc | SEnq | SSub | SDeq | SAdd.                 (* LimitGatedScheduler::schedule *)
Inductive wpc := WOLoad | WExc | WDDeq | WDDec | WDeq | WSub | WAdd | WExc2 | WDec2.   (* LimitGatedScheduler::wait *)
Inductive mpc := MStart | MExec (g : Z) | MCwLoad | MCwFutex (cur : Z) | MBlocked | MWoken
               | MWait (j : nat) (pc : wpc) (held : item)           (* wait() of stage j (only the caller runs it) *)
               | MCtsWait (dtor : bool) | MCtsHelp (dtor : bool).   (* ConcurrentTaskSet::wait: the load / its inner loop *)
Inductive gpc := GExc | GCall | GSched (it : item) (pc : spc) | GCatchCas (e : Z) | GCancel | GDone | GNStore | GNWake.
Inductive tpc := TUExc | TBody | TCbDeq | TCbAdd | TNext | TSched (pc : spc) | TRGuard | TOGuard | TCatchCas (e : Z) | TCancel.
Inductive ppc := PRun | PFin | PSkipGen | PEnd | PCatchCas (e : Z) | PCancel.

(* schedule() and wait() have exactly one kind of caller each, so their program counters are part of the caller's frame:
   GSched = the generator instance inside pipeNext_.execute(item) -> schedule of stage 0; TSched = a stage task inside
   pipeNext_.execute(result) -> schedule of the next stage; MWait = the caller of pipeline() inside wait() of stage j *)
Inductive frame :=
| FMain (pc : mpc)                                              (* dispenso::pipeline on the calling thread *)
| FWorker (started : bool)                                      (* a pool worker's loop *)
| FGen (pc : gpc)                                               (* one generator instance *)
| FTask (lim : bool) (j : nat) (it : item) (pc : tpc) (armed : bool)   (* the queued (lim) / directly scheduled (unlimited) stage task *)
| FPool (tk : ptask) (pc : ppc)                                 (* packageTask wrapper + ThreadPool::executeNext *)
| FInline.                                                      (* an InlineDepthGuard scope *)

Record gate := GT { g_res : Z; g_out : Z; g_q : list (nat * item); g_prods : list nat }.
Record thread := TH { stack : list frame; depth : Z; unw : option Z; is_pool : bool }.
Record event := EV { e_tid : Z; e_kind : Z; e_j : Z; e_tag : Z; e_val : Z }.
(* kinds: 1 enter 2 exit 3 throw 4 generated 5 generator throws 6 generator ends (these six are also logged by the harness);
   ghost: 7 discarded by cleanupNotRun, 8 limited task skipped by the cancelled wrapper (payload never destroyed),
   9 pipeline returned (also logged by the harness), 11 left in a gate queue at destruction (payload never destroyed),
   12 unlimited task skipped by the cancelled wrapper (payload destroyed with the wrapper), 13 generator instance skipped,
   14 a generator call begins (also logged by the harness), 15 unlimited task did not run its stage because hasException(),
   16 exception captured by trySetCurrentException (tag = exception id),
   17 the item's journey ends normally at this stage (filtered out, or the stage is the sink) *)

Record shared := SH {
  gates : list gate; bag : list (nat * ptask); bprods : list nat; pout : Z;
  exc : option Z; canceled : bool; compl : Z; gnext : Z; done : bool; result : option Z; log : list event;
  gx : Z  (* tasks whose wrapper has decremented outstandingTaskCount_ while executeNext has not yet decremented workRemaining_ *) }.
Record state := ST { sh : shared; threads : list thread }.

Definition dflt_gate : gate := GT 0 0 [] [].
Definition gate_at (s : shared) (j : nat) : gate := nth j (gates s) dflt_gate.

Definition w_gates (s : shared) (g : list gate) := SH g (bag s) (bprods s) (pout s) (exc s) (canceled s) (compl s) (gnext s) (done s) (result s) (log s) (gx s).
Definition w_bag (s : shared) (b : list (nat * ptask)) (p : list nat) := SH (gates s) b p (pout s) (exc s) (canceled s) (compl s) (gnext s) (done s) (result s) (log s) (gx s).
Definition w_pout (s : shared) (x : Z) := SH (gates s) (bag s) (bprods s) x (exc s) (canceled s) (compl s) (gnext s) (done s) (result s) (log s) (gx s).
Definition w_exc (s : shared) (x : option Z) := SH (gates s) (bag s) (bprods s) (pout s) x (canceled s) (compl s) (gnext s) (done s) (result s) (log s) (gx s).
Definition w_canceled (s : shared) (x : bool) := SH (gates s) (bag s) (bprods s) (pout s) (exc s) x (compl s) (gnext s) (done s) (result s) (log s) (gx s).
Definition w_compl (s : shared) (x : Z) := SH (gates s) (bag s) (bprods s) (pout s) (exc s) (canceled s) x (gnext s) (done s) (result s) (log s) (gx s).
Definition w_gnext (s : shared) (x : Z) := SH (gates s) (bag s) (bprods s) (pout s) (exc s) (canceled s) (compl s) x (done s) (result s) (log s) (gx s).
Definition w_done (s : shared) (x : bool) := SH (gates s) (bag s) (bprods s) (pout s) (exc s) (canceled s) (compl s) (gnext s) x (result s) (log s) (gx s).
Definition w_result (s : shared) (x : option Z) := SH (gates s) (bag s) (bprods s) (pout s) (exc s) (canceled s) (compl s) (gnext s) (done s) x (log s) (gx s).
Definition w_gx (s : shared) (x : Z) := SH (gates s) (bag s) (bprods s) (pout s) (exc s) (canceled s) (compl s) (gnext s) (done s) (result s) (log s) x.
Definition add_log (s : shared) (e : event) := SH (gates s) (bag s) (bprods s) (pout s) (exc s) (canceled s) (compl s) (gnext s) (done s) (result s) (e :: log s) (gx s).

Fixpoint upd_nth {A} (n : nat) (f : A -> A) (l : list A) : list A :=
  match l, n with
  | [], _ => []
  | x :: r, O => f x :: r
  | x :: r, S m => x :: upd_nth m f r
  end.
Fixpoint set_nth {A} (l : list A) (n : nat) (x : A) : list A :=
  match l, n with
  | [], _ => []
  | _ :: r, O => x :: r
  | y :: r, S m => y :: set_nth r m x
  end.
Definition upd_gate (s : shared) (j : nat) (f : gate -> gate) : shared := w_gates s (upd_nth j f (gates s)).
Definition g_w_res (d : Z) (g : gate) := GT (g_res g + d) (g_out g) (g_q g) (g_prods g).
Definition g_w_out (d : Z) (g : gate) := GT (g_res g) (g_out g + d) (g_q g) (g_prods g).
Definition g_w_q (q : list (nat * item)) (p : list nat) (g : gate) := GT (g_res g) (g_out g) q p.

(* ---------- the two moodycamel queues (one per gate, one central pool queue) ----------
   entries carry the id of the producing thread.  Threshold mode reproduces try_dequeue without a token on a quiescent queue:
   among the first three non-empty producers (most recently created first) the one with the most elements, first-in first-out
   inside a producer.  Oracle mode: the next integer c picks entry (c-1) mod n, c = 0 (or no integer left) is a miss. *)
Fixpoint count_prod {A} (p : nat) (q : list (nat * A)) : nat :=
  match q with [] => O | (p', _) :: r => if Nat.eqb p p' then S (count_prod p r) else count_prod p r end.
Fixpoint mc_scan {A} (prods : list nat) (q : list (nat * A)) (seen : nat) (best : option (nat * nat)) : option nat :=
  match prods with
  | [] => option_map fst best
  | p :: r =>
      if Nat.leb 3 seen then option_map fst best else
      let sz := count_prod p q in
      if Nat.eqb sz 0 then mc_scan r q seen best
      else mc_scan r q (S seen) (match best with
                                  | Some (_, bs) => if Nat.ltb bs sz then Some (p, sz) else best
                                  | None => Some (p, sz) end)
  end.
Fixpoint first_idx {A} (p : nat) (q : list (nat * A)) (i : nat) : option nat :=
  match q with [] => None | (p', _) :: r => if Nat.eqb p p' then Some i else first_idx p r (S i) end.
Fixpoint remove_at {A} (n : nat) (l : list A) : list A :=
  match l, n with [], _ => [] | _ :: r, O => r | x :: r, S m => x :: remove_at m r end.

Definition pick_idx {A} (oracle : bool) (prods : list nat) (q : list (nat * A)) (ch : list Z) : option nat * list Z :=
  if oracle then
    match ch with
    | [] => (None, [])
    | c :: r => (if (c <=? 0) || Nat.eqb (length q) 0 then None else Some (Z.to_nat ((c - 1) mod Z.of_nat (length q))), r)
    end
  else (match mc_scan prods q 0 None with Some p => first_idx p q 0 | None => None end, ch).

Definition deq {A} (oracle : bool) (prods : list nat) (q : list (nat * A)) (ch : list Z) : option (A * list (nat * A)) * list Z :=
  let '(oi, ch') := pick_idx oracle prods q ch in
  match oi with
  | Some i => match nth_error q i with Some (_, x) => (Some (x, remove_at i q), ch') | None => (None, ch') end
  | None => (None, ch')
  end.
Definition enq_prods (t : nat) (prods : list nat) : list nat := if existsb (Nat.eqb t) prods then prods else t :: prods.

(* ---------- thread-local helpers ---------- *)
Definition w_stack (th : thread) (st : list frame) : thread := TH st (depth th) (unw th) (is_pool th).
Definition w_depth (th : thread) (d : Z) : thread := TH (stack th) d (unw th) (is_pool th).
Definition w_unw (th : thread) (u : option Z) : thread := TH (stack th) (depth th) u (is_pool th).
Definition push (th : thread) (f : frame) : thread := w_stack th (f :: stack th).
Definition can_inline (th : thread) : bool := depth th <? 32.            (* PerPoolPerThreadInfo::canInlineSchedule *)
Definition ev (t : nat) (k : Z) (j : Z) (it : item) : event := EV (Z.of_nat t) k j (fst it) (snd it).
Definition dummy : item := (0, 0).

(* the frame that runs a task's body; entering a limited task's lambda runs straight into the user's stage function *)
Definition body_frame (t : nat) (s : shared) (tk : ptask) : shared * frame :=
  match tk with
  | TGen => (s, FGen GExc)
  | TL j it => (add_log s (ev t 1 (Z.of_nat j) it), FTask true j it TBody true)
  | TU j it => (s, FTask false j it TUExc false)
  end.

(* ConcurrentTaskSet::schedule (TaskCost::kHeavy, default multiplier 4) decides between running the functor inline and queuing;
   both inline paths consult canceled() (task_set.h as of the tree under test) *)
Definition inline_decision (c : cfg) (s : shared) (th : thread) (force : bool) (ch : list Z) : bool * list Z :=
  if force then (false, ch) else
  if c_oracle c then
    match ch with [] => (false, []) | x :: r => (Z.odd x && can_inline th, r) end
  else
    let thr := Z.max (c_npool c + 1) ((4 * c_npool c) / 2) in
    if (thr <? pout s - gx s) && negb (canceled s) && can_inline th then (true, ch)
    else if (is_pool th && ((3 * c_npool c) / 2 <? pout s)) || (c_plf c <? pout s) then (can_inline th && negb (canceled s), ch)
    else (false, ch).

(* tasks_.schedule(task): th's stack is already the continuation of the caller *)
Definition dispatch (c : cfg) (t : nat) (s : shared) (th : thread) (tk : ptask) (force : bool) (ch : list Z) : shared * thread * list Z :=
  let '(inln, ch') := inline_decision c s th force ch in
  if inln then
    let '(s1, fr) := body_frame t s tk in
    (s1, w_depth (w_stack th (fr :: FInline :: stack th)) (depth th + 1), ch')
  else (w_pout (w_bag s (bag s ++ [(t, tk)]) (enq_prods t (bprods s))) (pout s + 1), th, ch').

(* tasks_.tryExecuteNext() / the pop of a worker: th's stack is already the continuation *)
Definition try_exec (c : cfg) (s : shared) (th : thread) (ch : list Z) : shared * thread * list Z :=
  let '(r, ch') := deq (c_oracle c) (bprods s) (bag s) ch in
  match r with
  | Some (tk, b') => (w_bag s b' (bprods s), push th (FPool tk PRun), ch')
  | None => (s, th, ch')
  end.

Definition gate_deq (c : cfg) (s : shared) (j : nat) (ch : list Z) : option (item * shared) * list Z :=
  let g := gate_at s j in
  let '(r, ch') := deq (c_oracle c) (g_prods g) (g_q g) ch in
  match r with
  | Some (x, q') => (Some (x, upd_gate s j (g_w_q q' (g_prods g))), ch')
  | None => (None, ch')
  end.
Definition gate_enq (s : shared) (j : nat) (t : nat) (it : item) : shared :=
  upd_gate s j (fun g => g_w_q (g_q g ++ [(t, it)]) (enq_prods t (g_prods g)) g).

(* trySetCurrentException's compare-exchange *)
Definition try_set (t : nat) (s : shared) (e : Z) : shared * bool :=
  match exc s with None => (add_log (w_exc s (Some e)) (EV (Z.of_nat t) 16 (-1) e 0), true) | Some _ => (s, false) end.
Definition has_exc (s : shared) : bool := match exc s with Some _ => true | None => false end.

(* destruction of the pipes: whatever is still in a gate queue is dropped without cleanupNotRun *)
Fixpoint strand_q (t : nat) (j : nat) (q : list (nat * item)) (s : shared) : shared :=
  match q with [] => s | (_, it) :: r => strand_q t j r (add_log s (ev t 11 (Z.of_nat j) it)) end.
Fixpoint strand_gates (t : nat) (j : nat) (gs : list gate) (s : shared) : shared :=
  match gs with [] => s | g :: r => strand_gates t (S j) r (strand_q t j (g_q g) s) end.
Definition destroy_pipes (t : nat) (s : shared) : shared :=
  w_gates (strand_gates t 0 (gates s) s) (map (fun g => g_w_q [] (g_prods g) g) (gates s)).

(* site ids = positions in props/pipe_common.py SITES; -1 = silent transition *)
Definition silent : Z := -1.


(* result of one frame transition: new shared state, new thread, remaining oracle, site, "wake every futex waiter" *)
Definition R := option (shared * thread * list Z * Z * bool).
Definition ok (s : shared) (th : thread) (ch : list Z) (site : Z) : R := Some (s, th, ch, site, false).
Definition zj (j : nat) : Z := Z.of_nat j.

Section Frames.
  Variable c : cfg.
  Variable t : nat.

  Definition first_wait : mpc := if Nat.ltb 0 (nstages c) then MWait 0 WOLoad dummy else MCtsWait false.
  Definition after_wait (j : nat) : mpc := if Nat.ltb (S j) (nstages c) then MWait (S j) WOLoad dummy else MCtsWait false.

  (* ---- LimitGatedScheduler::wait of stage j, both loops (the sites of the unlimited loop carry the prefix pipe.uwait) *)
  Definition step_wait (s : shared) (th : thread) (j : nat) (pc : wpc) (held : item) (r : list frame) (ch : list Z) : R :=
    let goto p h := w_stack th (FMain (MWait j p h) :: r) in
    let leave := w_stack th (FMain (after_wait j) :: r) in
    let unl := unlimited c j in
    let sid (a b : Z) := if unl then b else a in
    match pc with
    | WOLoad => if g_out (gate_at s j) =? 0 then ok s leave ch (sid 24 33) else ok s (goto WExc held) ch (sid 24 33)
    | WExc =>
        if has_exc s then (if unl then ok s leave ch 34 else ok s (goto WDDeq held) ch 25)
        else ok s (goto WDeq held) ch (sid 25 34)
    | WDDeq =>
        let '(res, ch1) := gate_deq c s j ch in
        match res with
        | Some (x, s1) => ok s1 (goto WDDec x) ch1 26
        | None => ok s leave ch1 26
        end
    | WDDec => ok (add_log (upd_gate s j (g_w_out (-1))) (ev t 7 (zj j) held)) (goto WDDeq dummy) ch 27
    | WDeq =>
        let '(res, ch1) := gate_deq c s j ch in
        match res with
        | Some (x, s1) => ok s1 (goto WSub x) ch1 (sid 28 35)
        | None => let '(s2, th2, ch2) := try_exec c s (goto WOLoad dummy) ch1 in ok s2 th2 ch2 (sid 28 35)
        end
    | WSub =>
        let s1 := upd_gate s j (g_w_res (-1)) in
        if 0 <? g_res (gate_at s j) then
          let '(s2, th2, ch2) := dispatch c t s1 (goto WOLoad dummy) (TL j held) false ch in ok s2 th2 ch2 (sid 29 36)
        else ok s1 (goto WAdd held) ch (sid 29 36)
    | WAdd =>
        let s1 := upd_gate s j (g_w_res 1) in
        if unl then let '(s2, th2, ch2) := try_exec c s1 (goto WSub held) ch in ok s2 th2 ch2 37
        else ok s1 (goto WExc2 held) ch 30
    | WExc2 =>
        if has_exc s then ok s (goto WDec2 held) ch 31
        else let '(s2, th2, ch2) := try_exec c s (goto WSub held) ch in ok s2 th2 ch2 31
    | WDec2 => ok (add_log (upd_gate s j (g_w_out (-1))) (ev t 7 (zj j) held)) (goto WOLoad dummy) ch 32
    end.

  (* ---- dispenso::pipeline(): makePipes, execute() (one generator instance per slot), wait(), destructors *)
  Definition step_main (s : shared) (th : thread) (pc : mpc) (r : list frame) (ch : list Z) : R :=
    let goto p := w_stack th (FMain p :: r) in
    match pc with
    | MStart => ok s (goto (MExec 0)) ch 0
    | MExec g =>
        if g <? ninst c then
          let '(s1, th1, ch1) := dispatch c t s (goto (MExec (g + 1))) TGen false ch in ok s1 th1 ch1 silent
        else ok s (goto MCwLoad) ch silent
    | MCwLoad => if compl s =? 0 then ok s (goto first_wait) ch 1 else ok s (goto (MCwFutex (compl s))) ch 1
    | MCwFutex cur => if compl s =? cur then ok s (goto MBlocked) ch 2 else ok s (goto MCwLoad) ch 2
    | MBlocked => None
    | MWoken => ok s (goto MCwLoad) ch 3
    | MWait j pc held => step_wait s th j pc held r ch
    | MCtsWait dtor =>
        (* ConcurrentTaskSet::wait reads outstandingTaskCount_ (= pout - gx: a skipped generator task is no longer counted by the
           task set while its functor, with the CompletionGuard, is being destroyed) *)
        if pout s - gx s =? 0 then
          if dtor then ok (add_log (w_done s true) (ev t 9 (-1) dummy)) (w_stack th r) ch 4
          else
            let s1 := match exc s with
                      | Some e => w_exc (w_result s (Some e)) None          (* testAndResetException rethrows *)
                      | None => w_result s (Some (-1)) end in
            ok (destroy_pipes t s1) (goto (MCtsWait true)) ch 4
        else ok s (goto (MCtsHelp dtor)) ch 4
    | MCtsHelp dtor =>                                                       (* while (pool_.tryExecuteNext()) {} *)
        let '(res, ch1) := deq (c_oracle c) (bprods s) (bag s) ch in
        match res with
        | Some (tk, b') => ok (w_bag s b' (bprods s)) (push th (FPool tk PRun)) ch1 silent
        | None => ok s (goto (MCtsWait dtor)) ch1 silent
        end
    end.

  Definition step_worker (s : shared) (th : thread) (started : bool) (r : list frame) (ch : list Z) : R :=
    if started then
      if done s then ok s (w_stack th r) ch 5
      else let '(s1, th1, ch1) := try_exec c s th ch in ok s1 th1 ch1 5
    else ok s (w_stack th (FWorker true :: r)) ch 0.

  Definition skip_event (tk : ptask) : event :=
    match tk with TL j it => ev t 8 (zj j) it | TU j it => ev t 12 (zj j) it | TGen => ev t 13 (-1) dummy end.

  (* ---- the wrapper made by TaskSetBase::packageTask, run by ThreadPool::executeNext *)
  Definition step_pool (s : shared) (th : thread) (tk : ptask) (pc : ppc) (r : list frame) (ch : list Z) : R :=
    let goto p := w_stack th (FPool tk p :: r) in
    match pc with
    | PRun =>
        if canceled s then ok (add_log s (skip_event tk)) (goto (match tk with TGen => PSkipGen | _ => PFin end)) ch silent
        else let '(s1, fr) := body_frame t s tk in ok s1 (w_stack th (fr :: FPool tk PFin :: r)) ch silent
    | PFin => ok (w_pout s (pout s - 1)) (w_stack th r) ch silent
    (* a skipped generator task: the wrapper returns (outstandingTaskCount_ decremented), then the functor is destroyed and the
       CompletionGuard it owns by value counts the latch down; executeNext decrements workRemaining_ last *)
    | PSkipGen => match tk with
                  | TGen => ok (w_gx s (gx s + 1)) (w_stack th (FGen GDone :: FPool tk PEnd :: r)) ch silent
                  | _ => None end
    | PEnd => ok (w_gx (w_pout s (pout s - 1)) (gx s - 1)) (w_stack th r) ch silent
    | PCatchCas e => let '(s1, won) := try_set t s e in ok s1 (goto (if won then PCancel else PFin)) ch 6
    | PCancel => ok (w_canceled s true) (goto PFin) ch 7
    end.

  (* ---- LimitGatedScheduler::schedule of stage j for item it, called from the frame [mk pc]; [retf] = the caller after the call *)
  Definition step_sched (s : shared) (th : thread) (j : nat) (it : item) (pc : spc) (mk : spc -> frame) (retf : frame)
             (r : list frame) (ch : list Z) : R :=
    let goto p := w_stack th (mk p :: r) in
    let leave := w_stack th (retf :: r) in
    match pc with
    | SOinc =>
        let s1 := upd_gate s j (g_w_out 1) in
        if unlimited c j then
          let '(s2, th2, ch2) := dispatch c t s1 leave (TU j it) false ch in ok s2 th2 ch2 13
        else ok s1 (goto SEnq) ch 13
    | SEnq => ok (gate_enq s j t it) (goto SSub) ch 14
    | SSub => ok (upd_gate s j (g_w_res (-1))) (goto (if 0 <? g_res (gate_at s j) then SDeq else SAdd)) ch 15
    | SDeq =>
        let '(res, ch1) := gate_deq c s j ch in
        match res with
        | Some (x, s1) => let '(s2, th2, ch2) := dispatch c t s1 (goto SSub) (TL j x) false ch1 in ok s2 th2 ch2 16
        | None => ok s (goto SAdd) ch1 16
        end
    | SAdd => ok (upd_gate s j (g_w_res 1)) leave ch 17
    end.

  (* ---- one generator instance (Pipe<kGenerator>::execute's lambda with its CompletionGuard) *)
  Definition step_gen (s : shared) (th : thread) (pc : gpc) (r : list frame) (ch : list Z) : R :=
    let goto p := w_stack th (FGen p :: r) in
    match pc with
    | GExc => if has_exc s then ok s (goto GDone) ch 8 else ok (add_log s (ev t 14 (-1) dummy)) (goto GCall) ch 8
    | GCall =>
        let k := gnext s in
        let s1 := w_gnext s (k + 1) in
        if k =? c_gthrow c then ok (add_log s1 (ev t 5 (-1) (k, 0))) (goto (GCatchCas k)) ch 9
        else if c_nitems c <=? k then ok (add_log s1 (ev t 6 (-1) (k, 0))) (goto GDone) ch 9
        else ok (add_log s1 (ev t 4 (-1) (k, k))) (goto (GSched (k, k) SOinc)) ch 9
    | GSched it pc => step_sched s th 0 it pc (fun p => FGen (GSched it p)) (FGen GExc) r ch
    (* the functor's own try/catch: LimitGatedScheduler::captureCurrentException = trySetCurrentException *)
    | GCatchCas e => let '(s1, won) := try_set t s e in ok s1 (goto (if won then GCancel else GDone)) ch 6
    | GCancel => ok (w_canceled s true) (goto GDone) ch 7
    | GDone =>
        let s1 := w_compl s (compl s - 1) in
        if compl s =? 1 then ok s1 (goto GNStore) ch 10 else ok s1 (w_stack th r) ch 10
    | GNStore => ok (w_compl s 0) (goto GNWake) ch 11
    | GNWake => Some (s, w_stack th r, ch, 12, true)
    end.

  (* ---- the stage task: lim = the lambda queued by schedule() (with OutstandingGuard, ResourceGuard, try/catch, completion
          callback); not lim = the lambda scheduled directly by an unlimited gate *)
  Definition step_task (s : shared) (th : thread) (lim : bool) (j : nat) (it : item) (pc : tpc) (armed : bool) (r : list frame) (ch : list Z) : R :=
    let goto p a := w_stack th (FTask lim j it p a :: r) in
    let after_catch := if armed then TRGuard else TOGuard in
    match pc with
    | TUExc =>
        if has_exc s then ok (add_log s (ev t 15 (zj j) it)) (goto TOGuard armed) ch 18
        else ok (add_log s (ev t 1 (zj j) it)) (goto TBody armed) ch 18
    | TBody =>
        if throws_at c j it then
          (* a limited task catches at once (its own try/catch); an unlimited one unwinds through its OutstandingGuard *)
          if lim then ok (add_log s (ev t 3 (zj j) it)) (goto (TCatchCas (exc_id j it)) armed) ch 19
          else ok (add_log s (ev t 3 (zj j) it)) (w_unw (goto TOGuard armed) (Some (exc_id j it))) ch 19
        else ok (add_log s (ev t 2 (zj j) it)) (goto (if lim then TCbDeq else TNext) false) ch 19
    | TCbDeq =>
        let '(res, ch1) := gate_deq c s j ch in
        match res with
        | Some (x, s1) =>
            if serial c j && can_inline th then
              let '(s2, fr) := body_frame t s1 (TL j x) in
              ok s2 (w_depth (w_stack th (fr :: FInline :: FTask lim j it TNext armed :: r)) (depth th + 1)) ch1 20
            else
              let '(s2, th2, ch2) := dispatch c t s1 (goto TNext armed) (TL j x) (serial c j) ch1 in ok s2 th2 ch2 20
        | None => ok s (goto TCbAdd armed) ch1 20
        end
    | TCbAdd => ok (upd_gate s j (g_w_res 1)) (goto TNext armed) ch 21
    | TNext =>
        if drops_at c j it || Nat.leb (nstages c) (S j) then ok (add_log s (ev t 17 (zj j) it)) (goto TOGuard armed) ch silent
        else ok s (goto (TSched SOinc) armed) ch silent
    | TSched pc =>
        step_sched s th (S j) (fst it, sval j (snd it)) pc (fun p => FTask lim j it (TSched p) armed) (FTask lim j it TOGuard armed) r ch
    | TRGuard => ok (upd_gate s j (g_w_res 1)) (goto TOGuard false) ch 22
    | TOGuard => ok (upd_gate s j (g_w_out (-1))) (w_stack th r) ch 23
    | TCatchCas e => let '(s1, won) := try_set t s e in ok s1 (goto (if won then TCancel else after_catch) armed) ch 6
    | TCancel => ok (w_canceled s true) (goto after_catch armed) ch 7
    end.

  Definition step_frame (s : shared) (th : thread) (f : frame) (r : list frame) (ch : list Z) : R :=
    match f with
    | FMain pc => step_main s th pc r ch
    | FWorker b => step_worker s th b r ch
    | FGen pc => step_gen s th pc r ch
    | FTask lim j it pc a => step_task s th lim j it pc a r ch
    | FPool tk pc => step_pool s th tk pc r ch
    | FInline => ok s (w_depth (w_stack th r) (depth th - 1)) ch silent
    end.

  (* ---- stack unwinding with exception e: guards run (they are ordinary visible steps), handlers catch.
          An exception reaches a frame only at the program points where it waits for a callee that can throw (a throwing stage
          body is handled in the TBody step itself): the return from pipeNext_.execute when the next stage is unlimited and ran inline (TOGuard / GExc: the frame
          already holds its continuation), the wrapper after its body (PFin). *)
  Definition step_unwind (s : shared) (th : thread) (e : Z) (f : frame) (r : list frame) (ch : list Z) : R :=
    match f with
    | FInline => ok s (w_depth (w_stack th r) (depth th - 1)) ch silent
    | FTask true j it TOGuard a => ok s (w_unw (w_stack th (FTask true j it (TCatchCas e) a :: r)) None) ch silent
    | FTask false j it TOGuard a => step_task s th false j it TOGuard a r ch
    | FGen GExc => ok s (w_unw (w_stack th (FGen (GCatchCas e) :: r)) None) ch silent
    | FPool tk PFin => ok s (w_unw (w_stack th (FPool tk (PCatchCas e) :: r)) None) ch silent
    | _ =>
        (* FMain / FWorker only call wrapped tasks and generator functors, which catch everything (since /repo eb2d079 the generator
           functor records its exception itself; before, an instance run inline inside execute() let it escape: [escaping] below
           characterises that state, which the model would stop at); the other program points never have a throwing callee
           above them. *)
        None
    end.

  Definition mstep_thread (s : shared) (th : thread) (ch : list Z) : R :=
    match stack th with
    | [] => None
    | f :: r => match unw th with Some e => step_unwind s th e f r ch | None => step_frame s th f r ch end
    end.
End Frames.

(* 0 finished, 1 at a visible site, 2 about to make a silent transition, 3 blocked in the futex *)
Definition frame_kind (f : frame) : Z :=
  match f with
  | FMain MBlocked => 3
  | FMain (MExec _) | FMain (MCtsHelp _) => 2
  | FMain _ => 1
  | FTask _ _ _ TNext _ => 2
  | FPool _ PRun | FPool _ PFin | FPool _ PSkipGen | FPool _ PEnd => 2
  | FInline => 2
  | _ => 1
  end.
Definition th_kind (th : thread) : Z :=
  match stack th with
  | [] => 0
  | f :: _ =>
      match unw th with
      | None => frame_kind f
      | Some _ => match f with
                  | FTask false _ _ TOGuard _ => 1
                  | _ => 2 end
      end
  end.

(* the caller is unwinding out of execute() *)
Definition escaping (th : thread) : bool :=
  match unw th, stack th with Some _, FMain (MExec _) :: _ => true | _, _ => false end.

Definition wake_all (ths : list thread) : list thread :=
  map (fun th => match stack th with FMain MBlocked :: r => w_stack th (FMain MWoken :: r) | _ => th end) ths.

Definition mstep (c : cfg) (s : state) (t : nat) (ch : list Z) : option (state * list Z * Z) :=
  match nth_error (threads s) t with
  | None => None
  | Some th =>
      match mstep_thread c t (sh s) th ch with
      | None => None
      | Some (s1, th1, ch1, site, wake) =>
          Some (ST s1 (set_nth (if wake then wake_all (threads s) else threads s) t th1), ch1, site)
      end
  end.

Fixpoint settle (c : cfg) (fuel : nat) (s : state) (t : nat) (ch : list Z) : option (state * list Z) :=
  match nth_error (threads s) t with
  | None => None
  | Some th =>
      if th_kind th =? 2 then
        match fuel with
        | O => None
        | S f => match mstep c s t ch with Some (s1, ch1, _) => settle c f s1 t ch1 | None => None end
        end
      else Some (s, ch)
  end.

(* what one grant of the cooperative scheduler executes *)
Definition step (c : cfg) (s : state) (t : nat) (ch : list Z) : option (state * list Z * Z) :=
  match nth_error (threads s) t with
  | None => None
  | Some th =>
      if th_kind th =? 1 then
        match mstep c s t ch with
        | Some (s1, ch1, site) => match settle c 1000 s1 t ch1 with Some (s2, ch2) => Some (s2, ch2, site) | None => None end
        | None => None
        end
      else None
  end.

Fixpoint tids_where (f : thread -> bool) (ths : list thread) (i : nat) : list nat :=
  match ths with [] => [] | th :: r => if f th then i :: tids_where f r (S i) else tids_where f r (S i) end.
Definition cands (s : state) : list nat := tids_where (fun th => th_kind th =? 1) (threads s) 0.
Definition finished (s : state) : bool := forallb (fun th => th_kind th =? 0) (threads s).

Definition init_gate (sc : stage_cfg) : gate := GT (lim_of sc) 0 [] [].
Definition init (c : cfg) : state :=
  ST (SH (map init_gate (c_stages c)) [] [] 0 None false (ninst c) 0 false None [] 0)
     (TH [FMain MStart] 0 None false :: map (fun w => TH [FWorker false] (snd w) None (fst w)) (c_workers c)).

Definition run_pipe (fuel : nat) (c : cfg) (sched : list Z) := run (step c) cands finished fuel (init c) sched [].
