(* Interleaving model of dispenso::pipeline (dispenso/pipeline.h, detail/pipeline_impl.h) at the granularity of the gate
   operations of detail::LimitGatedScheduler: one visible step = one DISPENSO_VERIF_POINT site of pipeline_impl.h (resources
   fetch_sub / fetch_add, queue enqueue / try_dequeue, outstanding inc / dec, exception checks), the user stage body, the
   generator call, the completion latch and the two stores of TaskSetBase::trySetCurrentException.  The thread pool and the
   ConcurrentTaskSet are abstracted to: a bag of dispatched tasks (each popped at most once, by construction of [deq]), the
   counter of dispatched-and-not-finished tasks, the inline-or-queue decision of ConcurrentTaskSet::schedule (threshold policy as
   in the code, or an oracle), the cancelled check of packageTask.  Executable; no proofs.

   A thread is a stack of frames (function activations), its inline depth and the exception it is unwinding with.  [mstep]
   executes ONE frame transition (visible or silent); [step] = one visible transition followed by the silent ones up to the
   next visible site (this is what one grant of harness/vsched.h executes). *)
From Coq Require Import ZArith List Bool.
From DV Require Import Base.MachInt Base.Sched.
Import ListNotations.
Local Open Scope Z_scope.

Definition item := (Z * Z)%type.                       (* unique tag, current value *)
Definition no_limit : Z := 9223372036854775807.        (* kStageNoLimit *)

Record stage_cfg := SC { sc_limit : Z; sc_filter : bool; sc_drops : list Z; sc_throws : list Z }.
Record cfg := CFG {
  c_npool : Z;                 (* ThreadPool::numThreads() *)
  c_plf : Z;                   (* poolLoadFactor_ *)
  c_glimit : Z; c_nitems : Z; c_gthrow : Z;     (* generator: limit, items, index at which it throws (-1 never) *)
  c_stages : list stage_cfg;   (* the later stages, the last one is the sink *)
  c_oracle : bool;             (* true: dequeue picks / misses and inline decisions are oracle integers; false: as in the lockstep runs *)
  c_workers : list (bool * Z)  (* per worker thread: registered with the pool?, initial inline depth *)
}.

Definition lim_of (sc : stage_cfg) : Z := Z.max 1 (sc_limit sc).          (* StageLimits<Stage<T>>::limit *)
Definition dflt_sc : stage_cfg := SC 1 false [] [].
Definition stage_at (c : cfg) (j : nat) : stage_cfg := nth j (c_stages c) dflt_sc.
Definition unlimited (c : cfg) (j : nat) : bool := lim_of (stage_at c j) =? no_limit.
Definition serial (c : cfg) (j : nat) : bool := lim_of (stage_at c j) =? 1.
Definition ninst (c : cfg) : Z := Z.max 1 (Z.min (c_npool c) (Z.max 1 (c_glimit c))).
Definition nstages (c : cfg) : nat := length (c_stages c).
Definition mem (x : Z) (l : list Z) : bool := existsb (Z.eqb x) l.
Definition throws_at (c : cfg) (j : nat) (it : item) : bool := mem (fst it) (sc_throws (stage_at c j)).
Definition drops_at (c : cfg) (j : nat) (it : item) : bool := sc_filter (stage_at c j) && mem (fst it) (sc_drops (stage_at c j)).
Definition sval (j : nat) (v : Z) : Z := v * 16 + Z.of_nat j + 1.          (* what stage j computes (harness/h_pipeline.cpp) *)
Definition exc_id (j : nat) (it : item) : Z := (Z.of_nat j + 1) * 1000 + fst it.

Inductive ptask := TGen | TL (j : nat) (it : item) | TU (j : nat) (it : item).

Inductive mpc := MStart | MExec (g : Z) | MCwLoad | MCwFutex (cur : Z) | MBlocked | MWoken | MWaitStage (j : nat) | MCtsWait (dtor : bool).
Inductive gpc := GExc | GCall | GDone | GNStore | GNWake.
Inductive spc := SOinc | SEnq | SSub | SDeq | SAdd.
Inductive tpc := TUExc | TBody | TCbDeq | TCbAdd | TNext | TRGuard | TOGuard | TCatchCas (e : Z) | TCancel.
Inductive wpc := WOLoad | WExc | WDDeq | WDDec | WDeq | WSub | WAdd | WExc2 | WDec2.
Inductive ppc := PRun | PFin | PCatchCas (e : Z) | PCancel.

Inductive frame :=
| FMain (pc : mpc)                                              (* dispenso::pipeline on the calling thread *)
| FWorker (started : bool)                                      (* a pool worker's loop *)
| FGen (pc : gpc)                                               (* one generator instance *)
| FSched (j : nat) (it : item) (pc : spc)                       (* LimitGatedScheduler::schedule of stage j *)
| FTask (lim : bool) (j : nat) (it : item) (pc : tpc) (armed : bool)   (* the queued (lim) / directly scheduled (unlimited) stage task *)
| FWait (j : nat) (pc : wpc) (held : item)                      (* LimitGatedScheduler::wait of stage j *)
| FPool (tk : ptask) (pc : ppc)                                 (* packageTask wrapper + ThreadPool::executeNext *)
| FInline                                                       (* an InlineDepthGuard scope *)
| FHelp.                                                        (* the inner loop of ConcurrentTaskSet::wait *)

Record gate := GT { g_res : Z; g_out : Z; g_q : list (nat * item); g_prods : list nat }.
Record thread := TH { stack : list frame; depth : Z; unw : option Z; is_pool : bool }.
Record event := EV { e_tid : Z; e_kind : Z; e_j : Z; e_tag : Z; e_val : Z }.
(* kinds: 1 enter 2 exit 3 throw 4 generated 5 generator throws 6 generator ends (these six are also logged by the harness);
   ghost: 7 discarded by cleanupNotRun, 8 limited task skipped by the cancelled wrapper (payload never destroyed),
   9 pipeline returned, 10 exception escaped from execute(), 11 left in a gate queue at destruction (payload never destroyed),
   12 unlimited task skipped (payload destroyed with the wrapper), 13 generator instance skipped *)

Record shared := SH {
  gates : list gate; bag : list (nat * ptask); bprods : list nat; pout : Z;
  exc : option Z; canceled : bool; compl : Z; gnext : Z; done : bool; result : option Z; log : list event }.
Record state := ST { sh : shared; threads : list thread }.

Definition dflt_gate : gate := GT 0 0 [] [].
Definition gate_at (s : shared) (j : nat) : gate := nth j (gates s) dflt_gate.

Definition w_gates (s : shared) (g : list gate) := SH g (bag s) (bprods s) (pout s) (exc s) (canceled s) (compl s) (gnext s) (done s) (result s) (log s).
Definition w_bag (s : shared) (b : list (nat * ptask)) (p : list nat) := SH (gates s) b p (pout s) (exc s) (canceled s) (compl s) (gnext s) (done s) (result s) (log s).
Definition w_pout (s : shared) (x : Z) := SH (gates s) (bag s) (bprods s) x (exc s) (canceled s) (compl s) (gnext s) (done s) (result s) (log s).
Definition w_exc (s : shared) (x : option Z) := SH (gates s) (bag s) (bprods s) (pout s) x (canceled s) (compl s) (gnext s) (done s) (result s) (log s).
Definition w_canceled (s : shared) (x : bool) := SH (gates s) (bag s) (bprods s) (pout s) (exc s) x (compl s) (gnext s) (done s) (result s) (log s).
Definition w_compl (s : shared) (x : Z) := SH (gates s) (bag s) (bprods s) (pout s) (exc s) (canceled s) x (gnext s) (done s) (result s) (log s).
Definition w_gnext (s : shared) (x : Z) := SH (gates s) (bag s) (bprods s) (pout s) (exc s) (canceled s) (compl s) x (done s) (result s) (log s).
Definition w_done (s : shared) (x : bool) := SH (gates s) (bag s) (bprods s) (pout s) (exc s) (canceled s) (compl s) (gnext s) x (result s) (log s).
Definition w_result (s : shared) (x : option Z) := SH (gates s) (bag s) (bprods s) (pout s) (exc s) (canceled s) (compl s) (gnext s) (done s) x (log s).
Definition add_log (s : shared) (e : event) := SH (gates s) (bag s) (bprods s) (pout s) (exc s) (canceled s) (compl s) (gnext s) (done s) (result s) (e :: log s).

Fixpoint upd_nth {A} (n : nat) (f : A -> A) (l : list A) : list A :=
  match l, n with
  | [], _ => []
  | x :: r, O => f x :: r
  | x :: r, S m => x :: upd_nth m f r
  end.
Fixpoint set_nth {A} (l : list A) (n : nat) (x : A) : list A :=
  match l, n with
  | [], _ => []
  | _ :: r, O => x :: r
  | y :: r, S m => y :: set_nth r m x
  end.
Definition upd_gate (s : shared) (j : nat) (f : gate -> gate) : shared := w_gates s (upd_nth j f (gates s)).
Definition g_w_res (d : Z) (g : gate) := GT (g_res g + d) (g_out g) (g_q g) (g_prods g).
Definition g_w_out (d : Z) (g : gate) := GT (g_res g) (g_out g + d) (g_q g) (g_prods g).
Definition g_w_q (q : list (nat * item)) (p : list nat) (g : gate) := GT (g_res g) (g_out g) q p.
