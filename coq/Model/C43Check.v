(* Executable form of C43, evaluated on what the IMPLEMENTATION returned (correspondence step).
   Verdicts: 0 = implementation agrees with the model and the property holds on the implementation's output;
             1 = they differ but the property holds; 2 = the property fails on the implementation's output;
             4 = (parser only) the property fails, the string lies in the domain of the known finding
                 (list_lossy: a range starting at a representable id whose end exceeds 2^20), the implementation agrees
                 with the model and adds no id the string does not denote. *)
From Coq Require Import ZArith List Bool.
From Coq Require String Ascii.
From DV Require Import Base.Corr Model.CpuSetModel.
Import ListNotations.
Local Open Scope Z_scope.

(* ------------------------------------------------------------------------------------------- set operations *)
(* the 1024 membership bits of a word list, lowest id first (Proofs: decode_nth) *)
Fixpoint bits (n : nat) (w : Z) : list bool :=
  match n with O => [] | S n' => Z.odd w :: bits n' (Z.div2 w) end.
Definition decode (ws : list Z) : list bool := flat_map (bits 64) ws.
Definition bools_eqb := list_eqb Bool.eqb.

(* the checks pass a cpu_set_t as ONE number (word k = bits 64k .. 64k+63) and printable strings as string literals:
   far fewer literals for coqc to elaborate than 16 words / one code per character *)
Definition MASK64 : Z := 2 ^ 64 - 1.
Definition words_of_big (z : Z) : list Z :=
  map (fun k => Z.land (Z.shiftr z (64 * k)) MASK64) [0; 1; 2; 3; 4; 5; 6; 7; 8; 9; 10; 11; 12; 13; 14; 15].
Definition codes (s : String.string) : list Z := map (fun a => Z.of_N (Ascii.N_of_ascii a)) (String.list_ascii_of_string s).

(* the implementation's final cpu_set_t words denote exactly the set [mem] *)
Definition words_denote (ws : list Z) (mem : Z -> bool) : bool :=
  cs_wfb ws && bools_eqb (decode ws) (map mem all_ids).

(* case = (operations, (query results of the implementation, final words of the implementation)) *)
Definition judge_ops (c : list op * (list Z * Z)) : Z :=
  let '(ops, (ires, ibig)) := c in
  let iwords := words_of_big ibig in
  let okp := zlist_eqb ires (ref_results [] ops) && words_denote iwords (math_mem (rev ops)) in
  if negb okp then 2
  else let '(ms, mres) := run_ops cs_empty ops in
       if zlist_eqb ms iwords && zlist_eqb mres ires then 0 else 1.

(* ------------------------------------------------------------------------------------------- parser *)
(* recogniser for the grammar  item ("," item)*,  item ::= n | n "-" m *)
Definition recog_item (p : list Z) : option item :=
  match split_first CH_MINUS p with
  | Some (a, b) => if digitsb a && digitsb b then Some (IRange a b) else None
  | None => if digitsb p then Some (ISingle p) else None
  end.
Fixpoint all_some {A} (l : list (option A)) : option (list A) :=
  match l with
  | [] => Some []
  | None :: _ => None
  | Some x :: r => match all_some r with Some t => Some (x :: t) | None => None end
  end.
Definition recog (s : list Z) : option (list item) :=
  match all_some (map recog_item (split_on CH_COMMA s)) with
  | Some its => if zlist_eqb (render_list its) s && forallb item_okb its then Some its else None
  | None => None
  end.

(* the interval a piece contributes (computed once per piece) *)
Definition piece_iv (buf : list Z) : option (Z * Z) :=
  match buf with
  | [] => None
  | _ => match split_first CH_MINUS buf with
         | Some (a, b) =>
             let lo := parseIntClamped a in let hi := parseIntClamped b in
             if (0 <=? lo) && (0 <=? hi) then Some (lo, hi) else None
         | None => let v := parseIntClamped buf in if 0 <=? v then Some (v, v) else None
         end
  end.
Definition iv_mem (iv : option (Z * Z)) (i : Z) : bool :=
  match iv with Some (lo, hi) => (lo <=? i) && (i <=? hi) | None => false end.

Fixpoint subset_bools (a b : list bool) : bool :=
  match a, b with
  | x :: r, y :: s => (negb x || y) && subset_bools r s
  | [], [] => true
  | _, _ => false
  end.
Definition subsetb (ws : list Z) (mem : Z -> bool) : bool := subset_bools (decode ws) (map mem all_ids).

(* the ids an item denotes, as an interval computed once *)
Definition item_iv (it : item) : Z * Z :=
  match it with ISingle n => (dval n, dval n) | IRange n m => (dval n, dval m) end.
Definition ivs_mem (ivs : list (Z * Z)) (i : Z) : bool := existsb (fun iv => (fst iv <=? i) && (i <=? snd iv)) ivs.

(* case = (string as character codes, final words of the implementation) *)
Definition judge_parse (c : list Z * Z) : Z :=
  let '(s, ibig) := c in
  let iwords := words_of_big ibig in
  let agree := zlist_eqb (parseLinuxCpuList s) iwords in
  match recog s with
  | Some its =>
      (* a string of the grammar: exactly the in-range ids it denotes *)
      let ivs := map item_iv its in                       (* ivs_mem ivs = denotes its  (Proofs: ivs_mem_denotes) *)
      if words_denote iwords (ivs_mem ivs) then (if agree then 0 else 1)
      else if list_lossy its && agree && cs_wfb iwords && subsetb iwords (ivs_mem ivs) then 4 else 2
  | None =>
      (* any other string: the union of what its pieces contribute (Proofs: parse_any_string) *)
      let ivs := map piece_iv (split_on CH_COMMA (cstr s)) in
      if words_denote iwords (fun i => existsb (fun iv => iv_mem iv i) ivs) then (if agree then 0 else 1) else 2
  end.

Definition judge_parse_s (c : String.string * Z) : Z := judge_parse (codes (fst c), snd c).

(* exhaustive enumeration: all strings over the alphabet, compared through a digest per bucket *)
Definition ALPHA : list Z := [48; 49; 50; 51; 52; 53; 54; 55; 56; 57; 44; 45; 32].
Fixpoint strings_of_len (n : nat) : list (list Z) :=
  match n with
  | O => [[]]
  | S n' => flat_map (fun c => map (cons c) (strings_of_len n')) ALPHA
  end.
Fixpoint fp_from (k : Z) (ws : list Z) : Z :=
  match ws with [] => 0 | w :: r => Z.shiftl w k + fp_from (k + 1) r end.
Definition fp (ws : list Z) : Z := fp_from 0 ws.
Definition digest_step (d : Z) (s : list Z) : Z := Z.land (3 * d + fp (parseLinuxCpuList s) + 1) MASK64.
Definition bucket_digest (pre : list Z) (n : nat) : Z :=
  fold_left digest_step (map (app pre) (strings_of_len n)) 0.
(* case = (prefix, suffix length, digest of the implementation): 0 = equal *)
Definition judge_bucket (c : list Z * Z * Z) : Z :=
  let '(pre, n, d) := c in if bucket_digest pre (Z.to_nat n) =? d then 0 else 1.

(* ------------------------------------------------------------------------------------------- grouping *)
Definition nonnilb (l : list Z) : bool := match l with [] => false | _ => true end.
Definition inclb (a g : list Z) : bool := forallb (fun c => memb c g) a.
Definition touchesb (a g : list Z) : bool := existsb (fun c => memb c g) a.
Fixpoint nodupb (l : list Z) : bool :=
  match l with [] => true | x :: r => negb (memb x r) && nodupb r end.
Definition nestedb (l2s l3s : list (list Z)) : bool :=
  forallb (fun a => forallb (fun c => l3_index l3s c =? l3_index l3s (hd 0 a)) a) l2s.
Definition one_known_l3 (l3s : list (list Z)) (g : list Z) : bool :=
  match filter (fun k => 0 <=? k) (map (l3_index l3s) g) with
  | [] => true
  | k :: r => forallb (Z.eqb k) r
  end.
Fixpoint sortedb (l : list Z) : bool :=
  match l with
  | x :: ((y :: _) as r) => (x <=? y) && sortedb r
  | _ => true
  end.
Fixpoint dedup (l : list Z) : list Z :=
  match l with [] => [] | x :: r => if memb x r then dedup r else x :: dedup r end.
(* mask = exactly the representable cpus of the group: a superset of them with the same cardinality *)
Definition mask_ok (g : list Z) (m : list Z) : bool :=
  cs_wfb m && forallb (fun c => negb (in_cap c) || cs_contains m c) g &&
  (cs_count m =? zlen (dedup (filter in_cap g))).
Fixpoint forallb2 {A B} (f : A -> B -> bool) (l1 : list A) (l2 : list B) : bool :=
  match l1, l2 with
  | [], [] => true
  | x :: r1, y :: r2 => f x y && forallb2 f r1 r2
  | _, _ => false
  end.

Definition check_groups (l2s l3s : list (list Z)) (mg : Z) (groups : list (list Z)) : bool :=
  zlist_eqb (isort (concat groups)) (isort (concat l2s)) &&                         (* same cpus, same multiplicities *)
  forallb nonnilb groups && forallb sortedb groups &&
  forallb (fun g => zlen g <=? Z.max mg (largest l2s)) groups &&                    (* size bound *)
  forallb (fun a => negb (nonnilb a) || existsb (inclb a) groups) l2s &&            (* every L2 atom inside one group *)
  (negb (nodupb (concat l2s)) ||
   (nodupb (concat groups) &&                                                        (* disjoint atoms: a partition ... *)
    forallb (fun a => forallb (fun g => negb (touchesb a g) || inclb a g) groups) l2s)) &&  (* ... that never splits an atom *)
  (negb (nestedb l2s l3s) || forallb (one_known_l3 l3s) groups).                    (* never two known L3 groups *)

Definition zlists_eqb := list_eqb zlist_eqb.

(* case = ((l2 groups, l3 groups, maxGroupSize), (groups of the implementation, their affinity masks as numbers)) *)
Definition judge_groups (c : (list (list Z) * list (list Z) * Z) * (list (list Z) * list Z)) : Z :=
  let '((l2s, l3s, mg), (ig, ibigs)) := c in
  let im := map words_of_big ibigs in
  if negb (check_groups l2s l3s mg ig && forallb2 mask_ok ig im) then 2
  else let mgroups := buildGroups l2s l3s mg in
       if zlists_eqb mgroups ig && zlists_eqb (map cs_from_ids mgroups) im then 0 else 1.
