(* Executable form of C17, evaluated on what the IMPLEMENTATION returned (correspondence step). *)
From Coq Require Import ZArith List Bool Lia.
From DV Require Import Base.MachInt Base.Corr Model.ChunkModel Gen.GenChunk Model.ParForModel.
Import ListNotations.
Local Open Scope Z_scope.

(* (t, c) is a valid static chunking of items into chunks pieces with unit u = max 1 g *)
Definition check_sc (items chunks g t c : Z) : bool :=
  let u := unit_of g in
  (0 <=? t) && (t <=? chunks) && (0 <=? c) && (t * c + (chunks - t) * (c - u) =? items) &&
  (Z.rem c u =? 0) && ((chunks <=? t) || (u <=? c)).

(* sizes are non-increasing, differ by at most u, and are multiples of u *)
Fixpoint sizes_ok (u first : Z) (l : list (Z * Z)) : bool :=
  match l with
  | [] => true
  | (a, b) :: r =>
      let sz := b - a in
      (sz <=? first) && (first - sz <=? u) && (Z.rem sz u =? 0) &&
      match r with [] => true | (a', b') :: _ => (b' - a' <=? sz) && sizes_ok u first r end
  end.

Definition check_static_chunks (s e g : Z) (hasTail : bool) (l : list (Z * Z)) : bool :=
  contiguousb s l e &&
  let body := if hasTail then removelast l else l in
  match body with
  | [] => true
  | (a, b) :: _ => sizes_ok (unit_of g) (b - a) body
  end.

(* one scs/scg case: inputs and the implementation's answer.  0 = agrees with the regenerated definition and
   satisfies the property; 1 = differs from the model but the property holds; 2 = the property fails *)
Definition judge_sc (c : Z * Z * Z * (Z * Z)) : Z :=
  let '(items, chunks, g, (t, cc)) := c in
  if negb (check_sc items chunks g t cc) then 2
  else if zpair_eqb (gen_staticChunkSizeGranular items chunks g) (t, cc) then 0 else 1.

Definition judge_scs (c : Z * Z * (Z * Z)) : Z :=
  let '(items, chunks, (t, cc)) := c in
  if negb (check_sc items chunks 1 t cc) then 2
  else if zpair_eqb (gen_staticChunkSize items chunks) (t, cc) then 0 else 1.

(* one parallel_for case on the static path.  3 = not the static/serial path (not judged here) *)
Definition judge_pf (c : pfcfg * list (Z * Z)) : Z :=
  let '(cfg, impl) := c in
  match static_calls cfg with
  | None => 3
  | Some m =>
      let d := pf_decide cfg in
      let okp := match d_path d with
                 | PStatic => check_static_chunks (pf_s cfg) (pf_e cfg) (d_g d) (d_hasTail d) impl
                 | _ => contiguousb (pf_s cfg) impl (pf_e cfg)
                 end in
      if negb okp then 2 else if zpairs_eqb m impl then 0 else 1
  end.
