(* Executable form of C42, evaluated on what the IMPLEMENTATION did (correspondence step of props/C42.py).
   A case = chunkSize, allocSize, the client history, and the observations made by harness/h_poolalloc.cpp
   on the real PoolAllocatorT: per operation [ObA slab offset ncalls cap] (alloc: slab index, byte offset in the slab,
   allocFunc calls so far, totalChunkCapacity()) or [ObN ncalls cap] (dealloc/clear), the slab indices passed to deallocFunc by
   the destructor in order, and the "byte patterns intact" flag. *)
From Coq Require Import ZArith List Bool.
From DV Require Import Base.MachInt Base.Corr Model.PoolAllocModel.
Import ListNotations.
Local Open Scope Z_scope.

(* the model's allocFunc: a fresh block 2^40 above everything live; on the model's own ledger this places
   slab i at (i+1) * 2^40, so a model address maps back to (slab index, offset) by division.
   Proofs/C42Proofs.v (oracle_pa_fresh) shows that it satisfies the freshness hypothesis of the theorems
   whenever allocSize <= 2^40. *)
Definition slab_stride : Z := 2 ^ 40.
Definition oracle_pa (live : list Z) : Z := fold_right (fun b m => Z.max (b + slab_stride) m) slab_stride live.
Definition addr_slab (p : Z) : Z := p / slab_stride - 1.
Definition addr_off (p : Z) : Z := p mod slab_stride.

(* monomorphic constructors: the case files written by props/C42.py typecheck much faster than with tuples *)
Inductive obs :=
| ObA (slab off ncalls cap : Z)     (* alloc(): chunk position, allocFunc calls so far, totalChunkCapacity() *)
| ObN (ncalls cap : Z).             (* dealloc / clear *)
Definition obs_nc (o : obs) : Z := match o with ObA _ _ nc _ => nc | ObN nc _ => nc end.
Definition obs_eqb (a b : obs) : bool :=
  match a, b with
  | ObA a1 a2 a3 a4, ObA b1 b2 b3 b4 => (a1 =? b1) && (a2 =? b2) && (a3 =? b3) && (a4 =? b4)
  | ObN a3 a4, ObN b3 b4 => (a3 =? b3) && (a4 =? b4)
  | _, _ => false
  end.

Definition model_obs (cs asz : Z) (x : ev * pa) : obs :=
  let nc := Z.of_nat (pa_ncalls (snd x)) in
  let cap := capacity cs asz (snd x) in
  match fst x with
  | EvAlloc p _ => ObA (addr_slab p) (addr_off p) nc cap
  | EvNone => ObN nc cap
  end.

(* what the model predicts for a history: per-operation observations and the destructor's deallocFunc calls *)
Definition model_run (cs asz : Z) (ops : list op) : option (list obs * list Z) :=
  match run_trace cs asz oracle_pa ops rs_init [] with
  | Some (r, tr) => Some (map (model_obs cs asz) tr, map addr_slab (dtor_calls (rs_pa r)))
  | None => None
  end.

(* ---- the property on the implementation's observations alone (no allocator model involved; only the client's
   own bookkeeping of which chunks are outstanding, as (slab, offset) pairs) *)

(* a chunk returned by alloc(): inside a slab obtained so far, and byte-disjoint from every outstanding chunk
   (in particular not one of them) *)
Definition chunk_ok (cs asz nc : Z) (out : list (Z * Z)) (s off : Z) : bool :=
  (0 <=? s) && (s <? nc) && (0 <=? off) && (off + cs <=? asz) &&
  forallb (fun q => negb (s =? fst q) || (off + cs <=? snd q) || (snd q + cs <=? off)) out.

(* allocFunc is called (at most once) only by an alloc() that finds every chunk of every slab outstanding *)
Definition calls_ok (cpa_ prev nc nout : Z) : bool :=
  (nc =? prev) || ((nc =? prev + 1) && (nout =? cpa_ * prev)).

(* None = the case is malformed (observation count differs, dealloc index out of range) *)
Fixpoint check_ops (cs asz cpa_ : Z) (ops : list op) (ol : list obs) (out : list (Z * Z)) (prev : Z) : option (bool * Z) :=
  match ops, ol with
  | [], [] => Some (true, prev)
  | Alloc :: ops', ObA s off nc _ :: ol' =>
      if chunk_ok cs asz nc out s off && calls_ok cpa_ prev nc (Z.of_nat (length out))
      then check_ops cs asz cpa_ ops' ol' (out ++ [(s, off)]) nc
      else Some (false, nc)
  | Dealloc i :: ops', ObN nc _ :: ol' =>
      match take_nth i out with
      | None => None
      | Some (_, out') => if nc =? prev then check_ops cs asz cpa_ ops' ol' out' nc else Some (false, nc)
      end
  | Clear :: ops', ObN nc _ :: ol' => if nc =? prev then check_ops cs asz cpa_ ops' ol' [] nc else Some (false, nc)
  | _, _ => None
  end.

(* the destructor passes every slab to deallocFunc exactly once *)
Definition dtor_ok (nc : Z) (dl : list Z) : bool :=
  (Z.of_nat (length dl) =? nc) &&
  forallb (fun k => existsb (Z.eqb k) dl) (map Z.of_nat (seq 0 (Z.to_nat nc))).

Definition last_ncalls (ol : list obs) : Z := match rev ol with o :: _ => obs_nc o | [] => 0 end.

Inductive pa_case := PC (cs asz : Z) (ops : list op) (ol : list obs) (dl : list Z) (intact : bool).

(* 0 = implementation agrees with the model on every observation and the property holds on its output;
   1 = differs from the model but the property holds; 2 = the property fails on the implementation's output;
   3 = case outside the guarded domain / malformed (not judged) *)
Definition judge_pa (c : pa_case) : Z :=
  let '(PC cs asz ops ol dl intact) := c in
  if negb ((1 <=? cs) && (cs <=? asz) && (asz <=? slab_stride)) then 3 else
  match check_ops cs asz (cpa cs asz) ops ol [] 0 with
  | None => 3
  | Some (ok, _) =>
      if negb (ok && intact && dtor_ok (last_ncalls ol) dl) then 2 else
      match model_run cs asz ops with
      | None => 3
      | Some (mol, mdl) => if list_eqb obs_eqb mol ol && zlist_eqb mdl dl then 0 else 1
      end
  end.
