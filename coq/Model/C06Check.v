(* Executable side of the C06 correspondence.  harness/h_nested.cpp runs a nesting program on the REAL dispenso (pool of N threads,
   root body on an external thread) under a watchdog and reports whether the root body returned and how many leaf bodies ran.
   [judge06 (p, N, status, work)]:
     0  the run completed, every leaf body ran exactly as often as the program says (count_work), and the model agrees: a fair
        round-robin run of the model completes within mu(init) rounds (which C06_holds_except proves for every program without a
        foreign future wait -- evaluated here as a cross-check of the proof's measure on the very programs that are run);
     1  the run completed but the leaf count differs, or the model does not complete where the theorem says it must;
     4  the run did not complete (watchdog) and the program lies in the finding's domain (foreign_wait p = true: a task waits
        for a future of an enclosing body);
     2  the run did not complete outside that domain: the real code violates C06 (replay = the program). *)
From Coq Require Import ZArith List Bool.
From DV Require Import Base.Sched Model.NestedWaitModel.
Import ListNotations.
Local Open Scope Z_scope.

Definition model_completes (p : list op) (n : nat) : bool :=
  let m := mu (init p n) in
  finished (run_sched (init p n) (concat (repeat (round_robin (S n) 1) m))).

Definition judge06 (x : list op * Z * Z * Z) : Z :=
  let '(p, n, status, work) := x in
  let nn := Z.to_nat n in
  if status =? 0 then
    if (Z.of_nat (count_work p) =? work) && (model_completes p nn || foreign_wait p) then 0 else 1
  else if foreign_wait p then 4 else 2.
