(* Executable form of C40, evaluated on what the IMPLEMENTATION printed (harness/h_opresult.cpp), and the
   comparison of the implementation with the model.  Used by props/C40.py through vm_compute. *)
From Coq Require Import ZArith List Bool.
From DV Require Import Base.Corr Base.Life Model.OpResultModel.
Import ListNotations.
Local Open Scope Z_scope.

(* what is compared after each operation: the variables and (live objects, misuses so far) of the payload ledger
   (the full counters are compared once, at the end: parsing large terms is what limits the case count) *)
Definition obs := (vars * (Z * Z))%type.

Definition var_eqb (a b : var) : bool := opt_eqb (opt_eqb Z.eqb) a b.
Definition vars_eqb := list_eqb var_eqb.
Definition obs_eqb (a b : obs) : bool := vars_eqb (fst a) (fst b) && zpair_eqb (snd a) (snd b).

Definition obs_of (s : state) : obs :=
  let g := st_led s in (st_vars s, (live_count g, Z.of_nat (length (l_errs g)))).

(* lifetime part of the property at one observation point: no misuse so far, and the objects that still need a
   destructor are exactly the contents of the engaged variables *)
Definition life_ok (o : obs) : bool :=
  let '(vs, (live, errs)) := o in (errs =? 0) && (live =? engaged_count vs).

(* at the end of a complete program (all variables destroyed): everything constructed was destroyed.
   fin = the numbers of life::Ledger::line(): cv cc cm ac am d live moved e0..e4 misaligned *)
Definition end_ok (vs : vars) (fin : list Z) : bool :=
  negb (all_gone vs) ||
  ((nth 6 fin 1 =? 0) && (nth 0 fin 0 + nth 1 fin 0 + nth 2 fin 0 =? nth 5 fin (-1)) &&
   forallb (Z.eqb 0) (firstn 5 (skipn 8 fin))).

(* one case: number of variables, operations, implementation trace, final payload ledger numbers of OpResult
   (ledger_obs order, then misaligned), has_value/operator bool disagreement flag, the same for std::optional.
   Verdicts: 0 = implementation = model, std::optional = specification, property holds on the implementation's output
             1 = property holds but model or specification differ from what ran
             2 = property fails on the implementation's output (optional semantics, or unbalanced lifetimes)
             3 = the case is not a valid program (driver error) *)
Definition judge_c40 (c : nat * list op * list obs * list Z * bool * list vars * list Z) : Z :=
  let '(nv, ops, impl, impl_final, flag, optl, opt_final) := c in
  match trace (init nv) ops, spec_trace (repeat None nv) ops with
  | Some mt, Some st =>
      let refines := list_eqb vars_rel (map fst impl) st && negb flag in
      let life := forallb life_ok impl && end_ok (last (map fst impl) []) impl_final && (nth 13 impl_final 1 =? 0) in
      let final_model := match rev mt with [] => ledger0 | s :: _ => st_led s end in
      let agrees := list_eqb obs_eqb (map obs_of mt) impl && zlist_eqb (ledger_obs final_model ++ [0]) impl_final in
      (* the reference: std::optional behaves as the specification, and its own payload is balanced *)
      let opt_ok := list_eqb vars_eqb st optl &&
                    end_ok (last optl []) opt_final in
      if negb refines || negb life then 2
      else if agrees && opt_ok then 0 else 1
  | _, _ => 3
  end.

(* does the case move an engaged value (where OpResult and std::optional legitimately differ)?  (reported as coverage) *)
Definition in_domain_c40 (c : nat * list op) : Z :=
  if has_engaged_move (init (fst c)) (snd c) then 1 else 0.

(* ---- flat encoding used by props/C40.py (big nested terms are slow to parse): everything is a list of numbers.
   variable: -3 = no object, -2 = disengaged, otherwise the tag;  operation: (code, i, a) with code
   0 ODefault, 1 OValueMove, 2 OValueCopy, 3 OCopy, 4 OMove, 5 OCopyAssign, 6 OMoveAssign, 7 OEmplace, 8 OPoke, 9 ODestroy;
   observation: nv variables then live, errors *)
Definition dec_var (z : Z) : var := if z =? -3 then None else if z =? -2 then Some None else Some (Some z).

Definition dec_op (k i a : Z) : op :=
  let i' := Z.to_nat i in let j := Z.to_nat a in
  if k =? 0 then ODefault i' else if k =? 1 then OValueMove i' a else if k =? 2 then OValueCopy i' a
  else if k =? 3 then OCopy i' j else if k =? 4 then OMove i' j else if k =? 5 then OCopyAssign i' j
  else if k =? 6 then OMoveAssign i' j else if k =? 7 then OEmplace i' a else if k =? 8 then OPoke i' a else ODestroy i'.

Fixpoint dec_ops (l : list Z) : list op :=
  match l with
  | k :: i :: a :: r => dec_op k i a :: dec_ops r
  | _ => []
  end.

Fixpoint dec_obs (fuel nv : nat) (l : list Z) : list obs :=
  match fuel, l with
  | S f, _ :: _ =>
      let vs := map dec_var (firstn nv l) in
      let q := skipn nv l in
      (vs, (nth 0 q 0, nth 1 q 0)) :: dec_obs f nv (skipn 2 q)
  | _, _ => []
  end.

Fixpoint dec_vars (fuel nv : nat) (l : list Z) : list vars :=
  match fuel, l with
  | S f, _ :: _ => map dec_var (firstn nv l) :: dec_vars f nv (skipn nv l)
  | _, _ => []
  end.

Definition judge_c40_flat (c : Z * list Z * list Z * list Z * Z * list Z * list Z) : Z :=
  let '(nv, ops, impl, impl_final, flag, optl, opt_final) := c in
  let n := Z.to_nat nv in
  judge_c40 (n, dec_ops ops, dec_obs (length impl) n impl, impl_final, negb (flag =? 0), dec_vars (length optl) n optl, opt_final).
