(* Executable form of C40, evaluated on what the IMPLEMENTATION printed (harness/h_opresult.cpp), and the
   comparison of the implementation with the model.  Used by props/C40.py through vm_compute. *)
From Coq Require Import ZArith List Bool.
From DV Require Import Base.Corr Base.Life Model.OpResultModel.
Import ListNotations.
Local Open Scope Z_scope.

(* what the harness prints after each operation: the variables and (live, constructions, destructor calls, errors)
   of the payload ledger *)
Definition obs := (vars * (Z * Z * Z * Z))%type.

Definition var_eqb (a b : var) : bool := opt_eqb (opt_eqb Z.eqb) a b.
Definition vars_eqb := list_eqb var_eqb.
Definition quad_eqb (a b : Z * Z * Z * Z) : bool :=
  let '(a1, a2, a3, a4) := a in let '(b1, b2, b3, b4) := b in (a1 =? b1) && (a2 =? b2) && (a3 =? b3) && (a4 =? b4).
Definition obs_eqb (a b : obs) : bool := vars_eqb (fst a) (fst b) && quad_eqb (snd a) (snd b).

Definition obs_of (s : state) : obs :=
  let g := st_led s in (st_vars s, (live_count g, n_ctor g, n_dtor g, Z.of_nat (length (l_errs g)))).

(* lifetime part of the property at one observation point: no misuse so far, and the objects that still need a
   destructor are exactly the contents of the engaged variables *)
Definition life_ok (o : obs) : bool :=
  let '(vs, (live, _, _, errs)) := o in (errs =? 0) && (live =? engaged_count vs).

(* at the end of a complete program (all variables destroyed): everything constructed was destroyed *)
Definition end_ok (o : obs) : bool :=
  let '(vs, (live, c, d, errs)) := o in negb (all_gone vs) || ((live =? 0) && (c =? d) && (errs =? 0)).

Definition last_obs (l : list obs) : obs := last l ([], (0, 0, 0, 0)).

(* one case: number of variables, operations, implementation trace, final payload ledger numbers of OpResult
   (ledger_obs order, then misaligned), has_value/operator bool disagreement flag, the same for std::optional.
   Verdicts: 0 = implementation = model, std::optional = specification, property holds on the implementation's output
             1 = property holds but model or specification differ from what ran
             2 = property fails on the implementation's output (outside the known finding's domain)
             3 = the case is not a valid program (driver error)
             4 = the lifetime part fails and the sequence moves from an engaged OpResult (finding move-leaks-moved-from) *)
Definition judge_c40 (c : nat * list op * list obs * list Z * bool * list vars * list Z) : Z :=
  let '(nv, ops, impl, impl_final, flag, optl, opt_final) := c in
  match trace (init nv) ops, spec_trace (repeat None nv) ops with
  | Some mt, Some st =>
      let refines := list_eqb vars_rel (map fst impl) st && negb flag in
      let life := forallb life_ok impl && end_ok (last_obs impl) && (nth 13 impl_final 1 =? 0) in
      let final_model := match rev mt with [] => ledger0 | s :: _ => st_led s end in
      let agrees := list_eqb obs_eqb (map obs_of mt) impl && zlist_eqb (ledger_obs final_model ++ [0]) impl_final in
      (* the reference: std::optional behaves as the specification, and its own payload is balanced *)
      let opt_ok := list_eqb vars_eqb st optl &&
                    (negb (all_gone (last optl [])) ||
                     ((nth 6 opt_final 1 =? 0) && (forallb (Z.eqb 0) (firstn 5 (skipn 8 opt_final))))) in
      if negb refines then 2
      else if negb life then (if has_engaged_move (init nv) ops then 4 else 2)
      else if agrees && opt_ok then 0 else 1
  | _, _ => 3
  end.

(* is the case inside the finding's domain?  (reported as coverage) *)
Definition in_domain_c40 (c : nat * list op) : Z :=
  if has_engaged_move (init (fst c)) (snd c) then 1 else 0.
