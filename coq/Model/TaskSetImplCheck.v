(* Judges of the task-set layer (C02, C04, C05, C47) that do NOT depend on the regenerated decision functions (Gen/GenTaskSet.v): the
   implementation's trace / log under harness/vsched.h (harness/h_taskset.cpp) vs. Model/TaskSetModel.v on the same schedule, the executable
   properties evaluated on the implementation's own log, and the implementation-only part of the decision runs (D).  They keep evaluating when
   a source change breaks the translator or the tie, so that a concrete failing input can still be found. *)
From Coq Require Import ZArith List Bool.
From DV Require Import Base.MachInt Base.Sched Model.TaskSetModel.
Import ListNotations.
Local Open Scope Z_scope.

Record lcase := LC {
  l_u : setup; l_fuel : nat; l_sched : list Z;
  i_trace : list (Z * Z);              (* implementation: (tid, site code) per step *)
  i_res : list (list ev);              (* per thread, oldest first *)
  i_sets : list (Z * Z * Z);           (* per set: outstanding, canceled, guard at the end *)
  i_wr : Z; i_q : Z; i_status : Z;
  i_wrapped : list Z }.                (* ids of the tasks whose body was started by the queued-task wrapper (site ts.task.body) *)

Definition zpair_eqb (a b : Z * Z) : bool := (fst a =? fst b) && (snd a =? snd b).
Definition ztrip_eqb (a b : Z * Z * Z) : bool := zpair_eqb (fst a) (fst b) && (snd a =? snd b).
Fixpoint list_eqb {A} (eq : A -> A -> bool) (a b : list A) : bool :=
  match a, b with
  | [], [] => true
  | x :: a', y :: b' => eq x y && list_eqb eq a' b'
  | _, _ => false
  end.

Definition agrees (c : lcase) : bool :=
  let '(s, tr, st) := run_ts (l_fuel c) (l_u c) (l_sched c) in
  list_eqb zpair_eqb tr (i_trace c) && (status_code st =? i_status c) &&
  list_eqb (list_eqb ztrip_eqb) (map (fun th => rev (res th)) (threads s)) (i_res c) &&
  list_eqb ztrip_eqb (map (fun T => (outst (sets (sh s) T), b2z (canc (sets (sh s) T)), guard (sets (sh s) T))) (seq 0 (length (i_sets c)))) (i_sets c) &&
  (wr (sh s) =? i_wr c) && (Z.of_nat (length (queue (sh s))) =? i_q c).

(* ---------- the implementation's log ---------- *)
Definition tag (e : ev) : Z := fst (fst e).
Definition arg (e : ev) : Z := snd (fst e).
Definition stamp (e : ev) : Z := snd e.
Definition all_ev (c : lcase) : list ev := concat (i_res c).

(* submitted tasks (id, set, stamp of the return of the scheduling call) *)
Definition subs_of (e : ev) : list (Z * Z * Z) :=
  if (tag e =? t_s) || (tag e =? t_sf) then [(arg e / 64, arg e mod 64, stamp e)]
  else if (tag e =? t_bs) || (tag e =? t_bf) then
    let n := arg e mod 64 in let bt := arg e / 64 in
    map (fun j => (bt / 64 + Z.of_nat j, bt mod 64, stamp e)) (seq 0 (Z.to_nat n))
  else [].
Definition subs (c : lcase) : list (Z * Z * Z) := flat_map subs_of (all_ev c).
Definition started (c : lcase) (k : Z) : bool := existsb (fun e => (tag e =? t_b) && (arg e =? k)) (all_ev c).
Definition ended_by (c : lcase) (k w : Z) : bool :=
  existsb (fun e => ((tag e =? t_e) || (tag e =? t_ee)) && (arg e =? k) && (stamp e <=? w)) (all_ev c).
Definition count_starts (c : lcase) (k : Z) : nat := length (filter (fun e => (tag e =? t_b) && (arg e =? k)) (all_ev c)).

(* completed waits of one thread: (set, stamp of the call, kind tag, result/exception, stamp of the return).  A completion event
   closes the most recent open call on the same set (waits nest when a waiter executes a task that waits). *)
Fixpoint close_wait (open : list (Z * Z)) (T : Z) : option (Z * list (Z * Z)) :=
  match open with
  | [] => None
  | (T', st) :: r => if T' =? T then Some (st, r) else match close_wait r T with Some (x, r') => Some (x, (T', st) :: r') | None => None end
  end.
Fixpoint waits_of (l : list ev) (open : list (Z * Z)) : list (Z * Z * Z * Z * Z) :=
  match l with
  | [] => []
  | e :: r =>
      if tag e =? t_wc then waits_of r ((arg e, stamp e) :: open)
      else if (tag e =? t_w) || (tag e =? t_tw) || (tag e =? t_rt) then
        let T := arg e mod 64 in
        match close_wait open T with
        | Some (cst, open') => (T, cst, tag e, arg e / 64, stamp e) :: waits_of r open'
        | None => waits_of r open
        end
      else waits_of r open
  end.
Definition waits (c : lcase) : list (Z * Z * Z * Z * Z) := flat_map (fun l => waits_of l []) (i_res c).

(* submissions with the task in whose body they were made (0 = none): the innermost body open in that thread's log at that point *)
Fixpoint remove_first (k : Z) (l : list Z) : list Z :=
  match l with [] => [] | x :: r => if x =? k then r else x :: remove_first k r end.
Fixpoint subs_par (l : list ev) (open : list Z) : list (Z * Z * Z * Z) :=
  match l with
  | [] => []
  | e :: r =>
      if tag e =? t_b then subs_par r (arg e :: open)
      else if (tag e =? t_e) || (tag e =? t_ee) then subs_par r (remove_first (arg e) open)
      else map (fun x => let '(k, T, st) := x in (k, T, st, hd 0 open)) (subs_of e) ++ subs_par r open
  end.
Definition all_subs_par (c : lcase) : list (Z * Z * Z * Z) := flat_map (fun l => subs_par l []) (i_res c).
(* tasks of T a completed wait called at cstamp is a barrier for: scheduling call returned before the wait was called, or scheduled by (the body
   of) such a task -- transitively *)
Fixpoint covered (fuel : nat) (T cstamp : Z) (all : list (Z * Z * Z * Z)) (acc : list Z) : list Z :=
  match fuel with
  | O => acc
  | S f => covered f T cstamp all
             (map (fun x => fst (fst (fst x)))
                  (filter (fun x => let '(k, T', st, par) := x in
                                    (T' =? T) && ((st <=? cstamp) || ((0 <? par) && existsb (Z.eqb par) acc))) all))
  end.
(* C02 on the implementation's log: a completed wait / a tryWait that returned true is a barrier for every task of the set whose
   scheduling call returned before the wait was called and for every task scheduled by such a task; no body starts twice *)
Definition check_C02 (c : lcase) : bool :=
  let all := all_subs_par c in
  forallb (fun w =>
    let '(T, cstamp, kind, r, wstamp) := w in
    let complete := (kind =? t_w) || (kind =? t_rt) || ((kind =? t_tw) && (r =? 1)) in
    let cancelled := (kind =? t_rt) || ((kind =? t_w) && (r =? 1)) in
    negb complete ||
    forallb (fun k => if started c k then ended_by c k wstamp else cancelled) (covered (S (length all)) T cstamp all [])) (waits c) &&
  forallb (fun s => let '(k, _, _) := s in Nat.leb (count_starts c k) 1) (subs c).

(* C04 on the implementation's trace: a body call site of set T reached after the first canceled_ := true store of T must be
   licensed by a canceled_ load of the same thread that precedes that store (only outstanding-loads of T in between).
   Returns (violated, true) *)
Definition is_body_site (i : Z) : bool := (i =? 3) || (i =? 5) || (i =? 6) || (i =? 8) || (i =? 9) || (i =? 12) || (i =? 29).
Definition is_lic_site (i : Z) : bool := (i =? 1) || (i =? 11).
Definition is_mid_site (i : Z) : bool := (i =? 2) || (i =? 24) || (i =? 26).
Definition is_cstore_site (i : Z) : bool := (i =? 42) || (i =? 17).
Fixpoint first_cstore (tr : list (Z * Z)) (T : Z) (idx : Z) : option Z :=
  match tr with
  | [] => None
  | (_, code) :: r => if is_cstore_site (code / 64) && (code mod 64 =? T) then Some idx else first_cstore r T (idx + 1)
  end.
Definition cstore_of (c : lcase) (T : Z) : option Z :=
  if nth (Z.to_nat T) (su_canc (l_u c)) false then Some 0 else first_cstore (i_trace c) T 1.
Definition lic_get (m : list (Z * (Z * Z))) (t : Z) : option (Z * Z) :=
  match find (fun p => fst p =? t) m with Some p => Some (snd p) | None => None end.
Definition lic_set (m : list (Z * (Z * Z))) (t : Z) (v : option (Z * Z)) : list (Z * (Z * Z)) :=
  let m' := filter (fun p => negb (fst p =? t)) m in
  match v with Some x => (t, x) :: m' | None => m' end.
(* cancel() calls that returned: (set, stamp), and the cascade: a set and the registered children below it *)
Definition cancel_returns (c : lcase) : list (Z * Z) := map (fun e => (arg e, stamp e)) (filter (fun e => tag e =? t_c) (all_ev c)).
Fixpoint in_desc (fuel : nat) (cfgs : list tcfg) (P T : Z) : bool :=
  (P =? T) || match fuel with
              | O => false
              | S f => existsb (fun kid => in_desc f cfgs (Z.of_nat kid) T) (kids (nth (Z.to_nat P) cfgs tc0))
              end.
Fixpoint scan_C04 (c : lcase) (tr : list (Z * Z)) (idx : Z) (m : list (Z * (Z * Z))) (viol known : bool) : bool * bool :=
  match tr with
  | [] => (viol, known)
  | (t, code) :: r =>
      let i := code / 64 in let T := code mod 64 in
      if is_lic_site i then scan_C04 c r (idx + 1) (lic_set m t (Some (T, idx))) viol known
      else if is_mid_site i then
        scan_C04 c r (idx + 1) (match lic_get m t with Some (T', _) => if T' =? T then m else lic_set m t None | None => m end) viol known
      else if is_body_site i then
        let bad1 := match cstore_of c T with
                    | None => false
                    | Some cs => (cs <? idx) && negb (match lic_get m t with Some (T', l) => (T' =? T) && (l <? cs) | None => false end)
                    end in
        (* a body of T -- or of a cascading descendant of P -- after cancel(P) returned needs a licence obtained before that return *)
        let bad2 := existsb (fun pr => let '(P, R) := pr in
                               (R <? idx) && in_desc (length (su_cfg (l_u c))) (su_cfg (l_u c)) P T &&
                               negb (match lic_get m t with Some (T', l) => (T' =? T) && (l <=? R) | None => false end)) (cancel_returns c) in
        let bad := bad1 || bad2 in
        scan_C04 c r (idx + 1) (lic_set m t None) (viol || bad) known
      else scan_C04 c r (idx + 1) (lic_set m t None) viol known
  end.
Definition check_C04 (c : lcase) : bool * bool := scan_C04 c (i_trace c) 1 [] false true.

(* C05 on the implementation's trace and log: no (exception, set) is rethrown twice; a testAndResetException whose guard load
   follows a completed capture (set.store not yet reset) goes on to move, reset and rethrow *)
Fixpoint last_site (tr : list (Z * Z)) (code : Z) (idx upto : Z) (acc : Z) : Z :=
  match tr with
  | [] => acc
  | (_, cd) :: r => if upto <=? idx then acc else last_site r code (idx + 1) upto (if cd =? code then idx else acc)
  end.
Fixpoint next_steps_of (tr : list (Z * Z)) (t : Z) (n : nat) : list Z :=
  match n with
  | O => []
  | S n' => match tr with
            | [] => []
            | (t', cd) :: r => if t' =? t then cd :: next_steps_of r t n' else next_steps_of r t n
            end
  end.
Fixpoint scan_C05 (c : lcase) (tr : list (Z * Z)) (idx : Z) : bool :=
  match tr with
  | [] => true
  | (t, code) :: r =>
      (if code / 64 =? 18 then
         let T := code mod 64 in
         let ls := last_site (i_trace c) (sc 16 (Z.to_nat T)) 1 idx 0 in
         let lr := last_site (i_trace c) (sc 20 (Z.to_nat T)) 1 idx 0 in
         if lr <? ls then
           match next_steps_of r t 2 with
           | [a; b] => (a =? sc 19 (Z.to_nat T)) && (b =? sc 20 (Z.to_nat T))
           | [a] => a =? sc 19 (Z.to_nat T)
           | _ => true
           end
         else true
       else true) && scan_C05 c r (idx + 1)
  end.
Definition rethrows (c : lcase) : list Z := map arg (filter (fun e => tag e =? t_rt) (all_ev c)).
Fixpoint nodup_z (l : list Z) : bool :=
  match l with [] => true | x :: r => negb (existsb (Z.eqb x) r) && nodup_z r end.
(* "the next wait that observes completion rethrows", on the implementation's log alone: a wait() that returns normally / a tryWait(k) that
   returns true (for every k, 0 included) observed completion; if a capture of that set was complete (guard := Set store, site 16) before the
   call's final outstanding load -- or, when the call performed no hooked load of its own, before the call -- and has not been consumed
   (guard reset, site 20) by the time the call returns, the pending exception was NOT delivered by the call that had to deliver it. *)
Fixpoint last_step_of (tr : list (Z * Z)) (t : Z) (pred : Z -> bool) (idx lo hi : Z) (acc : Z) : Z :=
  match tr with
  | [] => acc
  | (t', cd) :: r => if hi <? idx then acc
                     else last_step_of r t pred (idx + 1) lo hi (if (t' =? t) && (lo <=? idx) && pred cd then idx else acc)
  end.
Definition final_load_site (T : Z) (cd : Z) : bool :=
  (cd mod 64 =? T) && let i := cd / 64 in ((i =? 33) || (i =? 35) || (i =? 38) || (i =? 41)).
Definition pending_at_return (c : lcase) (t : Z) (w : Z * Z * Z * Z * Z) : bool :=
  let '(T, cstamp, kind, r, wstamp) := w in
  let normal := (kind =? t_w) || ((kind =? t_tw) && (r =? 1)) in
  let obs := Z.max (cstamp + 1) (last_step_of (i_trace c) t (final_load_site T) 1 cstamp wstamp 0) in
  let ls := last_site (i_trace c) (sc 16 (Z.to_nat T)) 1 obs 0 in
  let lr := last_site (i_trace c) (sc 20 (Z.to_nat T)) 1 (wstamp + 1) 0 in
  normal && (0 <? ls) && (lr <? ls).
Fixpoint check_pending (c : lcase) (l : list (list ev)) (t : Z) : bool :=
  match l with
  | [] => true
  | evs :: r => negb (existsb (pending_at_return c t) (waits_of evs [])) && check_pending c r (t + 1)
  end.
(* "if task bodies throw, the first captured exception is rethrown by the next wait that observes completion" also means that a thrown
   exception IS captured when none is pending.  On the implementation's log: a wait() that returned normally / a tryWait that returned true
   on set T, although a queued task of T whose scheduling call had returned before the wait was called ended its body by throwing (its count
   is released only after the capture attempt, so the wait observed completion after it), while nobody has been handed an exception of T
   up to that return: the exception was lost. *)
Definition lost_exception (c : lcase) : bool :=
  let all := all_subs_par c in
  existsb (fun w =>
    let '(T, cstamp, kind, r, wstamp) := w in
    let normal := (kind =? t_w) || ((kind =? t_tw) && (r =? 1)) in
    normal &&
    existsb (fun x => let '(k, T', st, par) := x in
                      (T' =? T) && (st <=? cstamp) && existsb (Z.eqb k) (i_wrapped c) &&
                      existsb (fun e => (tag e =? t_ee) && (arg e =? k) && (stamp e <=? wstamp)) (all_ev c)) all &&
    negb (existsb (fun e => (tag e =? t_rt) && (arg e mod 64 =? T) && (stamp e <=? wstamp)) (all_ev c))) (waits c).

Definition check_C05 (c : lcase) : bool :=
  nodup_z (rethrows c) && scan_C05 c (i_trace c) 1 && check_pending c (i_res c) 0 && negb (lost_exception c).

(* C47 on the implementation's log: with numThreads >= 1 the functor of a ForceQueuingTag submission does not run on the calling
   thread before the scheduling call returns (a body event of that task earlier in the same thread's log) *)
Fixpoint scan_C47 (l : list ev) (seen : list Z) : bool :=
  match l with
  | [] => true
  | e :: r =>
      if tag e =? t_b then scan_C47 r (arg e :: seen)
      else if tag e =? t_sf then negb (existsb (Z.eqb (arg e / 64)) seen) && scan_C47 r seen
      else if tag e =? t_bf then
        let n := arg e mod 64 in let base := arg e / 64 / 64 in
        negb (existsb (fun k => (base <=? k) && (k <? base + n)) seen) && scan_C47 r seen
      else scan_C47 r seen
  end.
Definition check_C47 (c : lcase) : bool := (su_nthr (l_u c) <? 1) || forallb (fun l => scan_C47 l []) (i_res c).


(* ---------- lockstep judges: 0 agree & holds; 1 differ, holds; 2 the property fails on the implementation's log ---------- *)
Definition judge_C02 (c : lcase) : Z := if negb (check_C02 c) then 2 else if agrees c then 0 else 1.
Definition judge_C04 (c : lcase) : Z := if fst (check_C04 c) then 2 else if agrees c then 0 else 1.
Definition judge_C05 (c : lcase) : Z := if negb (check_C05 c) then 2 else if agrees c then 0 else 1.
Definition judge_C47 (c : lcase) : Z := if negb (check_C47 c) then 2 else if agrees c then 0 else 1.
(* the same on the implementation's log only (used when the model side no longer evaluates) *)
Definition judge_C02_impl (c : lcase) : Z := if negb (check_C02 c) then 2 else 0.
Definition judge_C04_impl (c : lcase) : Z := if fst (check_C04 c) then 2 else 0.
Definition judge_C05_impl (c : lcase) : Z := if negb (check_C05 c) then 2 else 0.
Definition judge_C47_impl (c : lcase) : Z := if negb (check_C47 c) then 2 else 0.

(* ---------- decisions of the real code under forced load (D): the implementation-only part ---------- *)
Record dcase := DC {
  d_cls : Z (* 0 TaskSet 1 CTS light 2 CTS heavy 3 ThreadPool *); d_force : bool; d_skip : bool; d_recursive : bool; d_depth : Z; d_prlf2 : Z; d_bulk : Z;
  d_out : Z; d_wr : Z; d_n : Z; d_plf : Z; d_lf : Z; d_canc : bool;          (* inputs read on the real objects just before the call *)
  o_incall : Z; o_fout : Z; o_aout : Z; o_ran : Z;
  d_api : bool }.   (* cancel() was called on the set or on a cascading ancestor and returned before the scheduling call *)

(* C04 on the real code: a set cancelled through the API (itself or a cascading ancestor), or whose flag reads cancelled, runs nothing *)
Definition d_check_C04 (d : dcase) : bool := negb (d_canc d || d_api d) || (d_cls d =? 3) || ((o_incall d =? 0) && (o_ran d =? 0)).
(* C47: a ForceQueuingTag call with numThreads >= 1 runs nothing on the caller *)
Definition d_check_C47 (d : dcase) : bool := negb (d_force d) || (d_n d <? 1) || (o_incall d =? 0).
Definition d_bulk_ok (d : dcase) : bool :=
  negb (0 <? d_bulk d) || negb (d_force d) || (d_n d <? 1) || ((o_incall d =? 0) && (o_ran d =? (if d_canc d || d_api d then 0 else d_bulk d))).
(* C02: a functor submitted to a non-cancelled set is run by the caller now or runs exactly once before wait() returns (the harness waits
   on the set before it reports [ran]) -- never dropped, never twice *)
Definition d_check_once (d : dcase) : bool := d_canc d || d_api d || (o_ran d =? (if 0 <? d_bulk d then d_bulk d else 1)).
Definition judge_C02_d_impl (d : dcase) : Z := if negb (d_check_once d) then 2 else 0.
Definition judge_C04_d_impl (d : dcase) : Z := if negb (d_check_C04 d) then 2 else 0.
Definition judge_C47_d_impl (d : dcase) : Z := if negb (d_check_C47 d) || negb (d_bulk_ok d) then 2 else 0.
