(* Interleaving model of CONCURRENT growth of dispenso::ConcurrentVector (concurrent_vector.h: emplace_back / push_back,
   growByUninitialized = grow_by* / grow_by_generator, grow_to_at_least; detail/concurrent_vector_impl.h:
   ConVecBuffer::allocAsNecessaryImpl, both variants, tryAssignBuffer) at the granularity of the DISPENSO_VERIF_POINT
   hooks: one step = one atomic access (size_ RMW / load, buffers_[k] load / store, one iteration of the spin-wait on a
   not yet published buffer) or one element construction.  Executable; definitions only (proofs: Proofs/C33Proofs.v).

   The bucket arithmetic (bsi = bucketAndSubIndex, bucket_cap, bucket_start, alloc_check_index = allocCheckIndex) is the
   one of the sequential model Model/CVecModel.v.

   What a growth call does after its fetch_add is a function of (strategy, firstBucketShift, index, delta) only, except
   for the outcome of the null tests: it is laid out as an agenda of micro-operations
       sizing loads (range variant) ; load-then-store attempts for the buckets in [allocs] ; spin-waits for the buckets
       in [waits] ; element constructions
   and the step function interprets the head of the agenda of the scheduled thread. *)
From Coq Require Import ZArith List Bool.
From DV Require Import Base.MachInt Base.Sched Model.CVecModel.
Import ListNotations.
Local Open Scope Z_scope.

Fixpoint zrange (a : Z) (n : nat) : list Z := match n with O => [] | S n' => a :: zrange (a + 1) n' end.
(* lo, lo+1, ..., hi  (empty when hi < lo) *)
Definition zspan (lo hi : Z) : list Z := zrange lo (Z.to_nat (hi + 1 - lo)).

Definition bkt (shift i : Z) : Z := fst (fst (bsi shift i)).
Definition sub (shift i : Z) : Z := snd (fst (bsi shift i)).
Definition capof (shift i : Z) : Z := snd (bsi shift i).

(* ------------------------------------------------------------------------------------------------ allocs / waits *)
(* allocAsNecessaryImpl(binfo): the bucket whose buffer this call tries to assign *)
Definition allocs1 (strat shift i : Z) : list Z :=
  if sub shift i =? alloc_check_index strat (capof shift i) then [bkt shift i + 1] else [].
Definition waits1 (shift i : Z) : list Z := [bkt shift i].

(* allocAsNecessaryImpl(binfo, rangeLen, bend), binfo = bsi(i), bend = bsi(i + d): the buckets handed to
   tryAssignBuffer, in program order (the sizing loop visits exactly the same buckets) *)
Definition allocsN (strat shift i d : Z) : list Z :=
  let b := bkt shift i in let s := sub shift i in let c := capof shift i in
  let be := bkt shift (i + d) in let se := sub shift (i + d) in let ce := capof shift (i + d) in
  let chk := alloc_check_index strat c in
  let cur := (s <=? chk) && (chk <? s + d) in                       (* allocCurrentBucket *)
  if cur || (b <? be) then
    zspan (b + 1 + b2z (negb cur)) be ++ (if alloc_check_index strat ce <? se then [be + 1] else [])
  else [].
(* the final loop: for (bucket = binfo.bucket; bucket <= bend.bucket; ++bucket) spin until non-null *)
Definition waitsN (shift i d : Z) : list Z := zspan (bkt shift i) (bkt shift (i + d)).

(* the index whose reservation allocates bucket k (k >= 1) *)
Definition trigger (strat shift k : Z) : Z :=
  bucket_start shift (k - 1) + alloc_check_index strat (bucket_cap shift (k - 1)).

(* ------------------------------------------------------------------------------------------------ programs *)
Inductive gop :=
| GPush (tag : Z)               (* push_back / emplace_back of an element with this tag *)
| GGrow (d tag inc : Z)         (* grow_by*(d ...): element j gets tag + inc * j  (inc = 0: grow_by(d, value)) *)
| GGrowTo (n tag : Z).          (* grow_to_at_least(n, value) *)

Inductive mop :=
| MStart
| MFetch1 (tag : Z)                   (* emplace_back: size_.fetch_add(1) *)
| MFetchN (d tag inc : Z)             (* growByUninitialized: size_.fetch_add(delta) *)
| MSizeLoad (n tag : Z)               (* grow_to_at_least: size_.load() *)
| MCnt (k : Z)                        (* range variant, sizing: buffers_[k].load() *)
| MTry (rng : bool) (k owner : Z)     (* buffers_[k].load() deciding whether to store (rng: range variant / tryAssignBuffer) *)
| MStore (rng : bool) (k owner : Z)   (* buffers_[k].store(new buffer) *)
| MWait (rng : bool) (k : Z)          (* one iteration of while (!buffers_[k].load()) *)
| MCons (i tag : Z).                  (* new (&vec[i]) T(tag) *)

Record resv := RV { r_tid : nat; r_start : Z; r_delta : Z; r_tag : Z; r_inc : Z }.
Record gcell := GCE { gc_idx : Z; gc_tag : Z; gc_buf : Z }.     (* gc_buf: the buffer pointer of the element's bucket when it was constructed *)
Record shared := SH {
  g_size : Z;                 (* size_ *)
  g_bufs : list (Z * Z);      (* buffers_: (bucket, buffer id), newest store first; absent = nullptr *)
  g_rlog : list resv;         (* ghost: the fetch_add reservations, newest first *)
  g_cells : list gcell }.      (* ghost: the element constructions, newest first *)
Record thread := TH { ag : list mop; prog : list gop; res : list Z }.   (* res: returned positions, newest first *)
Record state := ST { sh : shared; threads : list thread }.

Fixpoint lookup (k : Z) (l : list (Z * Z)) : Z :=
  match l with [] => 0 | (k', o) :: r => if k =? k' then o else lookup k r end.

Definition tag_of (r : resv) (x : Z) : Z := r_tag r + r_inc r * (x - r_start r).

(* site ids = positions in props/C33.py SITES *)
Definition s_start := 0.       Definition s_fetch1 := 1.      Definition s_fetchN := 2.     Definition s_gtal := 3.
Definition s_try1 := 4.        Definition s_store1 := 5.      Definition s_wait1 := 6.
Definition s_cnt := 7.         Definition s_tryN := 8.        Definition s_storeN := 9.     Definition s_waitN := 10.
Definition s_cons := 11.

Section Cfg.
  Variable strat shift : Z.

  Definition conses (i d tag inc : Z) : list mop :=
    map (fun x => MCons x (tag + inc * (x - i))) (zrange i (Z.to_nat d)).
  Definition plan1 (i tag : Z) : list mop :=
    map (fun k => MTry false k (i + 1)) (allocs1 strat shift i) ++ map (MWait false) (waits1 shift i) ++ [MCons i tag].
  Definition planN (i d tag inc : Z) : list mop :=
    map MCnt (allocsN strat shift i d) ++ map (fun k => MTry true k (i + 1)) (allocsN strat shift i d) ++
    map (MWait true) (waitsN shift i d) ++ conses i d tag inc.

  (* one micro-operation of thread t: new shared state, what replaces the head of the agenda, returned positions, site *)
  Definition exec (t : nat) (m : mop) (g : shared) : shared * list mop * list Z * Z :=
    match m with
    | MStart => (g, [], [], s_start)
    | MFetch1 tag =>
        let i := g_size g in
        (SH (i + 1) (g_bufs g) (RV t i 1 tag 0 :: g_rlog g) (g_cells g), plan1 i tag, [i], s_fetch1)
    | MFetchN d tag inc =>
        let i := g_size g in
        (SH (i + d) (g_bufs g) (RV t i d tag inc :: g_rlog g) (g_cells g), planN i d tag inc, [i], s_fetchN)
    | MSizeLoad n tag =>
        if g_size g <? n then (g, [MFetchN (n - g_size g) tag 0], [], s_gtal) else (g, [], [n - 1], s_gtal)
    | MCnt k => (g, [], [], s_cnt)
    | MTry rng k o =>
        (g, if lookup k (g_bufs g) =? 0 then [MStore rng k o] else [], [], if rng then s_tryN else s_try1)
    | MStore rng k o =>
        (SH (g_size g) ((k, o) :: g_bufs g) (g_rlog g) (g_cells g), [], [], if rng then s_storeN else s_store1)
    | MWait rng k =>
        (g, if lookup k (g_bufs g) =? 0 then [MWait rng k] else [], [], if rng then s_waitN else s_wait1)
    | MCons i tag =>
        (SH (g_size g) (g_bufs g) (g_rlog g) (GCE i tag (lookup (bkt shift i) (g_bufs g)) :: g_cells g), [], [], s_cons)
    end.

  Definition entry (o : gop) : list mop :=
    match o with
    | GPush tag => [MFetch1 tag]
    | GGrow d tag inc => [MFetchN d tag inc]
    | GGrowTo n tag => [MSizeLoad n tag]
    end.
  (* a thread whose agenda is exhausted enters its next operation (no shared access in between) *)
  Definition norm (th : thread) : thread :=
    match ag th with
    | [] => match prog th with [] => th | o :: r => TH (entry o) r (res th) end
    | _ => th
    end.

  Fixpoint set_nth {A} (l : list A) (n : nat) (x : A) : list A :=
    match l, n with
    | [], _ => []
    | _ :: r, O => x :: r
    | y :: r, S m => y :: set_nth r m x
    end.

  Definition gstep (s : state) (t : nat) (ch : list Z) : option (state * list Z * Z) :=
    match nth_error (threads s) t with
    | None => None
    | Some th =>
        match ag th with
        | [] => None
        | m :: rest =>
            let '(g', pre, rs, site) := exec t m (sh s) in
            Some (ST g' (set_nth (threads s) t (norm (TH (pre ++ rest) (prog th) (rev rs ++ res th)))), ch, site)
        end
    end.

  Fixpoint live_tids (ths : list thread) (i : nat) : list nat :=
    match ths with
    | [] => []
    | th :: r => match ag th with [] => live_tids r (S i) | _ => i :: live_tids r (S i) end
    end.
  (* every unfinished thread is runnable (a spinning thread keeps executing loads) *)
  Definition cands (s : state) : list nat := live_tids (threads s) 0.
  Definition finished (s : state) : bool := forallb (fun th => match ag th with [] => true | _ => false end) (threads s).

  (* the constructor stores buffers 0 and 1 (one allocation of 2 * firstBucketLen) before the vector is shared *)
  Definition init_shared : shared := SH 0 [(0, -1); (1, -1)] [] [].
  Definition init (progs : list (list gop)) : state := ST init_shared (map (fun p => TH [MStart] p []) progs).

  Definition run_grow (fuel : nat) (progs : list (list gop)) (sched : list Z) :=
    Sched.run gstep cands finished fuel (init progs) sched [].
End Cfg.

(* ------------------------------------------------------------------------------------------------ observations *)
Fixpoint find_cell (i : Z) (l : list gcell) : option gcell :=
  match l with [] => None | c :: r => if gc_idx c =? i then Some c else find_cell i r end.
(* the tags at positions 0 .. size-1 (-1: never constructed) *)
Definition contents (g : shared) : list Z :=
  map (fun i => match find_cell i (g_cells g) with Some c => gc_tag c | None => -1 end) (zrange 0 (Z.to_nat (g_size g))).
Fixpoint zinsert (x : Z) (l : list Z) : list Z :=
  match l with [] => [x] | y :: r => if x <=? y then x :: l else y :: zinsert x r end.
Definition zsort (l : list Z) : list Z := fold_right zinsert [] l.
(* the buckets whose buffer pointer is non-null, ascending *)
Definition allocated (g : shared) : list Z := zsort (map fst (g_bufs g)).
