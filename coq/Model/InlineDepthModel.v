(* C46: how deep dispenso nests the inline execution of scheduled work on one thread.  Executable model; no proofs.

   Every place where dispenso may run a scheduled functor synchronously on the thread that submitted it (or that completed its
   predecessor) is a [site].  A task body is data: a task with a list of (site, child) edges -- while the body (or its completion
   path) runs, each child is handed to dispenso at that site (chains, trees, any mix of sites).  Per thread the model carries
     nest  number of enclosing inline entries on the stack (what C46 bounds),
     g     the thread-local PerPoolPerThreadInfo::inlineDepth() (InlineDepthGuard counter),
     raw   number of enclosing inline entries that were made WITHOUT consulting canInlineSchedule().
   The inline-vs-queue decision of a site is [dispatch]: the REGENERATED decision functions of Gen/GenTaskSet.v (translator group
   `taskset`, from task_set.h / task_set_impl.h / thread_pool.h) applied to the values the code loads (the load oracle [env]: one per
   schedule call) and to canInlineSchedule() = (g < kMaxInlineDepth); the sites the translator does not cover (pool bulk, task-set
   bulk with count 1, pipeline serial continuation, graph continuation, then-chain dispatch) are hand-modelled from the source and
   tied by the correspondence (harness/h_inlinedepth.cpp reads nest, g and the decision of every link).
   A queued functor runs later from a worker loop (or from a top-level wait) at nest 0, g 0.  Waiters that execute stolen tasks
   inside wait() nest through wait(), which is not a scheduling or completion path: modelled separately at the end. *)
From Coq Require Import ZArith List Bool.
From DV Require Import Base.MachInt Gen.GenTaskSet.
Import ListNotations.
Local Open Scope Z_scope.

Inductive site :=
| SPool            (* ThreadPool::schedule(f): shouldRunInline() -> f() *)
| SPoolPlaced      (* ThreadPool::schedulePlaced(f) *)
| SPoolBulk        (* ThreadPool::scheduleBulk(1, gen): curWork > poolLoadFactor_ -> gen(i)() *)
| STsk             (* TaskSet::schedule(f) *)
| STskBulk         (* TaskSet::scheduleBulk(1, gen): scheduleBulkImpl, invokeInline under the depth test *)
| SCts (heavy : bool)       (* ConcurrentTaskSet::schedule(f) (kLightweight) / schedulePlaced (kHeavy) *)
| SCtsBulk (heavy : bool)   (* ConcurrentTaskSet::scheduleBulk(1, gen): scheduleBulkImpl / scheduleBulkImplPlaced *)
| SPipe            (* serial pipeline stage: completion callback runs the next queued item *)
| SGraph           (* evaluateNodeConcurrently: a further ready dependent goes through tasks.schedule *)
| SThenImm         (* Future::then(f, kImmediateInvoker): tryExecuteThenChain -> ImmediateInvoker::schedule -> run() *)
| SThenPool.       (* Future::then(f, pool) (kNotAsync): tryExecuteThenChain -> ThreadPool::schedule *)

Definition site_code (s : site) : Z :=
  match s with
  | SPool => 0 | SPoolPlaced => 1 | SPoolBulk => 2 | STsk => 3 | STskBulk => 4 | SCts false => 5 | SCts true => 6
  | SCtsBulk false => 7 | SCtsBulk true => 8 | SThenImm => 9 | SThenPool => 10 | SPipe => 11 | SGraph => 12
  end.

Record cfg := CFG { nthr : Z; plf : Z (* poolLoadFactor_ *); tlf : Z (* taskSetLoadFactor_ *); prlf2 : Z (* 2 * poolRecursiveLoadFactor *);
                    nrings : Z }.
(* what one schedule call loads *)
Record env := ENV { e_out : Z (* outstandingTaskCount_ *); e_wr : Z (* workRemaining_ *); e_rec : bool (* isPoolRecursive *);
                    e_canc : bool; e_skip : bool (* skipRecheck *) }.

Inductive outcome :=
| Inl (dg : Z) (checked : bool)   (* run now on this thread; the guards add dg to inlineDepth; checked: canInlineSchedule() was consulted *)
| Queue                           (* handed to a queue: runs later at nest 0 *)
| Skip.                           (* dropped (cancelled set) *)

Definition kMaxInlineDepth : Z := c_kMaxInlineDepth.
Definition can (g : Z) : bool := g <? kMaxInlineDepth.           (* PerPoolPerThreadInfo::canInlineSchedule() *)

Section Dispatch.
  Variable c : cfg.
  Variable e : env.

  Definition G {A} (f : Z -> Z -> bool -> bool -> bool -> bool -> Z -> Z -> Z -> Z -> Z -> A) (ci : bool) (cost : Z) : A :=
    f (e_out e) (tlf c) (e_canc e) ci (e_skip e) (e_rec e) (e_wr e) (nthr c) (plf c) (prlf2 c) cost.

  (* action codes of Gen/GenTaskSet.v: 0 skip | 1 raw functor called by this function | 5/6 enqueue | 10+a packaged wrapper handed to a
     pool overload with action a *)
  Definition of_code (code : Z) (guarded : bool) : outcome :=
    if code =? 0 then Skip
    else if code =? 1 then (if guarded then Inl 1 true else Inl 0 false)
    else if code =? 11 then Inl 0 false          (* the pool overload ran the packaged wrapper at once: no depth test, no guard *)
    else Queue.

  (* ThreadPool::scheduleBulkImpl<kPlaced> for one task: zero threads or curWork > poolLoadFactor_ -> gen(i)() *)
  Definition pool_bulk : outcome :=
    if nthr c =? 0 then Inl 0 false else if plf c <? e_wr e then Inl 0 false else Queue.

  (* TaskSetBase::scheduleBulkImpl / scheduleBulkImplPlaced with count = 1 *)
  Definition set_bulk (placed : bool) (g : Z) : outcome :=
    if e_canc e then Skip
    else if negb placed && (nthr c <=? 4) && (1 <=? nthr c) && (1 <=? nrings c) && negb (e_rec e) && (e_out e <=? tlf c)
    then Queue                                                           (* ring fast path: scheduleBulkToRings *)
    else if ((tlf c - e_out e <=? 0) ||
             gen_shouldInlineBulk (e_out e) (tlf c) (e_canc e) (can g) (e_skip e) (e_rec e) (e_wr e) (nthr c) (plf c) (prlf2 c) 0
                                  (e_wr e) (nthr c) (prlf2 c))
            && can g
    then Inl 1 true                                                      (* invokeInline: InlineDepthGuard *)
    else if placed then pool_bulk                                        (* pool_.scheduleBulkPlaced: no depth test *)
    else Queue.                                                          (* pool_.scheduleBulkEnqueue never runs a task *)

  (* ForceQueuingTag through a ConcurrentTaskSet: forceEnqueue runs f() at once on a pool without threads *)
  Definition cts_force (heavy : bool) : outcome :=
    of_code (G gen_cts_schedule_force true (if heavy then c_kHeavy else c_kLightweight)) false.

  Definition dispatch (s : site) (g : Z) : outcome :=
    match s with
    | SPool => of_code (G gen_pool_schedule (can g) 0) false
    | SPoolPlaced => of_code (G gen_pool_schedulePlaced (can g) 0) false
    | SPoolBulk => pool_bulk
    | STsk => of_code (G gen_tsk_schedule (can g) 0) false
    | STskBulk => set_bulk false g
    | SCts heavy => of_code (G gen_cts_schedule (can g) (if heavy then c_kHeavy else c_kLightweight)) true
    | SCtsBulk heavy => set_bulk heavy g
    | SPipe => if can g then Inl 1 true else cts_force true        (* pipeline_impl.h: canInlineSchedule ? guard + func() : tasks_.schedule(func, ForceQueuingTag) *)
    | SGraph => if can g then of_code (G gen_cts_schedule true c_kHeavy) true else cts_force true
    | SThenImm => Inl 0 false
    | SThenPool => of_code (G gen_pool_schedule (can g) 0) false
    end.
End Dispatch.

(* evaluateNodeConcurrently holds its own InlineDepthGuard around the node body *)
Definition body_guard (s : site) : Z := match s with SGraph => 1 | _ => 0 end.

(* ---------- programs ---------- *)
Inductive task := Task (id : Z) (kids : list (site * task)).
Definition tid (t : task) : Z := match t with Task i _ => i end.

Inductive how := HRoot | HInline | HRaw | HQueued.
Definition how_code (h : how) : Z := match h with HRoot => -1 | HInline => 1 | HRaw => 2 | HQueued => 0 end.
Record run := RUN { r_id : Z; r_site : Z; r_how : how; r_nest : Z; r_g : Z; r_raw : Z }.

Section Exec.
  (* the decision taken for the submission of task [id] at site s by a thread whose inlineDepth is g *)
  Variable dec : Z -> site -> Z -> outcome.

  Section Kids.
    Variable below : task -> Z -> Z -> Z -> list run.
    Fixpoint kids_runs (nest g raw : Z) (ks : list (site * task)) {struct ks} : list run :=
      match ks with
      | [] => []
      | (s, k) :: rest =>
          (match dec (tid k) s g with
           | Inl dg checked =>
               let g' := g + dg + body_guard s in
               let raw' := if checked then raw else raw + 1 in
               RUN (tid k) (site_code s) (if checked then HInline else HRaw) (nest + 1) g' raw' :: below k (nest + 1) g' raw'
           | Queue => RUN (tid k) (site_code s) HQueued 0 (body_guard s) 0 :: below k 0 (body_guard s) 0
           | Skip => []
           end) ++ kids_runs nest g raw rest
      end.
  End Kids.

  (* the runs below a task whose body was entered with the given counters *)
  Fixpoint below (t : task) (nest g raw : Z) {struct t} : list run :=
    match t with Task _ kids => kids_runs below nest g raw kids end.

  (* the root task is started by the driver at nest 0 *)
  Definition exec (t : task) : list run := RUN (tid t) (-1) HRoot 0 0 0 :: below t 0 0 0.
End Exec.

(* the decision function of the real code under a load oracle (one env per submitted task) *)
Definition real_dec (c : cfg) (orc : Z -> env) : Z -> site -> Z -> outcome := fun id s g => dispatch c (orc id) s g.

Fixpoint tsize (t : task) : nat := match t with Task _ kids => S (list_sum (map (fun sk => tsize (snd sk)) kids)) end.

(* chain of n links below the root: link i (id i) is submitted by link i-1 at site s *)
Fixpoint chain_from (s : site) (i : Z) (n : nat) : task :=
  match n with
  | O => Task i []
  | S m => Task i [(s, chain_from s (i + 1) m)]
  end.
Definition chain (s : site) (n : nat) : task := chain_from s 0 n.

(* comb: every link also submits [f] leaves at site s before the next link *)
Fixpoint comb_from (s : site) (f : nat) (i : Z) (n : nat) : task :=
  match n with
  | O => Task i []
  | S m => Task i (map (fun j => (s, Task (- (i * 16 + Z.of_nat j) - 1) [])) (seq 0 f) ++ [(s, comb_from s f (i + 1) m)])
  end.

Definition max_nest (l : list run) : Z := fold_right (fun r m => Z.max (r_nest r) m) 0 l.

(* ---------- the domain of the findings: sites that can run a functor inline without a depth test ---------- *)
Definition site_unguarded (c : cfg) (s : site) : bool :=
  match s with
  | SPool | SPoolPlaced | SPoolBulk | STsk | SThenImm | SThenPool => true
  | SCtsBulk true => true                       (* depth cap reached -> pool_.scheduleBulkPlaced -> gen(i)() under pool load *)
  | STskBulk | SCtsBulk false => false          (* scheduleBulkEnqueue never runs a task *)
  | SCts _ | SPipe | SGraph => nthr c =? 0      (* ForceQueuingTag on a pool without threads runs f() at once *)
  end.
Fixpoint uses_unguarded (c : cfg) (t : task) : bool :=
  match t with Task _ kids => existsb (fun sk => site_unguarded c (fst sk) || uses_unguarded c (snd sk)) kids end.

(* ---------- nesting through wait() (NOT part of C46: a waiter runs whatever the pool hands it) ----------
   n independent tasks, each creating its own ConcurrentTaskSet, force-queuing one leaf and waiting: the waiter's
   tryExecuteNext() may return the next independent task instead of its own leaf; that task waits in turn.  [wait_nest picks]:
   picks = for each wait, whether the pool handed it another waiting task (true) or its own leaf (false). *)
Fixpoint wait_nest (picks : list bool) (cur : Z) : Z :=
  match picks with
  | [] => cur
  | true :: r => Z.max cur (wait_nest r (cur + 1))
  | false :: r => Z.max cur (wait_nest r cur)
  end.
