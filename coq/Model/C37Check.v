(* C37 correspondence: executable form of the property, evaluated on what the IMPLEMENTATION printed, and the
   comparison with the model (Model/ArenaModel.v).  Verdicts:
     0 = implementation and model agree, the property holds on the implementation's output
     1 = they differ, the property still holds on the implementation's output
     2 = the property fails on the implementation's output (a crash counts as a failure) *)
From Coq Require Import ZArith List Bool.
From DV Require Import Base.Corr Model.ArenaModel.
Import ListNotations.
Local Open Scope Z_scope.

(* ---- the property as an abstract specification: an arena is the sequence of its element values *)
Definition aslots := list (option (list Z)).
Definition aslot (st : aslots) (s : nat) : option (list Z) := match nth_error st s with Some (Some l) => Some l | _ => None end.

Definition ldigest (l : list Z) : Z := snd (fold_left digest_step (map Some l) (1, 0)).

(* "size cap nbuf tcap v0 .. v(size-1)" -> (size, values, rest) *)
Definition parse_dump (l : list Z) : option (Z * list Z * list Z) :=
  match l with
  | sz :: _ :: _ :: _ :: r =>
      if (0 <=? sz) && (Z.of_nat (length r) >=? sz) then Some (sz, firstn (Z.to_nat sz) r, skipn (Z.to_nat sz) r) else None
  | _ => None
  end.
Definition dump_is (vals : list Z) (sz : Z) (got : list Z) : bool := (sz =? Z.of_nat (length vals)) && zlist_eqb vals got.

(* does the implementation's output [out] of operation [o] satisfy the property, given the abstract pre-state?
   Also returns the abstract post-state. *)
Definition prop_op (st : aslots) (o : op) (out : list Z) : bool * aslots :=
  match o with
  | ONew s m init =>
      let l := repeat dflt (Z.to_nat init) in
      (match out with [sz; _; _; _; dg] => (sz =? Z.max init 0) && (dg =? ldigest l) | _ => false end, upd s (Some l) st)
  | OGrow s d =>
      match aslot st s with
      | Some pre =>
          let l := pre ++ repeat dflt (Z.to_nat d) in
          (match out with
           | [r; sz; _; _; _; stable; alldef; dg] =>
               (r =? Z.of_nat (length pre)) && (sz =? Z.of_nat (length pre) + d) && (stable =? 1) && (alldef =? 1) && (dg =? ldigest l)
           | _ => false
           end, upd s (Some l) st)
      | None => (false, st)
      end
  | OWrite s i v =>
      match aslot st s with
      | Some pre => let l := upd (Z.to_nat i) v pre in
                    (match out with [dg] => dg =? ldigest l | _ => false end, upd s (Some l) st)
      | None => (false, st)
      end
  | ORead s =>
      match aslot st s with
      | Some pre => (match parse_dump out with Some (sz, vs, []) => dump_is pre sz vs | _ => false end, st)
      | None => (false, st)
      end
  | OCopy d s | OAssign d s =>
      match aslot st s with
      | Some src =>
          (match parse_dump out with
           | Some (sz, vs, rest) =>
               dump_is src sz vs && match parse_dump rest with Some (sz2, vs2, []) => dump_is src sz2 vs2 | _ => false end
           | None => false
           end, upd d (Some src) st)
      | None => (false, st)
      end
  | OMove d s =>
      match aslot st s with
      | Some src => (match parse_dump out with Some (sz, vs, _) => dump_is src sz vs | None => false end,
                     upd s (Some []) (upd d (Some src) st))
      | None => (false, st)
      end
  | OMoveAssign d s =>
      match aslot st s, aslot st d with
      | Some src, Some old => (match parse_dump out with Some (sz, vs, _) => dump_is src sz vs | None => false end,
                               upd s (Some old) (upd d (Some src) st))
      | _, _ => (false, st)
      end
  | OSwap x y =>
      match aslot st x, aslot st y with
      | Some lx, Some ly =>
          (match parse_dump out with
           | Some (sz, vs, rest) =>
               dump_is ly sz vs && match parse_dump rest with Some (sz2, vs2, []) => dump_is lx sz2 vs2 | _ => false end
           | None => false
           end, upd y (Some lx) (upd x (Some ly) st))
      | _, _ => (false, st)
      end
  | ODestroy s => (match out with [] => true | _ => false end, upd s None st)
  end.

(* walk the case.  [mw] = model world while model and implementation still agree; [k] = index of the operation.
   Verdict 2 carries the index of the failing operation: 2 + 10 * k *)
Fixpoint walk (mw : option world) (st : aslots) (ops : list op) (outs : list (list Z)) (crashed : bool) (agree : bool) (k : Z) : Z :=
  match ops with
  | [] => if crashed then 2 + 10 * k else if agree && match outs with [] => true | _ => false end then 0 else 1
  | o :: ops' =>
      match outs with
      | [] =>     (* no (complete) output for this operation *)
          2 + 10 * k
      | out :: outs' =>
          let '(ok, st') := prop_op st o out in
          if negb ok then 2 + 10 * k
          else
            match mw with
            | Some w =>
                match exec_op w o with
                | Some (w', mout) => if zlist_eqb mout out then walk (Some w') st' ops' outs' crashed agree (k + 1)
                                     else walk None st' ops' outs' crashed false (k + 1)
                | None => walk None st' ops' outs' crashed false (k + 1)
                end
            | None => walk None st' ops' outs' crashed false (k + 1)
            end
      end
  end.

Definition judge_seq (c : nat * list op * list (list Z) * bool) : Z :=
  let '(nslots, ops, outs, crashed) := c in
  walk (Some (init_world nslots)) (repeat None nslots) ops outs crashed true 0.

(* ---- concurrent grow_by: the ranges handed out, sorted by start, tile [p0, total) *)
Fixpoint cover_from (p : Z) (l : list (Z * Z)) : option Z :=
  match l with
  | [] => Some p
  | (r, d) :: rest => if (r =? p) && (0 <=? d) then cover_from (p + d) rest else None
  end.

(* model: the same calls executed one after the other in the order of the returned indices (a linearisation) *)
Fixpoint seq_grows (a : arena) (nid : nat) (l : list (Z * Z)) : option arena :=
  match l with
  | [] => Some a
  | (r, d) :: rest => match grow a d nid with
                      | Some (a', r', n') => if r' =? r then seq_grows a' n' rest else None
                      | None => None
                      end
  end.

(* (minBuf, init, ranges, [size cap nbuf tcap alldef tagsok stable], crashed) *)
Definition judge_mt (c : Z * Z * list (Z * Z) * list Z * bool) : Z :=
  let '(m, init, ranges, fin, crashed) := c in
  if crashed then 2 else
  match fin with
  | [sz; cap; nbuf; tcap; alldef; tagsok; stable] =>
      let pok := match cover_from init ranges with Some total => sz =? total | None => false end
                 && (alldef =? 1) && (tagsok =? 1) && (stable =? 1) in
      if negb pok then 2 else
      match new_arena m init 0 with
      | Some (a0, n0) =>
          match seq_grows a0 n0 ranges with
          | Some a => if zlist_eqb (shape a) [sz; cap; nbuf; tcap] then 0 else 1
          | None => 1
          end
      | None => 1
      end
  | _ => 2
  end.
