(* Executable form of C44, evaluated on what the IMPLEMENTATION returned (correspondence step).
   Depends only on the hand model (not on Gen/), so it still evaluates when the source has been changed. *)
From Coq Require Import ZArith List Bool.
From DV Require Import Base.MachInt Base.Corr Model.BitMathModel.
Import ListNotations.
Local Open Scope Z_scope.

(* function codes used by props/C44.py and harness/h_bitmath.cpp *)
Definition F_nextPow2 := 1.      (* detail::nextPow2(uint64_t) *)
Definition F_log2const64 := 2.   (* detail::log2const(uint64_t) *)
Definition F_log2const32 := 3.   (* detail::log2const(uint32_t) *)
Definition F_log2_64 := 4.       (* detail::log2(uint64_t)   (bsrq) *)
Definition F_log2_32 := 5.       (* detail::log2(uint32_t)   (bsrl) *)
Definition F_ctz := 6.           (* detail::countTrailingZeros(uint64_t) *)
Definition F_popcount := 7.      (* detail::countSetBits(uint64_t) *)
Definition F_alignCL := 8.       (* alignToCacheLine(uintptr_t) *)

(* x is a power of two (x < 2^200 guards the evaluation against absurd implementation outputs) *)
Definition is_pow2b (x : Z) : bool :=
  if (0 <? x) && (Z.log2 x <? 200) then 2 ^ Z.log2 x =? x else false.

(* out = floor(log2 v) *)
Definition log2_okb (v out : Z) : bool :=
  if (0 <=? out) && (out <? 200) then (2 ^ out <=? v) && (v <? 2 ^ (out + 1)) else false.

(* documented domain of each function *)
Definition bm_domain (fn v : Z) : bool :=
  match fn with
  | 1 => (1 <=? v) && (v <=? 2 ^ 63)
  | 2 | 4 | 6 => (1 <=? v) && (v <? 2 ^ 64)
  | 3 | 5 => (1 <=? v) && (v <? 2 ^ 32)
  | 7 => (0 <=? v) && (v <? 2 ^ 64)
  | 8 => (0 <=? v) && (v + 63 <? 2 ^ 64)
  | _ => false
  end.

(* the mathematical specification, as a predicate on (input, output); it does not mention the model of the bit hacks *)
Definition bm_prop (fn v out : Z) : bool :=
  match fn with
  | 1 => is_pow2b out && (v <=? out) && (out <? 2 * v)              (* least power of two >= v *)
  | 2 | 3 | 4 | 5 => log2_okb v out                                 (* 2^out <= v < 2^(out+1) *)
  | 6 => if (0 <=? out) && (out <? 200) then Z.testbit v out && (v mod 2 ^ out =? 0) else false
  | 7 => out =? popcount_m v                                        (* number of set bits (definition) *)
  | 8 => (out mod 64 =? 0) && (v <=? out) && (out <? v + 64)        (* least multiple of 64 >= v *)
  | _ => false
  end.

Definition bm_model (fn v : Z) : Z :=
  match fn with
  | 1 => nextPow2_m v
  | 2 => log2const64_m v
  | 3 => log2const32_m v
  | 4 | 5 => log2_m v
  | 6 => ctz_m v
  | 7 => popcount_m v
  | 8 => alignToCacheLine_m v
  | _ => -1
  end.

(* one case (function, input, implementation's output).
   0 = agrees with the model and satisfies the specification; 1 = differs from the model but the specification holds
   (or the input is outside the documented domain); 2 = the specification fails on the implementation's output *)
Definition judge_bm (c : Z * Z * Z) : Z :=
  let '(fn, v, out) := c in
  if bm_domain fn v && negb (bm_prop fn v out) then 2
  else if bm_model fn v =? out then 0 else 1.

(* alignedMalloc / alignedFree: p = what ::malloc returned, req = what it was asked for, ret = alignedMalloc's
   result, recov = the word found at ret-8 after the user bytes have been overwritten, freed = pointer handed to ::free *)
Definition am_domain (p bytes a : Z) : bool :=
  is_pow2b a && (0 <? p) && (p mod 8 =? 0) && (0 <=? bytes) && (p + (bytes + Z.max a 8) <? 2 ^ 64).

Definition am_prop (p bytes a req ret recov freed : Z) : bool :=
  (ret mod a =? 0) && (p + 8 <=? ret) && (ret + bytes <=? p + req) && (recov =? p) && (freed =? p).

Definition am_model_agrees (p bytes a req ret recov freed : Z) : bool :=
  let '(m', r) := alignedMalloc_m (fun _ => 0) p a in
  (am_request bytes a =? req) && (r =? ret) && (load64 m' (am_recovery p a) =? recov) && (am_recovery p a =? ret - 8) &&
  match alignedFree_m m' r with Some q => q =? freed | None => false end.

Definition judge_am (c : Z * Z * Z * (Z * Z * Z * Z)) : Z :=
  let '(p, bytes, a, (req, ret, recov, freed)) := c in
  if am_domain p bytes a && negb (am_prop p bytes a req ret recov freed) then 2
  else if am_model_agrees p bytes a req ret recov freed then 0 else 1.
