(* C10: the message-passing skeleton shared by the covered hand-off protocols, and the protocols as DATA
   (offering sites, taking sites, kinds of operation).  Executable Gallina only; proofs in Proofs/C10Proofs.v.

   Skeleton.  One atomic object A.  [n_off] offering threads (thread ids 0 .. n_off-1) and [n_take] taking threads (ids
   n_off .. n_off+n_take-1); any other thread id is a bystander.  Offerer i starts with all [n_take] permission tokens of
   its payload location i.  It may access its payload while it holds tokens, gives tokens away (ghost [Offer]) and then
   PUBLISHES: one atomic write on A (a plain store when the protocol has a single writer, otherwise a read-modify-write)
   with one of the orders declared at the protocol's offering sites.  The abstract value of A is the number of publishes so
   far (flag protocols: 0/1; counters: initial - value; ring sequences: generation).  Taker j performs atomic reads of A
   (load or read-modify-write) with one of the orders declared at the taking sites, any number of times; once a read has
   observed that all offerers have published it may take token j of every payload (ghost [Take]) and access the payloads
   (all tokens = exclusive when n_take = 1, otherwise shared read).  Every thread may at any time perform further loads
   and read-modify-writes of A with ANY order (failed CAS attempts, other parties' increments, relaxed peeks); nobody else
   performs a plain store to A (a plain store by a third party ends a release sequence: such protocols are split into
   stages, each stage an instance of the skeleton). *)
From Coq Require Import ZArith List Bool Arith String.
From DV Require Import Gen.GenOrders Base.Own.
Import ListNotations.

Record proto := {
  n_off : nat; n_take : nat;
  off_kind : akind; take_kind : akind;
  off_mos : list mo; take_mos : list mo }.

Definition A : aloc := 0.
Definition ttid (p : proto) (j : nat) : tid := n_off p + j.
Definition init_g : gstate := fun l _ => Held l.

Inductive action :=
| AAccess (t : tid) (l : loc) (w : bool)
| AOffer (i tok : nat)
| APublish (i : nat) (m : mo)
| AAcquire (j : nat) (m : mo)
| ATake (j i : nat)
| AOther (t : tid) (rmw : bool) (m : mo).

Record st := {
  s_tr : trace;
  s_pub : list (nat * nat);      (* (offerer, index of its publish event) *)
  s_acq : list (nat * nat) }.    (* (taker, index of a read that observed all publishes) *)

Definition st0 : st := {| s_tr := []; s_pub := []; s_acq := [] |}.

Definition cur (s : st) : gstate := gs (s_tr s) init_g (List.length (s_tr s)).
Definition holds (s : st) (t : tid) (l : loc) (tok : nat) : bool :=
  match cur s l tok with Held u => Nat.eqb u t | Transit _ => false end.
Definition in_transit (s : st) (l : loc) (tok : nat) : bool :=
  match cur s l tok with Held _ => false | Transit _ => true end.
Definition holds_some (s : st) (t : tid) (l : loc) (n : nat) : bool := existsb (holds s t l) (seq 0 n).
Definition holds_all (s : st) (t : tid) (l : loc) (n : nat) : bool := forallb (holds s t l) (seq 0 n).
Definition mem_mo (m : mo) (l : list mo) : bool := existsb (mo_eqb m) l.
Definition memn (x : nat) (l : list nat) : bool := existsb (Nat.eqb x) l.

Definition snoc (s : st) (te : tid * ev) : st :=
  {| s_tr := s_tr s ++ [te]; s_pub := s_pub s; s_acq := s_acq s |}.

Definition count (s : st) : Z := Z.of_nat (List.length (s_pub s)).

Definition step (p : proto) (s : st) (a : action) : option st :=
  match a with
  | AAccess t l w =>
      if (if w then holds_all s t l (n_take p) else holds_some s t l (n_take p))
      then Some (snoc s (t, if w then Na_write l else Na_read l)) else None
  | AOffer i tok =>
      if (i <? n_off p) && (tok <? n_take p) && negb (memn i (map fst (s_pub s))) && holds s i i tok
      then Some (snoc s (i, Offer i tok)) else None
  | APublish i m =>
      if (i <? n_off p) && negb (memn i (map fst (s_pub s))) && mem_mo m (off_mos p)
      then Some {| s_tr := s_tr s ++ [(i, At_op A (off_kind p) m (count s) (count s + 1))];
                   s_pub := (i, List.length (s_tr s)) :: s_pub s; s_acq := s_acq s |}
      else None
  | AAcquire j m =>
      if (j <? n_take p) && mem_mo m (take_mos p)
      then Some {| s_tr := s_tr s ++ [(ttid p j, At_op A (take_kind p) m (count s) (count s))];
                   s_pub := s_pub s;
                   s_acq := if n_off p <=? List.length (s_pub s) then (j, List.length (s_tr s)) :: s_acq s else s_acq s |}
      else None
  | ATake j i =>
      if (j <? n_take p) && (i <? n_off p) && memn j (map fst (s_acq s)) && in_transit s i j
      then Some (snoc s (ttid p j, Take i j)) else None
  | AOther t rmw m => Some (snoc s (t, At_op A (if rmw then ARmw else ALoad) m (count s) (count s)))
  end.

Fixpoint run (p : proto) (s : st) (acts : list action) : option st :=
  match acts with
  | [] => Some s
  | a :: r => match step p s a with Some s' => run p s' r | None => None end
  end.

Definition wf_proto (p : proto) : bool :=
  (1 <=? n_off p) && (1 <=? n_take p) &&
  negb (akind_eqb (off_kind p) ALoad) && negb (akind_eqb (take_kind p) AStore) &&
  (negb (akind_eqb (off_kind p) AStore) || (n_off p =? 1)).

Definition orders_ok (p : proto) : bool :=
  forallb (fun m => order_ge m Release) (off_mos p) && forallb (fun m => order_ge m Acquire) (take_mos p).
