(* C10: the message-passing skeleton shared by the covered hand-off protocols, and the protocols as DATA
   (offering sites, taking sites, kinds of operation).  Executable Gallina only; proofs in Proofs/C10Proofs.v.

   Skeleton.  One atomic object A.  [n_off] offering threads (thread ids 0 .. n_off-1) and [n_take] taking threads (ids
   n_off .. n_off+n_take-1); any other thread id is a bystander.  Offerer i starts with all [n_take] permission tokens of
   its payload location i.  It may access its payload while it holds tokens, gives tokens away (ghost [Offer]) and then
   PUBLISHES: one atomic write on A (a plain store when the protocol has a single writer, otherwise a read-modify-write)
   with one of the orders declared at the protocol's offering sites.  The abstract value of A is the number of publishes so
   far (flag protocols: 0/1; counters: initial - value; ring sequences: generation).  Taker j performs atomic reads of A
   (load or read-modify-write) with one of the orders declared at the taking sites, any number of times; once a read has
   observed that all offerers have published it may take token j of every payload (ghost [Take]) and access the payloads
   (all tokens = exclusive when n_take = 1, otherwise shared read).  Every thread may at any time perform further loads
   and read-modify-writes of A with ANY order (failed CAS attempts, other parties' increments, relaxed peeks); nobody else
   performs a plain store to A (a plain store by a third party ends a release sequence: such protocols are split into
   stages, each stage an instance of the skeleton). *)
From Coq Require Import ZArith List Bool Arith String.
From DV Require Import Gen.GenOrders Base.Own.
Import ListNotations.

Record proto := {
  n_off : nat; n_take : nat;
  off_kind : akind; take_kind : akind;
  off_mos : list mo; take_mos : list mo }.

Definition A : aloc := 0.
Definition ttid (p : proto) (j : nat) : tid := n_off p + j.
Definition init_g : gstate := fun l _ => Held l.

Inductive action :=
| AAccess (t : tid) (l : loc) (w : bool)
| AOffer (i tok : nat)
| APublish (i : nat) (m : mo)
| AAcquire (j : nat) (m : mo)
| ATake (j i : nat)
| AOther (t : tid) (rmw : bool) (m : mo).

Record st := {
  s_tr : trace;
  s_pub : list (nat * nat);      (* (offerer, index of its publish event) *)
  s_acq : list (nat * nat) }.    (* (taker, index of a read that observed all publishes) *)

Definition st0 : st := {| s_tr := []; s_pub := []; s_acq := [] |}.

Definition cur (s : st) : gstate := gs (s_tr s) init_g (List.length (s_tr s)).
Definition holds (s : st) (t : tid) (l : loc) (tok : nat) : bool :=
  match cur s l tok with Held u => Nat.eqb u t | Transit _ => false end.
Definition in_transit (s : st) (l : loc) (tok : nat) : bool :=
  match cur s l tok with Held _ => false | Transit _ => true end.
Definition holds_some (s : st) (t : tid) (l : loc) (n : nat) : bool := existsb (holds s t l) (seq 0 n).
Definition holds_all (s : st) (t : tid) (l : loc) (n : nat) : bool := forallb (holds s t l) (seq 0 n).
Definition mem_mo (m : mo) (l : list mo) : bool := existsb (mo_eqb m) l.
Definition memn (x : nat) (l : list nat) : bool := existsb (Nat.eqb x) l.

Definition snoc (s : st) (te : tid * ev) : st :=
  {| s_tr := s_tr s ++ [te]; s_pub := s_pub s; s_acq := s_acq s |}.

Definition count (s : st) : Z := Z.of_nat (List.length (s_pub s)).

Definition step (p : proto) (s : st) (a : action) : option st :=
  match a with
  | AAccess t l w =>
      if (if w then holds_all s t l (n_take p) else holds_some s t l (n_take p))
      then Some (snoc s (t, if w then Na_write l else Na_read l)) else None
  | AOffer i tok =>
      if (i <? n_off p) && (tok <? n_take p) && negb (memn i (map fst (s_pub s))) && holds s i i tok
      then Some (snoc s (i, Offer i tok)) else None
  | APublish i m =>
      if (i <? n_off p) && negb (memn i (map fst (s_pub s))) && mem_mo m (off_mos p)
      then Some {| s_tr := s_tr s ++ [(i, At_op A (off_kind p) m (count s) (count s + 1))];
                   s_pub := (i, List.length (s_tr s)) :: s_pub s; s_acq := s_acq s |}
      else None
  | AAcquire j m =>
      if (j <? n_take p) && mem_mo m (take_mos p)
      then Some {| s_tr := s_tr s ++ [(ttid p j, At_op A (take_kind p) m (count s) (count s))];
                   s_pub := s_pub s;
                   s_acq := if n_off p <=? List.length (s_pub s) then (j, List.length (s_tr s)) :: s_acq s else s_acq s |}
      else None
  | ATake j i =>
      if (j <? n_take p) && (i <? n_off p) && memn j (map fst (s_acq s)) && in_transit s i j
      then Some (snoc s (ttid p j, Take i j)) else None
  | AOther t rmw m => Some (snoc s (t, At_op A (if rmw then ARmw else ALoad) m (count s) (count s)))
  end.

Fixpoint run (p : proto) (s : st) (acts : list action) : option st :=
  match acts with
  | [] => Some s
  | a :: r => match step p s a with Some s' => run p s' r | None => None end
  end.

(* every state the skeleton can reach: any actions in any order (the schedule is the action list) *)
Inductive reach (p : proto) : st -> Prop :=
| reach0 : reach p st0
| reach_step s a s' : reach p s -> step p s a = Some s' -> reach p s'.

Definition wf_proto (p : proto) : bool :=
  (1 <=? n_off p) && (1 <=? n_take p) &&
  negb (akind_eqb (off_kind p) ALoad) && negb (akind_eqb (take_kind p) AStore) &&
  (negb (akind_eqb (off_kind p) AStore) || (n_off p =? 1)).

Definition orders_ok (p : proto) : bool :=
  forallb (fun m => order_ge m Release) (off_mos p) && forallb (fun m => order_ge m Acquire) (take_mos p).

(* ------------------------------------------------------------------------------------------------------------------
   The covered hand-offs as data.  [h_off]: sites whose declared order must be >= Release; [h_take]: sites whose declared
   order must be >= Acquire (for a compare_exchange the SUCCESS order: the hand-off is taken on success).  Site keys are
   those of Gen/GenOrders.v (tools/orders.py); a key that is not in the table reads as Relaxed. *)
Local Open Scope string_scope.

Record handoff := {
  h_name : string;
  h_off : list string; h_off_kind : akind;
  h_take : list string; h_take_kind : akind;
  h_payload : string }.

Definition proto_of (h : handoff) (noff ntake : nat) : proto :=
  {| n_off := noff; n_take := ntake; off_kind := h_off_kind h; take_kind := h_take_kind h;
     off_mos := map site_mo (h_off h); take_mos := map site_mo (h_take h) |}.

Definition handoff_ok (h : handoff) : bool :=
  forallb has_site (app (h_off h) (h_take h)) &&
  forallb (fun s => order_ge (site_mo s) Release) (h_off h) &&
  forallb (fun s => order_ge (site_mo s) Acquire) (h_take h).

Definition kinds_ok (h : handoff) : bool :=
  negb (akind_eqb (h_off_kind h) ALoad) && negb (akind_eqb (h_take_kind h) AStore).

(* number of offerers admitted: a plain-store protocol has a single writer per stage *)
Definition noff_ok (h : handoff) (noff : nat) : bool :=
  Nat.leb 1 noff && (negb (akind_eqb (h_off_kind h) AStore) || Nat.eqb noff 1).

Definition spsc := "spsc_ring_buffer.h:SPSCRingBuffer::".
Definition mpmc := "mpmc_ring_buffer.h:MpmcRingBuffer::".
Definition cei := "detail/completion_event_impl.h:CompletionEventImpl::".
Definition fib := "detail/future_impl.h:FutureImplBase::".
Definition cvb := "detail/concurrent_vector_impl.h:ConVecBuffer::".
Definition coa := "concurrent_object_arena.h:ConcurrentObjectArena::".
Definition rwl := "detail/rw_lock_impl.h:RWLockImpl::".
Definition tsi := "detail/task_set_impl.h:TaskSetBase::".
Definition event_waits : list string :=
  [cei ++ "wait:status_:load#0"; cei ++ "waitFor:status_:load#0"; cei ++ "waitFor:status_:load#1"; cei ++ "waitUntil:status_:load#0"].

Definition h_spsc_push_pop : handoff := {|
  h_name := "spsc.push_to_pop";
  h_off := [spsc ++ "try_push:tail_:store#0"; spsc ++ "try_push:tail_:store#1"; spsc ++ "try_emplace:tail_:store#0";
            spsc ++ "try_push_batch:tail_:store#0"]; h_off_kind := AStore;
  h_take := [spsc ++ "try_pop:tail_:load#0"; spsc ++ "try_pop:tail_:load#1"; spsc ++ "try_pop_into:tail_:load#0";
             spsc ++ "try_pop_batch:tail_:load#0"]; h_take_kind := ALoad;
  h_payload := "element constructed in the slot by the producer, moved out / destroyed by the consumer" |}.

Definition h_spsc_pop_push : handoff := {|
  h_name := "spsc.pop_to_push";
  h_off := [spsc ++ "try_pop:head_:store#0"; spsc ++ "try_pop:head_:store#1"; spsc ++ "try_pop_into:head_:store#0";
            spsc ++ "try_pop_batch:head_:store#0"]; h_off_kind := AStore;
  h_take := [spsc ++ "try_push:head_:load#0"; spsc ++ "try_push:head_:load#1"; spsc ++ "try_emplace:head_:load#0";
             spsc ++ "try_push_batch:head_:load#0"]; h_take_kind := ALoad;
  h_payload := "the emptied slot storage, reused by the producer after wrap-around" |}.

Definition h_mpmc_push_pop : handoff := {|
  h_name := "mpmc.slot_seq_push_to_pop";
  h_off := [mpmc ++ "emplaceImpl:seq:store#0"; mpmc ++ "try_push_batch:seq:store#0"]; h_off_kind := AStore;
  h_take := [mpmc ++ "try_pop:seq:load#0"; mpmc ++ "try_pop:seq:load#1"; mpmc ++ "try_pop_into:seq:load#0"]; h_take_kind := ALoad;
  h_payload := "element in the slot; head_/tail_ CAS are relaxed and only arbitrate, the slot sequence is the hand-off" |}.

Definition h_mpmc_pop_push : handoff := {|
  h_name := "mpmc.slot_seq_pop_to_push";
  h_off := [mpmc ++ "try_pop:seq:store#0"; mpmc ++ "try_pop:seq:store#1"; mpmc ++ "try_pop_into:seq:store#0"]; h_off_kind := AStore;
  h_take := [mpmc ++ "emplaceImpl:seq:load#0"; mpmc ++ "try_push_batch:seq:load#0"]; h_take_kind := ALoad;
  h_payload := "the emptied slot storage, reused by a producer one lap later" |}.

Definition h_event : handoff := {|
  h_name := "completion_event.notify_to_wait";
  h_off := [cei ++ "notify:status_:store#0"]; h_off_kind := AStore;
  h_take := event_waits; h_take_kind := ALoad;
  h_payload := "everything the notifier wrote before notify(), read by every waiter after wait()" |}.

Definition h_latch_direct : handoff := {|
  h_name := "latch.count_down_to_wait";
  h_off := ["latch.h:Latch::count_down:intrusiveStatus():fetch_sub#0"; "latch.h:Latch::arrive_and_wait:intrusiveStatus():fetch_sub#0"];
  h_off_kind := ARmw;
  h_take := "latch.h:Latch::try_wait:intrusiveStatus():load#0" :: event_waits; h_take_kind := ALoad;
  h_payload := "what each arriving thread wrote before count_down, read by the waiters (zero read from the last decrement)" |}.

Definition h_latch_last : handoff := {|
  h_name := "latch.count_down_to_last_arrival";
  h_off := ["latch.h:Latch::count_down:intrusiveStatus():fetch_sub#0"; "latch.h:Latch::arrive_and_wait:intrusiveStatus():fetch_sub#0"];
  h_off_kind := ARmw;
  h_take := ["latch.h:Latch::count_down:intrusiveStatus():fetch_sub#0"; "latch.h:Latch::arrive_and_wait:intrusiveStatus():fetch_sub#0"];
  h_take_kind := ARmw;
  h_payload := "same payload, first stage: the last arrival acquires the earlier ones, then publishes with notify(0)'s plain store (stage 2 = completion_event.notify_to_wait)" |}.

Definition h_future_result : handoff := {|
  h_name := "future.result_publication";
  h_off := [cei ++ "notify:status_:store#0"; fib ++ "setReady:intrusiveStatus():store#0"]; h_off_kind := AStore;
  h_take := [fib ++ "ready:intrusiveStatus():load#0"; fib ++ "waitCommon:intrusiveStatus():load#0";
             fib ++ "addToThenChainOrExecute:intrusiveStatus():load#0"; fib ++ "addToThenChainOrExecute:intrusiveStatus():load#1";
             cei ++ "wait:status_:load#0"; cei ++ "waitFor:status_:load#0"; cei ++ "waitFor:status_:load#1"; cei ++ "waitUntil:status_:load#0"];
  h_take_kind := ALoad;
  h_payload := "resultBuf_ / exception_ written by runFunc() before status_.notify(kReady); read by get() after the waiter saw kReady" |}.

Definition h_then_chain : handoff := {|
  h_name := "future.then_chain_link";
  h_off := [fib ++ "addToThenChainOrExecute:thenChain_:compare_exchange_weak#0"]; h_off_kind := ARmw;
  h_take := [fib ++ "tryExecuteThenChain:thenChain_:compare_exchange_weak#0"]; h_take_kind := ARmw;
  h_payload := "ThenChain link (next, impl, schedulable, invoke) written by the thread that pushes it, read and freed by the thread that detaches the chain" |}.

Definition h_whenall : handoff := {|
  h_name := "future.when_all_count";
  h_off := ["detail/future_impl2.h:whenAllTuple:count:fetch_sub#0"; "detail/future_impl2.h:whenAllIterators:count:fetch_sub#0"];
  h_off_kind := ARmw;
  h_take := ["detail/future_impl2.h:whenAllTuple:count:load#0"; "detail/future_impl2.h:whenAllIterators:count:load#0"];
  h_take_kind := ALoad;
  h_payload := "completion of each input future, observed by whenComplete when it reads count == 0" |}.

Definition h_async_ready : handoff := {|
  h_name := "async_request.ready_to_get";
  h_off := ["async_request.h:AsyncRequest::tryEmplaceUpdate:state_:store#0"]; h_off_kind := AStore;
  h_take := ["async_request.h:AsyncRequest::getUpdate:state_:compare_exchange_strong#0"]; h_take_kind := ARmw;
  h_payload := "obj_ emplaced by the updater, moved out by the requester" |}.

Definition h_async_consumed : handoff := {|
  h_name := "async_request.consumed_to_next_update";
  h_off := ["async_request.h:AsyncRequest::getUpdate:state_:store#0"]; h_off_kind := AStore;
  h_take := ["async_request.h:AsyncRequest::tryEmplaceUpdate:state_:compare_exchange_strong#0"]; h_take_kind := ARmw;
  h_payload := "the emptied obj_; requestUpdate's CAS (kNone -> kNeedsUpdate) is a read-modify-write in between and continues the release sequence" |}.

Definition h_cvec : handoff := {|
  h_name := "concurrent_vector.buffer_publication";
  h_off := [cvb ++ "allocAsNecessaryImpl:buffers_:store#0"; cvb ++ "tryAssignBuffer:buffers_:store#0"]; h_off_kind := AStore;
  h_take := [cvb ++ "allocAsNecessaryImpl:buffers_:load#1"; cvb ++ "allocAsNecessaryImpl:buffers_:load#4"]; h_take_kind := ALoad;
  h_payload := "the freshly allocated bucket (allocator bookkeeping, cachedPtrs_ entry) written by the allocating appender; every appender passes the wait loop before touching the bucket" |}.

Definition h_arena_size : handoff := {|
  h_name := "arena.allocated_size_publication";
  h_off := [coa ++ "grow_by:allocatedSize_:store#0"]; h_off_kind := AStore;
  h_take := [coa ++ "grow_by:allocatedSize_:load#0"]; h_take_kind := ALoad;
  h_payload := "new buffer and its buffer-table entry written under resizeMutex_ before allocatedSize_ grows; used by the thread that sees the larger size" |}.

Definition h_arena_table : handoff := {|
  h_name := "arena.buffer_table_publication";
  h_off := [coa ++ "allocateBuffer:buffers_:store#0"]; h_off_kind := AStore;
  h_take := [coa ++ "operator[]:buffers_:load#0"; coa ++ "getBuffer:buffers_:load#0"; coa ++ "getBuffer:buffers_:load#1";
             coa ++ "constructObjects:buffers_:load#0"]; h_take_kind := ALoad;
  h_payload := "the reallocated table of buffer pointers (copied entries) read through buffers_" |}.

Definition rw_acquires : list string :=
  [rwl ++ "setWriteBit:lockWord():fetch_or#0"; rwl ++ "setWriteBit:lockWord():fetch_or#1"; rwl ++ "tryWriteBit:lockWord():fetch_or#0";
   rwl ++ "try_lock:lockWord():fetch_or#0"].

Definition h_rw_unlock_lock : handoff := {|
  h_name := "rwlock.unlock_to_lock";
  h_off := [rwl ++ "unlock:lockWord():fetch_and#0"; rwl ++ "try_lock:lockWord():fetch_and#0"]; h_off_kind := ARmw;
  h_take := app rw_acquires [rwl ++ "lock_shared:lockWord():fetch_add#0"; rwl ++ "lock_shared:lockWord():fetch_add#1";
                             rwl ++ "try_lock_shared:lockWord():fetch_add#0"]; h_take_kind := ARmw;
  h_payload := "data protected by the lock: the writer's critical section, then the next writer (exclusive) or the next readers (shared)" |}.

Definition h_rw_readers_writer_rmw : handoff := {|
  h_name := "rwlock.readers_to_writer.rmw";
  h_off := [rwl ++ "readerRelease:lockWord():fetch_sub#0"; rwl ++ "lock_upgrade:lockWord():fetch_sub#0"]; h_off_kind := ARmw;
  h_take := rw_acquires; h_take_kind := ARmw;
  h_payload := "protected data read by each reader, then written by the writer whose fetch_or found no reader left" |}.

Definition h_rw_readers_writer_load : handoff := {|
  h_name := "rwlock.readers_to_writer.drain";
  h_off := [rwl ++ "readerRelease:lockWord():fetch_sub#0"; rwl ++ "lock_upgrade:lockWord():fetch_sub#0"]; h_off_kind := ARmw;
  h_take := [cei ++ "wait:status_:load#0"; rwl ++ "try_lock:lockWord():load#0"]; h_take_kind := ALoad;
  h_payload := "same, for the writer that waits for the readers to drain (waitForReaderDrain / try_lock's bounded spin)" |}.

Definition ts_waits : list string :=
  ["task_set.cpp:ConcurrentTaskSet::wait:outstandingTaskCount_:load#0"; "task_set.cpp:ConcurrentTaskSet::wait:outstandingTaskCount_:load#1";
   "task_set.cpp:ConcurrentTaskSet::tryWait:outstandingTaskCount_:load#0"; "task_set.cpp:ConcurrentTaskSet::tryWait:outstandingTaskCount_:load#1";
   "task_set.cpp:TaskSet::wait:outstandingTaskCount_:load#0"; "task_set.cpp:TaskSet::wait:outstandingTaskCount_:load#1";
   "task_set.cpp:TaskSet::tryWait:outstandingTaskCount_:load#0"; "task_set.cpp:TaskSet::tryWait:outstandingTaskCount_:load#1";
   "task_set.cpp:TaskSet::tryWait:outstandingTaskCount_:load#2"].

Definition h_taskset : handoff := {|
  h_name := "task_set.outstanding_counter";
  h_off := [tsi ++ "packageTask:outstandingTaskCount_:fetch_sub#0"; tsi ++ "packageTaskNoIncrement:outstandingTaskCount_:fetch_sub#0";
            fib ++ "run:taskSetCounter_:fetch_sub#0"]; h_off_kind := ARmw;
  h_take := ts_waits; h_take_kind := ALoad;
  h_payload := "everything a task body wrote: visible to the caller after wait() (schedulers' fetch_add(acquire) are read-modify-writes in between)" |}.

Definition h_ts_exception : handoff := {|
  h_name := "task_set.exception_guard";
  h_off := ["task_set.cpp:TaskSetBase::trySetCurrentException:guardException_:store#0"]; h_off_kind := AStore;
  h_take := ["task_set.cpp:TaskSetBase::testAndResetException:guardException_:load#0"]; h_take_kind := ALoad;
  h_payload := "TaskSetBase::exception_ stored by the task that won the kUnset -> kSetting CAS, rethrown by wait()" |}.

Definition graph_dec := "detail/graph_executor_impl.h:ExecutorBase::evaluateNodeConcurrently:decNumIncompletePredecessors:call#0".
Definition h_graph : handoff := {|
  h_name := "graph.node_completion";
  h_off := [graph_dec]; h_off_kind := ARmw;
  h_take := [graph_dec]; h_take_kind := ARmw;
  h_payload := "what the predecessor nodes' functors wrote; the thread whose decrement reaches zero runs the dependent node (order fixed at the call site: decNumIncompletePredecessors forwards it).  ParallelForExecutor / SingleThreadExecutor pass relaxed: ordering there is the wave barrier (task_set.outstanding_counter) resp. a single thread" |}.

Definition h_numrings : handoff := {|
  h_name := "thread_pool.numRings_publication";
  h_off := ["thread_pool.cpp:ThreadPool::ThreadPool:numRings_:store#0"; "thread_pool.cpp:ThreadPool::resizeLocked:numRings_:store#0"];
  h_off_kind := AStore;
  h_take := ["thread_pool.h:ThreadPool::tryExecuteNextFromRings:numRings_:load#0"; "thread_pool.h:ThreadPool::scheduleBulkToRings:numRings_:load#0"];
  h_take_kind := ALoad;
  h_payload := "the ring array entries constructed before numRings_ is raised" |}.

Definition h_future_refcount : handoff := {|
  h_name := "future.refcount_dealloc";
  h_off := [fib ++ "decRefCountMaybeDestroy:refCount_:fetch_sub#0"]; h_off_kind := ARmw;
  h_take := [fib ++ "decRefCountMaybeDestroy:refCount_:fetch_sub#0"]; h_take_kind := ARmw;
  h_payload := "the future's shared state: read by every holder before its decrement, destroyed and freed by the holder whose decrement returns 1; the same site offers (>= Release) and takes (>= Acquire), i.e. acq_rel -- release-only until the repair 'fix: FutureImplBase::decRefCountMaybeDestroy ... acq_rel' in /repo" |}.

Definition handoffs : list handoff :=
  [h_spsc_push_pop; h_spsc_pop_push; h_mpmc_push_pop; h_mpmc_pop_push; h_event; h_latch_direct; h_latch_last;
   h_future_result; h_then_chain; h_whenall; h_async_ready; h_async_consumed; h_cvec; h_arena_size; h_arena_table;
   h_rw_unlock_lock; h_rw_readers_writer_rmw; h_rw_readers_writer_load; h_taskset; h_ts_exception; h_graph; h_numrings;
   h_future_refcount].

(* Hand-offs the source does NOT order by release/acquire (recorded, never proved): evaluated on every run, reported as
   findings while [handoff_ok] is false, and silently fine once the source provides the orders. *)
Definition g_wakestate : handoff := {|
  h_name := "thread_pool.wakeState_publication";
  h_off := ["thread_pool.cpp:ThreadPool::ThreadPool:wakeState_:store#0"; "thread_pool.cpp:ThreadPool::resizeLocked:wakeState_:store#0"];
  h_off_kind := AStore;
  h_take := ["thread_pool.h:consumeLoad:ptr:load#0"]; h_take_kind := ALoad;
  h_payload := "the PoolWakeState object constructed before the pointer is stored; consumeLoad is a relaxed load + TSAN annotation: dependency-ordered only, which the C++ model does not order" |}.

Definition gap_handoffs : list handoff := [g_wakestate].

Definition status_of (h : handoff) : string * bool := (h_name h, handoff_ok h).
Definition all_status : list (string * bool) := map status_of handoffs.
Definition gap_status : list (string * bool) := map status_of gap_handoffs.

(* sites named by the data that are missing from the extracted table *)
Definition missing_sites : list string :=
  filter (fun s => negb (has_site s)) (flat_map (fun h => app (h_off h) (h_take h)) (app handoffs gap_handoffs)).
