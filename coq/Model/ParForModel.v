(* Executable model of the top-level decisions of dispenso::parallel_for (parallel_for.h) built from the
   REGENERATED leaves (Gen/GenChunk.v): which path is taken, how many workers, and for the static path the
   exact list of (begin, end) invocations.  No proofs here. *)
From Coq Require Import ZArith List Bool.
From DV Require Import Base.MachInt Model.ChunkModel Gen.GenChunk.
Import ListNotations.
Local Open Scope Z_scope.

Inductive path := PEmpty | PSerial | PStatic | PAdaptive | PDynamic.

Record pfcfg := PF {
  pf_kn : nat; pf_s : Z; pf_e : Z; pf_chunk : Z;          (* chunk: 0 = auto/adaptive, kStatic = static, else explicit *)
  pf_N : Z; pf_maxThreads : Z; pf_minItems : Z; pf_gran : Z; pf_wait : bool }.

Definition kind_of (kn : nat) : ikind := nth kn all_kinds U64.

Record pfdec := DEC {
  d_path : path; d_g : Z; d_trimmedEnd : Z; d_hasTail : bool; d_maxThreads : Z; d_minItems : Z }.

(* parallel_for(taskSet, states, defaultState, range, f, options) up to the dispatch *)
Definition pf_decide (c : pfcfg) : pfdec :=
  let kn := pf_kn c in
  if gen_range_empty_of kn (pf_s c) (pf_e c) then DEC PEmpty 1 (pf_e c) false 0 1 else
  let '(g, trimmedEnd, hasTail) := gen_computeGranularity_of kn (pf_s c) (pf_e c) (pf_chunk c) (pf_gran c) in
  let minItems := Z.max 1 (pf_minItems c) in
  let maxThreads := Z.max (wrap_s 32 (pf_maxThreads c)) 1 in
  let isStatic := gen_range_isStatic_of kn (pf_chunk c) in
  if gen_range_empty_of kn (pf_s c) trimmedEnd || (pf_N c =? 0) then DEC PSerial g trimmedEnd hasTail 1 minItems else
  let '(maxThreads', isStatic') :=
    gen_adjustChunkSizing_of kn (pf_s c) trimmedEnd (pf_chunk c) maxThreads isStatic minItems (pf_N c) (pf_wait c) in
  if maxThreads' <? 2 then DEC PSerial g trimmedEnd hasTail maxThreads' minItems else
  if isStatic' then DEC PStatic g trimmedEnd hasTail maxThreads' minItems else
  if (pf_chunk c =? 0) then DEC PAdaptive g trimmedEnd hasTail maxThreads' minItems
  else DEC PDynamic g trimmedEnd hasTail maxThreads' minItems.

(* parallel_for_staticImpl: number of chunks *)
Definition static_numThreads (kn : nat) (s e N maxThreads g : Z) : Z :=
  let size := gen_range_size_of kn s e in
  let nt := Z.min (Z.min (N + 1) maxThreads) size in
  if 1 <? g then
    let maxByG := Z.quot size g in
    if maxByG <? nt then Z.max 1 maxByG else nt
  else nt.

(* boundaries handed to the tasks: regenerated mapper, configuration as parallel_for_staticImpl builds it *)
Definition gen_static_bounds (kn : nat) (s e n g : Z) : list (Z * Z) :=
  let k := nth kn all_kinds I8 in
  let size := range_size k s e in
  let '(cs, sc, ti) := static_mapper_cfg k size n g in
  map (fun i => gen_mapper_of kn n cs sc ti s e (Z.of_nat i)) (seq 0 (Z.to_nat n)).

(* all invocations of the body on the static / serial / empty paths, in index order (tail last) *)
Definition static_calls (c : pfcfg) : option (list (Z * Z)) :=
  let d := pf_decide c in
  match d_path d with
  | PEmpty => Some []
  | PSerial => Some [(pf_s c, pf_e c)]
  | PStatic =>
      let n := static_numThreads (pf_kn c) (pf_s c) (d_trimmedEnd d) (pf_N c) (d_maxThreads d) (d_g d) in
      Some (gen_static_bounds (pf_kn c) (pf_s c) (d_trimmedEnd d) n (d_g d)
            ++ (if d_hasTail d then [(d_trimmedEnd d, pf_e c)] else []))
  | _ => None
  end.

Definition path_code (p : path) : Z :=
  match p with PEmpty => 0 | PSerial => 1 | PStatic => 2 | PAdaptive => 3 | PDynamic => 4 end.
