(* Lockstep judge for C22 (and, through C23Check.v, C23): the implementation's trace under harness/vsched.h vs. the
   model run on the same schedule, and the executable form of the property evaluated on the implementation's output. *)
From Coq Require Import ZArith List Bool.
From DV Require Import Base.MachInt Base.Corr Base.Sched Model.RWLockModel.
Import ListNotations.
Local Open Scope Z_scope.

Record rcase := RC {
  r_n : nat; r_k : nat; r_fuel : nat; r_progs : list (list op); r_sched : list Z;
  i_trace : list Z;                  (* implementation: one code per step, tid * 32 + site *)
  i_results : list (list (Z * Z));   (* per thread, oldest first *)
  i_words : list Z;                  (* final lock words *)
  i_status : Z;                      (* 0 done 1 deadlock 2 budget *)
  i_conflicts : Z }.                 (* bad occupancy observations counted by the harness *)

(* occupancy replayed from a trace alone: (writers inside, readers inside, conflicts) *)
Definition occ_step (acc : Z * Z * Z) (e : Z) : Z * Z * Z :=
  let '(nw, nr, c) := acc in
  let site := e mod 32 in
  if site =? s_enter_w then (nw + 1, nr, if (nw + 1 =? 1) && (nr =? 0) then c else c + 1)
  else if site =? s_enter_r then (nw, nr + 1, if nw =? 0 then c else c + 1)
  else if site =? s_exit_w then (nw - 1, nr, c)
  else if site =? s_exit_r then (nw, nr - 1, c)
  else acc.
Definition conflicts_of (tr : list Z) : Z := snd (fold_left occ_step tr (0, 0, 0)).

Definition scripts_wf (strict : bool) (c : rcase) : bool :=
  forallb (fun p => wfb (r_n c) strict (S (length p)) MIdle p) (r_progs c).

Definition agrees (c : rcase) : bool :=
  let '(s, tr, st) := run_rw (r_fuel c) (r_n c) (r_k c) (r_progs c) (r_sched c) in
  zlist_eqb (map (fun e => fst e * 32 + snd e) tr) (i_trace c) && (status_code st =? i_status c) && zlist_eqb (words s) (i_words c) &&
  list_eqb (list_eqb zpair_eqb) (map (fun th => rev (res th)) (threads s)) (i_results c) &&
  (conflicts_of (i_trace c) =? i_conflicts c).

(* the property on the implementation's output:
   - well-formed scripts: no conflicting occupancy was ever observed (by the harness, and replayed from the trace);
   - well-formed scripts that end idle: the run never ends in a deadlock (nobody runnable, somebody asleep), and when
     every thread finished all lock words are back to 0 (try_lock rollbacks / back-outs left no trace). *)
Definition property_fails (c : rcase) : bool :=
  (scripts_wf false c && ((0 <? i_conflicts c) || (0 <? conflicts_of (i_trace c)))) ||
  (scripts_wf true c && ((i_status c =? 1) || ((i_status c =? 0) && negb (forallb (Z.eqb 0) (i_words c))))).

(* 0 agree & property holds; 1 differ, property holds; 2 property fails *)
Definition judge_rw (c : rcase) : Z :=
  if property_fails c then 2 else if agrees c then 0 else 1.
