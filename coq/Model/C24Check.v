(* Lockstep judge for C24: the implementation's trace under harness/vsched.h vs. the model run on the same schedule. *)
From Coq Require Import ZArith List Bool.
From DV Require Import Base.MachInt Base.Corr Base.Sched Model.AsyncReqModel.
Import ListNotations.
Local Open Scope Z_scope.

Record acase := AC {
  a_keep : bool;                     (* true: built with std::optional (C++17); false: detail::OpResult (C++14) *)
  a_fuel : nat; a_progs : list (list op); a_sched : list Z;
  i_trace : list (Z * Z);            (* implementation: (tid, site) per step *)
  i_results : list (list (Z * Z));   (* per thread, oldest first *)
  i_word : Z; i_objeng : bool; i_objval : Z;
  i_status : Z }.                    (* 0 done 2 budget *)

Definition all_results (c : acase) : list (Z * Z) := concat (i_results c).
Definition got_values (c : acase) : list Z :=
  map snd (filter (fun e => fst e =? r_get) (all_results c)).

Fixpoint has_dup (l : list Z) : bool :=
  match l with
  | [] => false
  | x :: r => existsb (Z.eqb x) r || has_dup r
  end.

(* tags whose tryEmplaceUpdate returned true, read off programs + results (results are per result-producing op, in order) *)
Fixpoint emplaced_ok (p : list op) (r : list (Z * Z)) : list Z :=
  match p with
  | [] => []
  | OReq :: p' => emplaced_ok p' r
  | OEmplace v :: p' =>
      match r with
      | (_, ok) :: r' => (if ok =? 1 then [v] else []) ++ emplaced_ok p' r'
      | [] => []
      end
  | _ :: p' => match r with _ :: r' => emplaced_ok p' r' | [] => [] end
  end.
Fixpoint zip_emplaced (ps : list (list op)) (rs : list (list (Z * Z))) : list Z :=
  match ps, rs with
  | p :: ps', r :: rs' => emplaced_ok p r ++ zip_emplaced ps' rs'
  | _, _ => []
  end.

(* the property on the implementation's own output *)
Definition viol_dup (c : acase) : bool := has_dup (got_values c).                       (* a value returned twice *)
Definition viol_thin (c : acase) : bool :=                                            (* a value nobody emplaced *)
  negb (forallb (fun v => existsb (Z.eqb v) (zip_emplaced (a_progs c) (i_results c))) (got_values c)).

(* ---- the implementation's own event order, reconstructed from ITS trace and ITS results only ----
   IReq   : a requestUpdate CAS step (successful or not -- void function, not observable)
   IEmp v : an obj_.emplace step of tryEmplaceUpdate(v)   (the k-th ar.tryEmplace.cas step of a thread belongs to its k-th E op)
   IGet v : the obj_ move step of a getUpdate call that returned v (the k-th ar.getUpdate.cas step of a thread belongs to
            its k-th G op, whose result is the k-th get/getnone entry of the thread's results) *)
Inductive iev := IReq | IEmp (v : Z) | IGet (v : Z).

Definition get_results (r : list (Z * Z)) : list (option Z) :=
  flat_map (fun e => if fst e =? r_get then [Some (snd e)] else if fst e =? r_getnone then [None] else []) r.

Definition bump (l : list nat) (t : nat) : list nat := set_nth l t (S (nth t l O)).

Fixpoint impl_events (progs : list (list op)) (results : list (list (Z * Z))) (tr : list (Z * Z))
         (ncas nload : list nat) : list iev :=
  match tr with
  | [] => []
  | (tz, site) :: r =>
      let t := Z.to_nat tz in
      if site =? s_req_cas then IReq :: impl_events progs results r ncas nload
      else if site =? s_emp_cas then impl_events progs results r (bump ncas t) nload
      else if site =? s_get_cas then impl_events progs results r ncas (bump nload t)
      else if site =? s_emp_emplace then
        IEmp (nth (pred (nth t ncas O)) (flat_map op_tags (nth t progs [])) 0) :: impl_events progs results r ncas nload
      else if site =? s_get_move then
        match nth (pred (nth t nload O)) (get_results (nth t results [])) None with
        | Some v => IGet v :: impl_events progs results r ncas nload
        | None => impl_events progs results r ncas nload
        end
      else impl_events progs results r ncas nload
  end.

(* the three clauses of the property on that event order: an emplacement needs a request step since the previous
   emplacement; a value-returning getUpdate needs the emplacement of exactly that value as the latest emplace/get event *)
Fixpoint events_ok (evs : list iev) (req_pending : bool) (avail : option Z) : bool :=
  match evs with
  | [] => true
  | IReq :: r => events_ok r true avail
  | IEmp v :: r => req_pending && events_ok r false (Some v)
  | IGet v :: r => (match avail with Some x => x =? v | None => false end) && events_ok r req_pending None
  end.

Definition viol_order (c : acase) : bool :=
  let z := map (fun _ => O) (a_progs c) in
  negb (events_ok (impl_events (a_progs c) (i_results c) (i_trace c) z z) false None).

Definition agrees (c : acase) : bool :=
  let '(s, tr, st) := run_ar (a_fuel c) (a_keep c) (a_progs c) (a_sched c) in
  list_eqb zpair_eqb tr (i_trace c) && (status_code st =? i_status c) && (word s =? i_word c) &&
  (match obj s with Some v => i_objeng c && (i_objval c =? v) | None => negb (i_objeng c) end) &&
  list_eqb (list_eqb zpair_eqb) (map (fun th => rev (res th)) (threads s)) (i_results c).

(* 0 agree & property holds; 1 differ, property holds; 2 the property fails on the implementation's output
   (a value returned twice, a value nobody emplaced, an emplacement without a request step since the previous one, or a
   delivery that does not directly follow the emplacement of that value) *)
Definition judge_ar (c : acase) : Z :=
  if viol_thin c || viol_dup c || viol_order c then 2
  else if agrees c then 0 else 1.
