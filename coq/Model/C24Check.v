(* Lockstep judge for C24: the implementation's trace under harness/vsched.h vs. the model run on the same schedule. *)
From Coq Require Import ZArith List Bool.
From DV Require Import Base.MachInt Base.Corr Base.Sched Model.AsyncReqModel.
Import ListNotations.
Local Open Scope Z_scope.

Record acase := AC {
  a_keep : bool;                     (* true: built with std::optional (C++17); false: detail::OpResult (C++14) *)
  a_fuel : nat; a_progs : list (list op); a_sched : list Z;
  i_trace : list (Z * Z);            (* implementation: (tid, site) per step *)
  i_results : list (list (Z * Z));   (* per thread, oldest first *)
  i_word : Z; i_objeng : bool; i_objval : Z;
  i_status : Z }.                    (* 0 done 2 budget *)

Definition all_results (c : acase) : list (Z * Z) := concat (i_results c).
Definition got_values (c : acase) : list Z :=
  map snd (filter (fun e => fst e =? r_get) (all_results c)).

Fixpoint has_dup (l : list Z) : bool :=
  match l with
  | [] => false
  | x :: r => existsb (Z.eqb x) r || has_dup r
  end.

(* tags whose tryEmplaceUpdate returned true, read off programs + results (results are per result-producing op, in order) *)
Fixpoint emplaced_ok (p : list op) (r : list (Z * Z)) : list Z :=
  match p with
  | [] => []
  | OReq :: p' => emplaced_ok p' r
  | OEmplace v :: p' =>
      match r with
      | (_, ok) :: r' => (if ok =? 1 then [v] else []) ++ emplaced_ok p' r'
      | [] => []
      end
  | _ :: p' => match r with _ :: r' => emplaced_ok p' r' | [] => [] end
  end.
Fixpoint zip_emplaced (ps : list (list op)) (rs : list (list (Z * Z))) : list Z :=
  match ps, rs with
  | p :: ps', r :: rs' => emplaced_ok p r ++ zip_emplaced ps' rs'
  | _, _ => []
  end.

(* the property on the implementation's own output *)
Definition viol_dup (c : acase) : bool := has_dup (got_values c).                       (* a value returned twice *)
Definition viol_thin (c : acase) : bool :=                                            (* a value nobody emplaced *)
  negb (forallb (fun v => existsb (Z.eqb v) (zip_emplaced (a_progs c) (i_results c))) (got_values c)).

(* domain of the known finding: more than one consumer thread *)
Definition known_domain (c : acase) : bool := negb (single_consumer (a_progs c)).

Definition agrees (c : acase) : bool :=
  let '(s, tr, st) := run_ar (a_fuel c) (a_keep c) (a_progs c) (a_sched c) in
  list_eqb zpair_eqb tr (i_trace c) && (status_code st =? i_status c) && (word s =? i_word c) &&
  (match obj s with Some v => i_objeng c && (i_objval c =? v) | None => negb (i_objeng c) end) &&
  list_eqb (list_eqb zpair_eqb) (map (fun th => rev (res th)) (threads s)) (i_results c).

(* 0 agree & property holds; 1 differ, property holds; 2 property fails outside the known domain;
   4 double delivery inside the known domain, predicted by the model; 5 the same but the model run differs *)
Definition judge_ar (c : acase) : Z :=
  if viol_thin c then 2
  else if viol_dup c then (if known_domain c then (if agrees c then 4 else 5) else 2)
  else if agrees c then 0 else 1.
