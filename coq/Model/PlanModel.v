(* Executable model of WHO runs each body invocation of dispenso::parallel_for, with WHICH element of the
   `states` container, and how the invocations are ordered (parallel_for.h, detail/par_for_static.h,
   detail/par_for_dynamic.h).  Built on ParForModel.pf_decide (regenerated leaves).  No proofs here.

   A Plan is the list of body invocations (`call`) of one parallel_for call.
     c_who   : Task j      = the j-th closure handed to taskSet.scheduleBulk (scheduler index j)
               CallerPre   = on the calling thread, inside parallel_for, NOT preceded by a taskSet.wait()
               CallerPost  = on the calling thread, after taskSet.wait() returned (wait=true only)
               LastWorker  = inside whichever task made the last failing claim (dynamic no-wait exit action)
     c_k     : sequence number among the calls of the same runner
     c_state : index into `states` (std::advance(states.begin(), idx))
     c_lo/hi : the [begin,end) passed to the body
   seqb a b = "a has returned before b starts, in every execution":  program order on one thread, everything
   before taskSet.wait() precedes everything after it, and every claim precedes the exit action of the last worker.
   Tasks are unordered among each other and w.r.t. CallerPre calls (a pool may run a task at any time between
   scheduleBulk and wait; running it inline inside scheduleBulk only ADDS order, so this over-approximates
   concurrency, which is the safe direction for the theorems that say "never concurrently"). *)
From Coq Require Import ZArith List Bool.
From DV Require Import Base.MachInt Model.ChunkModel Gen.GenChunk Model.ParForModel.
Import ListNotations.
Local Open Scope Z_scope.

Inductive who := Task (j : Z) | CallerPre | CallerPost | LastWorker.

Record call := CALL { c_who : who; c_k : Z; c_state : Z; c_lo : Z; c_hi : Z }.

Definition seqb (a b : call) : bool :=
  match c_who a, c_who b with
  | Task i, Task j => (i =? j) && (c_k a <? c_k b)
  | CallerPre, CallerPre => c_k a <? c_k b
  | CallerPost, CallerPost => c_k a <? c_k b
  | LastWorker, LastWorker => c_k a <? c_k b
  | CallerPre, CallerPost => true          (* same thread, wait() in between *)
  | Task _, CallerPost => true             (* taskSet.wait() returned in between *)
  | Task _, LastWorker => true             (* exit counter: all claims failed before the last exit *)
  | _, _ => false
  end.

Definition concurrentb (a b : call) : bool := negb (seqb a b) && negb (seqb b a).

Definition who_eqb (x y : who) : bool :=
  match x, y with
  | Task i, Task j => i =? j
  | CallerPre, CallerPre | CallerPost, CallerPost | LastWorker, LastWorker => true
  | _, _ => false
  end.
Definition call_eqb (a b : call) : bool :=
  who_eqb (c_who a) (c_who b) && (c_k a =? c_k b) && (c_state a =? c_state b) && (c_lo a =? c_lo b) && (c_hi a =? c_hi b).

(* ---- parallel_for_staticImpl ---- *)

(* callerRing = wait ? ringIndex(&pool) : -1;  callerChunk = numThreads-1 unless 0 <= callerRing < numThreads *)
Definition static_callerChunk (wait : bool) (ring n : Z) : Z :=
  let callerRing := if wait then ring else -1 in
  if (0 <=? callerRing) && (callerRing <? n) then callerRing else n - 1.

(* chunkRange(chunkIdx) with the mapper configured as parallel_for_staticImpl does (regenerated mapper) *)
Definition static_chunk_at (kn : nat) (s e n g ci : Z) : Z * Z :=
  let k := nth kn all_kinds I8 in
  let size := range_size k s e in
  let '(cs, sc, ti) := static_mapper_cfg k size n g in
  gen_mapper_of kn n cs sc ti s e ci.

(* scheduler index j -> chunk index: "if (wait && chunkIdx >= callerChunk) ++chunkIdx" *)
Definition static_chunkIdx (wait : bool) (cc j : Z) : Z := if wait && (cc <=? j) then j + 1 else j.

Definition static_n (c : pfcfg) (d : pfdec) : Z :=
  static_numThreads (pf_kn c) (pf_s c) (d_trimmedEnd d) (pf_N c) (d_maxThreads d) (d_g d).

Definition static_task (c : pfcfg) (d : pfdec) (n cc j : Z) : call :=
  let ci := static_chunkIdx (pf_wait c) cc j in
  let '(a, b) := static_chunk_at (pf_kn c) (pf_s c) (d_trimmedEnd d) n (d_g d) ci in
  CALL (Task j) 0 ci a b.

(* runTail(): f( *states.begin(), trimmedEnd, range.end) on the calling thread after the Impl returned *)
Definition caller_tail (c : pfcfg) (d : pfdec) : list call :=
  if d_hasTail d then [CALL (if pf_wait c then CallerPost else CallerPre) 1 0 (d_trimmedEnd d) (pf_e c)] else [].

Definition static_plan (c : pfcfg) (d : pfdec) (ring : Z) : list call :=
  let n := static_n c d in
  let cc := static_callerChunk (pf_wait c) ring n in
  let nsched := if pf_wait c then n - 1 else n in
  map (fun j => static_task c d n cc (Z.of_nat j)) (seq 0 (Z.to_nat nsched))
  ++ (if pf_wait c then
        [let '(a, b) := static_chunk_at (pf_kn c) (pf_s c) (d_trimmedEnd d) n (d_g d) cc in CALL CallerPre 0 cc a b]
      else [])
  ++ caller_tail c d.

(* ---- dynamic / adaptive: numToLaunch workers + the caller when wait ---- *)

(* size_type arithmetic of the index kind (uint64 wraps, int64 does not) *)
Definition size_sub (kn : nat) (a b : Z) : Z := wop (wide (kind_of kn)) (a - b).

(* const size_type numToLaunch = std::min<size_type>(maxThreads - options.wait, N) *)
Definition pf_numToLaunch (c : pfcfg) (d : pfdec) : Z :=
  Z.min (size_sub (pf_kn c) (d_maxThreads d) (b2z (pf_wait c))) (pf_N c).

(* Which worker claims which chunk is decided by the race on the atomic cursor(s): the ORACLE is the list of
   claims (worker, begin, end) in claim order.  worker w < numToLaunch is task w using states[w]; worker
   numToLaunch is the calling thread (wait=true only) using states[numToLaunch]. *)
Definition claim := (Z * Z * Z)%type.

Fixpoint worker_calls (T : Z) (k : Z) (cl : list claim) : list call :=
  match cl with
  | [] => []
  | (w, lo, hi) :: r => CALL (if w <? T then Task w else CallerPre) k w lo hi :: worker_calls T (k + 1) r
  end.

Definition claims_ok (T : Z) (wait : bool) (cl : list claim) : bool :=
  forallb (fun x : claim => let '(w, _, _) := x in (0 <=? w) && (w <? T + b2z wait)) cl.

(* wait=true: runTail() on the caller after taskSet.wait();  wait=false: parallel_for_dynamicNoWaitDispatch
   runs tailFunc(tailState = *states.begin(), ...) in the exit action of the worker whose failing claim
   returned lastExit = numChunks + numToLaunch - 1, i.e. the last one *)
Definition worker_tail (c : pfcfg) (d : pfdec) (k : Z) : list call :=
  if d_hasTail d then [CALL (if pf_wait c then CallerPost else LastWorker) k 0 (d_trimmedEnd d) (pf_e c)] else [].

Definition worker_plan (c : pfcfg) (d : pfdec) (cl : list claim) : list call :=
  worker_calls (pf_numToLaunch c d) 0 cl ++ worker_tail c d (Z.of_nat (length cl)).

(* ---- the whole parallel_for ---- *)

Definition pf_plan (c : pfcfg) (ring : Z) (cl : list claim) : list call :=
  let d := pf_decide c in
  match d_path d with
  | PEmpty => []
  | PSerial => [CALL CallerPre 0 0 (pf_s c) (pf_e c)]
  | PStatic => static_plan c d ring
  | PAdaptive | PDynamic => worker_plan c d cl
  end.

Definition pf_claims_ok (c : pfcfg) (cl : list claim) : bool :=
  let d := pf_decide c in
  match d_path d with
  | PAdaptive | PDynamic => claims_ok (pf_numToLaunch c d) (pf_wait c) cl
  | _ => true
  end.

(* detail::initStates(states, defaultState, numNeeded, reuse): numNeeded per path (0 = container untouched) *)
Definition pf_states_needed (c : pfcfg) : Z :=
  let d := pf_decide c in
  match d_path d with
  | PEmpty => 0
  | PSerial => 1
  | PStatic => static_n c d
  | PAdaptive | PDynamic => pf_numToLaunch c d + b2z (pf_wait c)
  end.

(* number of threads of control that can be inside the body at once according to the plan *)
Definition pf_width (c : pfcfg) : Z :=
  let d := pf_decide c in
  match d_path d with
  | PEmpty => 0
  | PSerial => 1
  | PStatic => static_n c d + (if d_hasTail d && negb (pf_wait c) then 1 else 0)
  | PAdaptive | PDynamic => pf_numToLaunch c d + b2z (pf_wait c)
  end.

(* the limit the caller asked for: options.maxThreads is uint32_t, read through std::max<int32_t>(.,1) *)
Definition user_maxThreads (c : pfcfg) : Z := Z.max 1 (wrap_s 32 (pf_maxThreads c)).

Definition is_static_path (c : pfcfg) : bool := path_code (d_path (pf_decide c)) =? 2.
Definition is_worker_path (c : pfcfg) : bool := 3 <=? path_code (d_path (pf_decide c)).

(* ---- domains of the findings (Gallina predicates on the configuration) ---- *)

(* static scheduling, wait=false, granularity tail present: runTail() runs on the caller with states[0] right
   after scheduleBulk, while task 0 (states[0]) and the other numThreads-1 tasks may be running *)
Definition dom_static_nowait_tail (c : pfcfg) : bool :=
  is_static_path c && negb (pf_wait c) && d_hasTail (pf_decide c).

Definition c14_dom (c : pfcfg) : bool := dom_static_nowait_tail c.

(* ... and the numThreads tasks already exhaust the limit *)
Definition c48_dom_tail (c : pfcfg) : bool :=
  dom_static_nowait_tail c && (user_maxThreads c <? static_n c (pf_decide c) + 1).

(* (the former second domain -- adjustChunkSizing replacing maxThreads by range.size() - wait for explicit chunk
   sizes on small ranges -- was repaired: the replacement is now std::min(maxThreads, range.size() - wait)) *)
Definition c48_dom (c : pfcfg) : bool := c48_dom_tail c.

(* ---- antichains ---- *)
Fixpoint all_unordered (a : call) (l : list call) : bool :=
  match l with [] => true | b :: r => negb (seqb a b) && negb (seqb b a) && all_unordered a r end.
Fixpoint antichainb (l : list call) : bool :=
  match l with [] => true | a :: r => all_unordered a r && antichainb r end.
