(* Executable side of the C14 correspondence, evaluated inside Coq on what the IMPLEMENTATION did.
   Two kinds of observation:
   (1) `plan` (harness/h_loops.cpp): the real parallel_for template driven with an instrumented task set; per
       body invocation: w (0 = calling thread before any wait(), 1 = calling thread after a wait(), 2 = inside
       scheduled closure j), j, lo, hi, st (index of the states element), entry/exit stamps.
   (2) `pf` (harness/h_parfor.cpp): the real TaskSet/ThreadPool; chunks with state index, high-water marks.
   Verdicts: 0 = model and implementation agree and the property holds on the implementation's output,
             1 = they differ but the property holds there, 2 = the property fails on the implementation's output.
   The result is verdict*10 + d where d = 1 when the configuration is in the domain of the known finding. *)
From Coq Require Import ZArith List Bool.
From DV Require Import Base.MachInt Base.Corr Model.ChunkModel Gen.GenChunk Model.ParForModel Model.PlanModel.
Import ListNotations.
Local Open Scope Z_scope.

Record obs := OBS { o_w : Z; o_j : Z; o_lo : Z; o_hi : Z; o_st : Z; o_en : Z; o_ex : Z }.

Definition is_tail_obs (c : pfcfg) (d : pfdec) (o : obs) : bool :=
  d_hasTail d && (o_lo o =? d_trimmedEnd d) && (o_hi o =? pf_e c).

(* the claim schedule the implementation exhibited: worker = closure index, or numToLaunch for the calling thread *)
Definition claims_of_obs (c : pfcfg) (d : pfdec) (l : list obs) : list claim :=
  let T := pf_numToLaunch c d in
  map (fun o => ((if o_w o =? 2 then o_j o else T), o_lo o, o_hi o)) (filter (fun o => negb (is_tail_obs c d o)) l).

Definition who_compat (w : who) (o : obs) : bool :=
  match w with
  | Task j => (o_w o =? 2) && (o_j o =? j)
  | CallerPre => o_w o =? 0
  | CallerPost => o_w o =? 1
  | LastWorker => o_w o =? 2
  end.

Definition find_call (p : list call) (o : obs) : option call :=
  find (fun a => (c_lo a =? o_lo o) && (c_hi a =? o_hi o)) p.

Definition count_range (p : list call) (a : call) : nat :=
  length (filter (fun b => (c_lo b =? c_lo a) && (c_hi b =? c_hi a)) p).

(* every observed invocation is the model invocation with the same range: same runner, same states element *)
Definition obs_match (p : list call) (l : list obs) : bool :=
  (length p =? length l)%nat &&
  forallb (fun a => (count_range p a =? 1)%nat) p &&
  forallb (fun o => match find_call p o with
                    | Some a => who_compat (c_who a) o && (c_state a =? o_st o)
                    | None => false
                    end) l.

(* whenever the model says "a is sequenced before b", a had returned before b started in the observed run *)
Definition order_consistent (p : list call) (l : list obs) : bool :=
  forallb (fun oa => forallb (fun ob =>
    match find_call p oa, find_call p ob with
    | Some a, Some b => negb (seqb a b) || (o_ex oa <? o_en ob)
    | _, _ => true
    end) l) l.

Definition overlap (a b : obs) : bool := (o_en a <? o_ex b) && (o_en b <? o_ex a).

(* C14 on the observed run: no two distinct invocations that overlapped in time used the same states element;
   every index is inside the container; the container is non-empty after a non-empty range *)
Definition c14_holds_obs (l : list obs) (nstates : Z) (nonempty_range : bool) : bool :=
  forallb (fun a => forallb (fun b => (o_en a =? o_en b) || negb (overlap a b) || negb (o_st a =? o_st b)) l) l &&
  forallb (fun a => (0 <=? o_st a) && (o_st a <? nstates)) l &&
  (negb nonempty_range || (1 <=? nstates)).

Definition expected_nstates (c : pfcfg) (reuse : bool) (pre : Z) : Z :=
  let need := pf_states_needed c in
  if need =? 0 then pre else if reuse then Z.max pre need else need.

Definition expected_nsched (c : pfcfg) : Z :=
  let d := pf_decide c in
  match d_path d with
  | PStatic => Z.max 0 (if pf_wait c then static_n c d - 1 else static_n c d)
  | PAdaptive | PDynamic => pf_numToLaunch c d
  | _ => 0
  end.

Definition plan_agrees (c : pfcfg) (ring : Z) (l : list obs) (nstates nsched nwaits : Z) (reuse : bool) (pre : Z) : bool :=
  let d := pf_decide c in
  let cl := claims_of_obs c d l in
  let p := pf_plan c ring cl in
  pf_claims_ok c cl && obs_match p l && order_consistent p l &&
  (nstates =? expected_nstates c reuse pre) && (nsched =? expected_nsched c) && (nwaits =? b2z (pf_wait c)).

Definition nonempty_range (c : pfcfg) : bool := negb (path_code (d_path (pf_decide c)) =? 0).

Definition judge_plan14 (x : pfcfg * Z * list obs * (Z * Z * Z) * (bool * Z)) : Z :=
  let '(c, ring, l, (nstates, nsched, nwaits), (reuse, pre)) := x in
  let dom := b2z (c14_dom c) in
  if negb (c14_holds_obs l nstates (nonempty_range c)) then 20 + dom
  else if plan_agrees c ring l nstates nsched nwaits reuse pre then dom else 10 + dom.

(* ---- real pool: chunks (a, b, state) as printed by `pf`, maxconc, stateconc, nstates ---- *)
Definition triple_eqb (x y : Z * Z * Z) : bool :=
  let '(a, b, s) := x in let '(a', b', s') := y in (a =? a') && (b =? b') && (s =? s').

Definition plan_triples (p : list call) : list (Z * Z * Z) := map (fun a => (c_lo a, c_hi a, c_state a)) p.

Definition same_triples (m i : list (Z * Z * Z)) : bool :=
  (length m =? length i)%nat && forallb (fun x => existsb (triple_eqb x) m) i && forallb (fun x => existsb (triple_eqb x) i) m.

Definition pf_agrees (c : pfcfg) (impl : list (Z * Z * Z)) (nstates : Z) : bool :=
  let d := pf_decide c in
  (nstates =? expected_nstates c false 0) &&
  match d_path d with
  | PAdaptive | PDynamic =>
      (* which worker claimed what is the implementation's choice: feed it to the model as the oracle *)
      let body := filter (fun x : Z * Z * Z => let '(a, b, _) := x in negb (d_hasTail d && (a =? d_trimmedEnd d) && (b =? pf_e c))) impl in
      let cl := map (fun x : Z * Z * Z => let '(a, b, s) := x in (s, a, b)) body in
      pf_claims_ok c cl && same_triples (plan_triples (pf_plan c (-1) cl)) impl
  | _ => same_triples (plan_triples (pf_plan c (-1) [])) impl
  end.

Definition judge_pf14 (x : pfcfg * list (Z * Z * Z) * (Z * Z * Z)) : Z :=
  let '(c, impl, (maxconc, stateconc, nstates)) := x in
  let dom := b2z (c14_dom c) in
  let ok := (stateconc <=? 1) && forallb (fun t : Z * Z * Z => let '(_, _, s) := t in (0 <=? s) && (s <? nstates)) impl &&
            (negb (nonempty_range c) || (1 <=? nstates)) in
  if negb ok then 20 + dom
  else if pf_agrees c impl nstates && (maxconc <=? pf_width c) then dom else 10 + dom.
