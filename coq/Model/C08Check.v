(* C08: judge of the event-level tie; the shared machinery is Model/PoolCheck.v (one harness run serves C01, C03 and C08).
   Result layout: [accepted; first rejected index; snapshots agree; v01; v03; v08; stale-placement kind; model workRemaining at the end; stranded tier kind]. *)
From Coq Require Import ZArith List Bool.
From DV Require Import Model.PoolModel Model.PoolCheck.
Import ListNotations.
Local Open Scope Z_scope.

Definition judge_C08 (c : pcase) : list Z := judge_pool c.
Definition verdict_C08 (c : pcase) : Z := nth 5 (judge_pool c) 1.
