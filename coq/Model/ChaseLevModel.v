(* Interleaving model of dispenso::ChaseLevDeque<T, Capacity> (dispenso/chase_lev_deque.h): try_push, try_pop (owner) and
   try_steal (any thread), exactly as written, at the granularity of the DISPENSO_VERIF_POINT hooks: one step = one atomic
   access of top_/bottom_ or one access of a slot.  Executable; no proofs.

   Memory model: SEQUENTIALLY CONSISTENT interleaving.  The two std::atomic_thread_fence(seq_cst) (in try_pop between the
   bottom_ store and the top_ load, in try_steal between the top_ load and the bottom_ load) are NO-OPS here: under SC the
   store/load order they enforce is already program order.  The correctness of the algorithm under the C++ weak memory model
   hinges exactly on these fences (and on the release/acquire pair on bottom_); nothing in this development shows it.

   The int64 counters are unbounded Z (2^63 pushes are out of reach); slot index = static_cast<size_t>(index) & (Capacity-1)
   is Z.land index (cap-1).  Thread 0 is the owner, threads 1.. are thieves.  try_pop_into / try_steal_into (memcpy variants;
   try_pop_into reads the slot after restoring bottom_ in the last-element case) are not modelled. *)
From Coq Require Import ZArith List Bool.
From DV Require Import Base.MachInt Base.Sched.
Import ListNotations.
Local Open Scope Z_scope.

Inductive op := OPush (v : Z) | OPop | OSteal.

Inductive rtag := RPushOk | RPushFull | RPopOk | RPopFail | RStealOk | RStealFail.

Inductive pc :=
| PStart | PDone
(* try_push(item = v) *)
| PPushLoadB (v : Z)                 (* b = bottom_.load *)
| PPushLoadT (v b : Z)               (* t = top_.load; if (b - t >= Capacity) return false *)
| PPushSlot (v b : Z)                (* *slotPtr(b) = item *)
| PPushStoreB (v b : Z)              (* bottom_.store(b + 1); return true *)
(* try_pop(out) *)
| PPopLoadB                          (* b = bottom_.load - 1 *)
| PPopStoreB (b : Z)                 (* bottom_.store(b); fence *)
| PPopLoadT (b : Z)                  (* t = top_.load *)
| PPopRestore (b : Z)                (* t > b: bottom_.store(b + 1); return false *)
| PPopSlot (b t : Z)                 (* out = *slotPtr(b); if (t < b) return true *)
| PPopStoreB2 (b t out : Z)          (* t == b: bottom_.store(b + 1) *)
| PPopCas (b t out : Z)              (* return top_.compare_exchange_strong(t, t + 1) *)
(* try_steal(out) *)
| PStealLoadT                        (* t = top_.load; fence *)
| PStealLoadB (t : Z)                (* b = bottom_.load; if (t >= b) return false *)
| PStealSlot (t : Z)                 (* out = *slotPtr(t) *)
| PStealCas (t out : Z).             (* return top_.compare_exchange_strong(t, t + 1) *)

Record thread := TH { tpc : pc; prog : list op; res : list (rtag * Z) }.   (* res: newest first *)
Record state := ST { top : Z; bot : Z; slots : list Z; cap : Z; owner : thread; thieves : list thread }.

(* site ids = positions in props/C36.py SITES *)
Definition s_start := 0.
Definition s_push_lb := 1.  Definition s_push_lt := 2.  Definition s_push_sw := 3.  Definition s_push_sb := 4.
Definition s_pop_lb := 5.   Definition s_pop_sb := 6.   Definition s_pop_lt := 7.   Definition s_pop_rb := 8.
Definition s_pop_sr := 9.   Definition s_pop_sb2 := 10. Definition s_pop_cas := 11.
Definition s_steal_lt := 12. Definition s_steal_lb := 13. Definition s_steal_sr := 14. Definition s_steal_cas := 15.

Definition entry (o : op) : pc :=
  match o with OPush v => PPushLoadB v | OPop => PPopLoadB | OSteal => PStealLoadT end.

Definition next (th : thread) : thread :=
  match prog th with
  | [] => TH PDone [] (res th)
  | o :: r => TH (entry o) r (res th)
  end.
Definition goto (th : thread) (p : pc) : thread := TH p (prog th) (res th).
Definition logr (th : thread) (tag : rtag) (v : Z) : thread := TH (tpc th) (prog th) ((tag, v) :: res th).
Definition fin (th : thread) (tag : rtag) (v : Z) : thread := next (logr th tag v).

Fixpoint set_nth {A} (l : list A) (n : nat) (x : A) : list A :=
  match l, n with
  | [], _ => []
  | _ :: r, O => x :: r
  | y :: r, S m => y :: set_nth r m x
  end.

(* slot access: index masked with Capacity - 1 *)
Definition sidx (cp i : Z) : nat := Z.to_nat (Z.land i (cp - 1)).
Definition rd (cp : Z) (sl : list Z) (i : Z) : Z := nth (sidx cp i) sl 0.
Definition wr (cp : Z) (sl : list Z) (i v : Z) : list Z := set_nth sl (sidx cp i) v.

(* one step of a thread on the shared words: returns (top', bottom', slots', thread', site) *)
Definition exec (tp bt : Z) (sl : list Z) (cp : Z) (th : thread) : option (Z * Z * list Z * thread * Z) :=
  match tpc th with
  | PStart => Some (tp, bt, sl, next th, s_start)
  | PDone => None
  | PPushLoadB v => Some (tp, bt, sl, goto th (PPushLoadT v bt), s_push_lb)
  | PPushLoadT v b =>
      if cp <=? b - tp then Some (tp, bt, sl, fin th RPushFull v, s_push_lt)
      else Some (tp, bt, sl, goto th (PPushSlot v b), s_push_lt)
  | PPushSlot v b => Some (tp, bt, wr cp sl b v, goto th (PPushStoreB v b), s_push_sw)
  | PPushStoreB v b => Some (tp, b + 1, sl, fin th RPushOk v, s_push_sb)
  | PPopLoadB => Some (tp, bt, sl, goto th (PPopStoreB (bt - 1)), s_pop_lb)
  | PPopStoreB b => Some (tp, b, sl, goto th (PPopLoadT b), s_pop_sb)
  | PPopLoadT b =>
      if b <? tp then Some (tp, bt, sl, goto th (PPopRestore b), s_pop_lt)
      else Some (tp, bt, sl, goto th (PPopSlot b tp), s_pop_lt)
  | PPopRestore b => Some (tp, b + 1, sl, fin th RPopFail 0, s_pop_rb)
  | PPopSlot b t =>
      if t <? b then Some (tp, bt, sl, fin th RPopOk (rd cp sl b), s_pop_sr)
      else Some (tp, bt, sl, goto th (PPopStoreB2 b t (rd cp sl b)), s_pop_sr)
  | PPopStoreB2 b t out => Some (tp, b + 1, sl, goto th (PPopCas b t out), s_pop_sb2)
  | PPopCas b t out =>
      if tp =? t then Some (t + 1, bt, sl, fin th RPopOk out, s_pop_cas)
      else Some (tp, bt, sl, fin th RPopFail 0, s_pop_cas)
  | PStealLoadT => Some (tp, bt, sl, goto th (PStealLoadB tp), s_steal_lt)
  | PStealLoadB t =>
      if bt <=? t then Some (tp, bt, sl, fin th RStealFail 0, s_steal_lb)
      else Some (tp, bt, sl, goto th (PStealSlot t), s_steal_lb)
  | PStealSlot t => Some (tp, bt, sl, goto th (PStealCas t (rd cp sl t)), s_steal_sr)
  | PStealCas t out =>
      if tp =? t then Some (t + 1, bt, sl, fin th RStealOk out, s_steal_cas)
      else Some (tp, bt, sl, fin th RStealFail 0, s_steal_cas)
  end.

(* thread 0 = owner, thread k+1 = thieves[k] *)
Definition thr (s : state) (t : nat) : option thread :=
  match t with O => Some (owner s) | S k => nth_error (thieves s) k end.

Definition step (s : state) (t : nat) (ch : list Z) : option (state * list Z * Z) :=
  match t with
  | O =>
      match exec (top s) (bot s) (slots s) (cap s) (owner s) with
      | Some (tp, bt, sl, th', site) => Some (ST tp bt sl (cap s) th' (thieves s), ch, site)
      | None => None
      end
  | S k =>
      match nth_error (thieves s) k with
      | None => None
      | Some th =>
          match exec (top s) (bot s) (slots s) (cap s) th with
          | Some (tp, bt, sl, th', site) => Some (ST tp bt sl (cap s) (owner s) (set_nth (thieves s) k th'), ch, site)
          | None => None
          end
      end
  end.

Definition is_done (p : pc) : bool := match p with PDone => true | _ => false end.

Fixpoint tids_from (ths : list thread) (i : nat) : list nat :=
  match ths with
  | [] => []
  | th :: r => if is_done (tpc th) then tids_from r (S i) else i :: tids_from r (S i)
  end.

Definition cands (s : state) : list nat := tids_from (owner s :: thieves s) 0.
Definition finished (s : state) : bool := forallb (fun th => is_done (tpc th)) (owner s :: thieves s).

(* top_ = bottom_ = i0 initially (0 in a fresh deque; the harness can preset them), slots zeroed *)
Definition init (cp i0 : Z) (oprog : list op) (tprogs : list (list op)) : state :=
  ST i0 i0 (repeat 0 (Z.to_nat cp)) cp (TH PStart oprog []) (map (fun p => TH PStart p []) tprogs).

Definition run_cl (fuel : nat) (cp i0 : Z) (oprog : list op) (tprogs : list (list op)) (sched : list Z) :=
  run step cands finished fuel (init cp i0 oprog tprogs) sched [].

(* ---------- observables the theorems speak about ---------- *)
Definition vals (f : rtag -> bool) (l : list (rtag * Z)) : list Z := map snd (filter (fun p => f (fst p)) l).
Definition is_push_ok (g : rtag) : bool := match g with RPushOk => true | _ => false end.
Definition is_take_ok (g : rtag) : bool := match g with RPopOk | RStealOk => true | _ => false end.

(* every value successfully pushed so far (newest first) / every value returned by a successful pop or steal *)
Definition pushed (s : state) : list Z := vals is_push_ok (res (owner s)).
Definition returned (s : state) : list Z :=
  vals is_take_ok (res (owner s)) ++ flat_map (fun th => vals is_take_ok (res th)) (thieves s).

Fixpoint zrange (a : Z) (n : nat) : list Z := match n with O => [] | S m => a :: zrange (a + 1) m end.

(* the owner has decremented bottom_ for a pop that has not completed: the element at the old bottom-1 is still in the deque *)
Definition resv (p : pc) : Z :=
  match p with PPopLoadT _ | PPopRestore _ | PPopSlot _ _ | PPopStoreB2 _ _ _ => 1 | _ => 0 end.
Definition lbot (s : state) : Z := bot s + resv (tpc (owner s)).
Definition cont (tp lb : Z) (sl : list Z) (cp : Z) : list Z := map (rd cp sl) (zrange tp (Z.to_nat (lb - tp))).
(* the elements the deque holds, oldest (top) first *)
Definition content (s : state) : list Z := cont (top s) (lbot s) (slots s) (cap s).

Definition at_entry (th : thread) : bool :=
  match tpc th with PStart | PDone | PPushLoadB _ | PPopLoadB | PStealLoadT => true | _ => false end.
(* no operation is in flight *)
Definition quiescent (s : state) : bool := forallb at_entry (owner s :: thieves s).

Definition tag_code (g : rtag) : Z :=
  match g with RPushOk => 1 | RPushFull => 2 | RPopOk => 3 | RPopFail => 4 | RStealOk => 5 | RStealFail => 6 end.

(* run thread t alone for n steps *)
Fixpoint solo (n : nat) (s : state) (t : nat) : option state :=
  match n with
  | O => Some s
  | S m => match step s t [] with Some (s', _, _) => solo m s' t | None => None end
  end.
