(* Lockstep judge for C19 (then-chain / task-set counter part): same cases and agreement as Model/C18Check.v, with the
   executable form of C19 evaluated on the implementation's output.  The combinator part (when_all / when_any,
   history-level) is judged by judge_comb below. *)
From Coq Require Import ZArith List Bool.
From DV Require Import Base.MachInt Base.Corr Base.Sched Model.FutureModel Model.C18Check.
Import ListNotations.
Local Open Scope Z_scope.

(* every continuation: dispatched at most once, never before Ready; when the run completed: it ran exactly as often as
   it was dispatched and saw its antecedent ready; and it was dispatched exactly once iff the functor ran (the run
   completed, so every then() call returned and the future is Ready iff the functor was executed);
   every task-set wait that returned saw the future ready.  (In nt mode the dispatching thread may be the unenrolled
   NewThreadInvoker thread whose results are not logged, so the per-thread disp results are not counted there.) *)
Definition c19_property (c : fcase) : bool :=
  let r := all_results c in
  (i_early c =? 0) &&
  forallb (fun e => let '(k, (d, (rn, rd))) := e in
                    (d <=? 1) && ((f_mode c =? 2) || (count_z k (with_tag r_disp r) =? d)) &&
                    (if i_status c =? 0 then (rn =? d) && (if rn =? 0 then true else rd =? 1) && (d =? i_fc c) else true))
          (i_conts c) &&
  (if hasTsc (f_cfg c) then forallb (Z.eqb 1) (with_tag r_tswait r) else true).

Definition judge_c19 (c : fcase) : Z :=
  if negb (c19_property c) then 2
  else if f_mode c =? 2 then 0
  else if agrees c then 0 else 1.

(* ---- when_all / when_any, history level: the executable property on what the real combinators returned ---- *)
Record ccase := CC {
  c_any : bool; c_n : Z;
  c_results : list (Z * Z);     (* all (tag, value) results of all threads *)
  c_infc : list Z;              (* invocations of each input's functor *)
  c_status : Z }.
Definition t_wall := 11. Definition t_wsize := 12. Definition t_worder := 13. Definition t_wany := 14. Definition t_wanyr := 15.

(* every get() on a when_all result returned with no input unready, the right size and the inputs in input order;
   every get() on a when_any result returned an index < n (SIZE_MAX = -1 iff there are no inputs) of a ready input;
   a task-set wait that returned saw the result ready; no input functor ran twice *)
Definition comb_property (c : ccase) : bool :=
  let r := c_results c in
  forallb (Z.eqb 0) (with_tag t_wall r) && forallb (Z.eqb (c_n c)) (with_tag t_wsize r) && forallb (Z.eqb 1) (with_tag t_worder r) &&
  forallb (fun v => if c_n c =? 0 then v =? -1 else (0 <=? v) && (v <? c_n c)) (with_tag t_wany r) &&
  forallb (Z.eqb 1) (with_tag t_wanyr r) && forallb (Z.eqb 1) (with_tag r_tswait r) &&
  forallb (fun x => x <=? 1) (c_infc c) &&
  (if c_any c then (length (with_tag t_wall r) =? 0)%nat else (length (with_tag t_wany r) =? 0)%nat).

Definition judge_comb (c : ccase) : Z := if comb_property c then 0 else 2.
