(* Model/OpResultModel.v -- executable model of dispenso::detail::OpResult<T> (dispenso/detail/op_result.h) for a
   lifetime-tracked T, plus the std::optional<T> specification it is compared with.  Definitions only.

   A test program owns NV-or-fewer OpResult variables living in raw storage.  Variable i is
       None            no OpResult object there (before construction / after ~OpResult)
       Some None       an OpResult with ptr_ = nullptr
       Some (Some t)   an OpResult with ptr_ = buf_, *ptr_ carrying tag t
   The contained T of variable i lives in buf_ of that variable: ledger id [slot i].  Temporaries created by the
   caller around a value construction live at id [tmp_slot].  Every constructor / destructor call the code makes
   is mirrored, in program order, by an operation on the ledger (Base/Life.v). *)
From Coq Require Import ZArith List Bool.
From DV Require Import Base.Life.
Import ListNotations.
Local Open Scope Z_scope.

Inductive op :=
| ODefault (i : nat)                (* OpResult()                         op_result.h:19 *)
| OValueMove (i : nat) (t : Z)      (* OpResult(U&&) from an rvalue T     op_result.h:25 *)
| OValueCopy (i : nat) (t : Z)      (* OpResult(U&&) from an lvalue T     op_result.h:25 *)
| OCopy (i j : nat)                 (* OpResult(const OpResult&)          op_result.h:27 *)
| OMove (i j : nat)                 (* OpResult(OpResult&&)               op_result.h:29 *)
| OCopyAssign (i j : nat)           (* operator=(const OpResult&)         op_result.h:33 *)
| OMoveAssign (i j : nat)           (* operator=(OpResult&&)              op_result.h:49 *)
| OEmplace (i : nat) (t : Z)        (* emplace(args...)                   op_result.h:74 *)
| OPoke (i : nat) (t : Z)           (* value() = ...  (write through the reference value() returns) *)
| ODestroy (i : nat).               (* ~OpResult()                        op_result.h:68 *)

Definition var := option (option Z).
Definition vars := list var.

Record state := mkSt { st_vars : vars; st_led : ledger }.

Definition slot (i : nat) : Z := Z.of_nat i.
Definition tmp_slot : Z := -1.
(* tag of a moved-from T (life::kMovedTag) *)
Definition moved_tag : Z := -1.

Definition vget (vs : vars) (i : nat) : var := nth i vs None.
Fixpoint vset (vs : vars) (i : nat) (x : var) : vars :=
  match vs, i with
  | [], _ => []
  | _ :: r, O => x :: r
  | y :: r, S k => y :: vset r k x
  end.

Definition init (nv : nat) : state := mkSt (repeat None nv) ledger0.

Definition in_range (vs : vars) (i : nat) : bool := Nat.ltb i (length vs).

(* `if (ptr_) ptr_->~T();` *)
Definition destroy_if_engaged (i : nat) (v : option Z) (g : ledger) : ledger :=
  match v with Some _ => destroy (slot i) g | None => g end.

(* One operation.  [None] = the operation is not valid C++ in this state (constructing a variable that already
   holds an object, using one that does not, value() of a disengaged OpResult): such sequences are outside every
   statement.  The ledger operations appear in the order in which the code performs them. *)
Definition step (s : state) (o : op) : option state :=
  let vs := st_vars s in
  let g := st_led s in
  match o with
  | ODefault i =>
      if negb (in_range vs i) then None else
      match vget vs i with
      | None => Some (mkSt (vset vs i (Some None)) g)
      | Some _ => None
      end
  | OValueMove i t =>
      if negb (in_range vs i) then None else
      match vget vs i with
      | None =>
          (* T(t) temporary; new (buf_) T(std::move(tmp)); ~tmp *)
          let g := construct KValue tmp_slot g in
          let g := move_from tmp_slot g in
          let g := construct KMove (slot i) g in
          let g := destroy tmp_slot g in
          Some (mkSt (vset vs i (Some (Some t))) g)
      | Some _ => None
      end
  | OValueCopy i t =>
      if negb (in_range vs i) then None else
      match vget vs i with
      | None =>
          let g := construct KValue tmp_slot g in
          let g := use tmp_slot g in
          let g := construct KCopy (slot i) g in
          let g := destroy tmp_slot g in
          Some (mkSt (vset vs i (Some (Some t))) g)
      | Some _ => None
      end
  | OCopy i j =>
      if negb (in_range vs i) then None else
      match vget vs i, vget vs j with
      | None, Some (Some t) =>
          (* ptr_(oth ? new (buf_) T( *oth.ptr_) : nullptr) *)
          let g := use (slot j) g in
          let g := construct KCopy (slot i) g in
          Some (mkSt (vset vs i (Some (Some t))) g)
      | None, Some None => Some (mkSt (vset vs i (Some None)) g)
      | _, _ => None
      end
  | OMove i j =>
      if negb (in_range vs i) then None else
      match vget vs i, vget vs j with
      | None, Some (Some t) =>
          (* ptr_(new (buf_) T(std::move( *oth.ptr_))); if (oth.ptr_) { oth.ptr_->~T(); oth.ptr_ = nullptr; } *)
          let g := move_from (slot j) g in
          let g := construct KMove (slot i) g in
          let g := destroy (slot j) g in
          Some (mkSt (vset (vset vs i (Some (Some t))) j (Some None)) g)
      | None, Some None =>
          (* ptr_(nullptr); oth.ptr_ is null: the body does nothing *)
          Some (mkSt (vset vs i (Some None)) g)
      | _, _ => None
      end
  | OCopyAssign i j =>
      match vget vs i, vget vs j with
      | Some vi, Some vj =>
          if Nat.eqb i j then Some s else
          let g := destroy_if_engaged i vi g in
          match vj with
          | Some t =>
              let g := use (slot j) g in
              let g := construct KCopy (slot i) g in
              Some (mkSt (vset vs i (Some (Some t))) g)
          | None => Some (mkSt (vset vs i (Some None)) g)
          end
      | _, _ => None
      end
  | OMoveAssign i j =>
      match vget vs i, vget vs j with
      | Some vi, Some vj =>
          if Nat.eqb i j then Some s else
          let g := destroy_if_engaged i vi g in
          match vj with
          | Some t =>
              (* ptr_ = new (buf_) T(std::move( *oth.ptr_)); oth.ptr_->~T(); oth.ptr_ = nullptr; *)
              let g := move_from (slot j) g in
              let g := construct KMove (slot i) g in
              let g := destroy (slot j) g in
              Some (mkSt (vset (vset vs i (Some (Some t))) j (Some None)) g)
          | None => Some (mkSt (vset vs i (Some None)) g)
          end
      | _, _ => None
      end
  | OEmplace i t =>
      match vget vs i with
      | Some vi =>
          let g := destroy_if_engaged i vi g in
          let g := construct KValue (slot i) g in
          Some (mkSt (vset vs i (Some (Some t))) g)
      | None => None
      end
  | OPoke i t =>
      match vget vs i with
      | Some (Some _) => Some (mkSt (vset vs i (Some (Some t))) (use (slot i) g))
      | _ => None
      end
  | ODestroy i =>
      match vget vs i with
      | Some vi => Some (mkSt (vset vs i None) (destroy_if_engaged i vi g))
      | None => None
      end
  end.

Fixpoint run (s : state) (ops : list op) : option state :=
  match ops with
  | [] => Some s
  | o :: r => match step s o with Some s' => run s' r | None => None end
  end.

(* states after each operation (what the harness prints) *)
Fixpoint trace (s : state) (ops : list op) : option (list state) :=
  match ops with
  | [] => Some []
  | o :: r =>
      match step s o with
      | Some s' => match trace s' r with Some l => Some (s' :: l) | None => None end
      | None => None
      end
  end.

(* ------------------------------------------------------------------------------------------ moves of engaged values
   (where OpResult and std::optional legitimately differ: the source reads disengaged / stays engaged) *)
(* the operation moves from an ENGAGED OpResult (move construction, or move assignment from another variable) *)
Definition moves_engaged (vs : vars) (o : op) : bool :=
  match o with
  | OMove i j => match vget vs j with Some (Some _) => true | _ => false end
  | OMoveAssign i j => negb (Nat.eqb i j) && match vget vs j with Some (Some _) => true | _ => false end
  | _ => false
  end.

(* some operation of the sequence, run from s, moves from an engaged OpResult *)
Fixpoint has_engaged_move (s : state) (ops : list op) : bool :=
  match ops with
  | [] => false
  | o :: r =>
      moves_engaged (st_vars s) o ||
      match step s o with Some s' => has_engaged_move s' r | None => false end
  end.

(* every variable has been destroyed: the test program is over *)
Definition all_gone (vs : vars) : bool := forallb (fun v => match v with None => true | Some _ => false end) vs.
(* number of engaged variables *)
Fixpoint engaged_count (vs : vars) : Z :=
  match vs with
  | [] => 0
  | Some (Some _) :: r => 1 + engaged_count r
  | _ :: r => engaged_count r
  end.

(* ------------------------------------------------------------------------------------------ std::optional<T> *)
(* The specification: the same operations on values of type [option Z] (None = no optional object is modelled
   by the outer option exactly as above).  Copy = the value, move = the value with the source left ENGAGED holding
   a moved-from T (tag moved_tag), assignment = overwrite, emplace, reset on destruction. *)
Definition spec_step (vs : vars) (o : op) : option vars :=
  match o with
  | ODefault i =>
      if negb (in_range vs i) then None else
      match vget vs i with None => Some (vset vs i (Some None)) | Some _ => None end
  | OValueMove i t | OValueCopy i t =>
      if negb (in_range vs i) then None else
      match vget vs i with None => Some (vset vs i (Some (Some t))) | Some _ => None end
  | OCopy i j =>
      if negb (in_range vs i) then None else
      match vget vs i, vget vs j with
      | None, Some vj => Some (vset vs i (Some vj))
      | _, _ => None
      end
  | OMove i j =>
      if negb (in_range vs i) then None else
      match vget vs i, vget vs j with
      | None, Some vj => Some (vset (vset vs i (Some vj)) j (Some (option_map (fun _ => moved_tag) vj)))
      | _, _ => None
      end
  | OCopyAssign i j =>
      match vget vs i, vget vs j with
      | Some _, Some vj => Some (vset vs i (Some vj))
      | _, _ => None
      end
  | OMoveAssign i j =>
      match vget vs i, vget vs j with
      | Some _, Some vj =>
          if Nat.eqb i j then Some vs
          else Some (vset (vset vs i (Some vj)) j (Some (option_map (fun _ => moved_tag) vj)))
      | _, _ => None
      end
  | OEmplace i t =>
      match vget vs i with Some _ => Some (vset vs i (Some (Some t))) | None => None end
  | OPoke i t =>
      match vget vs i with Some (Some _) => Some (vset vs i (Some (Some t))) | _ => None end
  | ODestroy i =>
      match vget vs i with Some _ => Some (vset vs i None) | None => None end
  end.

Fixpoint spec_run (vs : vars) (ops : list op) : option vars :=
  match ops with
  | [] => Some vs
  | o :: r => match spec_step vs o with Some vs' => spec_run vs' r | None => None end
  end.

Fixpoint spec_trace (vs : vars) (ops : list op) : option (list vars) :=
  match ops with
  | [] => Some []
  | o :: r =>
      match spec_step vs o with
      | Some vs' => match spec_trace vs' r with Some l => Some (vs' :: l) | None => None end
      | None => None
      end
  end.

(* OpResult variable m "is" optional variable s: equal, except that where std::optional holds a moved-from value
   (engaged, content unspecified by the standard) OpResult reports disengaged *)
Definition var_rel (m s : var) : bool :=
  match m, s with
  | None, None => true
  | Some None, Some None => true
  | Some (Some a), Some (Some b) => a =? b
  | Some None, Some (Some b) => b =? moved_tag
  | _, _ => false
  end.

Fixpoint vars_rel (m s : vars) : bool :=
  match m, s with
  | [], [] => true
  | a :: m', b :: s' => var_rel a b && vars_rel m' s'
  | _, _ => false
  end.
