(* Executable model of dispenso::PoolAllocatorT (dispenso/pool_allocator.h, pool_allocator.cpp).
   Definitions only; the proofs are in Proofs/C42Proofs.v.

   Addresses and sizes are Z.  std::vector<char*> = list Z with back() = LAST element
   (push_back appends, pop_back = removelast).  The allocator state is the three vectors of the class
   plus a ledger kept by the model only: [pa_slabs] = every pointer ever returned by allocFunc_, in call
   order, and [pa_ncalls] = number of allocFunc_ calls.  No slab is released before the destructor, so the
   set of live slabs at any time is exactly [pa_slabs].

   allocFunc_ is an oracle [allocf : list Z -> Z] (argument: the slabs live at the time of the call).

   Guarded domain: 1 <= chunkSize <= allocSize.  Outside of it:
     * chunkSize = 0: the constructor evaluates allocSize / 0 -- undefined behaviour, not modelled;
     * allocSize < chunkSize: chunksPerAlloc_ = 0 and the refill loop bound `chunksPerAlloc_ - 1` wraps to
       2^64-1 (size_t), see [loop_bound64] / [first_bad_push64] at the end of the file. *)
From Coq Require Import ZArith List Bool.
From DV Require Import Base.MachInt.
Import ListNotations.
Local Open Scope Z_scope.

Record pa := PA {
  pa_backing : list Z;     (* backingAllocs_  *)
  pa_backing2 : list Z;    (* backingAllocs2_ *)
  pa_chunks : list Z;      (* chunks_ (free list) *)
  pa_slabs : list Z;       (* ledger: results of allocFunc_, oldest first *)
  pa_ncalls : nat          (* ledger: number of allocFunc_ calls *)
}.

Definition pa_init : pa := PA [] [] [] [] 0.

(* client operations.  [Dealloc i] returns the i-th currently outstanding chunk (0-based position in the list of
   outstanding chunks, oldest first) *)
Inductive op := Alloc | Dealloc (i : nat) | Clear.

(* what an operation lets the client observe: the chunk returned by alloc() and whether allocFunc_ was called *)
Inductive ev := EvAlloc (p : Z) (called : bool) | EvNone.

(* remove the i-th element *)
Fixpoint take_nth {A} (i : nat) (l : list A) : option (A * list A) :=
  match l, i with
  | [], _ => None
  | x :: r, O => Some (x, r)
  | x :: r, S i' => match take_nth i' r with Some (y, r') => Some (y, x :: r') | None => None end
  end.

Section PoolAlloc.
  Variables cs asz : Z.              (* chunkSize_, allocSize_ *)
  Variable allocf : list Z -> Z.     (* allocFunc_(allocSize_) given the live slabs *)

  (* chunksPerAlloc_(allocSize / chunkSize); unsigned division of non-negative operands *)
  Definition cpa : Z := Z.quot asz cs.

  (* for (size_t i = 0; i < chunksPerAlloc_ - 1; ++i) { chunks_.push_back(buffer); buffer += chunkSize_; }
     with n = chunksPerAlloc_ - 1 iterations left; returns (buffer, chunks_) after the loop *)
  Fixpoint carve (n : nat) (buffer : Z) (chunks : list Z) : Z * list Z :=
    match n with
    | O => (buffer, chunks)
    | S n' => carve n' (buffer + cs) (chunks ++ [buffer])
    end.

  (* the `if (chunks_.empty())` branch of alloc() once [buffer] has been chosen *)
  Definition refill (st : pa) (buffer : Z) (b2 sl : list Z) (nc : nat) (called : bool) : Z * pa * bool :=
    let rc := carve (Z.to_nat (cpa - 1)) buffer (pa_chunks st) in
    (fst rc, PA (pa_backing st ++ [buffer]) b2 (snd rc) sl nc, called).

  (* alloc(): returned chunk, new state, "allocFunc_ was called" *)
  Definition alloc (st : pa) : Z * pa * bool :=
    match pa_chunks st with
    | [] =>
        match pa_backing2 st with
        | [] => let b := allocf (pa_slabs st) in
                refill st b [] (pa_slabs st ++ [b]) (S (pa_ncalls st)) true
        | _ :: _ => refill st (last (pa_backing2 st) 0) (removelast (pa_backing2 st)) (pa_slabs st) (pa_ncalls st) false
        end
    | _ :: _ =>
        (last (pa_chunks st) 0,
         PA (pa_backing st) (pa_backing2 st) (removelast (pa_chunks st)) (pa_slabs st) (pa_ncalls st), false)
    end.

  (* dealloc(ptr): chunks_.push_back(ptr) *)
  Definition dealloc (st : pa) (p : Z) : pa :=
    PA (pa_backing st) (pa_backing2 st) (pa_chunks st ++ [p]) (pa_slabs st) (pa_ncalls st).

  (* clear(): chunks_.clear(); if (|b2| < |b|) swap(b2, b); b2.push_back(all of b); b.clear() *)
  Definition clear (st : pa) : pa :=
    let sw := (length (pa_backing2 st) <? length (pa_backing st))%nat in
    let b := if sw then pa_backing2 st else pa_backing st in
    let b2 := if sw then pa_backing st else pa_backing2 st in
    PA [] (b2 ++ b) [] (pa_slabs st) (pa_ncalls st).

  (* ~PoolAllocatorT(): the deallocFunc_ calls, in order *)
  Definition dtor_calls (st : pa) : list Z := pa_backing st ++ pa_backing2 st.

  (* totalChunkCapacity() *)
  Definition capacity (st : pa) : Z := Z.of_nat (length (pa_backing2 st) + length (pa_backing st)) * cpa.

  (* ---- client histories.  The run keeps the list of outstanding chunks (handed out and neither dealloc'd nor
     invalidated by clear()).  A history is valid when every Dealloc names an outstanding chunk: the header says
     that chunks from before clear() must not be dealloc'd afterwards, and dealloc of anything else is a client
     error.  [step_op] returns None exactly on invalid steps. *)
  Record rstate := RS { rs_pa : pa; rs_out : list Z }.
  Definition rs_init : rstate := RS pa_init [].

  Definition step_op (r : rstate) (o : op) : option (rstate * ev) :=
    match o with
    | Alloc => let '(p, st', called) := alloc (rs_pa r) in Some (RS st' (rs_out r ++ [p]), EvAlloc p called)
    | Dealloc i => match take_nth i (rs_out r) with
                   | Some (p, out') => Some (RS (dealloc (rs_pa r) p) out', EvNone)
                   | None => None
                   end
    | Clear => Some (RS (clear (rs_pa r)) [], EvNone)
    end.

  Fixpoint run (ops : list op) (r : rstate) : option rstate :=
    match ops with
    | [] => Some r
    | o :: ops' => match step_op r o with Some (r', _) => run ops' r' | None => None end
    end.

  (* same, collecting per operation the event and the allocator state after it *)
  Fixpoint run_trace (ops : list op) (r : rstate) (acc : list (ev * pa)) : option (rstate * list (ev * pa)) :=
    match ops with
    | [] => Some (r, rev acc)
    | o :: ops' => match step_op r o with
                   | Some (r', e) => run_trace ops' r' ((e, rs_pa r') :: acc)
                   | None => None
                   end
    end.

  (* the chunk positions of a slab: base + i * chunkSize, 0 <= i < chunksPerAlloc *)
  Definition positions (b : Z) : list Z := map (fun i => b + Z.of_nat i * cs) (seq 0 (Z.to_nat cpa)).

  (* ---- the arithmetic as the code does it in size_t, without the guard (allocSize < chunkSize allowed;
     chunkSize = 0 is a division by zero = UB and is not given a meaning here) *)
  Definition cpa64 : Z := wrap 64 (Z.quot asz cs).
  Definition loop_bound64 : Z := wrap 64 (cpa64 - 1).        (* `chunksPerAlloc_ - 1` *)
  (* the value pushed onto chunks_ in iteration i of the refill loop *)
  Definition pushed64 (buffer i : Z) : Z := buffer + i * cs.
  (* least iteration whose chunk [pushed64 b i, +cs) does not fit in the slab [b, b + allocSize), if the loop gets there *)
  Definition first_bad_push64 : option Z :=
    let i := Z.quot asz cs in if i <? loop_bound64 then Some i else None.
End PoolAlloc.

(* ---- the spin lock around alloc()/dealloc() of PoolAllocatorT<true>:
        while (true) { old = lock.fetch_or(1, acquire); if (old == 0) { <critical section>; lock.store(0, release); break; } }
   Every thread runs such calls forever; one step = one atomic access of the lock word.  The critical section is
   the whole body that touches chunks_/backingAllocs_/backingAllocs2_. *)
Inductive lpc := LTry | LCrit.
Record lstate := LS { ls_lock : Z; ls_pcs : list lpc }.

Fixpoint set_nth {A} (i : nat) (x : A) (l : list A) : list A :=
  match l, i with
  | [], _ => []
  | _ :: r, O => x :: r
  | y :: r, S i' => y :: set_nth i' x r
  end.

(* sites: 1 = fetch_or, 2 = store(0).  Shape of Base/Sched.v: no oracle integers are consumed *)
Definition lock_step (s : lstate) (t : nat) (ch : list Z) : option (lstate * list Z * Z) :=
  match nth_error (ls_pcs s) t with
  | None => None
  | Some LTry =>
      let old := ls_lock s in
      Some (LS (Z.lor old 1) (if old =? 0 then set_nth t LCrit (ls_pcs s) else ls_pcs s), ch, 1)
  | Some LCrit => Some (LS 0 (set_nth t LTry (ls_pcs s)), ch, 2)
  end.

Definition lock_init (n : nat) : lstate := LS 0 (repeat LTry n).
Definition is_crit (p : lpc) : bool := match p with LCrit => true | LTry => false end.
(* number of threads inside the critical section *)
Definition in_crit (s : lstate) : nat := length (filter is_crit (ls_pcs s)).
