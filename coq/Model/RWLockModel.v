(* Interleaving model of detail::RWLockImpl (dispenso/detail/rw_lock_impl.h, Linux futex variant of the
   CompletionEventImpl it embeds) and of detail::DistributedRWLockImpl<N> (detail/distributed_rw_lock_impl.h)
   at the granularity of the DISPENSO_VERIF_POINT hooks: one step = one atomic access or one futex call.
   One model for both: the state holds N lock words (slot i = slots_[i].event_.status_); RWLock is N = 1.
     word = writer bit (INT_MIN) + reader count,    all arithmetic is the int32 arithmetic of the code.
   Operations (exactly as written in the headers):
     OLock          for i<N setWriteBit(i) ; for i<N waitForReaderDrain(i)         (N = 1: RWLockImpl::lock)
     OUnlock        for i<N slots_[i].unlock()                                     (N = 1: RWLockImpl::unlock)
     OTryLock n     RWLockImpl::try_lock on slot 0 (bounded drain of K loads, fetch_and rollback)
     ODTryLock n    DistributedRWLockImpl::try_lock (tryWriteBit per slot, rollback of the earlier slots, drain)
     OLockShared i / OTryLockShared i n / OUnlockShared i      on slot (i mod N)  (index & kMask, N a power of two)
     OUpgrade / ODowngrade      RWLockImpl::lock_upgrade / lock_downgrade on slot 0
   The [n] of the try operations is the number of following operations skipped when the try fails (the body
   that is executed only while the lock is held), so that straight-line scripts can be well-formed.
   The harness (harness/h_rwlock.cpp) brackets every critical section with the schedulable points
   cs.enterW/cs.enterR (after the acquiring call returned) and cs.exitW/cs.exitR (before the releasing call);
   [tmode] is the harness' "held" variable: MW / MR from the return of the acquiring call to the cs.exit point.
   Executable; no proofs. *)
From Coq Require Import ZArith List Bool.
From DV Require Import Base.MachInt Base.Sched.
Import ListNotations.
Local Open Scope Z_scope.

Inductive op :=
| OLock | OUnlock | OTryLock (n : nat) | ODTryLock (n : nat)
| OLockShared (i : nat) | OTryLockShared (i n : nat) | OUnlockShared (i : nat)
| OUpgrade | ODowngrade.

Inductive mode := MIdle | MW | MR (i : nat).

Inductive wk := KLock | KUpgrade | KDTry.                    (* whose setWriteBit / drain loop *)
Inductive rk := RBackout | RTryFail (n : nat) | RUnlock.     (* why readerRelease runs *)
Inductive uk := UUnlock | UDowngrade.                        (* whose unlock() *)

Inductive pc :=
| PStart
| PSetW (i : nat) (k : wk)                    (* setWriteBit(slot i): the fetch_or (first or repeated) *)
| PWaitLoad (i : nat) (k : wk)                (* waitForReaderDrain(slot i) = event_.wait(kWriteBit): the load *)
| PWaitFutex (i : nat) (cur : Z) (k : wk)     (*   futex wait with the loaded value *)
| PBlocked (i : nat) (k : wk)                 (*   asleep in the futex *)
| PWoken (i : nat) (k : wk)                   (*   returning from the futex *)
| PUpSub                                      (* lock_upgrade: fetch_sub(1) *)
| PTryOr (n : nat)                            (* try_lock: fetch_or *)
| PTrySpin (j n : nat)                        (* try_lock: load in the bounded drain loop, j iterations left (>= 1) *)
| PTryAnd (n : nat)                           (* try_lock: fetch_and rollback *)
| PDTryOr (i n : nat)                         (* distributed try_lock: tryWriteBit(slot i) *)
| PDTryRb (j i n : nat)                       (* distributed try_lock rollback: slots_[j].unlock(), j < i *)
| PUnlockAnd (i : nat) (k : uk)               (* unlock(): fetch_and on slot i *)
| PLsAdd (i : nat)                            (* lock_shared: fetch_add (first or repeated) *)
| PLsSpin (i : nat)                           (* lock_shared: load in the spin loop *)
| PTlsAdd (i n : nat)                         (* try_lock_shared: fetch_add *)
| PRelSub (i : nat) (k : rk)                  (* readerRelease: fetch_sub *)
| PRelWake (i : nat) (k : rk)                 (* readerRelease: event_.tryNotify() = futex wake-all *)
| PDownAdd                                    (* lock_downgrade: fetch_add *)
| PCsEnter                                    (* harness point after a successful acquire *)
| PCsExit (o : op)                            (* harness point before the releasing call o *)
| PDone.

Record thread := TH { tpc : pc; prog : list op; res : list (Z * Z); tmode : mode }.   (* res: (tag, value), newest first *)
Record state := ST { words : list Z; threads : list thread }.

(* site ids = positions in props/rw_common.py SITES *)
Definition s_start := 0.      Definition s_setw := 1.       Definition s_wait_load := 2.  Definition s_futex_wait := 3.
Definition s_futex_woken := 4. Definition s_futex_wake := 5. Definition s_up_sub := 6.     Definition s_try_or := 7.
Definition s_try_load := 8.   Definition s_try_and := 9.    Definition s_trywb := 10.     Definition s_unlock_and := 11.
Definition s_ls_add := 12.    Definition s_ls_load := 13.   Definition s_tls_add := 14.   Definition s_rel_sub := 15.
Definition s_down_add := 16.  Definition s_enter_w := 17.   Definition s_enter_r := 18.   Definition s_exit_w := 19.
Definition s_exit_r := 20.

(* result tags *)
Definition r_try := 1. Definition r_tls := 2.

(* int32 word arithmetic *)
Definition WB : Z := - 2 ^ 31.                                   (* kWriteBit = INT_MIN *)
Definition f_or (v : Z) : Z := if v <? 0 then v else v + WB.     (* v | kWriteBit   for int32 v *)
Definition f_and (v : Z) : Z := if v <? 0 then v - WB else v.    (* v & kReaderBits for int32 v *)
Definition add32 (v : Z) : Z := wrap_s 32 (v + 1).
Definition sub32 (v : Z) : Z := wrap_s 32 (v - 1).

Fixpoint set_nth {A} (l : list A) (n : nat) (x : A) : list A :=
  match l, n with
  | [], _ => []
  | _ :: r, O => x :: r
  | y :: r, S m => y :: set_nth r m x
  end.

Definition goto (th : thread) (p : pc) : thread := TH p (prog th) (res th) (tmode th).
Definition logr (th : thread) (tag v : Z) : thread := TH (tpc th) (prog th) ((tag, v) :: res th) (tmode th).
Definition skip (th : thread) (n : nat) : thread := TH (tpc th) (skipn n (prog th)) (res th) (tmode th).
(* the acquiring call returned: the harness records the mode and parks at its cs.enter point *)
Definition acquire (th : thread) (m : mode) : thread := TH PCsEnter (prog th) (res th) m.

Definition is_release (o : op) : bool :=
  match o with OUnlock | OUnlockShared _ | OUpgrade | ODowngrade => true | _ => false end.

Definition pslot (p : pc) : nat :=
  match p with
  | PSetW i _ | PWaitLoad i _ | PWaitFutex i _ _ | PBlocked i _ | PWoken i _ | PDTryOr i _ | PUnlockAnd i _
  | PLsAdd i | PLsSpin i | PTlsAdd i _ | PRelSub i _ | PRelWake i _ => i
  | PDTryRb j _ _ => j
  | _ => O
  end.

Definition spin_or_and (j n : nat) : pc := match j with O => PTryAnd n | S _ => PTrySpin j n end.

Section Model.
  Variable N : nat.       (* number of slots (RWLock: 1) *)
  Variable K : nat.       (* kTryLockDrainSpins *)

  Definition slot (i : nat) : nat := Nat.modulo i N.

  (* first pc of the call itself *)
  Definition entry' (o : op) : pc :=
    match o with
    | OLock => PSetW 0 KLock
    | OUnlock => PUnlockAnd 0 UUnlock
    | OTryLock n => PTryOr n
    | ODTryLock n => PDTryOr 0 n
    | OLockShared i => PLsAdd (slot i)
    | OTryLockShared i n => PTlsAdd (slot i) n
    | OUnlockShared i => PRelSub (slot i) RUnlock
    | OUpgrade => PSetW 0 KUpgrade
    | ODowngrade => PDownAdd
    end.
  (* a releasing call made while the harness believes the lock is held is preceded by the cs.exit point *)
  Definition entry (m : mode) (o : op) : pc :=
    if is_release o then match m with MIdle => entry' o | _ => PCsExit o end else entry' o.

  Definition next (th : thread) : thread :=
    match prog th with
    | [] => TH PDone [] (res th) (tmode th)
    | o :: r => TH (entry (tmode th) o) r (res th) (tmode th)
    end.

  (* waitForReaderDrain(slot i) returned *)
  Definition drained (i : nat) (k : wk) (th : thread) : thread :=
    match k with
    | KUpgrade => acquire th MW
    | KLock => if (S i <? N)%nat then goto th (PWaitLoad (S i) KLock) else acquire th MW
    | KDTry => if (S i <? N)%nat then goto th (PWaitLoad (S i) KDTry) else acquire (logr th r_try 1) MW
    end.

  (* readerRelease returned *)
  Definition rel_done (i : nat) (k : rk) (th : thread) : thread :=
    match k with
    | RBackout => goto th (PLsSpin i)
    | RTryFail n => next (skip (logr th r_tls 0) n)
    | RUnlock => next th
    end.

  Definition try_failed (th : thread) (n : nat) : thread := next (skip (logr th r_try 0) n).

  (* thread-local step on the word [w] of slot [pslot (tpc th)]: new word, new thread, site, futex wake-all issued? *)
  Definition tstep (w : Z) (th : thread) : option (Z * thread * Z * bool) :=
    match tpc th with
    | PStart => Some (w, next th, s_start, false)
    | PSetW i k =>
        let th' := if w <? 0 then th else
                   match k with
                   | KUpgrade => goto th PUpSub
                   | _ => if (S i <? N)%nat then goto th (PSetW (S i) k) else goto th (PWaitLoad 0 k)
                   end in
        Some (f_or w, th', s_setw, false)
    | PWaitLoad i k =>
        if w =? WB then Some (w, drained i k th, s_wait_load, false)
        else Some (w, goto th (PWaitFutex i w k), s_wait_load, false)
    | PWaitFutex i cur k =>
        if w =? cur then Some (w, goto th (PBlocked i k), s_futex_wait, false)
        else Some (w, goto th (PWaitLoad i k), s_futex_wait, false)
    | PBlocked _ _ => None
    | PWoken i k => Some (w, goto th (PWaitLoad i k), s_futex_woken, false)
    | PUpSub => Some (sub32 w, goto th (PWaitLoad 0 KUpgrade), s_up_sub, false)
    | PTryOr n =>
        if w <? 0 then Some (w, try_failed th n, s_try_or, false)
        else if w =? 0 then Some (f_or w, acquire (logr th r_try 1) MW, s_try_or, false)
        else Some (f_or w, goto th (spin_or_and K n), s_try_or, false)
    | PTrySpin j n =>
        if w =? WB then Some (w, acquire (logr th r_try 1) MW, s_try_load, false)
        else Some (w, goto th (spin_or_and (Nat.pred j) n), s_try_load, false)
    | PTryAnd n => Some (f_and w, try_failed th n, s_try_and, false)
    | PDTryOr i n =>
        if w <? 0 then
          Some (w, match i with O => try_failed th n | S _ => goto th (PDTryRb 0 i n) end, s_trywb, false)
        else
          Some (f_or w, if (S i <? N)%nat then goto th (PDTryOr (S i) n) else goto th (PWaitLoad 0 KDTry), s_trywb, false)
    | PDTryRb j i n =>
        Some (f_and w, if (S j <? i)%nat then goto th (PDTryRb (S j) i n) else try_failed th n, s_unlock_and, false)
    | PUnlockAnd i k =>
        Some (f_and w,
              match k with
              | UUnlock => if (S i <? N)%nat then goto th (PUnlockAnd (S i) UUnlock) else next th
              | UDowngrade => acquire th (MR 0)
              end, s_unlock_and, false)
    | PLsAdd i =>
        Some (add32 w, if w <? 0 then goto th (PRelSub i RBackout) else acquire th (MR i), s_ls_add, false)
    | PLsSpin i =>
        Some (w, if w <? 0 then th else goto th (PLsAdd i), s_ls_load, false)
    | PTlsAdd i n =>
        Some (add32 w, if w <? 0 then goto th (PRelSub i (RTryFail n)) else acquire (logr th r_tls 1) (MR i), s_tls_add, false)
    | PRelSub i k =>
        Some (sub32 w, if w =? WB + 1 then goto th (PRelWake i k) else rel_done i k th, s_rel_sub, false)
    | PRelWake i k => Some (w, rel_done i k th, s_futex_wake, true)
    | PDownAdd => Some (add32 w, goto th (PUnlockAnd 0 UDowngrade), s_down_add, false)
    | PCsEnter =>
        Some (w, next th, match tmode th with MW => s_enter_w | _ => s_enter_r end, false)
    | PCsExit o =>
        Some (w, TH (entry' o) (prog th) (res th) MIdle, match tmode th with MW => s_exit_w | _ => s_exit_r end, false)
    | PDone => None
    end.

  Definition wake_all (i : nat) (ths : list thread) : list thread :=
    map (fun th => match tpc th with
                   | PBlocked j k => if (j =? i)%nat then goto th (PWoken j k) else th
                   | _ => th end) ths.

  Definition step (s : state) (t : nat) (ch : list Z) : option (state * list Z * Z) :=
    match nth_error (threads s) t with
    | None => None
    | Some th =>
        let i := pslot (tpc th) in
        match tstep (nth i (words s) 0) th with
        | None => None
        | Some (w', th', site, wake) =>
            let ths := if wake then wake_all i (threads s) else threads s in
            Some (ST (set_nth (words s) i w') (set_nth ths t th'), ch, site)
        end
    end.
End Model.

Definition runnable_pc (p : pc) : bool :=
  match p with PDone | PBlocked _ _ => false | _ => true end.

Fixpoint tids_where (f : pc -> bool) (ths : list thread) (i : nat) : list nat :=
  match ths with
  | [] => []
  | th :: r => if f (tpc th) then i :: tids_where f r (S i) else tids_where f r (S i)
  end.

Definition cands (s : state) : list nat := tids_where runnable_pc (threads s) 0.

Definition finished (s : state) : bool :=
  forallb (fun th => match tpc th with PDone => true | _ => false end) (threads s).

Definition init (N : nat) (progs : list (list op)) : state :=
  ST (repeat 0 N) (map (fun p => TH PStart p [] MIdle) progs).

Definition run_rw (fuel N K : nat) (progs : list (list op)) (sched : list Z) :=
  run (step N K) cands finished fuel (init N progs) sched [].

(* ---- static discipline of scripts (executable; the Prop version used by the theorems is in Proofs/C22Proofs.v) ----
   wfb strict fuel m p: starting in mode m the script p uses the lock as documented: releases what it holds,
   never acquires while holding, upgrade only from read mode and downgrade only from write mode, single-slot
   operations (try_lock with bounded drain, upgrade, downgrade) only on a one-slot lock; strict = also ends idle. *)
Definition mode_eqb (a b : mode) : bool :=
  match a, b with MIdle, MIdle => true | MW, MW => true | MR i, MR j => (i =? j)%nat | _, _ => false end.

Fixpoint wfb (N : nat) (strict : bool) (fuel : nat) (m : mode) (p : list op) : bool :=
  match fuel with
  | O => false
  | S f =>
      match p with
      | [] => negb strict || mode_eqb m MIdle
      | o :: r =>
          match m, o with
          | MIdle, OLock => wfb N strict f MW r
          | MIdle, OTryLock n => (N =? 1)%nat && wfb N strict f MW r && wfb N strict f MIdle (skipn n r)
          | MIdle, ODTryLock n => wfb N strict f MW r && wfb N strict f MIdle (skipn n r)
          | MIdle, OLockShared i => wfb N strict f (MR (Nat.modulo i N)) r
          | MIdle, OTryLockShared i n => wfb N strict f (MR (Nat.modulo i N)) r && wfb N strict f MIdle (skipn n r)
          | MW, OUnlock => wfb N strict f MIdle r
          | MW, ODowngrade => (N =? 1)%nat && wfb N strict f (MR 0) r
          | MR j, OUnlockShared i => (Nat.modulo i N =? j)%nat && wfb N strict f MIdle r
          | MR j, OUpgrade => (N =? 1)%nat && (j =? 0)%nat && wfb N strict f MW r
          | _, _ => false
          end
      end
  end.

Definition is_write_op (o : op) : bool :=
  match o with OLock | OTryLock _ | ODTryLock _ | OUpgrade => true | _ => false end.
Definition is_upgrade (o : op) : bool := match o with OUpgrade => true | _ => false end.
