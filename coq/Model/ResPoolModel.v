(* Executable model of dispenso::ResourcePool<T> / Resource<T> (dispenso/resource_pool.h) over a specification of the
   blocking queue (moodycamel::BlockingConcurrentQueue<T*>).  No proofs here.

   Resources are numbered 0 .. size-1 (the i-th object constructed by the pool constructor).  The queue is an abstract
   type Q with enqueue, a dequeue that may return ANY element it holds (the oracle integer picks which; None = the
   caller blocks) and an abstraction to the list of held elements.  The properties are proved for every Q that satisfies
   the specification (Section hypotheses in Proofs/C25Proofs.v); [LQ] below is the list-based reference implementation
   used for running the model.

   A Resource<T> object is a handle slot: [HDead] (no object: never constructed or destroyed), [HLive None]
   (resource_ == nullptr: moved-from) or [HLive (Some id)].  Every operation is one atomic action on the queue
   (enqueue / wait_dequeue); the handle objects themselves are not shared between threads, so an interleaving of
   acquirers and releasers is a sequence of operations. *)
From Coq Require Import List Bool Arith PeanoNat.
Import ListNotations.

Inductive handle := HDead | HLive (r : option nat).

Inductive pop :=
| PAcquire (h : nat) (k : nat)       (* slot h = pool.acquire();   k = oracle: which queued resource comes out *)
| PRelease (h : nat)                 (* ~Resource on slot h *)
| PMoveCtor (d s : nat)              (* slot d = Resource(std::move(slot s)) *)
| PMoveAssign (d s : nat)            (* slot d = std::move(slot s)   (d = s: self-move) *)
| PDestroyPool.                      (* ~ResourcePool *)

Fixpoint upd {A} (n : nat) (x : A) (l : list A) : list A :=
  match l, n with
  | [], _ => []
  | _ :: r, O => x :: r
  | y :: r, S k => y :: upd k x r
  end.

Section Pool.
  Variable Q : Type.
  Variable q_empty : Q.
  Variable q_enq : Q -> nat -> Q.
  Variable q_deq : Q -> nat -> option (nat * Q).
  Variable q_items : Q -> list nat.

  Record pstate := PS {
    p_q : Q;
    p_handles : list handle;
    p_size : nat;
    p_alive : bool;                  (* the pool object exists *)
    p_constructed : list nat;        (* ledger: T constructed (by the pool constructor) *)
    p_destroyed : list nat }.        (* ledger: ~T() calls, in order *)

  (* ResourcePool(size, init): for i < size: pool_.enqueue(new (buf) T(init())) *)
  Fixpoint fill (q : Q) (i n : nat) : Q := match n with O => q | S n' => fill (q_enq q i) (S i) n' end.
  Definition pinit (size nhandles : nat) : pstate :=
    PS (fill q_empty 0 size) (repeat HDead nhandles) size true (seq 0 size) [].

  (* Resource::recycle(): if (resource_) pool_->recycle(resource_) -> pool_.enqueue *)
  Definition recycle (q : Q) (r : option nat) : Q := match r with Some x => q_enq q x | None => q end.

  (* ~ResourcePool: size_ times wait_dequeue + ~T();  None = blocks for ever (some resource was never returned) *)
  Fixpoint drain (q : Q) (n : nat) : option (list nat * Q) :=
    match n with
    | O => Some ([], q)
    | S n' => match q_deq q 0 with
              | Some (x, q') => match drain q' n' with Some (l, q'') => Some (x :: l, q'') | None => None end
              | None => None
              end
    end.

  (* the operation applies to the current state (the handle slots are in the right life-cycle state) *)
  Definition valid_op (s : pstate) (o : pop) : bool :=
    p_alive s &&
    match o with
    | PAcquire h _ => match nth_error (p_handles s) h with Some HDead => true | _ => false end
    | PRelease h => match nth_error (p_handles s) h with Some (HLive _) => true | _ => false end
    | PMoveCtor d s' => match nth_error (p_handles s) d, nth_error (p_handles s) s' with Some HDead, Some (HLive _) => true | _, _ => false end
    | PMoveAssign d s' => match nth_error (p_handles s) d, nth_error (p_handles s) s' with Some (HLive _), Some (HLive _) => true | _, _ => false end
    | PDestroyPool => true
    end.

  (* None = the operation does not apply, or it blocks (acquire on an empty queue; pool destruction with resources outstanding) *)
  Definition pstep (s : pstate) (o : pop) : option pstate :=
    if negb (valid_op s o) then None else
    match o with
    | PAcquire h k =>
        match q_deq (p_q s) k with
        | Some (x, q') => Some (PS q' (upd h (HLive (Some x)) (p_handles s)) (p_size s) true (p_constructed s) (p_destroyed s))
        | None => None
        end
    | PRelease h =>
        match nth_error (p_handles s) h with
        | Some (HLive r) => Some (PS (recycle (p_q s) r) (upd h HDead (p_handles s)) (p_size s) true (p_constructed s) (p_destroyed s))
        | _ => None
        end
    | PMoveCtor d s' =>
        match nth_error (p_handles s) s' with
        | Some (HLive r) => Some (PS (p_q s) (upd s' (HLive None) (upd d (HLive r) (p_handles s))) (p_size s) true (p_constructed s) (p_destroyed s))
        | _ => None
        end
    | PMoveAssign d s' =>
        if Nat.eqb d s' then Some s else        (* if (&other != this) *)
        match nth_error (p_handles s) d, nth_error (p_handles s) s' with
        | Some (HLive rd), Some (HLive rs) =>
            Some (PS (recycle (p_q s) rd) (upd s' (HLive None) (upd d (HLive rs) (p_handles s))) (p_size s) true (p_constructed s) (p_destroyed s))
        | _, _ => None
        end
    | PDestroyPool =>
        match drain (p_q s) (p_size s) with
        | Some (l, q') => Some (PS q' (p_handles s) (p_size s) false (p_constructed s) (p_destroyed s ++ l))
        | None => None
        end
    end.

  (* an interleaving: operations that block or do not apply are skipped *)
  Fixpoint prun (s : pstate) (ops : list pop) : pstate :=
    match ops with
    | [] => s
    | o :: r => match pstep s o with Some s' => prun s' r | None => prun s r end
    end.

  (* resources held by live handles *)
  Definition held_of (h : handle) : list nat := match h with HLive (Some x) => [x] | _ => [] end.
  Definition held (s : pstate) : list nat := flat_map held_of (p_handles s).
End Pool.
Arguments PS {Q} _ _ _ _ _ _.
Arguments p_q {Q} _.
Arguments p_handles {Q} _.
Arguments p_size {Q} _.
Arguments p_alive {Q} _.
Arguments p_constructed {Q} _.
Arguments p_destroyed {Q} _.
Arguments held {Q} _.
Arguments valid_op {Q} _ _.

(* ---- list-based reference implementation of the queue specification *)
Definition LQ := list nat.
Fixpoint remove_nth (i : nat) (l : list nat) : list nat :=
  match l, i with
  | [], _ => []
  | _ :: r, O => r
  | x :: r, S j => x :: remove_nth j r
  end.
Definition lq_empty : LQ := [].
Definition lq_enq (q : LQ) (x : nat) : LQ := q ++ [x].
Definition lq_deq (q : LQ) (k : nat) : option (nat * LQ) :=
  match q with
  | [] => None
  | x :: _ => let i := Nat.modulo k (length q) in Some (nth i q x, remove_nth i q)
  end.
Definition lq_items (q : LQ) : list nat := q.

Definition lstate := pstate LQ.
Definition linit := pinit LQ lq_empty lq_enq.
Definition lstep := pstep LQ lq_enq lq_deq.
Definition lrun := prun LQ lq_enq lq_deq.
