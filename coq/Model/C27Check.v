(* Judges for the pipeline correspondences (C27, C28, C29 share the case record; C28Check.v / C29Check.v add their judges).
   A case = configuration + schedule + what the REAL pipeline did under harness/vsched.h (step trace, event log, outcome).
   [agrees] re-runs the model on the same schedule and compares everything observable; the [c27_*] functions evaluate the
   executable form of the property on the implementation's own log. *)
From Coq Require Import ZArith List Bool.
From DV Require Import Base.MachInt Base.Corr Base.Sched Model.PipelineModel.
Import ListNotations.
Local Open Scope Z_scope.

Record pcase := PC {
  p_cfg : cfg; p_fuel : nat; p_sched : list Z;
  i_trace : list (Z * Z);          (* implementation: (tid, site) per step *)
  i_log : list (list Z);           (* implementation: [tid; kind; stage; tag; value] in execution order *)
  i_ret : Z;                       (* -1 returned normally, -2 did not return, else id of the rethrown exception *)
  i_live : Z;                      (* lifetime-tracked payload objects never destroyed *)
  i_wr : Z; i_q : Z;               (* pool: workRemaining_, size of the central queue at the end *)
  i_blk : Z;                       (* 1: the caller sleeps in the completion futex at the end of the run *)
  i_status : Z }.                  (* 0 done 1 deadlock 2 budget *)

Definition observable_kind (k : Z) : bool := (k <=? 6) || (k =? 9) || (k =? 14).
Definition ev_row (e : event) : list Z := [e_tid e; e_kind e; e_j e; e_tag e; e_val e].
Definition model_log (s : shared) : list (list Z) := map ev_row (filter (fun e => observable_kind (e_kind e)) (rev (log s))).
Definition leak_count (s : shared) : Z := Z.of_nat (length (filter (fun e => (e_kind e =? 8) || (e_kind e =? 11)) (log s))).


Definition agrees (c : pcase) : bool :=
  let '(s, tr, st) := run_pipe (p_fuel c) (p_cfg c) (p_sched c) in
  (* p_fuel = props/ls_common.py fuel_of(budget, status): budget + 1 unless the real run ended by budget, because vsched looks at
     "all finished" / "nobody runnable" before the step budget and Base.Sched.run looks at the fuel first *)
  list_eqb zpair_eqb tr (i_trace c) && (status_code st =? i_status c) &&
  list_eqb zlist_eqb (model_log (sh s)) (i_log c) &&
  (if i_status c =? 0 then
     (match result (sh s) with Some r => r =? i_ret c | None => false end) &&
     (leak_count (sh s) =? i_live c) && (pout (sh s) =? i_wr c) && (Z.of_nat (length (bag (sh s))) =? i_q c)
   else true).

(* ---------- the log as rows ---------- *)
Definition r_tid (r : list Z) := nth 0 r 0.
Definition r_kind (r : list Z) := nth 1 r 0.
Definition r_j (r : list Z) := nth 2 r 0.
Definition r_tag (r : list Z) := nth 3 r 0.
Definition r_val (r : list Z) := nth 4 r 0.
Definition is_ev (k j tag : Z) (r : list Z) : bool := (r_kind r =? k) && (r_j r =? j) && (r_tag r =? tag).
Definition count_ev (k j tag : Z) (l : list (list Z)) : Z := Z.of_nat (length (filter (is_ev k j tag) l)).


(* every prefix property is checked with the rows seen so far (newest first in [seen]) *)
Fixpoint walk (f : list (list Z) -> list Z -> bool) (seen : list (list Z)) (l : list (list Z)) : bool :=
  match l with [] => true | r :: rest => f seen r && walk f (r :: seen) rest end.

Definition dropped_before (c : cfg) (j : nat) (tag : Z) : bool :=
  existsb (fun m => drops_at c m (tag, 0)) (seq 0 j).

(* (a) no (stage, item) is entered twice; (b) the input value is the predecessor's output; (c) an item enters stage j+1 only
   after it left stage j (which did not filter it out), stage 0 only after the generator produced it;
   (e) nothing happens after pipeline() returned *)
Definition c27_row_ok (c : cfg) (seen : list (list Z)) (r : list Z) : bool :=
  negb (existsb (fun x => r_kind x =? 9) seen) &&
  (if r_kind r =? 1 then
     let j := Z.to_nat (r_j r) in
     (count_ev 1 (r_j r) (r_tag r) seen =? 0) &&
     (r_val r =? chain j (r_tag r)) &&
     match j with
     | O => 0 <? count_ev 4 (-1) (r_tag r) seen
     | S m => (0 <? count_ev 2 (Z.of_nat m) (r_tag r) seen) && negb (drops_at c m (r_tag r, 0))
     end
   else if r_kind r =? 4 then (count_ev 4 (-1) (r_tag r) seen =? 0) && (0 <=? r_tag r) && (r_tag r <? c_nitems c)
   else true).
Definition c27_safety (c : cfg) (l : list (list Z)) : bool := walk (c27_row_ok c) [] l.

(* (d) when pipeline() returned normally: every item 0..n-1 was generated once and went exactly once through every stage up to
   (and including) the first one that filtered it out *)
Definition c27_complete (c : cfg) (l : list (list Z)) : bool :=
  forallb (fun tagn =>
    let tag := Z.of_nat tagn in
    (count_ev 4 (-1) tag l =? 1) &&
    forallb (fun j => if dropped_before c j tag then (count_ev 1 (Z.of_nat j) tag l =? 0)
                      else (count_ev 1 (Z.of_nat j) tag l =? 1) && (count_ev 2 (Z.of_nat j) tag l =? 1))
            (seq 0 (nstages c)))
    (seq 0 (Z.to_nat (c_nitems c))).

Definition has_throw_event (l : list (list Z)) : bool := existsb (fun r => (r_kind r =? 3) || (r_kind r =? 5)) l.

(* the executable form of C27 on what the implementation did *)
Definition c27_holds (c : pcase) : bool :=
  c27_safety (p_cfg c) (i_log c) &&
  (if (i_status c =? 0) && (i_ret c =? -1) && negb (has_throw_event (i_log c)) then c27_complete (p_cfg c) (i_log c) else true) &&
  negb (i_status c =? 1).                      (* a deadlock = pipeline() never returns *)

(* the real pipeline is still running when the budget is exhausted although the model, on the same schedule, has returned:
   a stall (e.g. a slot that is never released) -- reported with the schedule as replay *)
Definition stalls (c : pcase) : bool :=
  (i_status c =? 2) && (let '(_, _, st) := run_pipe (p_fuel c) (p_cfg c) (p_sched c) in status_code st =? 0).

(* 0 agree & property holds; 1 model and implementation differ, property holds; 2 property fails on the implementation;
   3 the implementation stalls where the model returns *)
Definition judge_c27 (c : pcase) : Z :=
  if negb (c27_holds c) then 2 else if agrees c then 0 else if stalls c then 3 else 1.
(* native histories (no schedule): only the executable property *)
Definition judge_c27n (c : pcase) : Z := if c27_holds c then 0 else 2.
