(* Judges for C20's native (wall-clock) correspondence; the lockstep part reuses Model/C21Check.judge_event. *)
From Coq Require Import ZArith List Bool.
From DV Require Import Base.MachInt Model.TimedModel.
Import ListNotations.
Local Open Scope Z_scope.

(* (requested ns, returned true?, measured elapsed ns, completed() after return) : 0 ok, 2 property fails *)
Definition judge_wf (c : Z * bool * Z * bool) : Z :=
  let '(req, ret, elapsed, completed) := c in
  if ret then (if completed then 0 else 2)
  else if (req <=? 0) || (req <=? elapsed) then 0 else 2.

(* (deferred?, ready?, functor runs at return, ran on caller?, value ok?, total runs) with the functor not started before the call:
   0 ok and as the model predicts, 1 differs from the model but the property holds, 2 property fails *)
Definition judge_fut (c : bool * bool * Z * bool * bool * Z) : Z :=
  let '(deferred, ready, runs_at_ret, on_caller, value_ok, total) := c in
  let inline := timed_wait_runs_inline deferred 0 in
  if negb value_ok || negb (total =? 1) then 2
  else if negb deferred && (on_caller || (0 <? runs_at_ret) || ready) then 2      (* non-deferred: must not run it, cannot be ready *)
  else if ready && negb (runs_at_ret =? 1) then 2                                   (* ready implies the functor finished *)
  else if Bool.eqb inline on_caller && Bool.eqb inline ready then 0 else 1.
