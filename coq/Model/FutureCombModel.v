(* Protocol-level interleaving model of when_all / when_any (dispenso/detail/future_impl2.h: whenAllIterators,
   whenAllTuple, whenAnyIterators, whenAnyTuple) as derived programs over the Future primitives:
     - input i completing = one step (CSetReady i); what a Future guarantees about it is C18/C19 part 1;
     - the continuation registered on input i with then(..., kImmediateInvoker) is a program step sequence whose guard
       is "input i is Ready and its continuation has not started yet" -- exactly the interface proved in
       C19_then_runs_once_after_ready (dispatched at most once, only after Ready); WHICH thread runs it is left open
       (any thread may carry a CCont i), which over-approximates the real dispatching thread;
     - when_all: continuation = count.fetch_sub(1), the one that sees 1 fires shared->f() (= run() of the result future);
       whenComplete = for each input { if count.load()==0 break; input.wait(); } ;
     - when_any: continuation = winner CAS(SIZE_MAX -> i), the winner fires shared->f(); whenComplete = winner.load(),
       if unset: wait(input 0); CAS(SIZE_MAX -> 0); winner.load();
     - the result future: status word with the NotStarted->Running CAS (fired by shared->f() or inline by a get()).
   One step = one atomic access (hook sites whenall.* / whenany.* / fut.run.cas / ce.notify.store).  Executable; no proofs. *)
From Coq Require Import ZArith List Bool.
From DV Require Import Base.MachInt Base.Sched Model.FutureModel.
Import ListNotations.
Local Open Scope Z_scope.

Definition SMAX : Z := 18446744073709551615.   (* SIZE_MAX *)

Inductive cop :=
| CComplete (i : Z)     (* input i becomes Ready *)
| CCont (i : Z)         (* the continuation registered on input i *)
| CGet.                 (* result.get() by a user thread (may run whenComplete inline) *)

Inductive cpc :=
| CStart
| CSetReady (i : Z)
| CContSub (i : Z) | CContCas (i : Z)
| CFire
| CGetLoad | CGetCas | CGetWait
| CWcCount (j : Z) (g : bool) | CWcWait (j : Z) (g : bool)
| CAnyLoad0 (g : bool) | CAnyWait (g : bool) | CAnyCas (g : bool) | CAnyLoad (g : bool)
| CResStore (g : bool) (v : Z)
| CDone.

Record cthread := CT { cpcv : cpc; cprog : list cop; cres : list Z }.

Record cshared := CS {
  any : bool;              (* false: when_all, true: when_any *)
  nin : Z;                 (* number of inputs *)
  ready : list bool;       (* input i is Ready *)
  started : list bool;     (* ghost: the continuation of input i has started *)
  count : Z;               (* WhenAllShared::count *)
  winner : Z;              (* WhenAnyShared::winner *)
  rstatus : Z;             (* status word of the result future *)
  rval : Z;                (* its result: the winner index (when_any) / 1 = "the inputs" (when_all) *)
  rfc : Z }.               (* executions of whenComplete *)

Record cstate := CST { csh : cshared; cthreads : list cthread }.

Definition rd (l : list bool) (i : Z) : bool := (0 <=? i) && nth (Z.to_nat i) l false.
Definition setb (l : list bool) (i : Z) : list bool := if 0 <=? i then set_nth l (Z.to_nat i) true else l.

Definition centry (a : bool) (o : cop) : cpc :=
  match o with
  | CComplete i => CSetReady i
  | CCont i => if a then CContCas i else CContSub i
  | CGet => CGetLoad
  end.
Definition cnext (a : bool) (th : cthread) : cthread :=
  match cprog th with
  | [] => CT CDone [] (cres th)
  | o :: r => CT (centry a o) r (cres th)
  end.
Definition cgoto (th : cthread) (p : cpc) : cthread := CT p (cprog th) (cres th).
Definition clog (th : cthread) (v : Z) : cthread := CT (cpcv th) (cprog th) (v :: cres th).

Definition upd (g : cshared) (rdy st : list bool) (cn wn rs rv fc : Z) : cshared := CS (any g) (nin g) rdy st cn wn rs rv fc.

(* entry of whenComplete *)
Definition wc_entry (g : cshared) (k : bool) : cpc := if any g then CAnyLoad0 k else CWcCount 0 k.
Definition wc_next (g : cshared) (j : Z) (k : bool) : cpc := if j <? nin g then CWcCount j k else CResStore k 1.

(* is the thread's next step enabled? *)
Definition cguard (g : cshared) (p : cpc) : bool :=
  match p with
  | CContSub i | CContCas i => rd (ready g) i && negb (rd (started g) i)
  | CGetWait => rstatus g =? 2
  | CWcWait j _ => rd (ready g) j
  | CAnyWait _ => rd (ready g) 0
  | CDone => false
  | _ => true
  end.

Definition ctstep (g : cshared) (th : cthread) : option (cshared * cthread * Z) :=
  if negb (cguard g (cpcv th)) then None else
  let a := any g in
  match cpcv th with
  | CStart => Some (g, cnext a th, 0)
  | CSetReady i => Some (upd g (setb (ready g) i) (started g) (count g) (winner g) (rstatus g) (rval g) (rfc g), cnext a th, 1)
  | CContSub i =>
      let g' := upd g (ready g) (setb (started g) i) (wrap 64 (count g - 1)) (winner g) (rstatus g) (rval g) (rfc g) in
      if count g =? 1 then Some (g', cgoto th CFire, 2) else Some (g', cnext a th, 2)
  | CContCas i =>
      let st := setb (started g) i in
      if winner g =? SMAX then Some (upd g (ready g) st (count g) i (rstatus g) (rval g) (rfc g), cgoto th CFire, 3)
      else Some (upd g (ready g) st (count g) (winner g) (rstatus g) (rval g) (rfc g), cnext a th, 3)
  | CFire =>
      if rstatus g =? 0 then Some (upd g (ready g) (started g) (count g) (winner g) 1 (rval g) (rfc g + 1), cgoto th (wc_entry g false), 4)
      else Some (g, cnext a th, 4)
  | CGetLoad =>
      if rstatus g =? 2 then Some (g, cnext a (clog th (rval g)), 5)
      else if rstatus g =? 0 then Some (g, cgoto th CGetCas, 5) else Some (g, cgoto th CGetWait, 5)
  | CGetCas =>
      if rstatus g =? 0 then Some (upd g (ready g) (started g) (count g) (winner g) 1 (rval g) (rfc g + 1), cgoto th (wc_entry g true), 4)
      else Some (g, cgoto th CGetWait, 4)
  | CGetWait => Some (g, cnext a (clog th (rval g)), 6)
  | CWcCount j k =>
      if count g =? 0 then Some (g, cgoto th (CResStore k 1), 7) else Some (g, cgoto th (CWcWait j k), 7)
  | CWcWait j k => Some (g, cgoto th (wc_next g (j + 1) k), 8)
  | CAnyLoad0 k =>
      if winner g =? SMAX then Some (g, cgoto th (CAnyWait k), 9) else Some (g, cgoto th (CResStore k (winner g)), 9)
  | CAnyWait k => Some (g, cgoto th (CAnyCas k), 8)
  | CAnyCas k =>
      if winner g =? SMAX then Some (upd g (ready g) (started g) (count g) 0 (rstatus g) (rval g) (rfc g), cgoto th (CAnyLoad k), 10)
      else Some (g, cgoto th (CAnyLoad k), 10)
  | CAnyLoad k => Some (g, cgoto th (CResStore k (winner g)), 11)
  | CResStore k v =>
      let g' := upd g (ready g) (started g) (count g) (winner g) 2 v (rfc g) in
      if k then Some (g', cnext a (clog th v), 12) else Some (g', cnext a th, 12)
  | CDone => None
  end.

Definition cstep (s : cstate) (t : nat) (ch : list Z) : option (cstate * list Z * Z) :=
  match nth_error (cthreads s) t with
  | None => None
  | Some th =>
      match ctstep (csh s) th with
      | None => None
      | Some (g', th', site) => Some (CST g' (set_nth (cthreads s) t th'), ch, site)
      end
  end.

Fixpoint ctids (g : cshared) (ths : list cthread) (i : nat) : list nat :=
  match ths with
  | [] => []
  | th :: r => if cguard g (cpcv th) then i :: ctids g r (S i) else ctids g r (S i)
  end.
Definition ccands (s : cstate) : list nat := ctids (csh s) (cthreads s) 0.
Definition cfinished (s : cstate) : bool := forallb (fun th => match cpcv th with CDone => true | _ => false end) (cthreads s).

Definition cinit (a : bool) (n : Z) (progs : list (list cop)) : cstate :=
  CST (CS a n (repeat false (Z.to_nat n)) (repeat false (Z.to_nat n)) n SMAX 0 (-1) 0) (map (fun p => CT CStart p []) progs).
Definition run_comb (fuel : nat) (a : bool) (n : Z) (progs : list (list cop)) (sched : list Z) :=
  run cstep ccands cfinished fuel (cinit a n progs) sched [].
