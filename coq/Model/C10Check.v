(* C10 judges (evaluated inside Coq by props/C10.py).
   judge_sites : which hand-offs name sites that are missing from the freshly extracted order table.
   judge_tsan  : verdict for one ThreadSanitizer probe of the REAL code (harness/h_races.cpp), given the hand-offs the probe
                 exercises and whether TSan reported a data race.
     0 = the model says these hand-offs are ordered (handoff_ok over the extracted table) and TSan reported nothing
     1 = the model says a hand-off is NOT ordered (a tie lemma is broken) but TSan found no race  (no failing input found)
     2 = TSan reported a race on a probe whose hand-offs the model orders, or on a broken hand-off: concrete witness
     3 = TSan reported a race on a probe of a recorded gap (annotations neutralised / racy by design): known-finding domain
     4 = gap probe without a report (the gap did not show in this run, or the source now orders it) *)
From Coq Require Import ZArith List Bool String.
From DV Require Import Gen.GenOrders Base.Own Model.OwnProtocols.
Import ListNotations.
Local Open Scope string_scope.

Definition find_handoff (n : string) : option handoff :=
  find (fun h => String.eqb (h_name h) n) (app handoffs gap_handoffs).

Definition is_gap_name (n : string) : bool := existsb (fun h => String.eqb (h_name h) n) gap_handoffs.

(* status of every hand-off against the order table, computed once when this file is compiled (it is recompiled whenever
   Gen/GenOrders.v changes) *)
Definition all_status_c : list (string * bool) := Eval vm_compute in all_status.
Definition gap_status_c : list (string * bool) := Eval vm_compute in gap_status.
Definition ordered_c : list (string * bool) :=
  Eval vm_compute in map (fun h => (h_name h, handoff_ok h && kinds_ok h)) (app handoffs gap_handoffs).

(* a name that is not a hand-off of the model (e.g. "chaselev.slot_access") counts as "not ordered by the model" *)
Definition ordered_by_model (n : string) : bool :=
  match find (fun x => String.eqb (fst x) n) ordered_c with Some x => snd x | None => false end.

Definition judge_tsan (names : list string) (gap_probe : bool) (reported : bool) : Z :=
  let all_ok := forallb ordered_by_model names in
  if gap_probe then (if reported then (if all_ok then 2 else 3) else 4)%Z
  else if reported then 2%Z
  else if all_ok then 0%Z else 1%Z.

Definition judge_sites : list (string * list string) :=
  Eval vm_compute in filter (fun x => negb (match snd x with [] => true | _ => false end))
         (map (fun h => (h_name h, filter (fun s => negb (has_site s)) (app (h_off h) (h_take h)))) (app handoffs gap_handoffs)).

(* the sites the proofs depend on, with the order currently declared there (for the evidence file) *)
Definition used_sites : list (string * string * mo) :=
  Eval vm_compute in flat_map (fun h => map (fun s => (h_name h, s, site_mo s)) (app (h_off h) (h_take h))) (app handoffs gap_handoffs).
