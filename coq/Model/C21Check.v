(* Lockstep judge for C21: the implementation's trace under harness/vsched.h vs. the model run on the same schedule. *)
From Coq Require Import ZArith List Bool.
From DV Require Import Base.MachInt Base.Corr Base.Sched Model.EventModel.
Import ListNotations.
Local Open Scope Z_scope.

Record ecase := EC {
  e_w0 : Z; e_tmo : bool; e_fuel : nat; e_progs : list (list op); e_sched : list Z;
  i_trace : list (Z * Z);            (* implementation: (tid, site) per step *)
  i_results : list (list (Z * Z));   (* per thread, oldest first *)
  i_word : Z; i_status : Z;          (* 0 done 1 deadlock 2 budget *)
  i_blocked : list Z;                (* tids blocked at the end *)
  i_cur : list Z;                    (* per thread: index of the operation it is in *)
  i_wf : list (Z * Z) }.             (* every waitFor that returned true: (its target, the word read right after the return) *)

Definition op_target (o : op) : option Z :=
  match o with OWait v => Some v | OWaitFor v _ => Some v | OArrive => Some 0 | _ => None end.

(* lost wake-up as visible from the implementation's output: the run ended with nobody runnable, some thread asleep
   inside a waiting operation whose target equals the final word *)
Definition lost_wakeup (c : ecase) : bool :=
  (i_status c =? 1) &&
  existsb (fun t => match nth_error (e_progs c) (Z.to_nat t) with
                    | Some p => match nth_error p (Z.to_nat (nth (Z.to_nat t) (i_cur c) 0)) with
                                | Some o => match op_target o with Some v => v =? i_word c | None => false end
                                | None => false end
                    | None => false end) (i_blocked c).

(* (the former known-finding domain "some count_down with n <> 1" is gone: the defect was repaired in /repo) *)

(* the other half of the property, on the implementation's own output: a wait(v) that returned did so on word = v.
   The k-th logged result of a thread belongs to its k-th logging operation (wait, waitFor, try_wait, completed). *)
Definition logs (o : op) : bool := match o with OWait _ | OWaitFor _ _ | OTryWait | OCompleted => true | _ => false end.
Fixpoint early_in (ops : list op) (rs : list (Z * Z)) : bool :=
  match ops, rs with
  | o :: ops', (tag, x) :: rs' =>
      (match o with OWait v => (tag =? r_wait) && negb (x =? v) | _ => false end) || early_in ops' rs'
  | _, _ => false
  end.
Fixpoint early_any (progs : list (list op)) (res : list (list (Z * Z))) : bool :=
  match progs, res with
  | p :: ps, r :: rs => early_in (filter logs p) r || early_any ps rs
  | _, _ => false
  end.
(* ... and a waitFor(v) that reported completion did so on word = v (no step of another thread lies between the return
   and the harness's load) *)
Definition early_return (c : ecase) : bool :=
  early_any (e_progs c) (i_results c) || existsb (fun vw => negb (fst vw =? snd vw)) (i_wf c).

Definition agrees (c : ecase) : bool :=
  let '(s, tr, st) := run_event (e_fuel c) (e_w0 c) (e_tmo c) (e_progs c) (e_sched c) in
  list_eqb zpair_eqb tr (i_trace c) && (status_code st =? i_status c) && (word s =? i_word c) &&
  list_eqb (list_eqb zpair_eqb) (map (fun th => rev (res th)) (threads s)) (i_results c).

(* 0 agree & property holds; 1 differ, property holds; 2 property fails *)
Definition judge_event (c : ecase) : Z :=
  if lost_wakeup c || early_return c then 2
  else if agrees c then 0 else 1.
