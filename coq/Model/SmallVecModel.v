(* dispenso::SmallVector<T, N>  (dispenso/small_vector.h) as an executable model.  No proofs here.
   State of one vector: heap bit, size, the N inline cells, and -- when the heap bit is set -- the id / capacity /
   cells of the block behind storage_.heap_.ptr (the cells travel with the pointer: whoever holds the pointer
   accesses them; the live bit of the block itself is in the shared ledger, so a double delete or a leak is an error
   of the run).  Every public operation is written statement by statement after the C++ (loops = Fixpoints over the
   trip count).  Several vector objects live in numbered slots so that copy / move construction and assignment can
   be expressed.  Element values are Z, a default-constructed T has value [dflt].
   Allocator oracle: [alloc counter bytes] = address returned by allocate(n) for n * sizeof(T) = bytes, i.e. by
   detail::alignedMalloc(bytes, alignof(T)) when alignof(T) > alignof(std::max_align_t) (= 16 here) and by
   ::operator new(bytes) otherwise -- see [allocate_oracle] at the end, which builds it from the two primitive oracles.
   (State after the two `fix:` commits: new element constructed in the new block before the old elements are moved;
   resize(n, value) copies the value before growing; over-aligned heap storage from alignedMalloc.)
   Not modelled: exceptions (T's operations and operator new do not throw here); size_t wrap-around of
   newCap * sizeof(T) (counts are nat; the check only uses small counts -- see ASSUMPTIONS of props/C38.py). *)
From Coq Require Import ZArith List Bool.
From DV Require Import Model.SmallVecLife.
Import ListNotations.
Local Open Scope Z_scope.

Definition dflt : Z := 0.

Record vec := mkVec { heapb : bool; vsize : nat; inl : list cell; hblk : nat; hcap : nat; hcells : list cell }.

Inductive op :=
| OCtor (k : nat)                        (* SmallVector() *)
| OCtorN (k n : nat)                     (* SmallVector(n) *)
| OCtorNV (k n : nat) (x : Z)            (* SmallVector(n, T(x)) *)
| OCtorIL (k : nat) (l : list Z)         (* SmallVector{T(x1), ..} *)
| OCtorCopy (k j : nat)                  (* SmallVector(const SmallVector& slot j) *)
| OCtorMove (k j : nat)                  (* SmallVector(SmallVector&& slot j) *)
| ODtor (k : nat)                        (* ~SmallVector() *)
| OAssignCopy (k j : nat)
| OAssignMove (k j : nat)
| OPush (mode k : nat) (x : Z)           (* mode 0: emplace_back(x); 1: push_back(const T& = T(x)); 2: push_back(T&& = T(x)) *)
| OPop (k : nat)
| OResize (k n : nat)
| OResizeV (k n : nat) (x : Z)           (* resize(n, T(x)) *)
| OReserve (k n : nat)
| OClear (k : nat)
| OErase (k i : nat)                     (* erase(begin() + i) *)
| OPushSelf (k i : nat)                  (* push_back(v[i])  -- the argument is a reference into the vector itself *)
| OResizeSelf (k n i : nat).             (* resize(n, v[i]) *)

Section Model.
  Variable alloc : nat -> Z -> Z.   (* allocate(): alignedMalloc / ::operator new, see the header *)
  Variable N : nat.                 (* inline capacity *)
  Variable szT : Z.                 (* sizeof(T) *)

  Definition empty_vec : vec := mkVec false 0 (repeat Raw N) 0 0 [].

  (* data(): which cells [ptr] designates *)
  Definition data (v : vec) : list cell := if heapb v then hcells v else inl v.
  Definition set_data (v : vec) (l : list cell) : vec :=
    if heapb v then mkVec true (vsize v) (inl v) (hblk v) (hcap v) l
    else mkVec false (vsize v) l (hblk v) (hcap v) (hcells v).
  Definition set_size (v : vec) (n : nat) : vec := mkVec (heapb v) n (inl v) (hblk v) (hcap v) (hcells v).
  Definition capacity (v : vec) : nat := if heapb v then hcap v else N.
  (* size_ = 0: back to inline mode, the heap fields are dead union members *)
  Definition to_inline (v : vec) : vec := mkVec false 0 (inl v) 0 0 [].

  (* deallocate(storage_.heap_.ptr): the block's cells cease to exist *)
  Definition release (v : vec) : M unit :=
    if all_raw (hcells v) then free_block (hblk v) else fail ELeak.

  (* moveToHeap(newData, newCap): newData = block [id] with cells [newcells] (possibly already holding the new element) *)
  Definition moveToHeap (id newCap : nat) (newcells : list cell) (v : vec) : M vec :=
    r <- move_loop (vsize v) 0 (data v) newcells ;;
    _ <- (if heapb v then release (set_data v (fst r)) else ret tt) ;;
    ret (mkVec true (vsize v) (if heapb v then inl v else fst r) id newCap (snd r)).

  Definition growToHeap (newCap : nat) (v : vec) : M vec :=
    id <- new_block alloc (Z.of_nat newCap * szT) ;;
    moveToHeap id newCap (repeat Raw newCap) v.

  Definition ensureCapacity (newCap : nat) (v : vec) : M vec :=
    if (newCap <=? N)%nat && negb (heapb v) then ret v
    else if negb (heapb v) then growToHeap newCap v
    else if (hcap v <? newCap)%nat then growToHeap newCap v
    else ret v.

  Definition emplace_back (x : Z) (v : vec) : M vec :=
    if (vsize v <? capacity v)%nat then
      d <- construct (data v) (vsize v) x ;;
      ret (set_size (set_data v d) (S (vsize v)))
    else
      (* the new element is constructed in the new block first, then the old elements are moved over *)
      let newCap := (capacity v * 2)%nat in
      id <- new_block alloc (Z.of_nat newCap * szT) ;;
      d <- construct (repeat Raw newCap) (vsize v) x ;;
      v1 <- moveToHeap id newCap d v ;;
      ret (set_size v1 (S (vsize v1))).

  (* push_back(data()[i]): the reference is read by T's copy constructor at the placement new, which in both branches
     of emplace_back happens while the old storage is still intact *)
  Definition push_self (i : nat) (v : vec) : M vec :=
    x <- readv (data v) i ;; emplace_back x v.

  Definition pop_back (v : vec) : M vec :=
    match vsize v with
    | O => fail EPrecond
    | S n => d <- destroy (data v) n ;; ret (set_size (set_data v d) n)
    end.

  Definition resize (count : nat) (x : Z) (v : vec) : M vec :=
    let sz := vsize v in
    if (sz <? count)%nat then
      v1 <- ensureCapacity count v ;;
      d <- fill_loop (count - sz) sz x (data v1) ;;
      ret (set_size (set_data v1 d) count)
    else if (count <? sz)%nat then
      d <- destroy_loop (sz - count) count (data v) ;;
      ret (set_size (set_data v d) count)
    else ret v.

  (* resize(count, const T& value): when it has to grow it first copies the value (T saved(value): one constructor, one
     destructor at the end), grows, and calls itself with the copy *)
  Definition resize_val (count : nat) (x : Z) (v : vec) : M vec :=
    if (capacity v <? count)%nat then
      _ <- client_tmp 1 ;;
      v1 <- ensureCapacity count v ;;
      resize count x v1
    else resize count x v.

  Definition destroyAll (v : vec) : M vec :=
    d <- destroy_loop (vsize v) 0 (data v) ;;
    _ <- (if heapb v then release (set_data v d) else ret tt) ;;
    ret (set_data v d).

  Definition clear (v : vec) : M vec := v1 <- destroyAll v ;; ret (to_inline v1).

  Definition erase (idx : nat) (v : vec) : M vec :=
    let sz := vsize v in
    if (idx <? sz)%nat then
      d <- shift_loop (sz - 1 - idx) idx (data v) ;;
      d2 <- destroy d (sz - 1) ;;
      ret (set_size (set_data v d2) (sz - 1))
    else fail EPrecond.

  (* for (const auto& x : other) emplace_back(x); *)
  Fixpoint copy_loop (n i : nat) (src dst : vec) : M vec :=
    match n with
    | O => ret dst
    | S n' => x <- readv (data src) i ;; dst1 <- emplace_back x dst ;; copy_loop n' (S i) src dst1
    end.
  Definition copy_into (src dst : vec) : M vec :=
    d1 <- ensureCapacity (vsize src) dst ;; copy_loop (vsize src) 0 src d1.

  Fixpoint push_all (l : list Z) (v : vec) : M vec :=
    match l with
    | [] => ret v
    | x :: r => v1 <- emplace_back x v ;; push_all r v1
    end.
  Definition il_into (l : list Z) (dst : vec) : M vec :=
    d1 <- ensureCapacity (length l) dst ;; push_all l d1.

  (* body shared by the move constructor and move assignment; dst has size_ == 0.  Returns (dst', src') *)
  Definition move_into (src dst : vec) : M (vec * vec) :=
    if negb (heapb src) then
      r <- move_loop (vsize src) 0 (inl src) (inl dst) ;;
      ret (mkVec false (vsize src) (snd r) 0 0 [], mkVec false 0 (fst r) 0 0 [])
    else
      ret (mkVec true (vsize src) (inl dst) (hblk src) (hcap src) (hcells src), mkVec false 0 (inl src) 0 0 []).

  (* ---- vector objects in slots ---- *)
  Definition slots := list (option vec).

  Definition get_obj (s : slots) (k : nat) : M vec :=
    match nth_error s k with Some (Some v) => ret v | _ => fail EBadSlot end.
  Definition get_free (s : slots) (k : nat) : M unit :=
    match nth_error s k with Some None => ret tt | _ => fail EBadSlot end.

  (* ~SmallVector(): destroyAll, then the object (with its inline storage) is gone *)
  Definition dtor (v : vec) : M unit :=
    v1 <- destroyAll v ;; if all_raw (inl v1) then ret tt else fail ELeak.

  Definition step (o : op) (s : slots) : M slots :=
    match o with
    | OCtor k => _ <- get_free s k ;; ret (upd s k (Some empty_vec))
    | OCtorN k n => _ <- get_free s k ;; v <- resize n dflt empty_vec ;; ret (upd s k (Some v))
    | OCtorNV k n x => _ <- get_free s k ;; _ <- client_tmp 1 ;; v <- resize_val n x empty_vec ;; ret (upd s k (Some v))
    | OCtorIL k l => _ <- get_free s k ;; _ <- client_tmp (Z.of_nat (length l)) ;; v <- il_into l empty_vec ;; ret (upd s k (Some v))
    | OCtorCopy k j => _ <- get_free s k ;; src <- get_obj s j ;; v <- copy_into src empty_vec ;; ret (upd s k (Some v))
    | OCtorMove k j => _ <- get_free s k ;; src <- get_obj s j ;; r <- move_into src empty_vec ;;
                       ret (upd (upd s k (Some (fst r))) j (Some (snd r)))
    | ODtor k => v <- get_obj s k ;; _ <- dtor v ;; ret (upd s k None)
    | OAssignCopy k j => dst <- get_obj s k ;; src <- get_obj s j ;;
                         if (k =? j)%nat then ret s
                         else d0 <- destroyAll dst ;; v <- copy_into src (to_inline d0) ;; ret (upd s k (Some v))
    | OAssignMove k j => dst <- get_obj s k ;; src <- get_obj s j ;;
                         if (k =? j)%nat then ret s
                         else d0 <- destroyAll dst ;; r <- move_into src (to_inline d0) ;;
                              ret (upd (upd s k (Some (fst r))) j (Some (snd r)))
    | OPush mode k x => v <- get_obj s k ;; _ <- client_tmp (match mode with O => 0 | _ => 1 end) ;;
                        v1 <- emplace_back x v ;; ret (upd s k (Some v1))
    | OPop k => v <- get_obj s k ;; v1 <- pop_back v ;; ret (upd s k (Some v1))
    | OResize k n => v <- get_obj s k ;; v1 <- resize n dflt v ;; ret (upd s k (Some v1))
    | OResizeV k n x => v <- get_obj s k ;; _ <- client_tmp 1 ;; v1 <- resize_val n x v ;; ret (upd s k (Some v1))
    | OReserve k n => v <- get_obj s k ;; v1 <- ensureCapacity n v ;; ret (upd s k (Some v1))
    | OClear k => v <- get_obj s k ;; v1 <- clear v ;; ret (upd s k (Some v1))
    | OErase k i => v <- get_obj s k ;; v1 <- erase i v ;; ret (upd s k (Some v1))
    | OPushSelf k i => v <- get_obj s k ;; v1 <- push_self i v ;; ret (upd s k (Some v1))
    | OResizeSelf k n i => v <- get_obj s k ;; x <- readv (data v) i ;; v1 <- resize_val n x v ;; ret (upd s k (Some v1))
    end.

  Fixpoint run (ops : list op) (s : slots) : M slots :=
    match ops with
    | [] => ret s
    | o :: r => s1 <- step o s ;; run r s1
    end.

  (* end of the test: destroy every vector object that still exists *)
  Fixpoint finish (s : slots) : M unit :=
    match s with
    | [] => ret tt
    | None :: r => finish r
    | Some v :: r => _ <- dtor v ;; finish r
    end.

  Definition init_slots (K : nat) : slots := repeat None K.
  Definition led0 : ledger := mkLed 0 0 [].

  (* ---- addresses ---- *)
  Variable al : Z.                  (* alignof(T) *)
  (* offset of storage_ in the object: size_ (8 bytes) rounded up to alignof(Storage) = max(alignof(T), 8) *)
  Definition obj_align : Z := Z.max al 8.
  Definition inl_off : Z := ((8 + obj_align - 1) / obj_align) * obj_align.
  Definition data_addr (obj_addr : Z) (g : ledger) (v : vec) : Z :=
    if heapb v then match nth_error (blocks g) (hblk v) with Some b => b_base b | None => 0 end
    else obj_addr + inl_off.
  Definition elem_addr (base : Z) (i : nat) : Z := base + Z.of_nat i * szT.

  Definition vec_heap_aligned (g : ledger) (v : vec) : bool :=
    negb (heapb v) || forallb (fun i => (elem_addr (data_addr 0 g v) i) mod al =? 0) (seq 0 (vsize v)).
  Definition heap_alignedb (s : slots) (g : ledger) : bool :=
    forallb (fun ov => match ov with Some v => vec_heap_aligned g v | None => true end) s.
End Model.

(* allocate(n) of the repaired code, from the two primitive allocation functions:
   onew counter bytes = ::operator new(bytes); amalloc counter bytes alignment = detail::alignedMalloc(bytes, alignment) *)
Definition allocate_oracle (onew : nat -> Z -> Z) (amalloc : nat -> Z -> Z -> Z) (al : Z) : nat -> Z -> Z :=
  fun c bytes => if 16 <? al then amalloc c bytes al else onew c bytes.

(* ---- the specification: std::vector<T> per slot ---- *)
Definition sspec := list (option (list Z)).

Definition sget (s : sspec) (k : nat) : option (list Z) :=
  match nth_error s k with Some (Some l) => Some l | _ => None end.
Definition sfree (s : sspec) (k : nat) : bool :=
  match nth_error s k with Some None => true | _ => false end.

Definition spec_resize (n : nat) (x : Z) (l : list Z) : list Z :=
  firstn n l ++ repeat x (n - length l).
Definition spec_erase (i : nat) (l : list Z) : list Z := firstn i l ++ skipn (S i) l.

(* None = the history violates a precondition of std::vector / of the test driver *)
Definition spec_step (o : op) (s : sspec) : option sspec :=
  match o with
  | OCtor k => if sfree s k then Some (upd s k (Some [])) else None
  | OCtorN k n => if sfree s k then Some (upd s k (Some (repeat dflt n))) else None
  | OCtorNV k n x => if sfree s k then Some (upd s k (Some (repeat x n))) else None
  | OCtorIL k l => if sfree s k then Some (upd s k (Some l)) else None
  | OCtorCopy k j => if sfree s k then match sget s j with Some l => Some (upd s k (Some l)) | None => None end else None
  | OCtorMove k j => if sfree s k then match sget s j with Some l => Some (upd (upd s k (Some l)) j (Some [])) | None => None end else None
  | ODtor k => match sget s k with Some _ => Some (upd s k None) | None => None end
  | OAssignCopy k j => match sget s k, sget s j with
                       | Some _, Some l => if (k =? j)%nat then Some s else Some (upd s k (Some l))
                       | _, _ => None end
  | OAssignMove k j => match sget s k, sget s j with
                       | Some _, Some l => if (k =? j)%nat then Some s else Some (upd (upd s k (Some l)) j (Some []))
                       | _, _ => None end
  | OPush _ k x => match sget s k with Some l => Some (upd s k (Some (l ++ [x]))) | None => None end
  | OPop k => match sget s k with Some l => match l with [] => None | _ => Some (upd s k (Some (removelast l))) end | None => None end
  | OResize k n => match sget s k with Some l => Some (upd s k (Some (spec_resize n dflt l))) | None => None end
  | OResizeV k n x => match sget s k with Some l => Some (upd s k (Some (spec_resize n x l))) | None => None end
  | OReserve k n => match sget s k with Some l => Some s | None => None end
  | OClear k => match sget s k with Some l => Some (upd s k (Some [])) | None => None end
  | OErase k i => match sget s k with Some l => if (i <? length l)%nat then Some (upd s k (Some (spec_erase i l))) else None | None => None end
  | OPushSelf k i => match sget s k with Some l => match nth_error l i with Some x => Some (upd s k (Some (l ++ [x]))) | None => None end | None => None end
  | OResizeSelf k n i => match sget s k with Some l => match nth_error l i with Some x => Some (upd s k (Some (spec_resize n x l))) | None => None end | None => None end
  end.

Fixpoint spec_run (ops : list op) (s : sspec) : option sspec :=
  match ops with
  | [] => Some s
  | o :: r => match spec_step o s with Some s1 => spec_run r s1 | None => None end
  end.

Definition spec_init (K : nat) : sspec := repeat None K.
