(* Task-set layer of dispenso (dispenso/task_set.h, task_set.cpp, detail/task_set_impl.h; decision code of
   thread_pool.h) as an interleaving model at the granularity of the DISPENSO_VERIF_POINT hooks of commit
   "verif hooks: task sets": one SITED step = the shared access that follows one hook point (outstandingTaskCount_
   inc/dec/load, canceled_ load/store, guardException_ CAS/load/store, exception slot write/move, body call sites);
   SILENT steps = thread-local control and the (abstract) pool: "enqueue packaged task", "dequeue packaged task",
   the pool's workRemaining_ counter and its inline-vs-queue decisions.  The pool is a bag of packaged tasks
   (C01 is the pool's theorem; here: a list, dequeue picks any element -- chosen by the [hints] oracle of the state).
   Every thread is a stack of frames (continuations); task bodies are op scripts, so programs are data.
   Executable; no proofs (C02, C04, C05, C47 -- Proofs/TaskSetProofs.v, Props/Properties_C02/04/05/47.v). *)
From Coq Require Import ZArith List Bool Lia.
From DV Require Import Base.MachInt Base.Sched.
Import ListNotations.
Local Open Scope Z_scope.

(* ---------- programs ---------- *)
Inductive op :=
| OSched (T : nat) (force skip : bool) (body : list op)   (* set.schedule(f [, ForceQueuingTag]) / CTS::schedule(f, skipRecheck) *)
| OBulk (T : nat) (force : bool) (n : nat) (body : list op) (* set.scheduleBulk(n, gen [, ForceQueuingTag]); every task has the same body *)
| OWait (T : nat)
| OTryWait (T : nat) (m : Z)
| OCancel (T : nat)
| OWorker                                                 (* a pool worker: one ThreadPool::tryExecuteNext() *)
| OThrow.                                                 (* throw a fresh exception *)

(* ---------- shared state ---------- *)
Record tset := TS { outst : Z; canc : bool; guard : Z (* 0 unset 1 setting 2 set *); exn : Z (* slot, 0 = empty *);
                    tick : Z (* ghost: ticket (clock of the write) of the slot content, 0 = empty *);
                    won : Z (* ghost: exception of the last successful CAS *);
                    cst : Z (* ghost: clock of the first canceled_ := true store, 0 = never, -1 = before the run *) }.
Record tcfg := TC { concurrent : bool; heavy : bool; tlf : Z (* taskSetLoadFactor_ *); kids : list nat (* registered children *) }.
Record qtask := QT { qid : Z; qset : nat; qbody : list op }.
Inductive lst := LNone | LPend (T : nat) | LRun (T : nat) | LRaw (T : nat) | LDone (T : nat) | LSkip (T : nat).

Record shared := SH {
  sets : nat -> tset; cfg : nat -> tcfg; queue : list qtask;
  wr : Z (* workRemaining_ *); nthr : Z (* numThreads_ *); plf : Z (* poolLoadFactor_ *); prlf : Z (* 2 * poolRecursiveLoadFactor *);
  nrings : Z (* numRings_ *);
  clock : Z (* number of sited steps executed *); nextid : Z; hints : list Z (* dequeue oracle *);
  ledger : Z -> lst; delivered : list (nat * Z) (* ghost: (set, ticket) of every rethrow *) }.

Definition upd {A} (f : nat -> A) (k : nat) (v : A) : nat -> A := fun x => if Nat.eqb x k then v else f x.
Definition updz {A} (f : Z -> A) (k : Z) (v : A) : Z -> A := fun x => if Z.eqb x k then v else f x.
Definition updr {A} (f : Z -> A) (lo hi : Z) (v : A) : Z -> A := fun x => if (lo <=? x) && (x <? hi) then v else f x.

Definition ts_outst (t : tset) v := TS v (canc t) (guard t) (exn t) (tick t) (won t) (cst t).
Definition ts_cancel (t : tset) (c : Z) := TS (outst t) true (guard t) (exn t) (tick t) (won t) (if cst t =? 0 then c else cst t).
Definition ts_guard (t : tset) v := TS (outst t) (canc t) v (exn t) (tick t) (won t) (cst t).
Definition ts_cas_won (t : tset) e := TS (outst t) (canc t) 1 (exn t) (tick t) e (cst t).
Definition ts_slot (t : tset) e tk := TS (outst t) (canc t) (guard t) e tk (won t) (cst t).

Definition sh_sets (s : shared) f := SH f (cfg s) (queue s) (wr s) (nthr s) (plf s) (prlf s) (nrings s) (clock s) (nextid s) (hints s) (ledger s) (delivered s).
Definition sh_set (s : shared) (T : nat) (t : tset) := sh_sets s (upd (sets s) T t).
Definition sh_queue (s : shared) q w := SH (sets s) (cfg s) q w (nthr s) (plf s) (prlf s) (nrings s) (clock s) (nextid s) (hints s) (ledger s) (delivered s).
Definition sh_wr (s : shared) w := sh_queue s (queue s) w.
Definition sh_clock (s : shared) c := SH (sets s) (cfg s) (queue s) (wr s) (nthr s) (plf s) (prlf s) (nrings s) c (nextid s) (hints s) (ledger s) (delivered s).
Definition sh_nextid (s : shared) n := SH (sets s) (cfg s) (queue s) (wr s) (nthr s) (plf s) (prlf s) (nrings s) (clock s) n (hints s) (ledger s) (delivered s).
Definition sh_hints (s : shared) h := SH (sets s) (cfg s) (queue s) (wr s) (nthr s) (plf s) (prlf s) (nrings s) (clock s) (nextid s) h (ledger s) (delivered s).
Definition sh_ledger (s : shared) l := SH (sets s) (cfg s) (queue s) (wr s) (nthr s) (plf s) (prlf s) (nrings s) (clock s) (nextid s) (hints s) l (delivered s).
Definition sh_deliv (s : shared) d := SH (sets s) (cfg s) (queue s) (wr s) (nthr s) (plf s) (prlf s) (nrings s) (clock s) (nextid s) (hints s) (ledger s) d.

(* ---------- frames ---------- *)
Inductive wstage := WCanc | WBodyPt (lic : Z) | WRun | WExcCas (e : Z) | WExcWrite (e : Z) | WExcSet | WExcCancel | WDec.

Inductive frame :=
| FStart
| FTop (ops : list op)                  (* top-level script; the harness catches per op *)
| FBody (ops : list op)                 (* remainder of a functor body *)
| FRet (tag a : Z)                      (* log (tag, a) when control returns here normally *)
| FThrow (e : Z)                        (* an exception in flight *)
| FAbort                                (* std::terminate (not reachable from the programs considered) *)
(* TaskSet::schedule(f) *)
| FTsCanc (T : nat) (k : Z) (b : list op)
| FTsOut (T : nat) (k : Z) (b : list op) (lic : Z)
(* ConcurrentTaskSet::schedule / schedulePlaced *)
| FCsOut (T : nat) (k : Z) (b : list op) (skip placed : bool)
| FCsCanc (T : nat) (k : Z) (b : list op) (skip placed second : bool)   (* second: the canceled() test of the second inline fallback *)
| FCsPool (T : nat) (k : Z) (b : list op) (skip placed : bool)
(* raw functor call by the scheduling function *)
| FRawPt (T : nat) (k : Z) (b : list op) (site : Z) (lic : Z) (g : bool)
| FRawRun (T : nat) (k : Z) (g : bool)
(* packageTask + hand-over to the pool *)
| FPkgInc (T : nat) (k : Z) (b : list op) (how : Z)   (* 0 pool.schedule(token, w); 1 ForceQueuingTag central; 2 ForceQueuingTag placed *)
| FPkgEnq (T : nat) (k : Z) (b : list op) (how : Z)
(* packaged wrapper; executeNext *)
| FWrap (T : nat) (k : Z) (b : list op) (st : wstage)
| FExecNext
(* bulk *)
| FBulkStart (T : nat) (force : bool) (base : Z) (n : nat) (b : list op)
| FBulkRing (T : nat) (base : Z) (n : nat) (b : list op)
| FBulkRingInc (T : nat) (base : Z) (n : nat) (b : list op)
| FBulkLoop (T : nat) (mode : Z) (base : Z) (i n : nat) (b : list op)     (* mode 0 scheduleBulkImpl, 1 ...Placed, 2 ...ForceQueue *)
| FBulkCanc (T : nat) (mode : Z) (base : Z) (i n : nat) (b : list op)
| FBulkOut (T : nat) (mode : Z) (base : Z) (i n : nat) (b : list op) (lic : Z)
| FBulkInc (T : nat) (mode : Z) (base : Z) (i m n : nat) (b : list op)
| FBulkEnq (T : nat) (mode : Z) (base : Z) (i m n : nat) (b : list op)
| FPoolBulk (T : nat) (first : Z) (cnt : nat) (b : list op)               (* ThreadPool::scheduleBulkImpl<true> on packaged wrappers *)
| FInl (T : nat) (k : Z) (b : list op) (st : wstage)                        (* invokeInline *)
(* wait / tryWait / testAndResetException *)
| FWaitTok (T : nat) | FWaitLoad (T : nat) | FWaitCentral (T : nat) | FWaitRings (T : nat) | FWaitLoad2 (T : nat)
| FTwTLoad (T : nat) (m : Z) | FTwTok (T : nat) (m : Z)
| FTwLoad (T : nat) (m : Z) | FTwCentral (T : nat) (m : Z) | FTwRings (T : nat) (m : Z) | FTwLoad2 (T : nat)
| FTestGuard (T : nat) (tw : bool) | FTestMove (T : nat) (tw : bool) | FTestReset (T : nat) (tw : bool) (e tk : Z) | FTestCanc (T : nat) (tw : bool)
(* cancel *)
| FCancel (T : nat) | FCancelKids (l : list nat)
| FWorker.

Definition ev := (Z * Z * Z)%type.       (* (tag, argument, clock stamp) *)
Definition t_b := 1. Definition t_e := 2. Definition t_x := 3. Definition t_u := 4. Definition t_s := 5. Definition t_w := 6.
Definition t_tw := 7. Definition t_rt := 8. Definition t_c := 9. Definition t_wk := 10. Definition t_bs := 11.
Definition t_ee := 12. Definition t_wc := 13. Definition t_sf := 14. Definition t_bf := 15.
(* argument encodings: s/sf k*64+set; bs/bf (base*64+set)*64+n; wc set; w/tw r*64+set; rt e*64+set; c set; b/e/ee task id; x/u exception id *)
Definition enc (a : Z) (T : nat) : Z := a * 64 + Z.of_nat T.

Record thread := TH { stk : list frame; res : list ev (* newest first *); tpool : bool (* isPoolRecursive *); dep0 : Z }.
Record state := ST { sh : shared; threads : list thread }.

(* ---------- sites (positions in props/taskset_common.py SITES); code = 64 * index + set ---------- *)
Definition sc (idx : Z) (T : nat) : Z := 64 * idx + Z.of_nat T.
Definition wstage_site (st : wstage) : Z :=
  match st with WCanc => 11 | WBodyPt _ => 12 | WRun => -1 | WExcCas _ => 14 | WExcWrite _ => 15 | WExcSet => 16 | WExcCancel => 17 | WDec => 13 end.
Definition site_idx (c : nat -> tcfg) (f : frame) : Z * nat :=
  match f with
  | FStart => (0, O)
  | FTsCanc T _ _ | FCsCanc T _ _ _ _ _ | FBulkCanc T _ _ _ _ _ => (1, T)
  | FTsOut T _ _ _ => (2, T)
  | FCsOut T _ _ _ placed => (if placed then 7 else 4, T)
  | FRawPt T _ _ site _ _ => (site, T)
  | FPkgInc T _ _ _ => (10, T)
  | FWrap T _ _ st => (wstage_site st, T)
  | FInl T _ _ st => (match st with WBodyPt _ => 29 | WCanc | WDec => -1 | _ => wstage_site st end, T)
  | FBulkRing T _ _ _ => (22, T)
  | FBulkRingInc T _ _ _ => (23, T)
  | FBulkOut T mode _ _ _ _ _ => (if mode =? 1 then 26 else 24, T)
  | FBulkInc T mode _ _ _ _ _ => (if mode =? 1 then 27 else if mode =? 2 then 28 else 25, T)
  | FWaitTok T | FTwTok T _ => (30, T)
  | FWaitCentral T | FTwCentral T _ => (31, T)
  | FWaitRings T => (32, T)
  | FWaitLoad T => (if concurrent (c T) then 33 else 35, T)
  | FWaitLoad2 T => (if concurrent (c T) then 34 else 36, T)
  | FTwLoad T _ => (if concurrent (c T) then 37 else 40, T)
  | FTwLoad2 T => (if concurrent (c T) then 38 else 41, T)
  | FTwTLoad T _ => (39, T)
  | FTestGuard T _ => (18, T) | FTestMove T _ => (19, T) | FTestReset T _ _ _ => (20, T) | FTestCanc T _ => (21, T)
  | FCancel T => (42, T)
  | FWorker => (43, O)
  | _ => (-1, O)
  end.
Definition sited (c : nat -> tcfg) (f : frame) : bool := 0 <=? fst (site_idx c f).
Definition site_code (c : nat -> tcfg) (f : frame) : Z := let '(i, T) := site_idx c f in if 0 <=? i then sc i T else -1.

(* ---------- decisions (stage functions; tied to the regenerated Gen/GenTaskSet.v in GenTie/TaskSetGenTie.v) ---------- *)
Definition fscale (n lf2 : Z) : Z := Z.quot (n * lf2) 2.
Definition dec_pool_inline (recursive : bool) (w n lf : Z) : bool := (recursive && (n + Z.quot n 2 <? w)) || (lf <? w).   (* shouldRunInline *)
Definition dec_overloaded (recursive : bool) (w n lf l2 : Z) : bool := (recursive && (fscale n l2 <? w)) || (lf <? w).
Definition cts_threshold (placed : bool) (n lf : Z) : Z := if placed then Z.max (n + 1) (Z.quot lf 2) else lf.
Definition chunk_of (n : Z) : Z := let c := n + Z.quot n 2 in if c <? 1 then 1 else c.
Definition c_maxdepth : Z := 32.
(* ThreadPool::scheduleBulkImpl: toEnqueue = min(count - i, chunkSize, room), at least 1 *)
Definition pool_chunk (cnt : nat) (n room : Z) : nat :=
  Nat.min cnt (Nat.max 1 (Z.to_nat (Z.min (Z.of_nat cnt) (Z.min (n + Z.quot n 2) room)))).

Fixpoint guards (l : list frame) : Z :=
  match l with
  | [] => 0
  | f :: r => (match f with FRawRun _ _ true => 1 | FInl _ _ _ (WRun | WExcCas _ | WExcWrite _ | WExcSet | WExcCancel) => 1 | _ => 0 end) + guards r
  end.
Definition can_inline (th : thread) (rest : list frame) : bool := dep0 th + guards rest <? c_maxdepth.

(* ---------- the abstract pool ---------- *)
Fixpoint take_first (p : qtask -> bool) (q : list qtask) : option (qtask * list qtask) :=
  match q with
  | [] => None
  | x :: r => if p x then Some (x, r) else match take_first p r with Some (y, r') => Some (y, x :: r') | None => None end
  end.
(* general dequeue: hint h >= 0 picks task id h; -64 < h < 0 the oldest task of set -h-1; otherwise / not found: the oldest *)
Definition deq_any (s : shared) : option (qtask * shared) :=
  match queue s with
  | [] => None
  | x :: r =>
      let '(h, hs) := match hints s with [] => (-64, []) | h :: hs => (h, hs) end in
      let pick := if 0 <=? h then take_first (fun t => qid t =? h) (queue s)
                  else if -64 <? h then take_first (fun t => Nat.eqb (qset t) (Z.to_nat (- h - 1))) (queue s) else None in
      match pick with
      | Some (t, q') => Some (t, sh_hints (sh_queue s q' (wr s)) hs)
      | None => Some (x, sh_hints (sh_queue s r (wr s)) hs)
      end
  end.
(* dequeue through a TaskSet's producer token: the oldest queued task of that set *)
Definition deq_tok (s : shared) (T : nat) : option (qtask * shared) :=
  match take_first (fun t => Nat.eqb (qset t) T) (queue s) with
  | Some (t, q') => Some (t, sh_queue s q' (wr s))
  | None => None
  end.
Definition mk_tasks (T : nat) (first : Z) (m : nat) (b : list op) : list qtask :=
  map (fun j => QT (first + Z.of_nat j) T b) (seq 0 m).
Definition enqueue (s : shared) (l : list qtask) : shared := sh_queue s (queue s ++ l) (wr s + Z.of_nat (length l)).
Definition exec_frames (t : qtask) : list frame := [FWrap (qset t) (qid t) (qbody t) WCanc; FExecNext].

Definition set_led (s : shared) (k : Z) (v : lst) : shared := sh_ledger s (updz (ledger s) k v).
Definition add_out (s : shared) (T : nat) (d : Z) : shared := sh_set s T (ts_outst (sets s T) (outst (sets s T) + d)).

(* exception state machine shared by the wrapper and invokeInline: returns the new shared state and the next stage (None = done) *)
Definition exc_step (s : shared) (T : nat) (st : wstage) (c : Z) : shared * option wstage :=
  let t := sets s T in
  match st with
  | WExcCas e => if guard t =? 0 then (sh_set s T (ts_cas_won t e), Some (WExcWrite e)) else (s, None)
  | WExcWrite e => (sh_set s T (ts_slot t e c), Some WExcSet)
  | WExcSet => (sh_set s T (ts_guard t 2), Some WExcCancel)
  | WExcCancel => (sh_set s T (ts_cancel t c), None)
  | _ => (s, None)
  end.

(* entry frames of an operation (pushed above the script continuation) *)
Definition dispatch (s : shared) (o : op) (c : Z) : shared * list frame * list ev :=
  match o with
  | OSched T force skip b =>
      let k := nextid s in
      let s' := sh_nextid s (k + 1) in
      let cf := cfg s T in
      if force then (s', [FPkgInc T k b (if concurrent cf && heavy cf then 2 else 1); FRet t_sf (enc k T)], [])
      else if concurrent cf then (s', [FCsOut T k b skip (heavy cf); FRet t_s (enc k T)], [])
      else (s', [FTsCanc T k b; FRet t_s (enc k T)], [])
  | OBulk T force n b =>
      let base := nextid s in
      let s' := sh_nextid s (base + Z.of_nat n) in
      let r := FRet (if force then t_bf else t_bs) (enc base T * 64 + Z.of_nat n) in
      match n with O => (s', [r], []) | _ => (s', [FBulkStart T force base n b; r], []) end
  | OWait T => (s, [if concurrent (cfg s T) then FWaitLoad T else FWaitTok T], [(t_wc, Z.of_nat T, c)])
  | OTryWait T m => (s, [if concurrent (cfg s T) then FTwLoad T m else FTwTLoad T m], [(t_wc, Z.of_nat T, c)])
  | OCancel T => (s, [FCancel T; FRet t_c (Z.of_nat T)], [])
  | OWorker => (s, [FWorker], [])
  | OThrow => let e := nextid s in (sh_nextid s (e + 1), [FThrow e], [(t_x, e, c)])
  end.

(* one step of the top frame [f] of thread [th] whose remaining stack is [rest]; [c] = clock value of this step.
   Result: new shared state, new stack, new log entries (newest first). *)
Definition step_top (s : shared) (th : thread) (f : frame) (rest : list frame) (c : Z) : option (shared * list frame * list ev) :=
  let recursive := tpool th in
  let ok (s' : shared) (l : list frame) := Some (s', l, @nil ev) in
  let okl (s' : shared) (l : list frame) (e : list ev) := Some (s', l, e) in
  match f with
  | FStart => ok s rest
  | FAbort => None
  | FTop [] | FBody [] => ok s rest
  | FTop (o :: r) => let '(s', fr, e) := dispatch s o c in okl s' (fr ++ FTop r :: rest) e
  | FBody (o :: r) => let '(s', fr, e) := dispatch s o c in okl s' (fr ++ FBody r :: rest) e
  | FRet tag a => okl s rest [(tag, a, c)]
  | FThrow e =>
      match rest with
      | FBody _ :: r | FRet _ _ :: r => ok s (FThrow e :: r)
      | FRawRun T k g :: r => okl (set_led s k (LDone T)) (FThrow e :: r) [(t_ee, k, c)]
      | FWrap T k b WRun :: r => okl s (FWrap T k b (WExcCas e) :: r) [(t_ee, k, c)]
      | FInl T k b WRun :: r => okl s (FInl T k b (WExcCas e) :: r) [(t_ee, k, c)]
      | FTop ops :: r => okl s (FTop ops :: r) [(t_u, e, c)]
      | _ => ok s (FAbort :: rest)
      end
  (* ---- TaskSet::schedule *)
  | FTsCanc T k b => if canc (sets s T) then ok s rest else ok s (FTsOut T k b c :: rest)
  | FTsOut T k b lic =>
      if tlf (cfg s T) <? outst (sets s T) then ok s (FRawPt T k b 3 lic false :: rest)
      else ok s (FPkgInc T k b 0 :: rest)
  (* ---- ConcurrentTaskSet::schedule / schedulePlaced *)
  | FCsOut T k b skip placed =>
      if cts_threshold placed (nthr s) (tlf (cfg s T)) <? outst (sets s T) then ok s (FCsCanc T k b skip placed false :: rest)
      else ok s (FCsPool T k b skip placed :: rest)
  | FCsCanc T k b skip placed second =>
      if second then
        if canc (sets s T) || negb (can_inline th rest) then ok s (FPkgInc T k b (if placed then 2 else 1) :: rest)
        else ok s (FRawPt T k b (if placed then 9 else 6) c true :: rest)
      else if negb (canc (sets s T)) && can_inline th rest then ok s (FRawPt T k b (if placed then 8 else 5) c true :: rest)
      else ok s (FCsPool T k b skip placed :: rest)
  | FCsPool T k b skip placed =>
      if negb skip && dec_overloaded recursive (wr s) (nthr s) (plf s) (prlf s) then ok s (FCsCanc T k b skip placed true :: rest)
      else ok s (FPkgInc T k b (if placed then 2 else 1) :: rest)
  | FRawPt T k b _ _ g => okl (set_led s k (LRaw T)) (FBody b :: FRawRun T k g :: rest) [(t_b, k, c)]
  | FRawRun T k _ => okl (set_led s k (LDone T)) rest [(t_e, k, c)]
  (* ---- packageTask and the hand-over *)
  | FPkgInc T k b how => ok (set_led (add_out s T 1) k (LPend T)) (FPkgEnq T k b how :: rest)
  | FPkgEnq T k b how =>
      if ((how =? 0) && dec_pool_inline recursive (wr s) (nthr s) (plf s)) || (nthr s =? 0) then ok s (FWrap T k b WCanc :: rest)
      else ok (enqueue s [QT k T b]) rest
  (* ---- the packaged wrapper *)
  | FWrap T k b st =>
      match st with
      | WCanc => if canc (sets s T) then ok (set_led s k (LSkip T)) (FWrap T k b WDec :: rest) else ok s (FWrap T k b (WBodyPt c) :: rest)
      | WBodyPt _ => okl (set_led s k (LRun T)) (FBody b :: FWrap T k b WRun :: rest) [(t_b, k, c)]
      | WRun => okl s (FWrap T k b WDec :: rest) [(t_e, k, c)]
      | WDec => ok (set_led (add_out s T (-1)) k (match ledger s k with LSkip T' => LSkip T' | _ => LDone T end)) rest
      | _ => let '(s', nx) := exc_step s T st c in
             ok s' (FWrap T k b (match nx with Some st' => st' | None => WDec end) :: rest)
      end
  | FExecNext => ok (sh_wr s (wr s - 1)) rest
  (* ---- invokeInline *)
  | FInl T k b st =>
      match st with
      | WBodyPt _ => okl (set_led s k (LRaw T)) (FBody b :: FInl T k b WRun :: rest) [(t_b, k, c)]
      | WRun => okl (set_led s k (LDone T)) rest [(t_e, k, c)]
      | WCanc | WDec => ok s rest
      | _ => let '(s', nx) := exc_step s T st c in
             match nx with Some st' => ok s' (FInl T k b st' :: rest) | None => ok (set_led s' k (LDone T)) rest end
      end
  (* ---- bulk *)
  | FBulkStart T force base n b =>
      let cf := cfg s T in
      if force then ok s (FBulkLoop T 2 base O n b :: rest)
      else if concurrent cf && heavy cf then ok s (FBulkLoop T 1 base O n b :: rest)
      else ok s (FBulkRing T base n b :: rest)
  | FBulkRing T base n b =>
      let zn := Z.of_nat n in
      if (nthr s <=? zn * 4) && (zn <=? nthr s) && (zn <=? nrings s) && negb recursive && (outst (sets s T) <=? tlf (cfg s T))
      then ok s (FBulkRingInc T base n b :: rest) else ok s (FBulkLoop T 0 base O n b :: rest)
  | FBulkRingInc T base n b =>
      ok (sh_ledger (add_out s T (Z.of_nat n)) (updr (ledger s) base (base + Z.of_nat n) (LPend T))) (FBulkEnq T 0 base O n n b :: rest)
  | FBulkLoop T mode base i n b => if Nat.ltb i n then ok s (FBulkCanc T mode base i n b :: rest) else ok s rest
  | FBulkCanc T mode base i n b =>
      if canc (sets s T) then ok s rest
      else if mode =? 2 then ok s (FBulkInc T 2 base i (Z.to_nat (Z.min (Z.of_nat (n - i)) (chunk_of (nthr s)))) n b :: rest)
      else ok s (FBulkOut T mode base i n b c :: rest)
  | FBulkOut T mode base i n b lic =>
      let room := tlf (cfg s T) - outst (sets s T) in
      if ((room <=? 0) || dec_overloaded recursive (wr s) (nthr s) (plf s) (prlf s)) && can_inline th rest
      then ok s (FInl T (base + Z.of_nat i) b (WBodyPt lic) :: FBulkLoop T mode base (S i) n b :: rest)
      else let limit := if 0 <? room then Z.min (chunk_of (nthr s)) room else chunk_of (nthr s) in
           ok s (FBulkInc T mode base i (Z.to_nat (Z.min (Z.of_nat (n - i)) limit)) n b :: rest)
  | FBulkInc T mode base i m n b =>
      let lo := base + Z.of_nat i in
      ok (sh_ledger (add_out s T (Z.of_nat m)) (updr (ledger s) lo (lo + Z.of_nat m) (LPend T))) (FBulkEnq T mode base i m n b :: rest)
  | FBulkEnq T mode base i m n b =>
      if mode =? 1 then ok s (FPoolBulk T (base + Z.of_nat i) m b :: FBulkLoop T mode base (i + m) n b :: rest)
      else ok (enqueue s (mk_tasks T (base + Z.of_nat i) m b)) (FBulkLoop T mode base (i + m) n b :: rest)
  | FPoolBulk T first cnt b =>
      if Nat.eqb cnt 0 then ok s rest
      else if (nthr s =? 0) || (plf s <? wr s) then ok s (FWrap T first b WCanc :: FPoolBulk T (first + 1) (cnt - 1) b :: rest)
      else let m := pool_chunk cnt (nthr s) (plf s - wr s) in
           ok (enqueue s (mk_tasks T first m b)) (FPoolBulk T (first + Z.of_nat m) (cnt - m) b :: rest)
  (* ---- wait *)
  | FWaitTok T =>
      match deq_tok s T with
      | Some (t, s') => ok s' (exec_frames t ++ FWaitTok T :: rest)
      | None => ok s (FWaitLoad T :: rest)
      end
  | FWaitLoad T => if outst (sets s T) =? 0 then ok s (FTestGuard T false :: rest) else ok s (FWaitCentral T :: rest)
  | FWaitCentral T =>
      match deq_any s with
      | Some (t, s') => ok s' (exec_frames t ++ FWaitCentral T :: rest)
      | None => ok s (FWaitRings T :: rest)
      end
  | FWaitRings T =>
      match (if 0 <? nrings s then deq_any s else None) with
      | Some (t, s') => ok s' (exec_frames t ++ FWaitRings T :: rest)
      | None => ok s (FWaitLoad2 T :: rest)
      end
  | FWaitLoad2 T => ok s (FWaitLoad T :: rest)
  (* ---- tryWait *)
  | FTwTLoad T m => if negb (outst (sets s T) =? 0) && negb (m =? 0) then ok s (FTwTok T m :: rest) else ok s (FTwLoad T m :: rest)
  | FTwTok T m =>
      match deq_tok s T with
      | Some (t, s') => ok s' (exec_frames t ++ FTwTLoad T (m - 1) :: rest)
      | None => ok s (FTwLoad T m :: rest)
      end
  | FTwLoad T m => if negb (outst (sets s T) =? 0) && negb (m =? 0) then ok s (FTwCentral T m :: rest) else ok s (FTwLoad2 T :: rest)
  | FTwCentral T m =>
      match deq_any s with
      | Some (t, s') => ok s' (exec_frames t ++ FTwLoad T (m - 1) :: rest)
      | None => ok s (FTwRings T m :: rest)
      end
  | FTwRings T m =>
      match (if 0 <? nrings s then deq_any s else None) with
      | Some (t, s') => ok s' (exec_frames t ++ FTwLoad T (m - 1) :: rest)
      | None => ok s (FTwLoad2 T :: rest)
      end
  | FTwLoad2 T => if outst (sets s T) =? 0 then ok s (FTestGuard T true :: rest) else okl s rest [(t_tw, enc 0 T, c)]
  (* ---- testAndResetException *)
  | FTestGuard T tw => if guard (sets s T) =? 2 then ok s (FTestMove T tw :: rest) else ok s (FTestCanc T tw :: rest)
  | FTestMove T tw => let t := sets s T in ok (sh_set s T (ts_slot t 0 0)) (FTestReset T tw (exn t) (tick t) :: rest)
  | FTestReset T tw e tk =>
      okl (sh_deliv (sh_set s T (ts_guard (sets s T) 0)) ((T, tk) :: delivered s)) (FThrow e :: rest) [(t_rt, enc e T, c)]
  | FTestCanc T tw =>
      let r := canc (sets s T) in
      okl s rest [(if tw then t_tw else t_w, enc (if tw then b2z (negb r) else b2z r) T, c)]
  (* ---- cancel *)
  | FCancel T => ok (sh_set s T (ts_cancel (sets s T) c)) (FCancelKids (kids (cfg s T)) :: rest)
  | FCancelKids [] => ok s rest
  | FCancelKids (x :: r) => ok s (FCancel x :: FCancelKids r :: rest)
  (* ---- worker *)
  | FWorker =>
      match deq_any s with
      | Some (t, s') => ok s' (exec_frames t ++ FRet t_wk 1 :: rest)
      | None => okl s rest [(t_wk, 0, c)]
      end
  end.

Fixpoint set_nth {A} (l : list A) (n : nat) (x : A) : list A :=
  match l, n with
  | [], _ => []
  | _ :: r, O => x :: r
  | y :: r, S m => y :: set_nth r m x
  end.

(* fine-grained step: one frame transition of thread t (sited or silent).  Site code -1 = silent. *)
Definition step1 (s : state) (t : nat) (ch : list Z) : option (state * list Z * Z) :=
  match nth_error (threads s) t with
  | None => None
  | Some th =>
      match stk th with
      | [] => None
      | f :: rest =>
          let c := if sited (cfg (sh s)) f then clock (sh s) + 1 else clock (sh s) in
          match step_top (sh s) th f rest c with
          | None => None
          | Some (s', l, e) =>
              Some (ST (sh_clock s' c) (set_nth (threads s) t (TH l (e ++ res th) (tpool th) (dep0 th))), ch, site_code (cfg (sh s)) f)
          end
      end
  end.

Definition top_sited (s : state) (t : nat) : bool :=
  match nth_error (threads s) t with
  | Some th => match stk th with f :: _ => sited (cfg (sh s)) f | [] => false end
  | None => false
  end.
Definition top_silent (s : state) (t : nat) : bool :=
  match nth_error (threads s) t with
  | Some th => match stk th with FAbort :: _ => false | f :: _ => negb (sited (cfg (sh s)) f) | [] => false end
  | None => false
  end.

(* what the cooperative scheduler sees: the access after a hook point, then everything up to the next hook point *)
Fixpoint silent_run (fuel : nat) (s : state) (t : nat) : state :=
  match fuel with
  | O => s
  | S fuel' => if top_silent s t then match step1 s t [] with Some (s', _, _) => silent_run fuel' s' t | None => s end else s
  end.
Definition stepF (s : state) (t : nat) (ch : list Z) : option (state * list Z * Z) :=
  if top_sited s t then
    match step1 s t ch with
    | Some (s', ch', site) => Some (silent_run 400 s' t, ch', site)
    | None => None
    end
  else None.

Fixpoint tids_where (f : thread -> bool) (ths : list thread) (i : nat) : list nat :=
  match ths with
  | [] => []
  | th :: r => if f th then i :: tids_where f r (S i) else tids_where f r (S i)
  end.
Definition cands (s : state) : list nat :=
  tids_where (fun th => match stk th with f :: _ => sited (cfg (sh s)) f | [] => false end) (threads s) 0.
Definition finished (s : state) : bool := forallb (fun th => match stk th with [] => true | _ => false end) (threads s).

(* ---------- initial states ---------- *)
Definition ts0 (c0 : bool) : tset := TS 0 c0 0 0 0 0 (if c0 then -1 else 0).   (* cancelled before the run: store at a time before the clock starts *)
Record setup := SU { su_cfg : list tcfg; su_canc : list bool (* sets cancelled before the run *); su_wr : Z; su_nthr : Z; su_plf : Z; su_prlf : Z;
                     su_nrings : Z; su_hints : list Z; su_progs : list (list op * bool * Z) (* script, isPoolRecursive, initial inline depth *) }.
Definition tc0 : tcfg := TC true false 0 [].
Definition init (u : setup) : state :=
  ST (SH (fun T => ts0 (nth T (su_canc u) false)) (fun T => nth T (su_cfg u) tc0) [] (su_wr u) (su_nthr u) (su_plf u) (su_prlf u) (su_nrings u)
         0 1 (su_hints u) (fun _ => LNone) [])
     (map (fun p => TH [FStart; FTop (fst (fst p))] [] (snd (fst p)) (snd p)) (su_progs u)).

Definition run_ts (fuel : nat) (u : setup) (sched : list Z) := run stepF cands finished fuel (init u) sched [].
