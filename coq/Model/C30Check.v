(* Executable form of C30 (and the shared machinery for C31), evaluated on what the IMPLEMENTATION did.
   A case = the op sequence given to harness/h_graph.cpp, with the implementation's output attached to the
   execute / dump ops.  The judge replays the ops on the Gallina model (Model/GraphModel.v) and, per event, reports
     [index; kind; code30; code31; prepared; live]
   live = number of dependency edges between two incomplete nodes when the executor was called (0 for the other kinds)
   kind 0 = execute, 1 = structure dump, 2 = ForwardPropagator.
   code30: 0 = model and implementation agree and C30 holds on the implementation's log
           1 = they differ, C30 holds on the log
           2 = C30 fails on the implementation's log although the state was prepared (preparedb)
           4 = C30 fails on the log, state NOT prepared (domain of the finding fresh-graph-ignores-dependencies)
   code31 (execute events that directly follow a ForwardPropagator run):
           0 = executed set = reference closure (ideal_rerun) = model closure;  1 = model differs from the implementation
           3 = executed set <> reference closure, sets coherent  (violation)
           6 = executed set <> reference closure, set objects incoherent (domain of the finding biprop-merge-stale-set)
           5 = not judged (some marked node had a non-zero counter: outside the property's domain)
           9 = no ForwardPropagator run precedes *)
From Coq Require Import ZArith List Bool PArith FMapPositive Lia.
From DV Require Import Base.MachInt Model.GraphModel.
Import ListNotations.
Local Open Scope Z_scope.

Definition rec := (positive * Z * Z)%type.                 (* node id, start seq, finish seq *)
Definition dnode := (positive * Z * Z * list positive * list positive)%type.   (* id, np, cnt, set members (sorted), dependents *)

Inductive iop :=
| IOp (o : op)
| IExec (e t : nat) (recs : list rec) (cnts : list (positive * Z))
| IDump (d : list (list dnode)).

Definition rec_id (r : rec) : positive := fst (fst r).
Definition recs_of (recs : list rec) (n : positive) : list rec := filter (fun r => Pos.eqb (rec_id r) n) recs.
Definition lookup_cnt (cnts : list (positive * Z)) (n : positive) : Z :=
  match find (fun p => Pos.eqb (fst p) n) cnts with Some p => snd p | None => K64 end.   (* only counters <> kCompleted are listed *)

(* C30 on a log: every incomplete node exactly once, complete nodes not at all, every incomplete predecessor
   finished before the dependent started, executed nodes are complete afterwards *)
Definition check_log (x : xg) (c : zmap) (recs : list rec) (cnts : list (positive * Z)) : bool :=
  forallb (fun n => if incb c n then Nat.eqb (length (recs_of recs n)) 1 else Nat.eqb (length (recs_of recs n)) 0) (x_nodes x) &&
  forallb (fun r => memp (rec_id r) (x_nodes x) && (snd (fst r) <? snd r) && (lookup_cnt cnts (rec_id r) =? K64)) recs &&
  forallb (fun p => negb (incb c p) ||
             forallb (fun d => negb (incb c d) ||
                match recs_of recs p, recs_of recs d with
                | rp :: _, rd :: _ => snd rp <? snd (fst rd)
                | _, _ => false
                end) (x_deps x p)) (x_nodes x).

Definition starts_of_log (l : list ev) : list positive :=
  rev (flat_map (fun e => match e with EvS n => [n] | EvF _ => [] end) l).

Definition cnts_agree (nodes : list positive) (c : zmap) (cnts : list (positive * Z)) : bool :=
  forallb (fun n => getz c n =? lookup_cnt cnts n) nodes.

Definition agree_exec (x : xg) (c : zmap) (e : nat) (prepared : bool) (recs : list rec) (cnts : list (positive * Z)) : bool :=
  match e with
  | O => let ms := exec_seq x c in
         quiescent ms && plist_eqb (starts_of_log (s_log ms)) (map rec_id recs) && cnts_agree (x_nodes x) (s_cnt ms) cnts
  | _ => if prepared then
           let wave := negb (Nat.eqb e 2) in
           let ms := exec_rot x wave (length recs) c in
           quiescent ms && plist_eqb (sortp (starts_of_log (s_log ms))) (sortp (map rec_id recs)) &&
           cnts_agree (x_nodes x) (s_cnt ms) cnts
         else true
  end.

Definition dump_of (g : graph) : list (list dnode) :=
  map (map (fun n => (n, getz (g_np g) n, getz (g_cnt g) n,
                      match PM.find n (g_setof g) with Some s => sortp (getl (g_sets g) s) | None => [] end,
                      getl (g_deps g) n))) (g_subs g).
Definition dnode_eqb (a b : dnode) : bool :=
  let '(n1, p1, c1, m1, d1) := a in let '(n2, p2, c2, m2, d2) := b in
  Pos.eqb n1 n2 && (p1 =? p2) && (c1 =? c2) && plist_eqb m1 m2 && plist_eqb d1 d2.
Fixpoint list_eqb {A} (eqb : A -> A -> bool) (l1 l2 : list A) : bool :=
  match l1, l2 with
  | [], [] => true
  | a :: r1, b :: r2 => eqb a b && list_eqb eqb r1 r2
  | _, _ => false
  end.

Definition live_edges (x : xg) (c : zmap) : nat :=
  list_sum (map (fun p => if incb c p then length (filter (incb c) (x_deps x p)) else 0%nat) (x_nodes x)).

(* well-formedness evaluated on the IMPLEMENTATION's structure dump: distinct nodes, dependents are nodes of the graph,
   numPredecessors_ = number of occurrences in the dependents_ lists *)
Definition dn_id (x : dnode) : positive := let '(n, _, _, _, _) := x in n.
Definition dn_np (x : dnode) : Z := let '(_, np, _, _, _) := x in np.
Definition dn_deps (x : dnode) : list positive := let '(_, _, _, _, d) := x in d.
Definition dump_wfb (d : list (list dnode)) : bool :=
  let all := concat d in
  let ids := map dn_id all in
  nodupb ids &&
  forallb (fun x => forallb (fun y => memp y ids) (dn_deps x) &&
                    (dn_np x =? Z.of_nat (list_sum (map (fun y => countp (dn_id x) (dn_deps y)) all)))) all.

Record jst := mkJ { j_g : graph; j_prop : option (list positive * list positive * bool * bool); j_out : list (list Z); j_i : Z }.

Definition b2z (b : bool) : Z := if b then 1 else 0.

Definition judge_step (j : jst) (o : iop) : jst :=
  let g := j_g j in
  let i := j_i j in
  match o with
  | IOp OProp =>
      let M := fp_start g in
      let ideal := ideal_rerun g M in
      let modelr := model_rerun g M in
      let pre := forallb (fun n => getz (g_cnt g) n =? 0) M in
      let coh := sets_coherentb g in
      match forward_propagate g with
      | None => mkJ g None (j_out j ++ [[i; 2; 1; 9; 0; 0]]) (i + 1)
      | Some g' =>
          (* the propagated state of the model: exactly the model closure is incomplete, and (when the marked nodes had
             counter 0) the state is prepared *)
          let okm := negb pre || (plist_eqb (sortp (fp_start g')) (sortp modelr) && preparedb (xg_of g') (g_cnt g')) in
          mkJ g' (Some (ideal, modelr, pre, coh)) (j_out j ++ [[i; 2; if okm then 0 else 1; 9; b2z pre; 0]]) (i + 1)
      end
  | IOp o' =>
      match apply_op g o' with
      | Some g' => mkJ g' None (j_out j) (i + 1)
      | None => mkJ g None (j_out j) (i + 1)
      end
  | IExec e t recs cnts =>
      let x := xg_of g in
      let c := g_cnt g in
      let prep := preparedb x c in
      let okp := check_log x c recs cnts in
      let agree := agree_exec x c e prep recs cnts in
      let code30 := if negb okp then (if prep then 2 else 4) else if agree then 0 else 1 in
      let ran := sortp (map rec_id recs) in
      let code31 := match j_prop j with
                    | None => 9
                    | Some (ideal, modelr, pre, coh) =>
                        if negb pre then 5
                        else if plist_eqb ran (sortp ideal) then (if plist_eqb ran (sortp modelr) then 0 else 1)
                        else if coh then 3 else 6
                    end in
      let c' := fold_left (fun m p => PM.add (fst p) (wrap64 (snd p)) m) cnts
                          (fold_left (fun m n => PM.add n K64 m) (g_nodes g) (PM.empty Z)) in
      mkJ (with_cnt g c') None (j_out j ++ [[i; 0; code30; code31; b2z prep; Z.of_nat (live_edges x c)]]) (i + 1)
  | IDump d =>
      let same := list_eqb (list_eqb dnode_eqb) (dump_of g) d in
      let wf := wfgb g in
      mkJ g (j_prop j) (j_out j ++ [[i; 1; if negb (dump_wfb d) then 2 else if negb same then 1 else if wf then 0 else 2; 9; b2z wf; 0]]) (i + 1)
  end.

Definition judge_graph (c : bool * list iop) : list (list Z) :=
  let '(bip, ops) := c in
  j_out (fold_left judge_step ops (mkJ (empty_graph bip) None [] 0)).

Definition judge_c30 := judge_graph.

(* the domain of the known finding "fresh-graph-ignores-dependencies": the counters are not what the executors
   assume (no setAllNodesIncomplete / ForwardPropagator since the last structural change) *)
Definition c30_finding_domain (x : xg) (c : zmap) : bool := negb (preparedb x c).

(* constructors used by the generated case files (argument scopes follow the types) *)
Definition R (n : positive) (s f : Z) : rec := (n, s, f).
Definition CN (n : positive) (v : Z) : positive * Z := (n, v).
Definition DN (n : positive) (np cnt : Z) (m d : list positive) : dnode := (n, np, cnt, m, d).
