(* Interleaving model of dispenso::threadId() (dispenso/thread_id.cpp):

     std::atomic<uint64_t> nextThread{0};
     thread_local uint64_t currentThread = kInvalidThread;            // kInvalidThread = 2^64 - 1
     uint64_t threadId() {
       if (currentThread == kInvalidThread) currentThread = nextThread.fetch_add(1, relaxed);
       return currentThread;
     }

   One step = one access of shared memory, i.e. the fetch_add (site tid.fetch_add).  A call that finds the thread-local
   cache valid touches no shared memory and is therefore part of the step that precedes it ([settle]).  Programs are
   lists of OTid (a call; its result is logged) and OYield (a scheduling point of the harness between calls).
   Executable; no proofs. *)
From Coq Require Import ZArith List Bool.
From DV Require Import Base.MachInt Base.Sched.
Import ListNotations.
Local Open Scope Z_scope.

Inductive op := OTid | OYield.
Inductive pc := PStart | PFetch | PYield | PDone.

Record thread := TH { tpc : pc; prog : list op; cache : Z; res : list (Z * Z) }.   (* res: (tag, value), newest first *)
Record state := ST { ctr : Z; threads : list thread }.

Definition inval : Z := 2 ^ 64 - 1.          (* kInvalidThread *)
Definition r_tid := 1.
Definition s_start := 0. Definition s_fetch := 1. Definition s_yield := 2.

(* run the thread's program up to its next scheduling point *)
Fixpoint settle (p : list op) (c : Z) (r : list (Z * Z)) : thread :=
  match p with
  | [] => TH PDone [] c r
  | OYield :: p' => TH PYield p' c r
  | OTid :: p' => if c =? inval then TH PFetch p' c r else settle p' c ((r_tid, c) :: r)
  end.

Fixpoint set_nth {A} (l : list A) (n : nat) (x : A) : list A :=
  match l, n with
  | [], _ => []
  | _ :: r, O => x :: r
  | y :: r, S m => y :: set_nth r m x
  end.

Definition step (s : state) (t : nat) (ch : list Z) : option (state * list Z * Z) :=
  match nth_error (threads s) t with
  | None => None
  | Some th =>
      match tpc th with
      | PStart => Some (ST (ctr s) (set_nth (threads s) t (settle (prog th) (cache th) (res th))), ch, s_start)
      | PYield => Some (ST (ctr s) (set_nth (threads s) t (settle (prog th) (cache th) (res th))), ch, s_yield)
      | PFetch =>
          (* currentThread = nextThread.fetch_add(1); return currentThread; *)
          let v := ctr s in
          Some (ST (wrap 64 (v + 1)) (set_nth (threads s) t (settle (prog th) v ((r_tid, v) :: res th))), ch, s_fetch)
      | PDone => None
      end
  end.

Definition runnable_pc (p : pc) : bool := match p with PDone => false | _ => true end.
Fixpoint tids_where (f : pc -> bool) (ths : list thread) (i : nat) : list nat :=
  match ths with
  | [] => []
  | th :: r => if f (tpc th) then i :: tids_where f r (S i) else tids_where f r (S i)
  end.
Definition cands (s : state) : list nat := tids_where runnable_pc (threads s) 0.
Definition finished (s : state) : bool :=
  forallb (fun th => match tpc th with PDone => true | _ => false end) (threads s).

(* c0 = value of nextThread when the threads are created (0 in a fresh process) *)
Definition init (c0 : Z) (progs : list (list op)) : state :=
  ST c0 (map (fun p => TH PStart p inval []) progs).

Definition run_tid (fuel : nat) (c0 : Z) (progs : list (list op)) (sched : list Z) :=
  run step cands finished fuel (init c0 progs) sched [].

Definition ids_of (th : thread) : list Z := map snd (res th).
