(* Decisions of the real code under forced load (D) vs. the regenerated decision functions Gen/GenTaskSet.v (C02, C04, C47).  Everything that
   does not depend on Gen (lockstep judges, implementation-only D checks) is in Model/TaskSetImplCheck.v. *)
From Coq Require Import ZArith List Bool.
From DV Require Import Base.MachInt Base.Sched Model.TaskSetModel Gen.GenTaskSet.
From DV Require Export Model.TaskSetImplCheck.
Import ListNotations.
Local Open Scope Z_scope.

Definition gen_code (d : dcase) : Z :=
  let ci := d_depth d <? c_kMaxInlineDepth in
  let f (g : Z -> Z -> bool -> bool -> bool -> bool -> Z -> Z -> Z -> Z -> Z -> Z) (cost : Z) :=
      g (d_out d) (d_lf d) (d_canc d) ci (d_skip d) (d_recursive d) (d_wr d) (d_n d) (d_plf d) (d_prlf2 d) cost in
  if d_cls d =? 0 then (if d_force d then f gen_tsk_schedule_force 0 else f gen_tsk_schedule 0)
  else if d_cls d =? 3 then (if d_force d then f gen_pool_schedule_force 0 else f gen_pool_schedule 0)
  else (if d_force d then f gen_cts_schedule_force (d_cls d - 1) else f gen_cts_schedule (d_cls d - 1)).

(* observation classes: 0 nothing happened, 1 raw functor on the caller during the call, 11 packaged wrapper on the caller during the
   call, 15 queued *)
Definition obs_class (d : dcase) : Z :=
  if d_cls d =? 3 then (if o_incall d =? 1 then 1 else 15)
  else if o_incall d =? 1 then (if o_fout d =? 0 then 1 else 11)
  else if (o_aout d =? 1) || (1 <=? o_ran d) then 15 else 0.   (* still counted after the call, or ran later on a pool thread *)
Definition exp_class (d : dcase) : Z :=
  let g := gen_code d in
  if d_cls d =? 3 then (if g =? 1 then 1 else 15)
  else if g =? 0 then 0 else if g =? 1 then 1
  else if g =? 11 then (if d_canc d then 0 else 11) else 15.
(* a queued task of a cancelled set may already have been dequeued and skipped by an idle worker when the caller looks: indistinguishable from "nothing" *)
Definition d_agrees (d : dcase) : bool :=
  if 0 <? d_bulk d then true
  else (obs_class d =? exp_class d) || ((exp_class d =? 15) && d_canc d && (obs_class d =? 0)).
(* 0 decision agrees with gen_* and the property holds; 1 differs, holds; 2 the property fails on the real code *)
Definition judge_C02_d (d : dcase) : Z := if negb (d_check_once d) then 2 else if d_agrees d then 0 else 1.
Definition judge_C04_d (d : dcase) : Z := if negb (d_check_C04 d) then 2 else if d_agrees d then 0 else 1.
Definition judge_C47_d (d : dcase) : Z := if negb (d_check_C47 d) || negb (d_bulk_ok d) then 2 else if d_agrees d then 0 else 1.
