(* Interleaving model of one dispenso timed task (dispenso/timed_task.h, timed_task.cpp, detail/timed_task_impl.h)
   at the granularity of the DISPENSO_VERIF_POINT hooks: one step = one atomic access of TimedTaskImpl, one access
   of the `func` cell (call / clear), or one harness point (run-loop pick, pool poll).  Executable; no proofs.

   Threads:  tid 0 = the scheduler role (TimedTaskScheduler::timeQueueRunLoop picking the due task, kickOffTask, and
                     the outer lambda stored in TimedTaskImpl::func, which runs on that thread);
             tid 1 = the user thread owning the TimedTask handle (cancel / detach / calls / ~TimedTask);
             tid 2.. = pool threads running the `wrap` closures that func schedules.
   The closure stored in `func` owns the user's functor f; `wrap` holds a reference to that f.  A "closure access"
   is a step that executes inside / reads the closure: the call of func, the three hook sites inside the outer
   lambda, and the call of f.  Accessing it after `func = {}` is a use-after-free (ghost counter [uaf]). *)
From Coq Require Import ZArith List Bool.
From DV Require Import Base.MachInt Base.Sched.
Import ListNotations.
Local Open Scope Z_scope.

Inductive uop := UCancel | UDetach | UCalls | UDtor.

(* scheduler role; [last] = fetch_sub returned 1 (the task is not re-queued after this kick-off) *)
Inductive spc := SStart | SPick | SKickSub | SCall (last : bool) | SFuncFlags (last : bool)
               | SFuncInc (last : bool) | SFuncSched (last : bool) | SEnd.
(* user thread; [d] = the cancel() inlined in the destructor *)
Inductive upc := UStart | UCancelStore (d : bool) | UCancelOr (d : bool) | UDetachOr | UCallsLoad
               | UDtorFlags | UDtorSpin | UDtorClear | UDone.
(* pool thread *)
Inductive wpc := WStart | WPoll | WFlags | WCall | WStore0 | WOr | WClear | WCount | WDec | WDone.

(* shared memory of the task *)
Record mem := MEM {
  ttr : Z;            (* timesToRun, size_t *)
  fcanc : bool;       (* flags & kFFlagsCancelled *)
  fdet : bool;        (* flags & kFFlagsDetached *)
  inprog : Z;         (* inProgress, uint32 *)
  count : Z;          (* count, size_t *)
  alive : bool;       (* func holds the closure (false after func = {}) *)
  q : Z;              (* wraps scheduled on the pool and not yet taken *)
  rets : list bool }. (* what the next invocations of f return (true when exhausted) *)

(* ghost bookkeeping used by the theorems and by the judge *)
Record ghost := GH {
  tickets : Z;        (* fetch_sub results >= 1 *)
  starts : Z;         (* invocations of f started *)
  acc : Z;            (* closure accesses *)
  uaf : Z;            (* closure accesses while func is cleared (use-after-free) *)
  badcall : Z;        (* calls of an empty func (std::bad_function_call on the scheduler thread) *)
  zeroed : bool;      (* some store of 0 to timesToRun has executed *)
  cancel_ret : bool;  (* an explicit cancel() has returned *)
  dtor_ret : bool;    (* the (non-detached) destructor has returned *)
  false_ret : bool;   (* some invocation has returned false *)
  late_start : Z;     (* invocations started after cancel() returned *)
  late_false : Z;     (* invocations started after an invocation returned false *)
  late_acc : Z;       (* closure accesses after the destructor returned *)
  slog : list (Z * Z * bool) }.   (* (tid, invocation index, functor already destroyed) newest first *)

Record state := ST { m : mem; sp : spc; up : upc; uprog : list uop; ures : list (Z * Z); pool : list wpc; g : ghost }.

(* site ids = positions in props/C26.py SITES *)
Definition s_start := 0.          Definition s_pick := 1.          Definition s_kick_sub := 2.
Definition s_kick_call := 3.      Definition s_func_flags := 4.    Definition s_func_inc := 5.
Definition s_func_sched := 6.     Definition s_poll := 7.          Definition s_wrap_flags := 8.
Definition s_wrap_call := 9.      Definition s_wrap_store := 10.   Definition s_wrap_or := 11.
Definition s_wrap_clear := 12.    Definition s_wrap_count := 13.   Definition s_wrap_dec := 14.
Definition s_cancel_store := 15.  Definition s_cancel_or := 16.    Definition s_detach_or := 17.
Definition s_calls_load := 18.    Definition s_dtor_flags := 19.   Definition s_dtor_spin := 20.
Definition s_dtor_clear := 21.

Definition r_calls := 1.

(* ---- memory updates ---- *)
Definition set_ttr (x : mem) (v : Z) := MEM v (fcanc x) (fdet x) (inprog x) (count x) (alive x) (q x) (rets x).
Definition set_canc (x : mem) := MEM (ttr x) true (fdet x) (inprog x) (count x) (alive x) (q x) (rets x).
Definition set_det (x : mem) := MEM (ttr x) (fcanc x) true (inprog x) (count x) (alive x) (q x) (rets x).
Definition set_inprog (x : mem) (v : Z) := MEM (ttr x) (fcanc x) (fdet x) v (count x) (alive x) (q x) (rets x).
Definition set_count (x : mem) (v : Z) := MEM (ttr x) (fcanc x) (fdet x) (inprog x) v (alive x) (q x) (rets x).
Definition set_clear (x : mem) := MEM (ttr x) (fcanc x) (fdet x) (inprog x) (count x) false (q x) (rets x).
Definition set_q (x : mem) (v : Z) := MEM (ttr x) (fcanc x) (fdet x) (inprog x) (count x) (alive x) v (rets x).
Definition pop_ret (x : mem) := MEM (ttr x) (fcanc x) (fdet x) (inprog x) (count x) (alive x) (q x) (tl (rets x)).

(* ---- ghost updates ---- *)
Definition g_access (al : bool) (x : ghost) : ghost :=
  GH (tickets x) (starts x) (acc x + 1) (uaf x + b2z (negb al)) (badcall x) (zeroed x) (cancel_ret x) (dtor_ret x)
     (false_ret x) (late_start x) (late_false x) (late_acc x + b2z (dtor_ret x)) (slog x).
Definition g_ticket (x : ghost) : ghost :=
  GH (tickets x + 1) (starts x) (acc x) (uaf x) (badcall x) (zeroed x) (cancel_ret x) (dtor_ret x)
     (false_ret x) (late_start x) (late_false x) (late_acc x) (slog x).
Definition g_badcall (x : ghost) : ghost :=
  GH (tickets x) (starts x) (acc x) (uaf x) (badcall x + 1) (zeroed x) (cancel_ret x) (dtor_ret x)
     (false_ret x) (late_start x) (late_false x) (late_acc x + b2z (dtor_ret x)) (slog x).
Definition g_zeroed (x : ghost) : ghost :=
  GH (tickets x) (starts x) (acc x) (uaf x) (badcall x) true (cancel_ret x) (dtor_ret x)
     (false_ret x) (late_start x) (late_false x) (late_acc x) (slog x).
Definition g_cancel_ret (x : ghost) : ghost :=
  GH (tickets x) (starts x) (acc x) (uaf x) (badcall x) (zeroed x) true (dtor_ret x)
     (false_ret x) (late_start x) (late_false x) (late_acc x) (slog x).
Definition g_dtor_ret (x : ghost) : ghost :=
  GH (tickets x) (starts x) (acc x) (uaf x) (badcall x) (zeroed x) (cancel_ret x) true
     (false_ret x) (late_start x) (late_false x) (late_acc x) (slog x).
(* an invocation of f starts on thread [tid]; [al] = closure still alive; [r] = its return value *)
Definition g_start (tid : Z) (al r : bool) (x : ghost) : ghost :=
  GH (tickets x) (starts x + 1) (acc x) (uaf x) (badcall x) (zeroed x) (cancel_ret x) (dtor_ret x)
     (false_ret x || negb r) (late_start x + b2z (cancel_ret x)) (late_false x + b2z (false_ret x)) (late_acc x)
     ((tid, starts x, negb al) :: slog x).

Fixpoint set_nth {A} (l : list A) (n : nat) (x : A) : list A :=
  match l, n with
  | [], _ => []
  | _ :: r, O => x :: r
  | y :: r, S k => y :: set_nth r k x
  end.

Definition sdone (p : spc) : bool := match p with SEnd => true | _ => false end.
Definition udone (p : upc) : bool := match p with UDone => true | _ => false end.
Definition wdone (p : wpc) : bool := match p with WDone => true | _ => false end.

Definition uentry (o : uop) : upc :=
  match o with UCancel => UCancelStore false | UDetach => UDetachOr | UCalls => UCallsLoad | UDtor => UDtorFlags end.

(* ---- state updates ---- *)
Definition upd_s (s : state) (m' : mem) (p : spc) (g' : ghost) : state := ST m' p (up s) (uprog s) (ures s) (pool s) g'.
Definition upd_u (s : state) (m' : mem) (p : upc) (g' : ghost) : state := ST m' (sp s) p (uprog s) (ures s) (pool s) g'.
Definition upd_w (s : state) (i : nat) (m' : mem) (p : wpc) (g' : ghost) : state :=
  ST m' (sp s) (up s) (uprog s) (ures s) (set_nth (pool s) i p) g'.
(* the user thread moves on to its next operation *)
Definition unext (s : state) (m' : mem) (g' : ghost) : state :=
  match uprog s with
  | [] => ST m' (sp s) UDone [] (ures s) (pool s) g'
  | o :: r => ST m' (sp s) (uentry o) r (ures s) (pool s) g'
  end.
Definition ulog (s : state) (tag v : Z) : state := ST (m s) (sp s) (up s) (uprog s) ((tag, v) :: ures s) (pool s) (g s).

(* where the scheduler role goes when func returns: back to the run loop if the task was re-queued *)
Definition after_func (last : bool) : spc := if last then SEnd else SPick.

Definition step_sched (s : state) : option (state * Z) :=
  let x := m s in let gh := g s in
  match sp s with
  | SStart => Some (upd_s s x SPick gh, s_start)
  | SPick => Some (upd_s s x SKickSub gh, s_pick)
  | SKickSub =>
      let r := ttr x in
      let x' := set_ttr x (wrap 64 (r - 1)) in
      if r =? 0 then Some (upd_s s x' SEnd gh, s_kick_sub)
      else Some (upd_s s x' (SCall (r =? 1)) (g_ticket gh), s_kick_sub)
  | SCall last =>
      if alive x then Some (upd_s s x (SFuncFlags last) (g_access true gh), s_kick_call)
      else Some (upd_s s x SEnd (g_badcall gh), s_kick_call)
  | SFuncFlags last =>
      if fcanc x then Some (upd_s s x (after_func last) (g_access (alive x) gh), s_func_flags)
      else Some (upd_s s x (SFuncInc last) (g_access (alive x) gh), s_func_flags)
  | SFuncInc last => Some (upd_s s (set_inprog x (wrap 32 (inprog x + 1))) (SFuncSched last) (g_access (alive x) gh), s_func_inc)
  | SFuncSched last => Some (upd_s s (set_q x (q x + 1)) (after_func last) (g_access (alive x) gh), s_func_sched)
  | SEnd => None
  end.

Definition step_user (s : state) : option (state * Z) :=
  let x := m s in let gh := g s in
  match up s with
  | UStart => Some (unext s x gh, s_start)
  | UCancelStore d => Some (upd_u s (set_ttr x 0) (UCancelOr d) (g_zeroed gh), s_cancel_store)
  | UCancelOr d =>
      if d then Some (upd_u s (set_canc x) UDtorSpin gh, s_cancel_or)
      else Some (unext s (set_canc x) (g_cancel_ret gh), s_cancel_or)
  | UDetachOr => Some (unext s (set_det x) gh, s_detach_or)
  | UCallsLoad => Some (unext (ulog s r_calls (count x)) x gh, s_calls_load)
  | UDtorFlags =>
      if fdet x then Some (upd_u s x UDone gh, s_dtor_flags)
      else Some (upd_u s x (UCancelStore true) gh, s_dtor_flags)
  | UDtorSpin =>
      if inprog x =? 0 then Some (upd_u s x UDtorClear gh, s_dtor_spin)
      else Some (upd_u s x UDtorSpin gh, s_dtor_spin)
  | UDtorClear => Some (upd_u s (set_clear x) UDone (g_dtor_ret gh), s_dtor_clear)
  | UDone => None
  end.

Definition step_pool (s : state) (i : nat) : option (state * Z) :=
  let x := m s in let gh := g s in
  match nth_error (pool s) i with
  | None => None
  | Some p =>
      match p with
      | WStart => Some (upd_w s i x WPoll gh, s_start)
      | WPoll =>
          if 0 <? q x then Some (upd_w s i (set_q x (q x - 1)) WFlags gh, s_poll)
          else if sdone (sp s) then Some (upd_w s i x WDone gh, s_poll)
          else Some (upd_w s i x WPoll gh, s_poll)
      | WFlags =>
          if fcanc x then Some (upd_w s i x WDec gh, s_wrap_flags)
          else Some (upd_w s i x WCall gh, s_wrap_flags)
      | WCall =>
          let r := hd true (rets x) in
          let gh' := g_start (Z.of_nat i + 2) (alive x) r (g_access (alive x) gh) in
          Some (upd_w s i (pop_ret x) (if r then WCount else WStore0) gh', s_wrap_call)
      | WStore0 => Some (upd_w s i (set_ttr x 0) WOr (g_zeroed gh), s_wrap_store)
      | WOr => Some (upd_w s i (set_canc x) WClear gh, s_wrap_or)
      | WClear => Some (upd_w s i (set_clear x) WCount gh, s_wrap_clear)
      | WCount => Some (upd_w s i (set_count x (wrap 64 (count x + 1))) WDec gh, s_wrap_count)
      | WDec => Some (upd_w s i (set_inprog x (wrap 32 (inprog x - 1))) WPoll gh, s_wrap_dec)
      | WDone => None
      end
  end.

Definition step (s : state) (t : nat) (ch : list Z) : option (state * list Z * Z) :=
  let r := match t with
           | O => step_sched s
           | S O => step_user s
           | S (S i) => step_pool s i
           end in
  match r with Some (s', site) => Some (s', ch, site) | None => None end.

Fixpoint pool_cands (l : list wpc) (i : nat) : list nat :=
  match l with
  | [] => []
  | p :: r => if wdone p then pool_cands r (S i) else i :: pool_cands r (S i)
  end.

Definition cands (s : state) : list nat :=
  (if sdone (sp s) then [] else [0%nat]) ++ (if udone (up s) then [] else [1%nat]) ++ pool_cands (pool s) 2.

Definition finished (s : state) : bool := sdone (sp s) && udone (up s) && forallb wdone (pool s).

Definition gh0 : ghost := GH 0 0 0 0 0 false false false false 0 0 0 [].

(* n = timesToRun given to schedule(); npool pool threads; rs = return values of f; prog = the user's operations *)
Definition init (n : Z) (npool : nat) (rs : list bool) (prog : list uop) : state :=
  ST (MEM n false false 0 0 true 0 rs) SStart UStart prog [] (repeat WStart npool) gh0.

Definition run_tt (fuel : nat) (n : Z) (npool : nat) (rs : list bool) (prog : list uop) (sched : list Z) :=
  run step cands finished fuel (init n npool rs prog) sched [].

Definition flags_word (x : mem) : Z := b2z (fdet x) + 2 * b2z (fcanc x).

(* ---------------------------------------------------------------------------------------------------------------
   Clock layer (pattern of Model/TimedModel.v): an abstract nanosecond clock; the run loop (and addTimedTask, which
   uses the same test) may pick the task only when timeRemaining = nextAbsTime - now < eps (eps = kSmallTimeBuffer);
   when kickOffTask re-queues the task it advances nextAbsTime (steady: += period; normal: curTime + period, curTime
   being the time the run loop read before the pick).  [tlog] records the clock at every start of the functor. *)
Record cstate := CS {
  base : state;
  now : Z;
  nextAbs : Z;
  curT : Z;                 (* the run loop's curTime of the latest pick *)
  tfirst : option Z;        (* clock at the first pick *)
  tlog : list Z }.          (* clock at each invocation start, newest first *)

Inductive cev := Tick (d : Z) | Thr (t : nat).

Definition is_pick (p : spc) : bool := match p with SPick => true | _ => false end.
Definition is_requeue (p p' : spc) : bool :=
  match p, p' with
  | SFuncSched false, SPick => true
  | SFuncFlags false, SPick => true
  | _, _ => false
  end.
Definition at_call (s : state) (t : nat) : bool :=
  match t with
  | S (S i) => match nth_error (pool s) i with Some WCall => true | _ => false end
  | _ => false
  end.

Definition cstep (eps period : Z) (steady : bool) (s : cstate) (e : cev) : option cstate :=
  match e with
  | Tick d => if 0 <=? d then Some (CS (base s) (now s + d) (nextAbs s) (curT s) (tfirst s) (tlog s)) else None
  | Thr t =>
      match step (base s) t [] with
      | None => None
      | Some (b', _, _) =>
          match t with
          | O =>
              if is_pick (sp (base s)) then
                if nextAbs s - now s <? eps
                then Some (CS b' (now s) (nextAbs s) (now s) (match tfirst s with None => Some (now s) | x => x end) (tlog s))
                else None
              else if is_requeue (sp (base s)) (sp b')
              then Some (CS b' (now s) (if steady then nextAbs s + period else curT s + period) (curT s) (tfirst s) (tlog s))
              else Some (CS b' (now s) (nextAbs s) (curT s) (tfirst s) (tlog s))
          | _ =>
              if at_call (base s) t
              then Some (CS b' (now s) (nextAbs s) (curT s) (tfirst s) (now s :: tlog s))
              else Some (CS b' (now s) (nextAbs s) (curT s) (tfirst s) (tlog s))
          end
      end
  end.

(* the task is created at clock [t0] with first scheduled time [first] *)
Definition cinit (t0 first n : Z) (npool : nat) (rs : list bool) (prog : list uop) : cstate :=
  CS (init n npool rs prog) t0 first 0 None [].

Fixpoint crun (eps period : Z) (steady : bool) (s : cstate) (evs : list cev) : option cstate :=
  match evs with
  | [] => Some s
  | e :: r => match cstep eps period steady s e with Some s' => crun eps period steady s' r | None => None end
  end.
