(* Event-level model of dispenso::ThreadPool (dispenso/thread_pool.h, thread_pool.cpp): the thread-pool core shared by
   C01 / C03 / C08 (DESIGN §6.A).  Executable Gallina only; no proofs.

   Granularity: one EVENT = one DISPENSO_VERIF_EVENT("<name>", this, a, b) hook of the real code (plus the harness events
   gen / body.begin / body.end / worker.begin / worker.end).  Between two events of a thread the ring buffers,
   moodycamel::ConcurrentQueue and the wake state run atomically (MPMC ring linearizability = C34, moodycamel trusted);
   sleeping / waking of workers is abstract (C07/C09's model).  [accept s tid e] checks that [e] is enabled for thread
   [tid] in [s] AS THE CODE'S LOGIC REQUIRES and applies it; a trace of the implementation is judged by folding [accept]
   over it (acceptance, not prediction: a popped task's identity is the observed one).

   Capacities / sharing factor are Section parameters (Ring = MpmcRingBuffer<_,16>, StealRing capacity 32, kStealRingSharing 8
   on the current tree; the theorems do not depend on the values). *)
From Coq Require Import ZArith List Bool.
Import ListNotations.
Local Open Scope Z_scope.

Definition id := Z.

(* how a popped task is accounted for when its body returns *)
Inductive hkind :=
| KInline    (* run by the submitter, never counted in workRemaining_ *)
| KLocal     (* tryFindAndExecuteWork: task(); ++localWorkDone, flushed later *)
| KExec.     (* executeNext / the ring and steal-ring drains of resizeLocked and ~ThreadPool: task(); workRemaining_ -= 1 *)

(* per-frame obligation of a thread inside a submission function *)
Inductive pc :=
| PRun
| PForceAdd      (* forceEnqueue read numThreads_ != 0: next event is the +1 *)
| PMustInline    (* forceEnqueue read numThreads_ == 0: next event is the inline call *)
| PMustCentral   (* a ring / steal-ring push failed (or a batch was short): head of pend goes to the central queue next *)
| PFellBack.     (* the fallback enqueue happened; "ring.push.end" of that push statement is a no-op *)

Inductive role := RNone | RWorker (idx : nat) | REnded.

Record thread := TH {
  trole : role;
  pend : list id;                   (* generated, not yet placed (FIFO) *)
  held : option (id * hkind);       (* popped / taken for inline execution, body not yet begun *)
  exec : list (id * hkind);         (* bodies in progress, innermost first *)
  tpc : pc; pcstk : list pc;        (* obligation of the current frame; saved obligations of the outer frames *)
  lwd : Z;                          (* localWorkDone of threadLoopImpl *)
  owed : Z;                         (* executeNext decrements not yet performed *)
  credit : Z;                       (* added to workRemaining_ for items not yet placed *)
  ringCount : Z }.                  (* the numRings_ value scheduleBulkToRings holds across its pushes *)

Definition th0 : thread := TH RNone [] None [] PRun [] 0 0 0 0.

Inductive phase :=
| PhBegin | PhStopped | PhWoken | PhCentral1 | PhJoining | PhJoined
| PhRings (i : nat) | PhSteals (i : nat) | PhDrained
| PhStoredRings | PhStoredSteal | PhStoredThreads | PhStarted | PhFinalDrained.

Inductive rzs :=
| RIdle
| RActive (who : nat) (dtor : bool) (target : Z) (ph : phase)
| RDead.

Record state := ST {
  central : list (Z * id);          (* (producer key, id) in enqueue order; per-key FIFO *)
  rings : list (list id);           (* rings_ arena, head = next to pop *)
  steals : list (list id);          (* stealRings_ arena *)
  wr : Z;                           (* workRemaining_ *)
  numThreads : Z; numRings : Z; numSteal : Z;
  threads : list thread;
  rz : rzs;
  nworkers : Z;                     (* live pool workers *)
  gens : list id;                   (* ghost: every id ever generated *)
  done : list id }.                 (* ghost: ids whose body returned (with multiplicity) *)

(* ---------- total list access with default and padding ---------- *)
Definition lget {A} (d : A) (i : nat) (l : list A) : A := nth i l d.
Fixpoint lset {A} (d : A) (i : nat) (x : A) (l : list A) : list A :=
  match i, l with
  | O, [] => [x]
  | O, _ :: r => x :: r
  | S i', [] => d :: lset d i' x []
  | S i', y :: r => y :: lset d i' x r
  end.

Definition getT (s : state) (t : nat) : thread := lget th0 t (threads s).
Definition setT (s : state) (t : nat) (th : thread) : state :=
  ST (central s) (rings s) (steals s) (wr s) (numThreads s) (numRings s) (numSteal s) (lset th0 t th (threads s))
     (rz s) (nworkers s) (gens s) (done s).

Definition set_central (s : state) c := ST c (rings s) (steals s) (wr s) (numThreads s) (numRings s) (numSteal s) (threads s) (rz s) (nworkers s) (gens s) (done s).
Definition set_rings (s : state) r := ST (central s) r (steals s) (wr s) (numThreads s) (numRings s) (numSteal s) (threads s) (rz s) (nworkers s) (gens s) (done s).
Definition set_steals (s : state) r := ST (central s) (rings s) r (wr s) (numThreads s) (numRings s) (numSteal s) (threads s) (rz s) (nworkers s) (gens s) (done s).
Definition set_wr (s : state) v := ST (central s) (rings s) (steals s) v (numThreads s) (numRings s) (numSteal s) (threads s) (rz s) (nworkers s) (gens s) (done s).
Definition set_numThreads (s : state) v := ST (central s) (rings s) (steals s) (wr s) v (numRings s) (numSteal s) (threads s) (rz s) (nworkers s) (gens s) (done s).
Definition set_numRings (s : state) v := ST (central s) (rings s) (steals s) (wr s) (numThreads s) v (numSteal s) (threads s) (rz s) (nworkers s) (gens s) (done s).
Definition set_numSteal (s : state) v := ST (central s) (rings s) (steals s) (wr s) (numThreads s) (numRings s) v (threads s) (rz s) (nworkers s) (gens s) (done s).
Definition set_rz (s : state) v := ST (central s) (rings s) (steals s) (wr s) (numThreads s) (numRings s) (numSteal s) (threads s) v (nworkers s) (gens s) (done s).
Definition set_nworkers (s : state) v := ST (central s) (rings s) (steals s) (wr s) (numThreads s) (numRings s) (numSteal s) (threads s) (rz s) v (gens s) (done s).
Definition set_gens (s : state) v := ST (central s) (rings s) (steals s) (wr s) (numThreads s) (numRings s) (numSteal s) (threads s) (rz s) (nworkers s) v (done s).
Definition set_done (s : state) v := ST (central s) (rings s) (steals s) (wr s) (numThreads s) (numRings s) (numSteal s) (threads s) (rz s) (nworkers s) (gens s) v.

Definition with_pend (th : thread) v := TH (trole th) v (held th) (exec th) (tpc th) (pcstk th) (lwd th) (owed th) (credit th) (ringCount th).
Definition with_held (th : thread) v := TH (trole th) (pend th) v (exec th) (tpc th) (pcstk th) (lwd th) (owed th) (credit th) (ringCount th).
Definition with_exec (th : thread) v := TH (trole th) (pend th) (held th) v (tpc th) (pcstk th) (lwd th) (owed th) (credit th) (ringCount th).
Definition with_pc (th : thread) v := TH (trole th) (pend th) (held th) (exec th) v (pcstk th) (lwd th) (owed th) (credit th) (ringCount th).
Definition with_pcstk (th : thread) v := TH (trole th) (pend th) (held th) (exec th) (tpc th) v (lwd th) (owed th) (credit th) (ringCount th).
Definition with_lwd (th : thread) v := TH (trole th) (pend th) (held th) (exec th) (tpc th) (pcstk th) v (owed th) (credit th) (ringCount th).
Definition with_owed (th : thread) v := TH (trole th) (pend th) (held th) (exec th) (tpc th) (pcstk th) (lwd th) v (credit th) (ringCount th).
Definition with_credit (th : thread) v := TH (trole th) (pend th) (held th) (exec th) (tpc th) (pcstk th) (lwd th) (owed th) v (ringCount th).
Definition with_ringCount (th : thread) v := TH (trole th) (pend th) (held th) (exec th) (tpc th) (pcstk th) (lwd th) (owed th) (credit th) v.
Definition with_role (th : thread) v := TH v (pend th) (held th) (exec th) (tpc th) (pcstk th) (lwd th) (owed th) (credit th) (ringCount th).

Inductive event :=
| EGen (t : id)                              (* harness: task t created by the submitting thread *)
| ELoadNumThreads (nz : bool) (site : Z)     (* "pool.load.numThreads": site 1 forceEnqueue, 2 scheduleBulkImpl *)
| EAdd (n site : Z)                          (* "pool.wr.add": 1 forceEnqueue, 2 scheduleBulkEnqueue, 3 scheduleBulkToRings, 4 bulk placed *)
| ESub (n site : Z)                          (* "pool.wr.sub": 1 executeNext, 2/3 worker flushes, 4 bulk enqueue failure, 5 drain-loop decrement *)
| EEnqCentral (tok n : Z)                    (* "pool.enq.central" *)
| ERingPushFail (r : Z)                      (* "pool.ring.push" r 0 *)
| ERingPushEnd (r : Z)                       (* "pool.ring.push.end" r *)
| EPushBatch (r k : Z)                       (* "pool.ring.push_batch" r pushed *)
| EStealPush (i : Z) (ok : bool)             (* "pool.steal.push" i ok *)
| ELoadNumRings (v count : Z)                (* "pool.load.numRings" *)
| EInline (site : Z)                         (* "pool.inline" *)
| EPopCentral (t : id) (site : Z)            (* "pool.pop.central": 0 tryExecuteNext, 1 worker, 2 from producer token *)
| EPopRing (r : Z) (t : id) (site : Z)       (* "pool.pop.ring": r = -1 own ring (site 0), site 1 tryExecuteNextFromRings *)
| EPopSteal (i : Z) (t : id) (site : Z)      (* "pool.pop.steal": 0 own, 1 cross-ring, 2 worker outer loop (executeNext) *)
| EBodyBegin (t : id) | EBodyEnd (t : id)
| EWorkerBegin (idx : Z) | EWorkerEnd (idx : Z)
| EResizeBegin (n : Z) | EStopAll | EWakeAll | ECentralDone (site : Z) | EJoinBegin | EJoinDone
| EDrainRing (i : Z) (t : id) | ERingDone (i : Z) | EDrainSteal (i : Z) (t : id) | EStealDone (i : Z)
| EStoreNumRings (n : Z) | EStoreNumSteal (v : Z) | EStoreNumThreads (n : Z) | EThreadsStarted (n : Z)
| EResizeEnd | EDtorBegin | EDtorEnd.

Definition guard {A} (b : bool) (k : option A) : option A := if b then k else None.

Definition pc_eqb (a b : pc) : bool :=
  match a, b with PRun, PRun | PForceAdd, PForceAdd | PMustInline, PMustInline | PMustCentral, PMustCentral | PFellBack, PFellBack => true | _, _ => false end.
(* frames in which ordinary events are allowed *)
Definition pc_free (p : pc) : bool := match p with PRun | PFellBack => true | _ => false end.
Definition is_none {A} (o : option A) : bool := match o with None => true | Some _ => false end.
Definition nilb {A} (l : list A) : bool := match l with [] => true | _ => false end.
Definition len {A} (l : list A) : Z := Z.of_nat (length l).

Fixpoint mem (t : id) (l : list id) : bool := match l with [] => false | x :: r => (x =? t) || mem t r end.

(* remove the first entry of key k provided it carries id t and no earlier entry has key k *)
Fixpoint take_central (t : id) (l : list (Z * id)) (seen : list Z) : option (list (Z * id)) :=
  match l with
  | [] => None
  | (k, x) :: r =>
      if (x =? t) && negb (mem k seen) then Some r
      else match take_central t r (k :: seen) with Some r' => Some ((k, x) :: r') | None => None end
  end.

Section Model.
  Variables rcap scap share : Z.

  Definition steal_count (n : Z) : Z := if n <=? 0 then 0 else (n + share - 1) / share.

  Definition init (n0 : Z) : state :=
    ST [] (repeat [] (Z.to_nat n0)) (repeat [] (Z.to_nat (steal_count n0))) 0
       n0 n0 (steal_count n0) [] RIdle 0 [] [].

  Definition pkey (tid : nat) (tok : Z) : Z := if tok =? 0 then Z.of_nat tid else 1000 + tok.

  (* phase reached after the ring / steal-ring cursor moved past index i *)
  Definition steal_phase (s : state) (i : nat) : phase :=
    if Nat.ltb i (length (steals s)) then PhSteals i else PhDrained.
  Definition ring_phase (s : state) (i : nat) : phase :=
    if Nat.ltb i (length (rings s)) then PhRings i else steal_phase s 0.
  Definition after_ring (s : state) (i : nat) : phase := ring_phase s (S i).
  Definition after_steal (s : state) (i : nat) : phase := steal_phase s (S i).

  Definition idle_thread (th : thread) : bool :=
    nilb (pend th) && is_none (held th) && nilb (exec th) && pc_free (tpc th) && nilb (pcstk th) &&
    (lwd th =? 0) && (owed th =? 0) && (credit th =? 0).

  (* the part of [accept] executed by the thread that runs resizeLocked / ~ThreadPool *)
  Definition accept_rz (s : state) (tid : nat) (e : event) : option state :=
    let th := getT s tid in
    match rz s, e with
    | RIdle, EResizeBegin n =>
        guard ((0 <=? n) && negb (n =? numThreads s) && pc_free (tpc th) && nilb (pend th)) (Some (set_rz s (RActive tid false n PhBegin)))
    | RIdle, EDtorBegin =>
        guard (pc_free (tpc th) && nilb (pend th)) (Some (set_rz s (RActive tid true 0 PhBegin)))
    | RActive who dt n ph, _ =>
        guard (Nat.eqb who tid && nilb (pend th))    (* resizeLocked / ~ThreadPool never run in the middle of a submission of the same thread *)
        match ph, e with
        | PhBegin, EStopAll => Some (set_rz s (RActive who dt n PhStopped))
        | PhStopped, EWakeAll => Some (set_rz s (RActive who dt n PhWoken))
        | PhWoken, ECentralDone site =>
            guard (nilb (central s) && (site =? (if dt then 2 else 0))) (Some (set_rz s (RActive who dt n PhCentral1)))
        | PhCentral1, EJoinBegin => Some (set_rz s (RActive who dt n PhJoining))
        | PhJoining, EJoinDone =>
            guard (nworkers s =? 0) (Some (set_rz s (RActive who dt n (if dt then PhJoined else ring_phase s 0))))
        | PhJoined, ECentralDone site =>
            guard (nilb (central s) && (site =? 3)) (Some (set_rz s (RActive who dt n (ring_phase s 0))))
        | PhRings i, EDrainRing j t =>
            guard ((j =? Z.of_nat i) && is_none (held th))
            match lget [] i (rings s) with
            | x :: r => guard (x =? t)
                (Some (setT (set_rings s (lset [] i r (rings s))) tid (with_held th (Some (t, KExec)))))
            | [] => None
            end
        | PhRings i, ERingDone j =>
            guard ((j =? Z.of_nat i) && nilb (lget [] i (rings s)) && Nat.ltb i (length (rings s)))
                  (Some (set_rz s (RActive who dt n (after_ring s i))))
        | PhSteals i, EDrainSteal j t =>
            guard ((j =? Z.of_nat i) && is_none (held th))
            match lget [] i (steals s) with
            | x :: r => guard (x =? t)
                (Some (setT (set_steals s (lset [] i r (steals s))) tid (with_held th (Some (t, KExec)))))
            | [] => None
            end
        | PhSteals i, EStealDone j =>
            guard ((j =? Z.of_nat i) && nilb (lget [] i (steals s)) && Nat.ltb i (length (steals s)))
                  (Some (set_rz s (RActive who dt n (after_steal s i))))
        | PhDrained, EStoreNumRings v =>
            guard (negb dt && (0 <? n) && (v =? n))
                  (Some (set_rz (set_numRings (set_rings s (rings s ++ repeat [] (Z.to_nat n - length (rings s)))) n) (RActive who dt n PhStoredRings)))
        | PhStoredRings, EStoreNumSteal v =>
            guard (v =? steal_count n)
                  (Some (set_rz (set_numSteal (set_steals s (steals s ++ repeat [] (Z.to_nat v - length (steals s)))) v) (RActive who dt n PhStoredSteal)))
        | PhDrained, EStoreNumSteal v =>
            guard (negb dt && (n =? 0) && (v =? 0)) (Some (set_rz (set_numSteal s 0) (RActive who dt n PhStoredSteal)))
        | PhStoredSteal, EStoreNumThreads v =>
            guard (v =? n) (Some (set_rz (set_numThreads s n) (RActive who dt n PhStoredThreads)))
        | PhStoredThreads, EThreadsStarted v =>
            guard (v =? n) (Some (set_rz s (RActive who dt n PhStarted)))
        | PhStarted, ECentralDone site =>
            guard ((n =? 0) && (site =? 1) && nilb (central s)) (Some (set_rz s (RActive who dt n PhFinalDrained)))
        | PhStarted, EResizeEnd => guard (negb dt && (0 <? n)) (Some (set_rz s RIdle))
        | PhFinalDrained, EResizeEnd => guard (negb dt) (Some (set_rz s RIdle))
        | PhDrained, EDtorEnd =>
            guard (dt && nilb (pend th) && is_none (held th) && nilb (exec th)) (Some (set_rz s RDead))
        | _, _ => None
        end
    | _, _ => None
    end.

  Definition is_rz_event (e : event) : bool :=
    match e with
    | EResizeBegin _ | EStopAll | EWakeAll | ECentralDone _ | EJoinBegin | EJoinDone | EDrainRing _ _ | ERingDone _
    | EDrainSteal _ _ | EStealDone _ | EStoreNumRings _ | EStoreNumSteal _ | EStoreNumThreads _ | EThreadsStarted _
    | EResizeEnd | EDtorBegin | EDtorEnd => true
    | _ => false
    end.

  Definition stopping (s : state) : bool :=
    match rz s with
    | RActive _ _ _ (PhStopped | PhWoken | PhCentral1 | PhJoining) => true
    | _ => false
    end.

  Definition kind_of_pop (site : Z) (execSite : Z) : hkind := if site =? execSite then KExec else KLocal.

  (* a frame with a pending obligation can only perform the obligated event *)
  Definition pc_allows (p : pc) (e : event) : bool :=
    match p, e with
    | PMustCentral, EEnqCentral _ _ => true
    | PMustCentral, _ => false
    | PMustInline, EInline _ => true
    | PMustInline, _ => false
    | PForceAdd, EAdd _ _ => true
    | PForceAdd, _ => false
    | _, _ => true
    end.

  Definition accept (s : state) (tid : nat) (e : event) : option state :=
    let th := getT s tid in
    match trole th with
    | REnded => None
    | _ =>
    if negb (pc_allows (tpc th) e) then None else
    if is_rz_event e then accept_rz s tid e else
    match e with
    | EGen t =>
        guard (negb (mem t (gens s)) && negb (pc_eqb (tpc th) PMustCentral) && negb (pc_eqb (tpc th) PForceAdd))
          (Some (set_gens (setT s tid (with_pc (with_pend th (pend th ++ [t])) (if pc_eqb (tpc th) PFellBack then PRun else tpc th))) (t :: gens s)))
    | ELoadNumThreads nz site =>
        guard (Bool.eqb nz (negb (numThreads s =? 0)) && pc_free (tpc th))
          (if site =? 1 then guard (negb (nilb (pend th))) (Some (setT s tid (with_pc th (if nz then PForceAdd else PMustInline))))
           else Some s)
    | EAdd n site =>
        guard ((1 <=? n) && (if site =? 1 then pc_eqb (tpc th) PForceAdd && (n =? 1) else pc_free (tpc th)))
          (Some (set_wr (setT s tid (with_pc (with_credit th (credit th + n)) PRun)) (wr s + n)))
    | ESub n site =>
        if (site =? 1) || (site =? 5) then
          guard ((n =? 1) && (1 <=? owed th)) (Some (set_wr (setT s tid (with_owed th (owed th - 1))) (wr s - 1)))
        else if site =? 4 then
          guard ((1 <=? n) && (n <=? credit th)) (Some (set_wr (setT s tid (with_credit th (credit th - n))) (wr s - n)))
        else
          guard ((1 <=? n) && (n =? lwd th) && nilb (exec th) && is_none (held th))
                (Some (set_wr (setT s tid (with_lwd th 0)) (wr s - n)))
    | EEnqCentral tok n =>
        guard ((1 <=? n) && (n <=? len (pend th)) && (n <=? credit th) &&
               (pc_free (tpc th) || (pc_eqb (tpc th) PMustCentral && (n =? 1))))
          (let moved := firstn (Z.to_nat n) (pend th) in
           let rest := skipn (Z.to_nat n) (pend th) in
           let p' := if pc_eqb (tpc th) PMustCentral then (if nilb rest then PFellBack else PMustCentral) else tpc th in
           Some (set_central (setT s tid (with_pc (with_credit (with_pend th rest) (credit th - n)) p'))
                             (central s ++ map (fun x => (pkey tid tok, x)) moved)))
    | ERingPushFail r =>
        guard ((0 <=? r) && (r <? ringCount th) && pc_free (tpc th) && negb (nilb (pend th)) &&
               (rcap <=? len (lget [] (Z.to_nat r) (rings s))))
          (Some (setT s tid (with_pc th PMustCentral)))
    | ERingPushEnd r =>
        if pc_eqb (tpc th) PFellBack then Some (setT s tid (with_pc th PRun)) else
        match pend th with
        | t :: rest =>
            guard ((0 <=? r) && (r <? ringCount th) && pc_eqb (tpc th) PRun && (1 <=? credit th) &&
                   Nat.ltb (Z.to_nat r) (length (rings s)) && (len (lget [] (Z.to_nat r) (rings s)) <? rcap))
              (Some (set_rings (setT s tid (with_credit (with_pend th rest) (credit th - 1)))
                               (lset [] (Z.to_nat r) (lget [] (Z.to_nat r) (rings s) ++ [t]) (rings s))))
        | [] => None
        end
    | EPushBatch r k =>
        let ring := lget [] (Z.to_nat r) (rings s) in
        guard ((0 <=? r) && (r <? ringCount th) && pc_free (tpc th) && Nat.ltb (Z.to_nat r) (length (rings s)) &&
               (k =? Z.min (len (pend th)) (Z.max 0 (rcap - len ring))) && (k <=? credit th) && negb (nilb (pend th)))
          (let moved := firstn (Z.to_nat k) (pend th) in
           let rest := skipn (Z.to_nat k) (pend th) in
           Some (set_rings (setT s tid (with_pc (with_credit (with_pend th rest) (credit th - k)) (if nilb rest then PRun else PMustCentral)))
                           (lset [] (Z.to_nat r) (ring ++ moved) (rings s))))
    | EStealPush i ok =>
        let ring := lget [] (Z.to_nat i) (steals s) in
        guard ((0 <=? i) && pc_free (tpc th) && negb (nilb (pend th)))
          (if ok then
             match pend th with
             | t :: rest =>
                 guard ((i <? numSteal s) && Nat.ltb (Z.to_nat i) (length (steals s)) && (len ring <? scap) && (1 <=? credit th))
                   (Some (set_steals (setT s tid (with_credit (with_pend th rest) (credit th - 1)))
                                     (lset [] (Z.to_nat i) (ring ++ [t]) (steals s))))
             | [] => None
             end
           else guard ((numSteal s <=? i) || (scap <=? len ring)) (Some (setT s tid (with_pc th PMustCentral))))
    | ELoadNumRings v count =>
        guard ((v =? numRings s) && pc_free (tpc th)) (Some (setT s tid (with_ringCount th v)))
    | EInline site =>
        match pend th with
        | t :: rest =>
            guard (is_none (held th) && (if site =? 1 then pc_eqb (tpc th) PMustInline else pc_free (tpc th)))
              (Some (setT s tid (with_pc (with_held (with_pend th rest) (Some (t, KInline))) PRun)))
        | [] => None
        end
    | EPopCentral t site =>
        guard (is_none (held th) && pc_free (tpc th))
          match take_central t (central s) [] with
          | Some c' => Some (set_central (setT s tid (with_held th (Some (t, if site =? 1 then KLocal else KExec)))) c')
          | None => None
          end
    | EPopRing r t site =>
        let idx := if r =? -1 then match trole th with RWorker i => Some i | _ => None end
                   else if (0 <=? r) && (r <? numRings s) && (site =? 1) then Some (Z.to_nat r) else None in
        match idx with
        | Some i =>
            guard (is_none (held th) && pc_free (tpc th))
            match lget [] i (rings s) with
            | x :: rest => guard (x =? t)
                (Some (set_rings (setT s tid (with_held th (Some (t, if site =? 1 then KExec else KLocal)))) (lset [] i rest (rings s))))
            | [] => None
            end
        | None => None
        end
    | EPopSteal i t site =>
        guard ((0 <=? i) && is_none (held th) && pc_free (tpc th))
        match lget [] (Z.to_nat i) (steals s) with
        | x :: rest => guard (x =? t)
            (Some (set_steals (setT s tid (with_held th (Some (t, if site =? 2 then KExec else KLocal)))) (lset [] (Z.to_nat i) rest (steals s))))
        | [] => None
        end
    | EBodyBegin t =>
        match held th with
        | Some (x, k) =>
            guard (x =? t) (Some (setT s tid (with_pcstk (with_pc (with_exec (with_held th None) ((t, k) :: exec th)) PRun) (tpc th :: pcstk th))))
        | None =>
            match pend th with
            | x :: rest =>     (* inline execution by a layer above the pool (e.g. TaskSetBase::invokeInline, gen(i)() loops) *)
                guard ((x =? t) && pc_free (tpc th))
                  (Some (setT s tid (with_pcstk (with_pc (with_exec (with_pend th rest) ((t, KInline) :: exec th)) PRun) (tpc th :: pcstk th))))
            | [] => None
            end
        end
    | EBodyEnd t =>
        match exec th, pcstk th with
        | (x, k) :: rest, p :: ps =>
            guard ((x =? t) && pc_free (tpc th) && is_none (held th) && nilb (pend th))
              (let th1 := with_pcstk (with_pc (with_exec th rest) p) ps in
               let th2 := match k with KLocal => with_lwd th1 (lwd th1 + 1) | KExec => with_owed th1 (owed th1 + 1) | _ => th1 end in
               Some (set_done (setT s tid th2) (t :: done s)))
        | _, _ => None
        end
    | EWorkerBegin idx =>
        match trole th with
        | RNone => guard ((0 <=? idx) && (idx <? numThreads s) && (nworkers s <? numThreads s) && idle_thread th)
                     (Some (set_nworkers (setT s tid (with_role th (RWorker (Z.to_nat idx)))) (nworkers s + 1)))
        | _ => None
        end
    | EWorkerEnd idx =>
        match trole th with
        | RWorker i => guard ((idx =? Z.of_nat i) && stopping s && idle_thread th)
                     (Some (set_nworkers (setT s tid (with_role th REnded)) (nworkers s - 1)))
        | _ => None
        end
    | _ => None
    end
    end.

  Fixpoint accepts (s : state) (tr : list (nat * event)) : option state :=
    match tr with
    | [] => Some s
    | (t, e) :: r => match accept s t e with Some s' => accepts s' r | None => None end
    end.

  (* index of the first rejected event (length of the trace when all are accepted) and the state reached *)
  Fixpoint accepts_upto (s : state) (tr : list (nat * event)) (k : nat) : state * nat * bool :=
    match tr with
    | [] => (s, k, true)
    | (t, e) :: r => match accept s t e with Some s' => accepts_upto s' r (S k) | None => (s, k, false) end
    end.

  (* ---------- C03: which tiers will still be polled / drained ("open" for new items, "covered" for queued ones) ---------- *)
  Definition pre_drain (ph : phase) : bool :=
    match ph with PhBegin | PhStopped | PhWoken | PhCentral1 | PhJoining | PhJoined => true | _ => false end.
  Definition ring_drain_pending (ph : phase) (r : nat) : bool :=
    pre_drain ph || match ph with PhRings i => Nat.leb i r | _ => false end.
  Definition steal_drain_pending (ph : phase) (r : nat) : bool :=
    pre_drain ph || match ph with PhRings _ => true | PhSteals i => Nat.leb i r | _ => false end.
  Definition before_store_rings (ph : phase) : bool :=
    pre_drain ph || match ph with PhRings _ | PhSteals _ | PhDrained => true | _ => false end.
  Definition before_store_steal (ph : phase) : bool :=
    before_store_rings ph || match ph with PhStoredRings => true | _ => false end.

  (* the ring count / steal-ring count that pollers will use once the operation in progress has finished *)
  Definition fut_rings (s : state) : Z :=
    match rz s with
    | RIdle => numRings s
    | RActive _ false n ph => if (0 <? n) && before_store_rings ph then n else numRings s
    | _ => 0
    end.
  Definition fut_steal (s : state) : Z :=
    match rz s with
    | RIdle => numSteal s
    | RActive _ false n ph => if before_store_steal ph then steal_count n else numSteal s
    | _ => 0
    end.
  Definition ring_open (s : state) (r : nat) : bool :=
    (Z.of_nat r <? fut_rings s) || match rz s with RActive _ _ _ ph => ring_drain_pending ph r | _ => false end.
  Definition steal_open (s : state) (r : nat) : bool :=
    (Z.of_nat r <? fut_steal s) || match rz s with RActive _ _ _ ph => steal_drain_pending ph r | _ => false end.
  Definition central_open (s : state) : bool :=
    match rz s with
    | RIdle => 0 <? numThreads s
    | RActive _ false n ph => (0 <? n) || match ph with PhFinalDrained => false | _ => true end
    | RActive _ true _ ph => pre_drain ph
    | RDead => false
    end.

  Fixpoint all_from {A} (f : nat -> A -> bool) (i : nat) (l : list A) : bool :=
    match l with [] => true | x :: r => f i x && all_from f (S i) r end.
  (* every queued task sits in a tier that will still be polled or drained *)
  Definition covered (s : state) : bool :=
    all_from (fun i q => nilb q || ring_open s i) 0 (rings s) &&
    all_from (fun i q => nilb q || steal_open s i) 0 (steals s) &&
    (nilb (central s) || central_open s).

  (* a placement into a tier that is closed at the time of the placement: 1 ring, 2 central queue, 3 steal ring, 0 none *)
  Definition stale_place (s : state) (tid : nat) (e : event) : Z :=
    let th := getT s tid in
    match e with
    | ERingPushEnd r => if pc_eqb (tpc th) PFellBack then 0 else if ring_open s (Z.to_nat r) then 0 else 1
    | EPushBatch r k => if (0 <? k) && negb (ring_open s (Z.to_nat r)) then 1 else 0
    | EEnqCentral _ _ => if central_open s then 0 else 2
    | EStealPush i true => if steal_open s (Z.to_nat i) then 0 else 3
    | _ => 0
    end.

  (* run a trace; result: state reached, number of accepted events, all accepted?, first stale placement kind (0 = none),
     and the states at the requested positions are obtained with [state_at] *)
  Fixpoint run_trace (s : state) (tr : list (nat * event)) (k : nat) (stale : Z) : state * nat * bool * Z :=
    match tr with
    | [] => (s, k, true, stale)
    | (t, e) :: r =>
        match accept s t e with
        | Some s' => run_trace s' r (S k) (if stale =? 0 then stale_place s t e else stale)
        | None => (s, k, false, stale)
        end
    end.
  Fixpoint state_at (s : state) (tr : list (nat * event)) (k : nat) : option state :=
    match k, tr with
    | O, _ => Some s
    | S k', (t, e) :: r => match accept s t e with Some s' => state_at s' r k' | None => None end
    | S _, [] => None
    end.

  (* domain of the C01 finding "dtor-drain-task-reschedules": a task is generated (by a body that the destructor's own ring / steal-ring
     drain runs) after the destructor's last central-queue drain has finished *)
  Definition late (ph : phase) : bool := match ph with PhRings _ | PhSteals _ | PhDrained => true | _ => false end.
  Definition late_state (s : state) : bool := match rz s with RActive _ true _ ph => late ph | _ => false end.
  Definition is_gen (e : event) : bool := match e with EGen _ => true | _ => false end.
  Fixpoint late_gen (s : state) (tr : list (nat * event)) : bool :=
    match tr with
    | [] => false
    | (t, e) :: r => (is_gen e && late_state s) || match accept s t e with Some s' => late_gen s' r | None => false end
    end.

  Definition quiescent (s : state) : bool :=
    nilb (central s) && forallb nilb (rings s) && forallb nilb (steals s) && forallb idle_thread (threads s).
End Model.
