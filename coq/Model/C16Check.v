(* Executable side of the C16 correspondence: `pi` (harness/h_loops.cpp) runs the REAL parallel_invoke on a real
   ConcurrentTaskSet/ThreadPool over a tree of functors and reports per functor (in preorder): its path, how it was
   run (0 = inside schedule() with the inline guard, 1 = inside schedule() without guard (zero-thread pool),
   2 = elsewhere/later (queued), 3 = last functor called directly, -1 = root), the inline depth it saw, how often it
   ran, and for last functors whether they ran on the calling thread during the call.
   Verdict 0 = the model, fed with the observed load decisions, predicts exactly the observed placement and depths and
   the property holds; 1 = differs but the property holds; 2 = the property fails on the implementation's output. *)
From Coq Require Import ZArith List Bool.
From DV Require Import Base.Corr Model.InvokeModel.
Import ListNotations.
Local Open Scope Z_scope.

Record obs16 := O16 { q_path : list nat; q_dec : Z; q_depth : Z; q_cnt : Z; q_lastok : Z }.

Definition path_eqb (a b : list nat) : bool := list_eqb Nat.eqb a b.

Definition want_of (l : list obs16) (p : path) : bool :=
  existsb (fun o => path_eqb p (q_path o) && (q_dec o =? 0)) l.

Fixpoint forall2b {A B} (f : A -> B -> bool) (l1 : list A) (l2 : list B) : bool :=
  match l1, l2 with
  | [], [] => true
  | a :: r1, b :: r2 => f a b && forall2b f r1 r2
  | _, _ => false
  end.

(* each functor exactly once; last functors on the calling thread during the call; inline depth within the cap *)
Definition c16_holds_obs (n : nat) (l : list obs16) : bool :=
  (length l =? n)%nat &&
  forallb (fun o => (q_cnt o =? 1) && (q_lastok o =? 1) && (0 <=? q_depth o) && (q_depth o <=? kMaxInlineDepth)) l.

Definition judge_pi (x : bool * tree * list obs16) : Z :=
  let '(z, t, l) := x in
  if negb (c16_holds_obs (size t) l) then 2
  else
    let m := exec z (want_of l) t in
    if forall2b (fun r o => path_eqb (r_path r) (q_path o) && (how_code (r_how r) =? q_dec o) && (r_depth r =? q_depth o) &&
                            (negb (r_oncaller r) || negb (q_dec o =? 2))) m l
    then 0 else 1.

(* large programs: property only (linear) *)
Definition judge_pi_light (x : tree * list (Z * Z * Z)) : Z :=
  let '(t, l) := x in
  if (length l =? size t)%nat &&
     forallb (fun o : Z * Z * Z => let '(cnt, lastok, depth) := o in (cnt =? 1) && (lastok =? 1) && (0 <=? depth) && (depth <=? kMaxInlineDepth)) l
  then 0 else 2.
