(* Several ResourcePool<T> objects of one T side by side (dispenso/resource_pool.h): a Resource<T> handle carries the pair
   (resource_, pool_), and the move operations copy BOTH, so a handle slot can change the pool it belongs to
   (move assignment onto a handle of another pool).  No proofs here.

   Resources are numbered per pool (0 .. size_p - 1).  [MLive p r]: the object exists, pool_ = pool p, resource_ = r.
   The single-pool model (Model/ResPoolModel.v) is the projection of this one to a pool (Proofs/C25MultiProofs.v). *)
From Coq Require Import List Bool Arith PeanoNat.
From DV Require Import Model.ResPoolModel.
Import ListNotations.

Inductive mhandle := MDead | MLive (p : nat) (r : option nat).

Inductive mop :=
| MAcquire (p h k : nat)      (* slot h = pool[p].acquire();  k = oracle of the dequeue *)
| MRelease (h : nat)          (* ~Resource on slot h: recycle() -> pool_->recycle(resource_) if resource_ *)
| MMoveCtor (d s : nat)       (* slot d = Resource(std::move(slot s)): resource_ and pool_ copied, other.resource_ = nullptr *)
| MMoveAssign (d s : nat).    (* if (&other != this) { recycle(); resource_ = other.resource_; pool_ = other.pool_; other.resource_ = nullptr; } *)

Section Multi.
  Variable Q : Type.
  Variable q_empty : Q.
  Variable q_enq : Q -> nat -> Q.
  Variable q_deq : Q -> nat -> option (nat * Q).

  Record mstate := MS { m_qs : list Q; m_sizes : list nat; m_handles : list mhandle }.

  Definition minit (sizes : list nat) (nh : nat) : mstate :=
    MS (map (fun n => fill Q q_enq q_empty 0 n) sizes) sizes (repeat MDead nh).

  (* Resource::recycle() of a handle with pool_ = pool p *)
  Definition mrecycle (qs : list Q) (p : nat) (r : option nat) : list Q :=
    match r, nth_error qs p with
    | Some x, Some q => upd p (q_enq q x) qs
    | _, _ => qs
    end.

  (* None = the operation does not apply or blocks *)
  Definition mstep (s : mstate) (o : mop) : option mstate :=
    match o with
    | MAcquire p h k =>
        match nth_error (m_handles s) h, nth_error (m_qs s) p with
        | Some MDead, Some q =>
            match q_deq q k with
            | Some (x, q') => Some (MS (upd p q' (m_qs s)) (m_sizes s) (upd h (MLive p (Some x)) (m_handles s)))
            | None => None
            end
        | _, _ => None
        end
    | MRelease h =>
        match nth_error (m_handles s) h with
        | Some (MLive p r) => Some (MS (mrecycle (m_qs s) p r) (m_sizes s) (upd h MDead (m_handles s)))
        | _ => None
        end
    | MMoveCtor d s' =>
        match nth_error (m_handles s) d, nth_error (m_handles s) s' with
        | Some MDead, Some (MLive p r) => Some (MS (m_qs s) (m_sizes s) (upd s' (MLive p None) (upd d (MLive p r) (m_handles s))))
        | _, _ => None
        end
    | MMoveAssign d s' =>
        match nth_error (m_handles s) d, nth_error (m_handles s) s' with
        | Some (MLive pd rd), Some (MLive ps rs) =>
            if Nat.eqb d s' then Some s else
            Some (MS (mrecycle (m_qs s) pd rd) (m_sizes s) (upd s' (MLive ps None) (upd d (MLive ps rs) (m_handles s))))
        | _, _ => None
        end
    end.

  Fixpoint mrun (s : mstate) (ops : list mop) : mstate :=
    match ops with
    | [] => s
    | o :: r => match mstep s o with Some s' => mrun s' r | None => mrun s r end
    end.

  (* what pool p sees: handles of other pools are, for it, slots without an object *)
  Definition projh (p : nat) (h : mhandle) : handle :=
    match h with
    | MLive p' r => if Nat.eqb p' p then HLive r else HDead
    | MDead => HDead
    end.
  Definition proj (p : nat) (s : mstate) : pstate Q :=
    let size := nth p (m_sizes s) 0 in
    PS (nth p (m_qs s) q_empty) (map (projh p) (m_handles s)) size true (seq 0 size) [].
End Multi.
Arguments MS {Q} _ _ _.
Arguments m_qs {Q} _.
Arguments m_sizes {Q} _.
Arguments m_handles {Q} _.

Definition mlstate := mstate LQ.
Definition mlinit := minit LQ lq_empty lq_enq.
Definition mlstep := mstep LQ lq_enq lq_deq.
Definition mlrun := mrun LQ lq_enq lq_deq.
