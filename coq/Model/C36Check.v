(* Lockstep judge for C36: the implementation's trace under harness/vsched.h vs. the model run on the same schedule, plus the
   executable form of the property evaluated on what the implementation returned. *)
From Coq Require Import ZArith List Bool.
From DV Require Import Base.MachInt Base.Corr Base.Sched Model.ChaseLevModel.
Import ListNotations.
Local Open Scope Z_scope.

Record ccase := CC {
  c_cap : Z; c_i0 : Z; c_fuel : nat; c_oprog : list op; c_tprogs : list (list op); c_sched : list Z;
  i_trace : list (Z * Z);            (* implementation: (tid, site) per step *)
  i_results : list (list (Z * Z));   (* per thread, oldest first, (tag code, value) *)
  i_top : Z; i_bot : Z;
  i_rem : list Z;                    (* implementation: slots[top_ .. bottom_) read after the run (-777 = torn payload) *)
  i_stray : Z;                       (* payload copies from/to a slot not immediately preceded by the matching hook point *)
  i_status : Z }.                    (* 0 done 1 deadlock 2 budget *)

Definition count (x : Z) (l : list Z) : Z := fold_right (fun y a => if y =? x then a + 1 else a) 0 l.
Definition sub_multiset (a b : list Z) : bool := forallb (fun x => count x a <=? count x b) a.
Definition eq_multiset (a b : list Z) : bool := sub_multiset a b && sub_multiset b a.

Definition with_tag (g : Z) (l : list (Z * Z)) : list Z := map snd (filter (fun p => fst p =? g) l).
Definition i_pushed (c : ccase) : list Z := with_tag 1 (concat (i_results c)).
Definition i_returned (c : ccase) : list Z := with_tag 3 (concat (i_results c)) ++ with_tag 5 (concat (i_results c)).

(* the property on the implementation's own output:
   - every returned element was pushed, and not more often than it was pushed (nothing delivered twice, nothing invented);
   - when the run completed (quiescent): pushed = returned + remaining, as multisets;
   - bottom_ - top_ never exceeds the capacity at the end;
   - every payload access of a slot was its own scheduled step (no stray access): otherwise the schedules explored here do not
     cover the interleavings of the code, e.g. a copy out of the slot AFTER the CAS that releases it *)
Definition prop_ok (c : ccase) : bool :=
  (i_stray c =? 0) &&
  sub_multiset (i_returned c) (i_pushed c) &&
  (if i_status c =? 0 then eq_multiset (i_pushed c) (i_returned c ++ i_rem c) else true) &&
  (i_bot c - i_top c <=? c_cap c).

Definition model_results (s : state) : list (list (Z * Z)) :=
  map (fun th => map (fun p => (tag_code (fst p), snd p)) (rev (res th))) (owner s :: thieves s).

Definition agrees (c : ccase) : bool :=
  let '(s, tr, st) := run_cl (c_fuel c) (c_cap c) (c_i0 c) (c_oprog c) (c_tprogs c) (c_sched c) in
  list_eqb zpair_eqb tr (i_trace c) && (status_code st =? i_status c) && (top s =? i_top c) && (bot s =? i_bot c) &&
  list_eqb (list_eqb zpair_eqb) (model_results s) (i_results c) &&
  (if i_status c =? 0 then list_eqb Z.eqb (content s) (i_rem c) else true).

(* 0 agree & property holds; 1 differ, property holds; 2 property fails on the implementation's output *)
Definition judge_cl (c : ccase) : Z :=
  if negb (prop_ok c) then 2 else if agrees c then 0 else 1.
