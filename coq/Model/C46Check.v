(* Executable side of the C46 correspondence.  harness/h_inlinedepth.cpp runs chain programs on the REAL code and reports, run-length
   encoded over the links, how each link was entered (inline from the scheduling / completion path or not), the nesting count
   nS and the thread's inlineDepth g seen by the body, and the values sampled just before the submission (outstanding, workRemaining,
   isPoolRecursive).  [judge46] returns p + 10 * m:
     p = 0 the executable property (nesting <= kMaxInlineDepth) holds on the implementation's numbers,
         4 it fails and the case lies in the findings' domain (site_unguarded -- the predicate of C46_holds_except),
         2 it fails outside the domain (or the run crashed / overflowed / timed out there);
     m = 0 the model agrees: fed with the observed inline/queue decisions, [exec] predicts exactly the observed (nS, g) at both ends of
         every segment, and on the deterministic prefix (all workers parked in blockers) [dispatch] applied to the sampled values
         takes exactly the observed decision at both ends of every segment;  m = 1 otherwise. *)
From Coq Require Import ZArith List Bool.
From DV Require Import Base.MachInt Gen.GenTaskSet Model.InlineDepthModel.
Import ListNotations.
Local Open Scope Z_scope.

Record seg := SG { sg_how : Z; sg_cnt : Z; sg_nS1 : Z; sg_g1 : Z; sg_out1 : Z; sg_wr1 : Z; sg_rec1 : bool;
                   sg_nS2 : Z; sg_g2 : Z; sg_out2 : Z; sg_wr2 : Z; sg_rec2 : bool }.
Record case46 := K46 { k_cfg : cfg; k_site : site; k_len : Z; k_det : Z; k_status : Z (* 0 ok 1 overflow 2 timeout 3 crash *);
                       k_ran : Z; k_maxS : Z; k_segs : list seg }.

Definition seg_inline (x : seg) : bool := (sg_how x =? 1) || (sg_how x =? 3).

(* was link i entered inline?  (links beyond the reported segments: no) *)
Fixpoint inline_at (l : list seg) (i : Z) : bool :=
  match l with
  | [] => false
  | x :: r => if i <? sg_cnt x then seg_inline x else inline_at r (i - sg_cnt x)
  end.

(* the guard increments observed at the inline entries: (count, inline?, increment of the first link, increment of the others);
   the harness cuts segments so that the increment is uniform inside a segment *)
Definition seg_step (x : seg) : Z := if 1 <? sg_cnt x then Z.quot (sg_g2 x - sg_g1 x) (sg_cnt x - 1) else 0.
Fixpoint plan_of (s : site) (l : list seg) (gprev : Z) : list (Z * bool * Z * Z) :=
  match l with
  | [] => []
  | x :: r => let d1 := sg_g1 x - gprev - body_guard s in
              (sg_cnt x, seg_inline x, d1, if 1 <? sg_cnt x then seg_step x - body_guard s else d1) :: plan_of s r (sg_g2 x)
  end.
Fixpoint plan_at (p : list (Z * bool * Z * Z)) (i : Z) : option Z :=
  match p with
  | [] => None
  | (cnt, isin, d1, d) :: r => if i <? cnt then (if isin then Some (if i =? 0 then d1 else d) else None) else plan_at r (i - cnt)
  end.

(* the observed decisions as a decision function: an entry that added to inlineDepth counts as checked *)
Definition obs_dec (p : list (Z * bool * Z * Z)) : Z -> site -> Z -> outcome :=
  fun id s g => match plan_at p id with Some dg => Inl dg (0 <? dg) | None => Queue end.

(* which increments a site can produce *)
Definition legal_step (s : site) (dg : Z) : bool :=
  match s with
  | SPool | SPoolPlaced | SPoolBulk | STsk | SThenImm | SThenPool => dg =? 0
  | STskBulk | SCtsBulk false => dg =? 1
  | SCts _ | SCtsBulk true | SPipe | SGraph => (dg =? 0) || (dg =? 1)
  end.

(* completion-path sites: link 0 is the root (started by the driver through a wait / a worker); otherwise the driver submits link 0 *)
Definition completion_site (s : site) : bool := match s with SThenImm | SThenPool | SPipe => true | _ => false end.
Definition prog (s : site) (len : Z) : task :=
  if completion_site s then chain s (Z.to_nat (len - 1)) else Task (-1) [(s, chain_from s 0 (Z.to_nat (len - 1)))].

Fixpoint find_run (l : list run) (id : Z) : option run :=
  match l with
  | [] => None
  | r :: rest => if r_id r =? id then Some r else find_run rest id
  end.

Definition run_matches (runs : list run) (id nS g : Z) (isroot : bool) : bool :=
  match find_run runs id with
  | Some r => (r_nest r =? nS) && ((r_g r =? g) || isroot)      (* the root of a completion chain starts at whatever depth its runner has *)
  | None => false
  end.

(* (nS, g) at both ends of every segment, as predicted by exec under the observed decisions *)
Fixpoint segs_match (runs : list run) (croot : bool) (l : list seg) (start : Z) (fuel : nat) : bool :=
  match fuel, l with
  | O, _ => true
  | _, [] => true
  | S f, x :: r =>
      run_matches runs start (sg_nS1 x) (sg_g1 x) (croot && (start =? 0)) &&
      run_matches runs (start + sg_cnt x - 1) (sg_nS2 x) (sg_g2 x) (croot && (start + sg_cnt x - 1 =? 0)) &&
      segs_match runs croot r (start + sg_cnt x) f
  end.

Definition class (o : outcome) : Z := match o with Inl _ _ => 1 | Queue => 0 | Skip => -1 end.
Definition b2c (b : bool) : Z := if b then 1 else 0.
(* decision and guard increment of the real code's decision function against the observation (inline? and g after - g before) *)
Definition dec_matches (o : outcome) (s : site) (isin : bool) (dgobs : Z) : bool :=
  match o with
  | Inl dg _ => isin && (dg + body_guard s =? dgobs)
  | Queue => negb isin
  | Skip => false
  end.

(* the decisions of the deterministic prefix: link index <= det, at both ends of each segment *)
Fixpoint decisions_match (c : cfg) (s : site) (det : Z) (l : list seg) (start gprev : Z) (fuel : nat) : bool :=
  match fuel, l with
  | O, _ => true
  | _, [] => true
  | S f, x :: r =>
      let last := start + sg_cnt x - 1 in
      let d := if 1 <? sg_cnt x then Z.quot (sg_g2 x - sg_g1 x) (sg_cnt x - 1) else 0 in
      let ok1 := if (start <=? det) && negb (completion_site s && (start =? 0))
                 then dec_matches (dispatch c (ENV (sg_out1 x) (sg_wr1 x) (sg_rec1 x) false false) s gprev) s (seg_inline x) (sg_g1 x - gprev) else true in
      let ok2 := if (last <=? det) && (1 <? sg_cnt x) && seg_inline x
                 then dec_matches (dispatch c (ENV (sg_out2 x) (sg_wr2 x) (sg_rec2 x) false false) s (sg_g2 x - d)) s true d else true in
      ok1 && ok2 && decisions_match c s det r (start + sg_cnt x) (sg_g2 x) f
  end.

Definition holds46 (k : case46) : bool := (k_maxS k <=? kMaxInlineDepth) && (k_status k =? 0).

Definition agrees46 (k : case46) : bool :=
  match k_site k with
  | SPipe =>   (* items race between the completion callback and the generator's own schedule loop: segment-local consistency only *)
      forallb (fun x => (sg_nS2 x <=? kMaxInlineDepth) && (sg_g2 x <=? kMaxInlineDepth) &&
                        (negb (seg_inline x) || (sg_g2 x - sg_g1 x =? sg_nS2 x - sg_nS1 x))) (k_segs k)
  | s =>
      let p := plan_of s (k_segs k) 0 in
      let runs := exec (obs_dec p) (prog s (k_len k)) in
      segs_match runs (completion_site s) (k_segs k) 0 60 &&
      forallb (fun q => let '(_, isin, d1, d) := q in negb isin || (legal_step s d1 && legal_step s d)) (firstn 60 p) &&
      (* the invariant of the theorems, evaluated on the runs derived from the implementation's numbers *)
      forallb (fun r => r_nest r - r_raw r <=? Z.min (r_g r) kMaxInlineDepth) runs &&
      decisions_match (k_cfg k) s (k_det k) (k_segs k) 0 0 60
  end.

Definition judge46 (k : case46) : Z :=
  (if holds46 k then 0 else if site_unguarded (k_cfg k) (k_site k) then 4 else 2) + (if agrees46 k then 0 else 10).

(* nesting through wait() (reported, not judged as C46): the model's worst case for n independent waiting tasks *)
Definition judge_waitnest (n maxW : Z) : Z := if maxW <=? wait_nest (repeat true (Z.to_nat n)) 0 then 0 else 1.
