(* Executable form of C32, evaluated on what the IMPLEMENTATION printed (harness/h_cvec.cpp), next to the model run
   on the same operation list. *)
From Coq Require Import ZArith List Bool Lia.
From DV Require Import Base.MachInt Base.Corr Base.Life Model.CVecModel.
Import ListNotations.
Local Open Scope Z_scope.

(* the trait sets instantiated in harness/h_cvec.cpp (kDefaultCapacity / kMaxVectorSize follow from sizeof(T)) *)
Definition trait_set (ts : Z) : traits :=
  if ts =? 0 then mkTraits 2 (2 ^ 39) 2 true true
  else if ts =? 1 then mkTraits 2 (2 ^ 39) 1 false false
  else if ts =? 2 then mkTraits 2 (2 ^ 39) 0 true false
  else if ts =? 3 then mkTraits 4 (2 ^ 40) 0 false true
  else if ts =? 4 then mkTraits 8 (2 ^ 41) 1 true true
  else mkTraits 32 (2 ^ 43) 2 true true.

(* what the harness prints after every operation *)
Record stepobs := mkObs {
  o_self : list Z;            (* contents of self, through operator[] *)
  o_two : bool;               (* the operation involves the other vector: its contents follow *)
  o_other : list Z;
  o_ret : Z;                  (* returned position (iterator - begin()) or observer value; -1 for void *)
  o_stdret : Z;               (* what std::vector returned *)
  o_stdok : Z;                (* 1 iff both vectors equal their std::vector twins *)
  o_cap : Z;                  (* self.capacity() *)
  o_shift_s : Z; o_shift_o : Z;
  o_led : list Z              (* 13 numbers of the ledger + misaligned *)
}.

Record ccase := mkCase {
  k_ts : Z;
  k_shift0 : Z; k_maxbuf : Z;         (* header: firstBucketShift_ of a default-constructed vector, kMaxBuffers *)
  k_ops : list (bool * op);
  k_steps : list stepobs;
  k_final : list Z;                   (* ledger after both destructors + misaligned *)
  k_refbal : Z; k_balloc : Z; k_bfree : Z
}.

(* the check writes long lists of small non-negative numbers as one base-2^20 literal, written in hexadecimal (cheaper to parse) *)
Definition unpack (n z : Z) : list Z :=
  (fix go (k : nat) (z : Z) : list Z :=
     match k with O => [] | S k' => Z.land z 1048575 :: go k' (Z.shiftr z 20) end) (Z.to_nat n) z.
Definition mkObsP (ns ps : Z) (two : bool) (no po ret stdret stdok cap ss so pl : Z) : stepobs :=
  mkObs (unpack ns ps) two (unpack no po) ret stdret stdok cap ss so (unpack 14 pl).

(* has the operation a std::vector counterpart that returns a position / value? *)
Definition has_std_ret (o : op) : bool :=
  match o with
  | OPush _ _ | OGrowBy _ | OGrowByVal _ _ | OGrowByRange _ | OGrowByGen _ _
  | OErase _ | OEraseRange _ _ | OInsert _ _ _ | OInsertN _ _ _ | OInsertRange _ _
  | OIter | OAt _ | OFrontBack | OCompare => true
  | _ => false
  end.
Definition is_two (o : op) : bool :=
  match o with OSwap | OCopyAssign | OMoveAssign | ORecreate CCopy | ORecreate CMove => true | _ => false end.

Record acc := mkAcc {
  a_w : world; a_s : list Z * list Z;
  a_agree : bool;          (* implementation = model so far *)
  a_contents : bool;       (* implementation contents/sizes = std::vector (list spec and the C++ twin) so far *)
  a_pos : bool;            (* returned positions / values = std::vector so far *)
  a_pre : bool;
  a_first : Z; a_idx : Z
}.

Definition judge_step (tr : traits) (a : acc) (x : (bool * op) * stepobs) : acc :=
  let '((sel, o), ob) := x in
  let self_s := if sel then snd (a_s a) else fst (a_s a) in
  let other_s := if sel then fst (a_s a) else snd (a_s a) in
  let pre := op_pre 1000 self_s other_s o in
  let '(w', mret) := step tr (a_w a) sel o in
  let '(s', sret) := spec_step (a_s a) sel o in
  let self_s' := if sel then snd s' else fst s' in
  let other_s' := if sel then fst s' else snd s' in
  let mself := w_self sel w' in
  let mother := w_other sel w' in
  let agree :=
    zlist_eqb (abs mself) (o_self ob) && (negb (o_two ob) || zlist_eqb (abs mother) (o_other ob)) &&
    Bool.eqb (o_two ob) (is_two o) &&
    (mret =? o_ret ob) && (capacity tr mself =? o_cap ob) && (v_shift mself =? o_shift_s ob) && (v_shift mother =? o_shift_o ob) &&
    zlist_eqb (world_obs w' ++ [0]) (o_led ob) && (cl_bad (wl w') =? 0) in
  let contents :=
    zlist_eqb self_s' (o_self ob) && (negb (o_two ob) || zlist_eqb other_s' (o_other ob)) && (o_stdok ob =? 1) in
  let posok := (sret =? o_ret ob) && (negb (has_std_ret o) || (sret =? o_stdret ob)) in
  mkAcc w' s'
    (a_agree a && agree) (a_contents a && contents) (a_pos a && posok) (a_pre a && pre)
    (if a_agree a && negb agree then a_idx a else a_first a) (a_idx a + 1).

(* balanced lifetimes on the numbers the implementation printed at the very end:
   cv cc cm ac am d live moved e0..e4 misaligned *)
Definition life_ok_obs (l : list Z) : bool :=
  match l with
  | [cv; cc; cm; _; _; d; live; moved; e0; e1; e2; e3; e4; mis] =>
      (cv + cc + cm =? d) && (live =? 0) && (moved =? 0) && (e0 + e1 + e2 + e3 + e4 =? 0)
  | _ => false
  end.

(* [verdict; agree; contents; positions; lifetimes; preconditions; first disagreeing step (-1 none, -2 header, -3 final)]
   verdict 0: implementation = model and C32 holds on the implementation's output
           1: C32 holds on the output but implementation <> model
           2: C32 fails on the implementation's output (contents / sizes / a returned position differ from std::vector,
              or the element lifetimes are not balanced, or blocks leaked) *)
Definition judge_case (c : ccase) : list Z :=
  let tr := trait_set (k_ts c) in
  let hdr := (first_shift tr (Z.quot (t_defcap tr) 2) =? k_shift0 c) && (max_buffers tr =? k_maxbuf c) in
  let a0 := mkAcc (world0 tr) ([], []) true true true true (-1) 0 in
  let a := fold_left (judge_step tr) (combine (k_ops c) (k_steps c)) a0 in
  let lens := (length (k_ops c) =? length (k_steps c))%nat in
  let Lf := finish tr (a_w a) in
  let fin_agree := zlist_eqb (final_obs Lf ++ [0]) (k_final c) && (cl_bad Lf =? 0) in
  let agree := hdr && lens && a_agree a && fin_agree in
  let life := life_ok_obs (k_final c) && (k_refbal c =? 1) && (k_balloc c =? k_bfree c) in
  let prop := a_contents a && a_pos a && life in
  let verdict := if prop then (if agree then 0 else 1) else 2 in
  [verdict; b2z agree; b2z (a_contents a); b2z (a_pos a); b2z life; b2z (a_pre a);
   if negb hdr then -2 else if negb (a_agree a) then a_first a else if negb fin_agree then -3 else -1].

(* the model's own line for a case (debugging aid for the check: what the model expected at step i) *)
Definition model_debug (ts : Z) (ops : list (bool * op)) : list (list Z * Z * Z * list Z) :=
  let tr := trait_set ts in
  snd (fold_left (fun (st : world * list (list Z * Z * Z * list Z)) (x : bool * op) =>
         let '(w, acc) := st in
         let '(w', r) := step tr w (fst x) (snd x) in
         (w', acc ++ [(abs (w_self (fst x) w'), r, capacity tr (w_self (fst x) w'), world_obs w')]))
       ops (world0 tr, [])).
