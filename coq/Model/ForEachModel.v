(* Executable model of dispenso::for_each_n (for_each.h): the thread count, the chunks (offsets into [0,n)),
   and who applies the function to which chunk.  Built on the REGENERATED staticChunkSize (Gen/GenChunk.v).
   No proofs here. *)
From Coq Require Import ZArith List Bool.
From DV Require Import Base.MachInt Model.ChunkModel Gen.GenChunk Model.ParForModel Model.PlanModel.
Import ListNotations.
Local Open Scope Z_scope.

(* n elements, N = tasks.numPoolThreads(), options.maxThreads (uint32_t), options.wait.
   (The caller is not inside another parallel_for/for_each body of the same pool; that nested case takes the
   serial branch below.) *)
Record fecfg := FE { fe_n : Z; fe_N : Z; fe_maxThreads : Z; fe_wait : bool }.

Inductive fe_path := FSerial | FPar.

(* int32_t maxThreads = std::max<int32_t>(options.maxThreads, 1);
   ssize_t numThreads = std::min<ssize_t>(numPoolThreads() + options.wait, maxThreads);
   numThreads = std::min<ssize_t>(numThreads, n);
   numThreads = std::max<ssize_t>(1, numThreads);      (the repair of foreach-zero-threads-nowait-div0: before it a
                                                        zero-thread pool with wait=false gave numThreads = 0 and
                                                        staticChunkSize(n, 0) divided by zero) *)
Definition fe_limit (c : fecfg) : Z := Z.max (wrap_s 32 (fe_maxThreads c)) 1.
Definition fe_numThreads (c : fecfg) : Z :=
  Z.max 1 (Z.min (Z.min (fe_N c + b2z (fe_wait c)) (fe_limit c)) (fe_n c)).

(* if (!n || !options.maxThreads || isParForRecursive) serial;  else detail::staticChunkSize(n, numThreads) *)
Definition fe_decide (c : fecfg) : fe_path :=
  if (fe_n c =? 0) || (wrap 32 (fe_maxThreads c) =? 0) then FSerial else FPar.

(* chunk i of nt: [offset, offset + thisChunkSize) as computed by for_each_n_schedule (random access) *)
Definition fe_bounds (n nt : Z) : list (Z * Z) :=
  let '(t, c) := gen_staticChunkSize n nt in
  let perfect := t =? nt in
  let small := c - (if perfect then 0 else 1) in
  map (fun i => let i := Z.of_nat i in
                let off := if i <? t then i * c else t * c + (i - t) * small in
                (off, off + (if i <? t then c else small)))
      (seq 0 (Z.to_nat nt)).

(* chunks 0..numToSchedule-1 are closures handed to scheduleBulk; with wait=true the last chunk (numThreads-1)
   runs on the calling thread before tasks.wait() *)
Definition fe_who (wait : bool) (nt i : Z) : who := if wait && (i =? nt - 1) then CallerPre else Task i.

(* Which functor a chunk applies: c_state of a for_each call is the VERSION of the caller's functor it uses.
   Version 0 = the value of `f` at the time for_each_n was called.  Every scheduled closure captures `f` BY VALUE
   ([s, e, f] in both for_each_n_schedule overloads) when scheduleBulk invokes the generator, i.e. before for_each_n
   returns; with wait=false the caller may modify or destroy its functor object afterwards (versions 1, 2, ...)
   while the chunks are still queued, and no chunk may observe that.  So every call of the plan has c_state = 0. *)
Definition fe_calls (wait : bool) (nt : Z) (b : list (Z * Z)) : list call :=
  map (fun x : nat * (Z * Z) => let '(i, (lo, hi)) := x in CALL (fe_who wait nt (Z.of_nat i)) 0 0 lo hi)
      (combine (seq 0 (length b)) b).

Definition fe_plan (c : fecfg) : list call :=
  match fe_decide c with
  | FSerial => [CALL CallerPre 0 0 0 (fe_n c)]
  | FPar => fe_calls (fe_wait c) (fe_numThreads c) (fe_bounds (fe_n c) (fe_numThreads c))
  end.

(* how many calls of the plan apply the function to element i *)
Definition covers (a : call) (i : Z) : Z := if (c_lo a <=? i) && (i <? c_hi a) then 1 else 0.
Fixpoint visit_count (p : list call) (i : Z) : Z :=
  match p with [] => 0 | a :: r => covers a i + visit_count r i end.

(* runner of element i according to the plan: -1 = calling thread, j = scheduled closure j, -9 = nobody *)
Fixpoint runner_of (p : list call) (i : Z) : Z :=
  match p with
  | [] => -9
  | a :: r => if (c_lo a <=? i) && (i <? c_hi a)
              then match c_who a with Task j => j | _ => -1 end
              else runner_of r i
  end.
