(* C04 judges (lockstep traces and decisions under forced load): 0 agree & holds; 1 differ, holds; 2 a body started after cancellation
   without a licensing load; 4 the same inside the domain of the known finding (second inline fallback of ConcurrentTaskSet::schedule /
   schedulePlaced: c04_domain). *)
From Coq Require Import ZArith List Bool.
From DV Require Import Base.MachInt Base.Sched Model.TaskSetModel Gen.GenTaskSet Model.TaskSetCheck.
Import ListNotations.
Local Open Scope Z_scope.

Definition judge_C04 (c : lcase) : Z :=
  let '(v, known) := check_C04 c in
  if v then (if known then 4 else 2) else if agrees c then 0 else 1.
Definition judge_C04_d (d : dcase) : Z :=
  if negb (d_check_C04 d) then (if d_in_domain d then 4 else 2) else if d_agrees d then 0 else 1.
