(* C04 judges: licences (lockstep trace), cancelled sets run nothing (D).  The judge functions themselves are shared: judge_C04 / judge_C04_impl in Model/TaskSetImplCheck.v (independent of the
   regenerated decision functions) and, for the decision runs, judge_*_d in Model/TaskSetCheck.v. *)
From Coq Require Import ZArith List Bool.
From DV Require Export Model.TaskSetImplCheck Model.TaskSetCheck.
Local Open Scope Z_scope.
Definition C04_judge_lockstep := judge_C04.
