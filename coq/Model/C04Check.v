(* C04 judges (lockstep traces and decisions under forced load): 0 agree & holds; 1 differ, holds; 2 a body of a cancelled set started without a
   licensing canceled_ load preceding the cancel store / a cancelled set ran a functor. *)
From Coq Require Import ZArith List Bool.
From DV Require Import Base.MachInt Base.Sched Model.TaskSetModel Gen.GenTaskSet Model.TaskSetCheck.
Import ListNotations.
Local Open Scope Z_scope.

Definition judge_C04 (c : lcase) : Z :=
  if fst (check_C04 c) then 2 else if agrees c then 0 else 1.
Definition judge_C04_d (d : dcase) : Z :=
  if negb (d_check_C04 d) then 2 else if d_agrees d then 0 else 1.
