(* Lockstep judge for C18 (and the shared part of C19): the implementation's trace and results under
   harness/vsched.h (harness/h_future.cpp) vs. Model/FutureModel.v run on the same schedule, plus the executable
   form of the property evaluated on what the implementation did. *)
From Coq Require Import ZArith List Bool.
From DV Require Import Base.MachInt Base.Corr Base.Sched Model.FutureModel.
Import ListNotations.
Local Open Scope Z_scope.

Record fcase := FC {
  f_mode : Z;                         (* 0 = ls (manual schedulable), 1 = im (ImmediateInvoker), 2 = nt (NewThreadInvoker, native) *)
  f_cfg : cfg; f_ds : list tdesc; f_fuel : nat; f_sched : list Z;
  i_trace : list (Z * Z);             (* implementation: (tid, site) per step *)
  i_results : list (list (Z * Z));    (* per thread, oldest first *)
  i_status : Z;                       (* 0 done 1 deadlock 2 budget *)
  i_fc : Z;                           (* functor invocations counted by the functor body *)
  i_early : Z;                        (* dispatches that saw status <> kReady *)
  i_conts : list (Z * (Z * (Z * Z))) }.  (* (k, (dispatched, (runs, ready-at-run))) for every then() in the programs *)

(* ImmediateInvoker: the constructor ran the OnceFunction on the constructing (unenrolled) thread before any other
   handle existed = the model's runner executed alone; afterwards main handed out the copies and dropped its handle *)
Definition solo_cfg (c : cfg) : cfg := CFG (allowInline c) false (val c) (exc c) false false 0.
Definition init_im (c : cfg) (ds : list tdesc) : state :=
  let '(s1, _, _) := run step cands finished 30 (init (solo_cfg c) [(1, 1, [ORun])]) (repeat 0 30) [] in
  ST c (set_refc (sh s1) (refc (sh s1) - 1 + zsum (fun d => let '(h, _, _) := d in h) ds)) (map mk_thread ds).

Definition model_run (c : fcase) :=
  run step cands finished (f_fuel c) (if f_mode c =? 1 then init_im (f_cfg c) (f_ds c) else init (f_cfg c) (f_ds c)) (f_sched c) [].

Definition all_results (c : fcase) : list (Z * Z) := concat (i_results c).
Definition with_tag (tag : Z) (l : list (Z * Z)) : list Z := map snd (filter (fun p => fst p =? tag) l).
Definition count_z (k : Z) (l : list Z) : Z := Z.of_nat (length (filter (Z.eqb k) l)).

(* ---- the property C18 on the implementation's observable behaviour ---- *)
(* the functor ran at most once; it ran if anybody observed readiness; every get returned the stored value /
   rethrew the stored exception; the result object was destroyed at most once *)
Definition observed_ready (r : list (Z * Z)) : bool :=
  negb (length (with_tag r_wait r) =? 0)%nat || negb (length (with_tag r_get r) =? 0)%nat ||
  negb (length (with_tag r_getx r) =? 0)%nat || existsb (Z.eqb 1) (with_tag r_waitfor r) ||
  existsb (Z.eqb 1) (with_tag r_ready r).

Definition c18_property (c : fcase) : bool :=
  let r := all_results c in
  let v := val (f_cfg c) in
  (i_fc c <=? 1) && (if observed_ready r then i_fc c =? 1 else true) &&
  forallb (Z.eqb 1) (with_tag r_func r) && (Z.of_nat (length (with_tag r_func r)) <=? 1) &&
  (if exc (f_cfg c) then (length (with_tag r_get r) =? 0)%nat && forallb (Z.eqb v) (with_tag r_getx r)
   else (length (with_tag r_getx r) =? 0)%nat && forallb (Z.eqb v) (with_tag r_get r)) &&
  (Z.of_nat (length (with_tag r_dealloc r)) <=? 1).

Definition agrees (c : fcase) : bool :=
  let '(s, tr, st) := model_run c in
  list_eqb zpair_eqb tr (i_trace c) && (status_code st =? i_status c) &&
  list_eqb (list_eqb zpair_eqb) (map (fun th => rev (res th)) (threads s)) (i_results c) &&
  (fcount (sh s) =? i_fc c) &&
  Bool.eqb (bad_disp (sh s)) (negb (i_early c =? 0)) &&
  forallb (fun e => count_z (fst e) (disp (sh s)) =? fst (snd e)) (i_conts c).

(* 0 agree & property holds; 1 differ, property holds; 2 property fails.  nt (native) runs are judged on the property only. *)
Definition judge_c18 (c : fcase) : Z :=
  if negb (c18_property c) then 2
  else if f_mode c =? 2 then 0
  else if agrees c then 0 else 1.
