(* Lockstep judge for C33: the implementation's run under harness/vsched.h (harness/h_cvecgrow.cpp) vs. the model
   Model/CVecGrowModel.v run on the same schedule, and the executable form of the property evaluated on what the
   implementation returned. *)
From Coq Require Import ZArith List Bool.
From DV Require Import Base.MachInt Base.Corr Base.Sched Model.CVecGrowModel.
Import ListNotations.
Local Open Scope Z_scope.

Record gcase := GC {
  c_strat : Z; c_shift : Z; c_fuel : nat; c_progs : list (list gop); c_sched : list Z;
  i_trace : list (Z * Z);          (* implementation: (tid, site) per step *)
  i_status : Z;                    (* 0 done 1 deadlock 2 budget *)
  i_results : list (list Z);       (* per thread: the positions returned by its operations, oldest first *)
  i_shift : Z;                     (* firstBucketShift_ *)
  i_size : Z;                      (* size() at the end *)
  i_contents : list Z;             (* tags at 0 .. size-1 (after join; empty unless done) *)
  i_alloc : list Z;                (* buckets with a non-null buffer pointer, ascending *)
  i_moved : Z;                     (* elements whose final address differs from the address at construction *)
  i_bad : Z }.                     (* constructions at an already used address + failed re-reads of own elements *)

(* compact literals (Coq parses one big numeral much faster than a long list): the little-endian digits of n in the given base *)
Fixpoint dec (len : nat) (base n : Z) : list Z :=
  match len with O => [] | S l => (n mod base) :: dec l base (n / base) end.
(* a trace packed as digits tid * 16 + site in base 256 *)
Definition dec_trace (len : nat) (n : Z) : list (Z * Z) := map (fun x => (x / 16, x mod 16)) (dec len 256 n).

(* ------------------------------------------------------------------------------------------------ the property, on the implementation's output *)
Fixpoint count_z (x : Z) (l : list Z) : Z :=
  match l with [] => 0 | y :: r => (if x =? y then 1 else 0) + count_z x r end.

(* the tags an operation must have left, given what the vector contains at the end (grow_to_at_least: as many as it added) *)
Definition op_tags (cont : list Z) (o : gop) : list Z :=
  match o with
  | GPush tag => [tag]
  | GGrow d tag inc => map (fun j => tag + inc * j) (zrange 0 (Z.to_nat d))
  | GGrowTo n tag => repeat tag (Z.to_nat (count_z tag cont))
  end.

Fixpoint tags_at (cont : list Z) (pos : Z) (tags : list Z) : bool :=
  match tags with
  | [] => true
  | t :: r => (0 <=? pos) && (nth (Z.to_nat pos) cont (-1) =? t) && (pos <? Z.of_nat (length cont)) && tags_at cont (pos + 1) r
  end.

Fixpoint pinsert (x : Z * Z) (l : list (Z * Z)) : list (Z * Z) :=
  match l with [] => [x] | y :: r => if fst x <=? fst y then x :: l else y :: pinsert x r end.
(* non-empty ranges (start, length), sorted by start, tile [from, upto) *)
Fixpoint tiles (l : list (Z * Z)) (from upto : Z) : bool :=
  match l with
  | [] => from =? upto
  | (s, d) :: r => (s =? from) && tiles r (s + d) upto
  end.

Fixpoint zip_ops (ps : list gop) (rs : list Z) : list (gop * Z) :=
  match ps, rs with
  | p :: ps', r :: rs' => (p, r) :: zip_ops ps' rs'
  | _, _ => []
  end.

Definition all_ops (c : gcase) : list (gop * Z) :=
  flat_map (fun pr => zip_ops (fst pr) (snd pr)) (combine (c_progs c) (i_results c)).

Definition results_complete (c : gcase) : bool :=
  list_eqb Z.eqb (map (fun p => Z.of_nat (length p)) (c_progs c)) (map (fun r => Z.of_nat (length r)) (i_results c)).

(* every operation's elements sit at the positions it was handed, the handed ranges are pairwise disjoint and cover
   [0, size), the final size is the total growth, grow_to_at_least reached its target, nothing moved *)
Definition property_holds (c : gcase) : bool :=
  let cont := i_contents c in
  let ops := all_ops c in
  let ranges := filter (fun sd => 0 <? snd sd)
                       (map (fun orr => (snd orr, Z.of_nat (length (op_tags cont (fst orr))))) ops) in
  results_complete c &&
  (Z.of_nat (length cont) =? i_size c) &&
  forallb (fun orr => tags_at cont (snd orr) (op_tags cont (fst orr))) ops &&
  tiles (fold_right pinsert [] ranges) 0 (i_size c) &&
  forallb (fun orr => match fst orr with GGrowTo n _ => n <=? i_size c | _ => true end) ops &&
  (i_moved c =? 0) && (i_bad c =? 0).

(* ------------------------------------------------------------------------------------------------ agreement with the model *)
Definition agrees (c : gcase) : bool :=
  let '(s, tr, st) := run_grow (c_strat c) (c_shift c) (c_fuel c) (c_progs c) (c_sched c) in
  list_eqb zpair_eqb tr (i_trace c) && (status_code st =? i_status c) && (c_shift c =? i_shift c) &&
  (g_size (sh s) =? i_size c) &&
  (if i_status c =? 0 then
     list_eqb (list_eqb Z.eqb) (map (fun th => rev (res th)) (threads s)) (i_results c) &&
     list_eqb Z.eqb (contents (sh s)) (i_contents c) &&
     list_eqb Z.eqb (allocated (sh s)) (i_alloc c)
   else true).

(* 0 agree & property holds; 1 differ, property holds; 2 property fails on the implementation's output.
   A run that did not finish within the budget (status 2) only has its trace compared. *)
Definition judge_grow (c : gcase) : Z :=
  if (i_status c =? 0) && negb (property_holds c) then 2
  else if i_status c =? 1 then 2                           (* nothing runnable: impossible without futexes; a hang *)
  else if agrees c then 0 else 1.
