(* C47 judges: ForceQueuingTag never on the caller (lockstep log and D).  The judge functions themselves are shared: judge_C47 / judge_C47_impl in Model/TaskSetImplCheck.v (independent of the
   regenerated decision functions) and, for the decision runs, judge_*_d in Model/TaskSetCheck.v. *)
From Coq Require Import ZArith List Bool.
From DV Require Export Model.TaskSetImplCheck Model.TaskSetCheck.
Local Open Scope Z_scope.
Definition C47_judge_lockstep := judge_C47.
