(* C47 judges: 0 agree & holds; 1 differ, holds; 2 a ForceQueuingTag functor ran on the calling thread before the call returned
   although numThreads >= 1. *)
From Coq Require Import ZArith List Bool.
From DV Require Import Base.MachInt Base.Sched Model.TaskSetModel Gen.GenTaskSet Model.TaskSetCheck.
Import ListNotations.
Local Open Scope Z_scope.

Definition judge_C47 (c : lcase) : Z := if negb (check_C47 c) then 2 else if agrees c then 0 else 1.
Definition judge_C47_d (d : dcase) : Z :=
  if negb (d_check_C47 d) || negb (d_bulk_ok d) then 2 else if d_agrees d then 0 else 1.
