(* Lockstep judge for C45: the implementation's trace under harness/vsched.h vs. the model run on the same schedule. *)
From Coq Require Import ZArith List Bool.
From DV Require Import Base.MachInt Base.Corr Base.Sched Model.ThreadIdModel.
Import ListNotations.
Local Open Scope Z_scope.

Record tcase := TC {
  t_c0 : Z; t_fuel : nat; t_progs : list (list op); t_sched : list Z;
  i_trace : list (Z * Z);            (* implementation: (tid, site) per step *)
  i_results : list (list (Z * Z));   (* per thread, oldest first; values reduced mod 2^64 *)
  i_ctr : Z; i_status : Z }.

Definition ids (r : list (Z * Z)) : list Z := map snd r.

(* the property on the implementation's own output *)
Definition stable1 (l : list Z) : bool := match l with [] => true | x :: r => forallb (Z.eqb x) r end.
Definition stable (c : tcase) : bool := forallb (fun r => stable1 (ids r)) (i_results c).
Fixpoint disjoint_lists (ls : list (list Z)) : bool :=
  match ls with
  | [] => true
  | l :: r => forallb (fun x => negb (existsb (fun l' => existsb (Z.eqb x) l') r)) l && disjoint_lists r
  end.
Definition injective (c : tcase) : bool := disjoint_lists (map ids (i_results c)).

(* hypothesis of the theorems: no fetch_add of these threads can return the sentinel *)
Definition in_domain (c : tcase) : bool :=
  (0 <=? t_c0 c) && (t_c0 c + Z.of_nat (length (t_progs c)) <=? 2 ^ 64 - 1).

Definition agrees (c : tcase) : bool :=
  let '(s, tr, st) := run_tid (t_fuel c) (t_c0 c) (t_progs c) (t_sched c) in
  list_eqb zpair_eqb tr (i_trace c) && (status_code st =? i_status c) && (ctr s =? i_ctr c) &&
  list_eqb (list_eqb zpair_eqb) (map (fun th => rev (res th)) (threads s)) (i_results c).

(* 0 agree & property holds; 1 differ, property holds (or outside the domain); 2 property fails inside the domain;
   3 agree, outside the domain (sentinel corner), ids unstable/duplicated exactly as the model predicts;
   0 is also returned outside the domain when the ids happen to be stable and unique *)
Definition judge_tid (c : tcase) : Z :=
  let ok := stable c && injective c in
  if in_domain c then (if ok then (if agrees c then 0 else 1) else 2)
  else if agrees c then (if ok then 0 else 3) else 1.

(* native (unscheduled) contention probe, implementation only: the ids that the threads of one round obtained from their first
   call (counter preset far from the sentinel): 0 pairwise different, 2 some id handed to two threads *)
Fixpoint nodupb (l : list Z) : bool :=
  match l with [] => true | x :: r => negb (existsb (Z.eqb x) r) && nodupb r end.
Definition judge_round (l : list Z) : Z := if nodupb l then 0 else 2.

