(* Interleaving model of dispenso::MpmcRingBuffer (dispenso/mpmc_ring_buffer.h, Vyukov-style bounded queue with
   fail-fast single-attempt CAS) at the granularity of the DISPENSO_VERIF_POINT hooks: one step = one atomic access
   (tail_/head_ load or compare_exchange_strong, slot.seq load/store) or one slot payload access (placement-new of the
   pushed element; move-out of the popped element; its destructor call -- each its own step).  Any number of threads, each running a script of
   operations; any thread may push and pop.  Arithmetic is size_t (wrap 64) / intptr_t (wrap_s 64) as written.
   Ghost state (never read by the code paths): per slot the phase of the position it currently serves and its owner
   thread; per position the pusher and the value (gpush); the positions whose pop completed (gpopped).
   Element lifetimes: a Base.Life ledger keyed by slot index.  Executable; no proofs. *)
From Coq Require Import ZArith List Bool.
From DV Require Import Base.MachInt Base.Sched Base.Life.
From DV Require Model.SpscModel.
Import ListNotations.
Local Open Scope Z_scope.

Definition ring_wrap := SpscModel.ring_wrap.     (* wrapIndex: i & kMask when kBufferSize is a power of two, i % kBufferSize otherwise *)
Definition fupd {A} := @SpscModel.fupd A.

Inductive op :=
| OPush (v : Z)               (* try_push(T&&) / try_push(const T&) / try_emplace(v): all are emplaceImpl *)
| OPop                        (* try_pop(T&) / try_pop() / try_pop_into(ptr) *)
| OPushBatch (vs : list Z).   (* try_push_batch(items, count) *)

Inductive pc :=
| PStart
| PPushLoadTail (v : Z) | PPushLoadSeq (v t0 : Z) | PPushCas (v t0 : Z) | PPushWrite (v t0 : Z) | PPushStoreSeq (v t0 : Z)
| PPopLoadHead | PPopLoadTail (h0 : Z) | PPopLoadSeq (h0 : Z) | PPopCas (h0 : Z) | PPopRead (h0 : Z) | PPopDestroy (h0 v : Z)
| PPopStoreSeq (h0 v : Z)
| PBLoadTail (vs : list Z)
| PBLoadSeq (vs : list Z) (t0 i : Z)          (* validation loop, at the hook before the seq load of slot tail+i *)
| PBCas (vs : list Z) (t0 avail : Z)
| PBWrite (vs : list Z) (t0 i avail : Z)
| PBStoreSeq (vs : list Z) (t0 i avail : Z)
| PDone.

Record thread := TH { tpc : pc; prog : list op; res : list (Z * Z) }.   (* res: (tag, value), newest first *)

(* ghost phase of the position a slot currently serves *)
Inductive phase :=
| Free                 (* released by the previous lap's pop (or never used); not yet claimed by a push *)
| Claimed (t : nat)    (* thread t won the tail CAS for it; payload not yet constructed *)
| Written (t : nat)    (* payload constructed by t; sequence not yet published *)
| Full                 (* published *)
| Taking (t : nat) (moved : bool)   (* thread t won the head CAS for it; moved = payload already moved out (not yet destroyed) *)
| Taken (t : nat).     (* payload destroyed by t; slot not yet released *)

Record slot := SL { seq : Z; val : Z; ph : phase }.

Record state := ST {
  N : Z;                        (* kBufferSize = capacity() *)
  head : Z; tail : Z;
  slots : Z -> slot;
  led : ledger;                 (* lifetime ledger, object id = slot index *)
  threads : list thread;
  gpush : list (Z * Z);         (* ghost: per position (in claim order = position order): (pusher tid, value) *)
  gpopped : list (Z * (Z * Z)) }.  (* ghost: (popper tid, (position, value returned)), in order of completion *)

(* site ids = positions in props/C34.py SITES *)
Definition s_start := 0.
Definition s_push_tail_load := 1. Definition s_push_seq_load := 2. Definition s_push_tail_cas := 3.
Definition s_push_data_write := 4. Definition s_push_seq_store := 5.
Definition s_pop_head_load := 6. Definition s_pop_tail_load := 7. Definition s_pop_seq_load := 8. Definition s_pop_head_cas := 9.
Definition s_pop_data_read := 10. Definition s_pop_seq_store := 11.
Definition s_pushb_tail_load := 12. Definition s_pushb_seq_load := 13. Definition s_pushb_tail_cas := 14.
Definition s_pushb_data_write := 15. Definition s_pushb_seq_store := 16.
Definition s_pop_data_destroy := 17.

(* result tags (same numbering as Model/SpscModel.v) *)
Definition r_push := 1.      (* (r_push, v): element v was accepted (single push, or one element of a batch) *)
Definition r_pushfail := 2.  (* (r_pushfail, v): try_push(v) returned false *)
Definition r_pop := 3.       (* (r_pop, v): element v was delivered *)
Definition r_popfail := 4.   (* try_pop returned false *)
Definition r_pushb := 5.     (* return value of try_push_batch *)

Definition entry (o : op) : pc :=
  match o with
  | OPush v => PPushLoadTail v
  | OPop => PPopLoadHead
  | OPushBatch vs => PBLoadTail vs
  end.

(* move to the next operation; try_push_batch with count == 0 returns 0 without touching shared memory *)
Fixpoint advance (p : list op) (r : list (Z * Z)) : thread :=
  match p with
  | [] => TH PDone [] r
  | OPushBatch [] :: p' => advance p' ((r_pushb, 0) :: r)
  | o :: p' => TH (entry o) p' r
  end.
Definition next (th : thread) : thread := advance (prog th) (res th).
Definition goto (th : thread) (p : pc) : thread := TH p (prog th) (res th).
Definition logr (th : thread) (tag v : Z) : thread := TH (tpc th) (prog th) ((tag, v) :: res th).
Definition logrs (th : thread) (tag : Z) (vs : list Z) : thread :=
  TH (tpc th) (prog th) (rev (map (fun v => (tag, v)) vs) ++ res th).

Fixpoint set_nth {A} (l : list A) (n : nat) (x : A) : list A :=
  match l, n with
  | [], _ => []
  | _ :: r, O => x :: r
  | y :: r, S m => y :: set_nth r m x
  end.

Definition with_seq (sl : slot) (x : Z) (p : phase) : slot := SL x (val sl) p.
Definition with_val (sl : slot) (v : Z) (p : phase) : slot := SL (seq sl) v p.
Definition with_ph (sl : slot) (p : phase) : slot := SL (seq sl) (val sl) p.

(* ghost: the cnt <= n positions t0, t0+1, ..., t0+cnt-1 (slots (t0+j) mod n) are now claimed by thread t *)
Definition mark_claimed (f : Z -> slot) (n : Z) (t : nat) (t0 : Z) (cnt : Z) : Z -> slot :=
  fun i => if (i - t0) mod n <? cnt then with_ph (f i) (Claimed t) else f i.

Definition u64 (z : Z) : Z := wrap 64 z.
(* intptr_t diff = static_cast<intptr_t>(a) - static_cast<intptr_t>(b) *)
Definition sdiff (a b : Z) : Z := wrap_s 64 (wrap_s 64 a - wrap_s 64 b).

Definition step (s : state) (t : nat) (ch : list Z) : option (state * list Z * Z) :=
  match nth_error (threads s) t with
  | None => None
  | Some th =>
      let n := N s in
      let tz := Z.of_nat t in
      let mk (hd tl : Z) (sl : Z -> slot) (l : ledger) (th' : thread) (gp : list (Z * Z)) (gq : list (Z * (Z * Z))) (site : Z) :=
        Some (ST n hd tl sl l (set_nth (threads s) t th') gp gq, ch, site) in
      let same (th' : thread) (site : Z) := mk (head s) (tail s) (slots s) (led s) th' (gpush s) (gpopped s) site in
      match tpc th with
      | PStart => same (next th) s_start
      (* ---- emplaceImpl ---- *)
      | PPushLoadTail v => same (goto th (PPushLoadSeq v (tail s))) s_push_tail_load
      | PPushLoadSeq v t0 =>
          if sdiff (seq (slots s (ring_wrap n t0))) t0 =? 0 then same (goto th (PPushCas v t0)) s_push_seq_load
          else same (next (logr th r_pushfail v)) s_push_seq_load
      | PPushCas v t0 =>
          if tail s =? t0 then
            mk (head s) (u64 (t0 + 1)) (mark_claimed (slots s) n t t0 1) (led s) (goto th (PPushWrite v t0))
               (gpush s ++ [(tz, v)]) (gpopped s) s_push_tail_cas
          else same (next (logr th r_pushfail v)) s_push_tail_cas
      | PPushWrite v t0 =>
          let i := ring_wrap n t0 in
          mk (head s) (tail s) (fupd (slots s) i (with_val (slots s i) v (Written t))) (construct KMove i (led s))
             (goto th (PPushStoreSeq v t0)) (gpush s) (gpopped s) s_push_data_write
      | PPushStoreSeq v t0 =>
          let i := ring_wrap n t0 in
          mk (head s) (tail s) (fupd (slots s) i (with_seq (slots s i) (u64 (t0 + 1)) Full)) (led s)
             (next (logr th r_push v)) (gpush s) (gpopped s) s_push_seq_store
      (* ---- try_pop variants ---- *)
      | PPopLoadHead => same (goto th (PPopLoadTail (head s))) s_pop_head_load
      | PPopLoadTail h0 =>
          if h0 =? tail s then same (next (logr th r_popfail 0)) s_pop_tail_load
          else same (goto th (PPopLoadSeq h0)) s_pop_tail_load
      | PPopLoadSeq h0 =>
          if sdiff (seq (slots s (ring_wrap n h0))) (u64 (h0 + 1)) =? 0 then same (goto th (PPopCas h0)) s_pop_seq_load
          else same (next (logr th r_popfail 0)) s_pop_seq_load
      | PPopCas h0 =>
          if head s =? h0 then
            let i := ring_wrap n h0 in
            mk (u64 (h0 + 1)) (tail s) (fupd (slots s) i (with_ph (slots s i) (Taking t false))) (led s) (goto th (PPopRead h0))
               (gpush s) (gpopped s) s_pop_head_cas
          else same (next (logr th r_popfail 0)) s_pop_head_cas
      | PPopRead h0 =>
          let i := ring_wrap n h0 in
          mk (head s) (tail s) (fupd (slots s) i (with_ph (slots s i) (Taking t true))) (move_from i (led s))
             (goto th (PPopDestroy h0 (val (slots s i)))) (gpush s) (gpopped s) s_pop_data_read
      | PPopDestroy h0 v =>
          let i := ring_wrap n h0 in
          mk (head s) (tail s) (fupd (slots s) i (with_ph (slots s i) (Taken t))) (destroy i (led s))
             (goto th (PPopStoreSeq h0 v)) (gpush s) (gpopped s) s_pop_data_destroy
      | PPopStoreSeq h0 v =>
          let i := ring_wrap n h0 in
          mk (head s) (tail s) (fupd (slots s) i (with_seq (slots s i) (u64 (h0 + n)) Free)) (led s)
             (next (logr th r_pop v)) (gpush s) (gpopped s ++ [(tz, (h0, v))]) s_pop_seq_store
      (* ---- try_push_batch ---- *)
      | PBLoadTail vs =>       (* count > kBufferSize is clamped to kBufferSize *)
          same (goto th (PBLoadSeq (firstn (Z.to_nat n) vs) (tail s) 0)) s_pushb_tail_load
      | PBLoadSeq vs t0 i =>
          let cnt := Z.of_nat (length vs) in
          let okslot := sdiff (seq (slots s (ring_wrap n (u64 (t0 + i))))) (u64 (t0 + i)) =? 0 in
          if okslot && (i + 1 <? cnt) then same (goto th (PBLoadSeq vs t0 (i + 1))) s_pushb_seq_load
          else
            let avail := if okslot then i + 1 else i in
            if avail =? 0 then same (next (logr th r_pushb 0)) s_pushb_seq_load
            else same (goto th (PBCas vs t0 avail)) s_pushb_seq_load
      | PBCas vs t0 avail =>
          if tail s =? t0 then
            mk (head s) (u64 (t0 + avail)) (mark_claimed (slots s) n t t0 avail) (led s) (goto th (PBWrite vs t0 0 avail))
               (gpush s ++ map (fun v => (tz, v)) (firstn (Z.to_nat avail) vs)) (gpopped s) s_pushb_tail_cas
          else same (next (logr th r_pushb 0)) s_pushb_tail_cas
      | PBWrite vs t0 i avail =>
          let j := ring_wrap n (u64 (t0 + i)) in
          mk (head s) (tail s) (fupd (slots s) j (with_val (slots s j) (nth (Z.to_nat i) vs 0) (Written t))) (construct KMove j (led s))
             (goto th (PBStoreSeq vs t0 i avail)) (gpush s) (gpopped s) s_pushb_data_write
      | PBStoreSeq vs t0 i avail =>
          let j := ring_wrap n (u64 (t0 + i)) in
          let sl' := fupd (slots s) j (with_seq (slots s j) (u64 (t0 + i + 1)) Full) in
          if i + 1 <? avail then
            mk (head s) (tail s) sl' (led s) (goto th (PBWrite vs t0 (i + 1) avail)) (gpush s) (gpopped s) s_pushb_seq_store
          else
            mk (head s) (tail s) sl' (led s) (next (logr (logrs th r_push (firstn (Z.to_nat avail) vs)) r_pushb avail))
               (gpush s) (gpopped s) s_pushb_seq_store
      | PDone => None
      end
  end.

(* position wrap excluded: the guarded step refuses to move once tail comes within 2 * kBufferSize of 2^62
   (about 4.6e18 pushes); every theorem of C34 is about [gstep] *)
Definition nowrap (s : state) : bool := tail s + 2 * N s <? 2 ^ 62.
Definition gstep (s : state) (t : nat) (ch : list Z) : option (state * list Z * Z) :=
  if nowrap s then step s t ch else None.

Definition runnable_pc (p : pc) : bool := match p with PDone => false | _ => true end.
Fixpoint tids_where (f : pc -> bool) (ths : list thread) (i : nat) : list nat :=
  match ths with
  | [] => []
  | th :: r => if f (tpc th) then i :: tids_where f r (S i) else tids_where f r (S i)
  end.
Definition cands (s : state) : list nat := tids_where runnable_pc (threads s) 0.
Definition finished (s : state) : bool :=
  forallb (fun th => match tpc th with PDone => true | _ => false end) (threads s).

(* MpmcRingBuffer(): slots_[i].seq = i *)
Definition init (n : Z) (progs : list (list op)) : state :=
  ST n 0 0 (fun i => SL i 0 Free) ledger0 (map (fun p => TH PStart p []) progs) [] [].

Definition run_mpmc (fuel : nat) (n : Z) (progs : list (list op)) (sched : list Z) :=
  run gstep cands finished fuel (init n progs) sched [].

(* ---- observations ---- *)
Definition range (n : Z) : list Z := map Z.of_nat (List.seq 0 (Z.to_nat n)).
(* positions head .. tail-1 *)
Definition live_positions (s : state) : list Z := map (fun i => head s + i) (range (tail s - head s)).
(* the payload of the slots from head to tail, oldest first (meaningful when no operation is in flight) *)
Definition contents (s : state) : list Z := map (fun p => val (slots s (ring_wrap (N s) p))) (live_positions s).
Definition lstate_code (x : lstate) : Z := match x with Unborn => 0 | Alive => 1 | MovedFrom => 2 | Dead => 3 end.

(* ~MpmcRingBuffer(): while (head != tail) { destroy slot wrapIndex(head); ++head }   (not concurrent) *)
Fixpoint dtor_loop (fuel : nat) (n : Z) (l : ledger) (h tl : Z) : ledger :=
  match fuel with
  | O => l
  | S m => if h =? tl then l else dtor_loop m n (destroy (ring_wrap n h) l) (u64 (h + 1)) tl
  end.
Definition dtor (s : state) : ledger := dtor_loop (Z.to_nat (N s)) (N s) (led s) (head s) (tail s).

(* no operation in flight: every thread is at the first access of an operation, not started, or done *)
Definition idle_pc (p : pc) : bool :=
  match p with PStart | PDone | PPushLoadTail _ | PPopLoadHead | PBLoadTail _ => true | _ => false end.
Definition quiescent (s : state) : bool := forallb (fun th => idle_pc (tpc th)) (threads s).
