(* Executable form of C31, evaluated on what the IMPLEMENTATION did: the shared judge of Model/C30Check.v replays the
   case on the model; at every ForwardPropagator op it computes, from the state before the propagation,
     ideal_rerun  = forward closure of the incomplete nodes + all members of the propagation classes meeting it   (the property)
     model_rerun  = forward closure + the members of the set OBJECTS the closure nodes point to                 (the code)
   and at the following execute op compares the set of nodes the implementation ran with both (code31 of the event),
   while code30 of the same event checks the dependency order among the re-run nodes. *)
From Coq Require Import ZArith List Bool PArith FMapPositive.
From DV Require Import Base.MachInt Model.GraphModel Model.C30Check.
Import ListNotations.
Local Open Scope Z_scope.

Definition judge_c31 := judge_graph.

(* domain of the known finding "biprop-merge-stale-set" *)
Definition c31_finding_domain (g : graph) : bool := negb (sets_coherentb g).
