(* Correspondence judge for C38: the model (Model/SmallVecModel.v) and the specification (std::vector as lists) are run
   on the case's operation sequence inside Coq, with the allocator oracle instantiated by the addresses (mod 64) that
   the implementation's allocate() (::operator new, or alignedMalloc for alignof(T) > 16) actually returned, and compared step by step with what the real SmallVector
   did; the executable form of the property is evaluated on the IMPLEMENTATION's observations.  No proofs here. *)
From Coq Require Import ZArith List Bool.
From DV Require Import Base.MachInt Base.Corr Model.SmallVecLife Model.SmallVecModel.
Import ListNotations.
Local Open Scope Z_scope.

(* header: [flags; misaligned; nctor; ndtor; nalloc; nfree] where flags = readdead + readmoved + dblctor + dtordead + assigndead +
   dblfree + refmismatch as counted by the harness (all must be 0), misaligned = constructions at a misaligned address *)
Definition stepobs := (list Z * list (list Z))%type.

Record caseT := mkCase {
  c_al : Z; c_N : nat; c_K : nat; c_ops : list op;
  c_objmod : Z; c_inloff : Z; c_szT : Z;
  c_resid : list Z;              (* address mod 64 of each block ::operator new returned, in order *)
  c_bytes : list Z;              (* bytes requested, in order *)
  c_steps : list stepobs;        (* one per executed operation *)
  c_full : list (list Z);        (* every slot, after the last operation *)
  c_final : list Z }.            (* header after destroying every remaining vector ++ [live objects; live blocks] *)

Definition oracle (resid : list Z) : nat -> Z -> Z :=
  fun c _ => 1048576 * (Z.of_nat c + 1) + nth c resid 0.

Definition nfreed (g : ledger) : Z := Z.of_nat (length (filter (fun b => negb (b_live b)) (blocks g))).
Definition hdr (g : ledger) : list Z :=
  [0; 0; nctor g; ndtor g; Z.of_nat (length (blocks g)); nfreed g].

Definition touched (o : op) : list nat :=
  match o with
  | OCtor k | OCtorN k _ | OCtorNV k _ _ | OCtorIL k _ | ODtor k | OPush _ k _ | OPop k | OResize k _ | OResizeV k _ _
  | OReserve k _ | OClear k | OErase k _ | OPushSelf k _ | OResizeSelf k _ _ => [k]
  | OCtorCopy k j | OCtorMove k j | OAssignCopy k j | OAssignMove k j => [k; j]
  end.

Section Judge.
  Variable c : caseT.
  Let al := c_al c.
  Let N := c_N c.
  Let szT := c_szT c.
  Let alloc := oracle (c_resid c).

  Definition slot_obs (s : slots) (g : ledger) (k : nat) : list Z :=
    match nth_error s k with
    | Some (Some v) =>
        [Z.of_nat k; 1; b2z (heapb v); Z.of_nat (vsize v); Z.of_nat (capacity N v);
         (data_addr al (c_objmod c) g v) mod al] ++ map cell_val (firstn (vsize v) (data v))
    | _ => [Z.of_nat k; 0]
    end.

  Definition model_step_obs (o : op) (s : slots) (g : ledger) : stepobs :=
    (hdr g, map (slot_obs s g) (touched o)).

  (* executable property on one slot observation of the implementation, against the specification *)
  Definition slot_prop (sp : sspec) (ob : list Z) : bool :=
    match ob with
    | [k; 0] => sfree sp (Z.to_nat k)
    | k :: 1 :: heap :: size :: cap :: dmod :: contents =>
        match sget sp (Z.to_nat k) with
        | Some l => (size =? Z.of_nat (length l)) && zlist_eqb contents l && (size <=? cap)
        | None => false
        end
    | _ => false
    end.
  Definition slot_key (ob : list Z) : Z := match ob with k :: _ => k | [] => -1 end.
  (* alignment of the elements of one observed slot: (heap storage ok, inline storage ok) *)
  Definition slot_align (ob : list Z) : bool * bool :=
    match ob with
    | _ :: 1 :: heap :: size :: _ :: dmod :: _ =>
        if (0 <? size) && negb (dmod =? 0) then (if heap =? 1 then (false, true) else (true, false)) else (true, true)
    | _ => (true, true)
    end.

  Fixpoint total (sp : sspec) : Z :=
    match sp with
    | [] => 0
    | Some l :: r => Z.of_nat (length l) + total r
    | None :: r => total r
    end.

  Definition flags_ok (h : list Z) : bool := match h with f :: _ => f =? 0 | [] => false end.
  Definition live_of (h : list Z) : Z := nth 2 h 0 - nth 3 h 0.

  Definition step_prop (o : op) (sp' : sspec) (ob : stepobs) : bool :=
    let '(h, sl) := ob in
    flags_ok h && (live_of h =? total sp') &&
    zlist_eqb (map slot_key sl) (map Z.of_nat (touched o)) && forallb (slot_prop sp') sl.

  Record acc := mkAcc { a_agree : bool; a_prop : bool; a_alh : bool; a_ali : bool }.

  Definition acc_step (a : acc) (agree prop : bool) (sl : list (list Z)) : acc :=
    let al2 := map slot_align sl in
    mkAcc (a_agree a && agree) (a_prop a && prop) (a_alh a && forallb fst al2) (a_ali a && forallb snd al2).

  (* the count of misaligned constructions (index 1) is not predicted by the model; data() mod alignof(T) is *)
  Definition drop5 (h : list Z) : list Z := firstn 1 h ++ skipn 2 h.
  Definition stepobs_eqb (x y : stepobs) : bool :=
    zlist_eqb (drop5 (fst x)) (drop5 (fst y)) && list_eqb zlist_eqb (snd x) (snd y).

  (* result of the walk: Z code (0 = ran to the end, 9 = invalid case), accumulated flags, final model state, final spec *)
  Fixpoint walk (ops : list op) (impl : list stepobs) (ms : option (slots * ledger)) (sp : sspec) (a : acc)
    : Z * acc * option (slots * ledger) * sspec :=
    match ops with
    | [] => (match impl with [] => 0 | _ => 9 end, a, ms, sp)
    | o :: r =>
        match spec_step o sp with
        | None => (9, a, ms, sp)
        | Some sp' =>
            match impl with
            | [] => (0, mkAcc (a_agree a) false (a_alh a) (a_ali a), ms, sp)     (* the harness stopped early *)
            | ob :: impl' =>
                let ms' := match ms with
                           | Some (s, g) => match step alloc N szT o s g with Ok (s', g') => Some (s', g') | Err _ => None end
                           | None => None
                           end in
                let agree := match ms' with Some (s', g') => stepobs_eqb ob (model_step_obs o s' g') | None => false end in
                walk r impl' ms' sp' (acc_step a agree (step_prop o sp' ob) (snd ob))
            end
        end
    end.

  Definition final_prop (h : list Z) : bool :=
    flags_ok h && (live_of h =? 0) && (nth 4 h 0 =? nth 5 h 1) && (nth 6 h 1 =? 0) && (nth 7 h 1 =? 0).

  (* 0 agree + property holds | 1 differ, property holds | 2 property fails on the implementation's output (contents / size
     vs std::vector, lifetime flags and balances, element alignment in inline or heap storage) | 9 bad case *)
  Definition judge : Z :=
    let K := c_K c in
    let '(code, a, ms, sp) :=
      walk (c_ops c) (c_steps c) (Some (init_slots K, led0)) (spec_init K) (mkAcc true true true true) in
    if code =? 9 then 9
    else if negb (a_prop a) then 2
    else
      let full := c_full c in
      let fin := c_final c in
      let propF := forallb (slot_prop sp) full && (Z.of_nat (length full) =? Z.of_nat K) && final_prop fin in
      let alF := map slot_align full in
      let al_ok := a_alh a && a_ali a && forallb fst alF && forallb snd alF && (nth 1 fin 1 =? 0) in
      let agreeF :=
        match ms with
        | Some (s, g) =>
            list_eqb zlist_eqb full (map (slot_obs s g) (seq 0 K)) &&
            match finish s g with
            | Ok (_, g') => zlist_eqb (drop5 fin) (drop5 (hdr g') ++ [0; 0]) &&
                            zlist_eqb (c_bytes c) (map b_bytes (blocks g'))
            | Err _ => false
            end
        | None => false
        end in
      let agree := a_agree a && agreeF && (c_objmod c =? 0) && (c_inloff c =? inl_off al) in
      if negb propF then 2
      else if negb al_ok then 2
      else if agree then 0 else 1.
End Judge.

(* Transport encoding used by props/C38.py: the observation lists are written as [positive] literals p = z + 3
   (a positive literal elaborates about twice as fast as the term (Zpos p); the case files hold ~10^5 numbers). *)
Definition dz (p : positive) : Z := Zpos p - 3.
Definition dzl (l : list positive) : list Z := map dz l.
Definition judgeP (c : Z * nat * nat * list op * (Z * Z * Z) * (list positive * list positive) *
                       list (list positive * list (list positive)) * list (list positive) * list positive) : Z :=
  let '(al, N, K, ops, (objmod, inloff, szT), (resid, bytes), steps, full, fin) := c in
  judge (mkCase al N K ops objmod inloff szT (dzl resid) (dzl bytes)
           (map (fun st => (dzl (fst st), map dzl (snd st))) steps) (map dzl full) (dzl fin)).
