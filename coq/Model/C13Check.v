(* Executable form of C13 (parallel_for honours the granularity contract), evaluated on what the IMPLEMENTATION
   did, plus the Gallina domain predicate of the known finding.  No proofs here. *)
From Coq Require Import ZArith List Bool.
From DV Require Import Base.MachInt Base.Corr Model.ChunkModel Gen.GenChunk Model.ParForModel Model.DynModel Model.StripeModel Model.C12Check.
Import ListNotations.
Local Open Scope Z_scope.

Definition nonmult (g : Z) (ab : Z * Z) : bool := negb (Z.rem (snd ab - fst ab) g =? 0).

(* at most one invocation has a size that is not a multiple of g, and it ends at the range end *)
Definition gran_okb (g e : Z) (l : list (Z * Z)) : bool :=
  match filter (nonmult g) l with
  | [] => true
  | [ab] => snd ab =? e
  | _ => false
  end.

(* the granularity the contract speaks about: options.granularity when no explicit chunk size is given
   (computeGranularity), 1 otherwise *)
Definition c13_gran (c : pfcfg) : Z := d_g (pf_decide c).

(* (the former finding adaptive-absolute-alignment -- stripe ends aligned to absolute multiples of g -- is fixed in
   /repo: initStripeState aligns the offset from start; no known-finding domain remains for C13) *)

(* 0 = equals the model's plan and honours the contract; 1 = honours it but differs from the plan;
   2 = contract broken; 3 = no recorded invocations to judge (body overran; C12's business) *)
Definition judge_c13 (x : pfcfg * Z * bool * list (Z * Z * Z)) : Z :=
  let '(cfg, l3, overrun, runs) := x in
  let impl := expand_runs runs in
  if overrun then 3 else
  if negb (gran_okb (c13_gran cfg) (pf_e cfg) impl) then 2
  else match pf_canon cfg l3 with
       | Some m => if zpairs_eqb m impl then 0 else 1
       | None => 1
       end.

Definition judge_c13_flat (l : list Z) : Z := judge_c13 (decode_case l).
