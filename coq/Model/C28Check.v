(* Judge for C28: per-stage in-flight counts and generator concurrency, evaluated on the implementation's own event log. *)
From Coq Require Import ZArith List Bool.
From DV Require Import Base.MachInt Base.Corr Base.Sched Model.PipelineModel Model.C27Check.
Import ListNotations.
Local Open Scope Z_scope.

Fixpoint bump (l : list Z) (n : nat) (d : Z) : list Z :=
  match l, n with [], _ => [] | x :: r, O => (x + d) :: r | x :: r, S m => x :: bump r m d end.

(* walk the log: [cnt] = invocations in progress per stage, [g] = generator calls in progress; false as soon as a limit is exceeded *)
Fixpoint c28_walk (c : cfg) (cnt : list Z) (g : Z) (l : list (list Z)) : bool :=
  match l with
  | [] => true
  | r :: rest =>
      let k := r_kind r in
      let j := Z.to_nat (r_j r) in
      if k =? 1 then
        let cnt' := bump cnt j 1 in
        (unlimited c j || (nth j cnt' 0 <=? lim_of (stage_at c j))) && c28_walk c cnt' g rest
      else if (k =? 2) || (k =? 3) then c28_walk c (bump cnt j (-1)) g rest
      else if k =? 14 then (g + 1 <=? ninst c) && c28_walk c cnt (g + 1) rest
      else if (k =? 4) || (k =? 5) || (k =? 6) then c28_walk c cnt (g - 1) rest
      else c28_walk c cnt g rest
  end.

Definition c28_holds (c : pcase) : bool := c28_walk (p_cfg c) (repeat 0 (nstages (p_cfg c))) 0 (i_log c).

(* 0 agree & property holds; 1 model and implementation differ, property holds; 2 property fails on the implementation *)
Definition judge_c28 (c : pcase) : Z := if negb (c28_holds c) then 2 else if agrees c then 0 else 1.
Definition judge_c28n (c : pcase) : Z := if c28_holds c then 0 else 2.
