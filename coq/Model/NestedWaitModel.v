(* C06: nested waits and pool starvation.  Executable task-level model; no proofs (Proofs/C06Proofs.v).

   Programs are data: a body is a list of ops; OSpawn submits a child body into a join of the CURRENT body (a task set --
   TaskSet / ConcurrentTaskSet, also the set inside a waiting parallel_for -- or a future), OWait waits for an own join, OWaitUp
   waits for a future created earlier by an enclosing body (captured by value when the child was spawned).
   Agents: agent 0 is the external thread running the root body; agents 1..N are the pool workers.  Every agent is a STACK of
   activations: a waiter is not idle -- what each wait really does (task_set.cpp, future_impl.h, thread_pool.h):
     TaskSet::wait / ConcurrentTaskSet::wait   while outstanding: tryExecuteNext (central queue; TaskSet: own producer token first) and
                                               tryExecuteNextFromRings (every locality ring); a task found is run ON TOP of the
                                               waiter's stack; nothing found: yield and retry (spin).  Steal rings are NOT polled.
     Future::wait                              status not-started: run the functor inline (on top of the stack); running: block on
                                               the completion futex until ready (no polling).
     pool worker (threadLoopImpl)              polls its locality ring, the central queue, its group's steal ring (tier 3 / the
                                               deferred check); parks when it found nothing.
   Queue tiers: [cq] = central queue and locality rings (every set-waiter and every awake worker polls them), [steal] = the group's
   steal ring (pools of <= 8 threads have one group): a task enters it only together with the claim + wake of a parked worker
   (ThreadPool::scheduleImplPlaced), and only workers poll it.  Timeout-free: a parked worker stays parked until claimed.
   Where a submission goes (inline on the caller / cq / steal) is decided by the load tests of the code; here it is an oracle integer
   per submission, so the theorems cover every outcome of every load test, and every order in which polls return tasks.
   The outstanding count of a set and the status of a future are COMPUTED from the task table (C02: outstanding = tasks submitted and
   not finished; C18: the future's status follows its functor), ghost stamps (a_start, j_ostart, clock) order the activations. *)
From Coq Require Import ZArith List Bool Arith Lia.
From DV Require Import Base.Sched.
Import ListNotations.

(* a future carries its deferred-policy flag (std::launch::deferred = true, dispenso::kNotDeferred = false): FutureImplBase::allowInline_ *)
Inductive jkind := JSet | JFut (deferred : bool).
(* FutureImplBase::wait() -- the UNTIMED wait behind Future::wait() / get() -- is waitCommon(true): it claims and runs a not-started
   functor whatever the policy says; only waitFor / waitUntil consult allowInline_ (waitCommon(allowInline_)).  The theorems
   below depend on this rule: with [untimed_wait_inline d := d] a pool whose workers all wait for still-queued kNotDeferred
   futures of their own is a reachable stuck state. *)
Definition untimed_wait_inline (deferred : bool) : bool := true.
Inductive op :=
| OWork
| OSpawn (j : nat) (k : jkind) (body : list op)
| OWait (j : nat)
| OWaitUp (j : nat).

Inductive tstate := TQueued | TActive | TDone.
Record trec := TR { t_body : list op; t_cap : list (nat * nat); t_join : nat; t_st : tstate }.
Record jrec := JR { j_kind : jkind; j_ftask : nat (* the future's task *); j_ostart : nat (* ghost: stamp of the creating activation *) }.
Inductive mode := MRun | MWaitSet (gj : nat) | MWaitFut (gj : nat).
Record act := ACT { a_task : nat; a_ops : list op; a_own : list (nat * nat) (* name -> join *); a_cap : list (nat * nat);
                    a_mode : mode; a_start : nat }.
Record agent := AG { stack : list act (* top first *); parked : bool; worker : bool }.
Record state := ST { tasks : list trec; joins : list jrec; cq : list nat; steal : list nat; agents : list agent; clock : nat }.

(* ---------- small helpers ---------- *)
Fixpoint set_nth {A} (l : list A) (n : nat) (x : A) : list A :=
  match l, n with
  | [], _ => []
  | _ :: r, O => x :: r
  | y :: r, S m => y :: set_nth r m x
  end.
Fixpoint remove_nth {A} (l : list A) (n : nat) : list A :=
  match l, n with
  | [], _ => []
  | _ :: r, O => r
  | y :: r, S m => y :: remove_nth r m
  end.
Fixpoint assoc (j : nat) (l : list (nat * nat)) : option nat :=
  match l with
  | [] => None
  | (k, v) :: r => if Nat.eqb k j then Some v else assoc j r
  end.
Definition dtask : trec := TR [] [] 0 TDone.
Definition djoin : jrec := JR JSet 0 0.
Definition dagent : agent := AG [] true true.
Definition task_of (s : state) (t : nat) : trec := nth t (tasks s) dtask.
Definition join_of (s : state) (g : nat) : jrec := nth g (joins s) djoin.
Definition agent_of (s : state) (a : nat) : agent := nth a (agents s) dagent.
Definition is_done (x : tstate) : bool := match x with TDone => true | _ => false end.
Definition is_queued (x : tstate) : bool := match x with TQueued => true | _ => false end.

(* outstandingTaskCount_ == 0, computed: every task submitted into the set has finished *)
Definition set_done (s : state) (g : nat) : bool :=
  forallb (fun t => negb (Nat.eqb (t_join t) g) || is_done (t_st t)) (tasks s).
(* status of the future behind join g *)
Definition fut_state (s : state) (g : nat) : tstate := t_st (task_of s (j_ftask (join_of s g))).

(* ---------- the measure (every step that changes the state decreases it) ---------- *)
Fixpoint cost (o : op) : nat :=
  match o with
  | OWork => 1
  | OWait _ | OWaitUp _ => 2
  | OSpawn _ _ b => 4 + list_sum (map cost b)
  end.
Definition wbody (b : list op) : nat := 1 + list_sum (map cost b).
Definition wact (x : act) : nat := wbody (a_ops x) + match a_mode x with MRun => 0 | _ => 1 end.
Definition wagent (g : agent) : nat := list_sum (map wact (stack g)) + (if worker g && negb (parked g) then 1 else 0).
Definition wqueued (s : state) (l : list nat) : nat := list_sum (map (fun t => 1 + wbody (t_body (task_of s t))) l).
Definition mu (s : state) : nat := list_sum (map wagent (agents s)) + wqueued s (cq s) + wqueued s (steal s).

(* ---------- state updates ---------- *)
Definition with_agent (s : state) (a : nat) (g : agent) : state :=
  ST (tasks s) (joins s) (cq s) (steal s) (set_nth (agents s) a g) (clock s).
Definition with_stack (s : state) (a : nat) (st : list act) : state :=
  let g := agent_of s a in with_agent s a (AG st (parked g) (worker g)).
Definition with_tstate (s : state) (t : nat) (x : tstate) : state :=
  let r := task_of s t in
  ST (set_nth (tasks s) t (TR (t_body r) (t_cap r) (t_join r) x)) (joins s) (cq s) (steal s) (agents s) (clock s).
Definition with_queues (s : state) (c st : list nat) : state := ST (tasks s) (joins s) c st (agents s) (clock s).
Definition tick (s : state) : state := ST (tasks s) (joins s) (cq s) (steal s) (agents s) (S (clock s)).

Definition set_top (x : act) (ops : list op) (m : mode) : act := ACT (a_task x) ops (a_own x) (a_cap x) m (a_start x).

(* start task t on top of agent a's stack (fresh stamp) *)
Definition start_task (s : state) (a : nat) (below : list act) (t : nat) : state :=
  let r := task_of s t in
  let s1 := tick (with_tstate s t TActive) in
  with_stack s1 a (ACT t (t_body r) [] (t_cap r) MRun (clock s1) :: below).

Fixpoint first_parked (l : list agent) (i : nat) : option nat :=
  match l with
  | [] => None
  | g :: r => if worker g && parked g then Some i else first_parked r (S i)
  end.

(* ---------- one step of agent a ---------- *)
Definition choice (ch : list Z) : nat * list Z :=
  match ch with [] => (O, []) | c :: r => (Z.to_nat c, r) end.

Definition site_run : Z := 0%Z.   Definition site_spin : Z := 1%Z.  Definition site_park : Z := 2%Z.
Definition site_pop : Z := 3%Z.   Definition site_fin : Z := 4%Z.   Definition site_spawn : Z := 5%Z.
Definition site_wait : Z := 6%Z.  Definition site_wake : Z := 7%Z.

(* take the i-th task of the pool cq ++ st out of its tier *)
Definition take_at (s : state) (i : nat) : state :=
  if i <? length (cq s) then with_queues s (remove_nth (cq s) i) (steal s)
  else with_queues s (cq s) (remove_nth (steal s) (i - length (cq s))).

Definition neqb (t u : nat) : bool := negb (Nat.eqb u t).

(* OWait / OWaitUp on join gj by the top activation x (remaining ops r) *)
Definition wait_join (s : state) (a : nat) (x : act) (r : list op) (below : list act) (gj : nat) : state :=
  match j_kind (join_of s gj) with
  | JSet => with_stack s a (set_top x r (MWaitSet gj) :: below)
  | JFut d =>
      match fut_state s gj with
      | TDone => with_stack s a (set_top x r MRun :: below)
      | TActive => with_stack s a (set_top x r (MWaitFut gj) :: below)               (* status_.wait(kReady): futex *)
      | TQueued =>                                                                  (* run(kNotStarted): the waiter runs the functor *)
          let t := j_ftask (join_of s gj) in
          if untimed_wait_inline d && existsb (Nat.eqb t) (cq s ++ steal s)
          then start_task (with_queues s (filter (neqb t) (cq s)) (filter (neqb t) (steal s))) a (set_top x r MRun :: below) t
          else with_stack s a (set_top x r MRun :: below)
      end
  end.

Definition is_set (k : jkind) : bool := match k with JSet => true | JFut _ => false end.

Definition spawn (s : state) (a : nat) (x : act) (r : list op) (below : list act) (j : nat) (k : jkind) (body : list op) (c : nat) : state :=
  let t := length (tasks s) in
  let reuse := match assoc j (a_own x) with
               | Some gj => if is_set k && is_set (j_kind (join_of s gj)) then Some gj else None
               | None => None
               end in
  let gj := match reuse with Some gj => gj | None => length (joins s) end in
  let js := match reuse with Some _ => joins s | None => joins s ++ [JR k t (a_start x)] end in
  let own' := match reuse with Some _ => a_own x | None => (j, gj) :: a_own x end in
  let cap' := filter (fun nv => negb (Nat.eqb (fst nv) j)) (a_own x) ++ a_cap x in
  let x' := ACT (a_task x) r own' (a_cap x) MRun (a_start x) in
  let mk (st : tstate) := tasks s ++ [TR body cap' gj st] in
  match Nat.modulo c 3, first_parked (agents s) 0 with
  | O, _ =>                                                  (* runs at once on the submitting thread *)
      let s1 := ST (mk TActive) js (cq s) (steal s) (agents s) (S (clock s)) in
      with_stack s1 a (ACT t body [] cap' MRun (clock s1) :: x' :: below)
  | 2, Some w =>                                             (* scheduleImplPlaced: claim + wake a sleeper, push to its steal ring *)
      let s1 := ST (mk TQueued) js (cq s) (steal s ++ [t]) (agents s) (clock s) in
      let s2 := with_stack s1 a (x' :: below) in
      with_agent s2 w (AG (stack (agent_of s2 w)) false true)
  | _, _ =>                                                  (* central queue / locality ring *)
      let s1 := ST (mk TQueued) js (cq s ++ [t]) (steal s) (agents s) (clock s) in
      with_stack s1 a (x' :: below)
  end.

Definition step (s : state) (a : nat) (ch : list Z) : option (state * list Z * Z) :=
  if length (agents s) <=? a then None else
  let g := agent_of s a in
  match stack g with
  | [] =>
      if negb (worker g) || parked g then None
      else match cq s ++ steal s with
           | [] => Some (with_agent s a (AG [] true true), ch, site_park)
           | (_ :: _) as pool =>
               let '(c, ch') := choice ch in
               let i := Nat.modulo c (length pool) in
               Some (start_task (take_at s i) a [] (nth i pool O), ch', site_pop)
           end
  | x :: below =>
      match a_mode x with
      | MWaitFut gj =>
          if is_done (fut_state s gj) then Some (with_stack s a (set_top x (a_ops x) MRun :: below), ch, site_wake) else None
      | MWaitSet gj =>
          if set_done s gj then Some (with_stack s a (set_top x (a_ops x) MRun :: below), ch, site_wake)
          else match cq s with
               | [] => Some (s, ch, site_spin)                                        (* nothing found: yield, retry *)
               | (_ :: _) as pool =>
                   let '(c, ch') := choice ch in
                   let i := Nat.modulo c (length pool) in
                   Some (start_task (with_queues s (remove_nth (cq s) i) (steal s)) a (x :: below) (nth i pool O), ch', site_pop)
               end
      | MRun =>
          match a_ops x with
          | [] => Some (with_stack (with_tstate s (a_task x) TDone) a below, ch, site_fin)
          | OWork :: r => Some (with_stack s a (set_top x r MRun :: below), ch, site_run)
          | OWait j :: r =>
              match assoc j (a_own x) with
              | Some gj => Some (wait_join s a x r below gj, ch, site_wait)
              | None => Some (with_stack s a (set_top x r MRun :: below), ch, site_run)
              end
          | OWaitUp j :: r =>
              match assoc j (a_cap x) with
              | Some gj => Some (wait_join s a x r below gj, ch, site_wait)
              | None => Some (with_stack s a (set_top x r MRun :: below), ch, site_run)
              end
          | OSpawn j k body :: r =>
              let '(c, ch') := choice ch in Some (spawn s a x r below j k body c, ch', site_spawn)
          end
      end
  end.

Definition runnable (s : state) (a : nat) : bool := match step s a [] with Some _ => true | None => false end.
Definition cands (s : state) : list nat := filter (runnable s) (seq 0 (length (agents s))).
Definition finished (s : state) : bool := match stack (agent_of s 0) with [] => true | _ => false end.

(* pool of n workers (awake, idle), the external thread about to run the root body *)
Definition init (p : list op) (n : nat) : state :=
  ST [TR p [] 0 TActive] [JR JSet 0 0] [] [] (AG [ACT 0 p [] [] MRun 1] false false :: repeat (AG [] false true) n) 1.

Definition run_nested (fuel : nat) (p : list op) (n : nat) (sched : list Z) :=
  run step cands finished fuel (init p n) sched [].

(* what agent a can do in s *)
Inductive astatus := Blocked | Spin | Progress.
Definition status_of (s : state) (a : nat) : astatus :=
  if length (agents s) <=? a then Blocked else
  let g := agent_of s a in
  match stack g with
  | [] => if negb (worker g) || parked g then Blocked else Progress
  | x :: _ =>
      match a_mode x with
      | MWaitFut gj => if is_done (fut_state s gj) then Progress else Blocked
      | MWaitSet gj => if set_done s gj then Progress else match cq s with [] => Spin | _ => Progress end
      | MRun => Progress
      end
  end.

(* ---------- program predicates ---------- *)
Fixpoint noup_op (o : op) : bool :=
  match o with
  | OWaitUp _ => false
  | OSpawn _ _ b => forallb noup_op b
  | _ => true
  end.
Definition noup (b : list op) : bool := forallb noup_op b.     (* no wait on a future of an enclosing body *)

Fixpoint count_work_op (o : op) : nat :=
  match o with
  | OWork => 1
  | OSpawn _ _ b => list_sum (map count_work_op b)
  | _ => 0
  end.
Definition count_work (b : list op) : nat := list_sum (map count_work_op b).

(* ---------- explicit schedules (for the fair-termination theorem and the judge) ---------- *)
(* apply the steps (agent, oracle integers) in order until the root body has returned; a blocked agent's turn is skipped *)
Fixpoint run_sched (s : state) (sch : list (nat * list Z)) : state :=
  if finished s then s else
  match sch with
  | [] => s
  | (a, ch) :: r => match step s a ch with Some (s', _, _) => run_sched s' r | None => run_sched s r end
  end.
(* a round gives every agent one turn *)
Definition fair_round (nagents : nat) (rd : list (nat * list Z)) : Prop := forall a, a < nagents -> exists ch, In (a, ch) rd.
Definition round_robin (nagents : nat) (c : Z) : list (nat * list Z) := map (fun a => (a, [c])) (seq 0 nagents).

(* ---------- static dependencies (tasks numbered in preorder, the root body is 0) ---------- *)
(* own: (name, child task) of the joins spawned so far in this body; cap: (name, task) of the futures captured from the enclosing
   bodies.  An edge (x, y): task x waits for task y. *)
Fixpoint deps_op (o : op) (me next : nat) (own cap : list (nat * nat)) {struct o} : list (nat * nat) * nat * list (nat * nat) :=
  match o with
  | OWork => ([], next, own)
  | OWait j => (map (fun nc => (me, snd nc)) (filter (fun nc => Nat.eqb (fst nc) j) own), next, own)
  | OWaitUp j => (match assoc j cap with Some f => [(me, f)] | None => [] end, next, own)
  | OSpawn j k body =>
      let c := next in
      let capc := filter (fun nc => negb (Nat.eqb (fst nc) j)) own ++ cap in
      let '(e, n', _) :=
        (fix go (l : list op) (nx : nat) (ow : list (nat * nat)) : list (nat * nat) * nat * list (nat * nat) :=
           match l with
           | [] => ([], nx, ow)
           | o1 :: r => let '(e1, n1, ow1) := deps_op o1 c nx ow capc in
                        let '(e2, n2, ow2) := go r n1 ow1 in (e1 ++ e2, n2, ow2)
           end) body (S next) [] in
      (e, n', (j, c) :: own)
  end.
Fixpoint deps_ops (l : list op) (me next : nat) (own cap : list (nat * nat)) : list (nat * nat) * nat * list (nat * nat) :=
  match l with
  | [] => ([], next, own)
  | o1 :: r => let '(e1, n1, ow1) := deps_op o1 me next own cap in
               let '(e2, n2, ow2) := deps_ops r me n1 ow1 cap in (e1 ++ e2, n2, ow2)
  end.
Definition deps (p : list op) : list (nat * nat) := fst (fst (deps_ops p 0 1 [] [])).
Definition acyclic (p : list op) : Prop := exists rank : nat -> nat, forall x y, In (x, y) (deps p) -> rank y < rank x.

(* the domain of the finding: the program waits somewhere for a future created by an enclosing body *)
Definition foreign_wait (p : list op) : bool := negb (noup p).
