(* C05 judges: rethrow discipline (lockstep trace and log).  The judge functions themselves are shared: judge_C05 / judge_C05_impl in Model/TaskSetImplCheck.v (independent of the
   regenerated decision functions) and, for the decision runs, judge_*_d in Model/TaskSetCheck.v. *)
From Coq Require Import ZArith List Bool.
From DV Require Export Model.TaskSetImplCheck Model.TaskSetCheck.
Local Open Scope Z_scope.
Definition C05_judge_lockstep := judge_C05.
