(* C05 judge: 0 agree & holds; 1 differ, holds; 2 an (exception, set) pair was rethrown twice or a wait that loaded guard = Set did not
   go on to move/reset/rethrow. *)
From Coq Require Import ZArith List Bool.
From DV Require Import Base.MachInt Base.Sched Model.TaskSetModel Gen.GenTaskSet Model.TaskSetCheck.
Import ListNotations.
Local Open Scope Z_scope.

Definition judge_C05 (c : lcase) : Z := if negb (check_C05 c) then 2 else if agrees c then 0 else 1.
