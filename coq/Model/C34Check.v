(* Lockstep judge for C34: the implementation's trace under harness/vsched.h vs. Model/MpmcModel.v run on the same
   schedule, plus the executable form of the property evaluated on what the implementation did. *)
From Coq Require Import ZArith List Bool.
From DV Require Import Base.MachInt Base.Corr Base.Sched Base.Life Model.MpmcModel.
Import ListNotations.
Local Open Scope Z_scope.

Record mcase := MC {
  c_n : Z;                           (* kBufferSize reported by the implementation *)
  c_fuel : nat; c_progs : list (list op); c_sched : list Z;
  i_trace : list (Z * Z);            (* implementation: (tid, site) per step *)
  i_results : list (list (Z * Z));   (* per thread, oldest first *)
  i_head : Z; i_tail : Z;
  i_slots : list (Z * (Z * Z));      (* per slot: (seq, (ledger state code, tag when alive else 0)) *)
  i_errs : Z;                        (* lifetime misuses on the slot addresses during the run *)
  i_dtor_live : Z;                   (* after ~MpmcRingBuffer: slots still needing a destructor; -1 = run did not finish *)
  i_dtor_errs : Z;
  i_status : Z }.                    (* 0 done 1 deadlock 2 budget *)

(* ---------------- the property, evaluated on the implementation's output only ---------------- *)
Definition ivals (tag : Z) (r : list (Z * Z)) : list Z := map snd (filter (fun x => fst x =? tag) r).
Fixpoint memb (x : Z) (l : list Z) : bool := match l with [] => false | y :: r => (x =? y) || memb x r end.
Fixpoint nodupb (l : list Z) : bool := match l with [] => true | x :: r => negb (memb x r) && nodupb r end.
Definition subsetb (a b : list Z) : bool := forallb (fun x => memb x b) a.
(* a is a subsequence of b *)
Fixpoint subseqb (a b : list Z) : bool :=
  match b with
  | [] => match a with [] => true | _ => false end
  | y :: b' => match a with [] => true | x :: a' => if x =? y then subseqb a' b' else subseqb a b' end
  end.

Fixpoint next_site (t : Z) (tr : list (Z * Z)) : option Z :=
  match tr with [] => None | (t', s) :: r => if t' =? t then Some s else next_site t r end.
Definition is_some_of (o : option Z) (l : list Z) : bool := match o with Some x => memb x l | None => false end.

(* does the operation of a thread continue after the step at [site], given the site of the thread's next step *)
Definition continues (site : Z) (nxt : option Z) : bool :=
  if site =? s_push_tail_load then true
  else if site =? s_push_seq_load then is_some_of nxt [s_push_tail_cas]
  else if site =? s_push_tail_cas then is_some_of nxt [s_push_data_write]
  else if site =? s_push_data_write then true
  else if site =? s_pop_head_load then true
  else if site =? s_pop_tail_load then is_some_of nxt [s_pop_seq_load]
  else if site =? s_pop_seq_load then is_some_of nxt [s_pop_head_cas]
  else if site =? s_pop_head_cas then is_some_of nxt [s_pop_data_read]
  else if site =? s_pop_data_read then true
  else if site =? s_pop_data_destroy then true
  else if site =? s_pushb_tail_load then true
  else if site =? s_pushb_seq_load then is_some_of nxt [s_pushb_seq_load; s_pushb_tail_cas]
  else if site =? s_pushb_tail_cas then is_some_of nxt [s_pushb_data_write]
  else if site =? s_pushb_data_write then true
  else if site =? s_pushb_seq_store then is_some_of nxt [s_pushb_data_write]
  else false.

(* the sites of the operation starting with [site] when the thread runs it without being interrupted; None otherwise *)
Fixpoint op_run (t site : Z) (rest : list (Z * Z)) : option (list Z) :=
  if continues site (next_site t rest) then
    match rest with
    | (t', s') :: r' => if t' =? t then option_map (cons site) (op_run t s' r') else None
    | [] => None
    end
  else Some [site].

Definition count_site (x : Z) (l : list Z) : Z := Z.of_nat (length (filter (fun y => y =? x) l)).

(* walk along the implementation's trace: w / r = payload constructions / destructions so far, mid = threads inside an
   operation.  Checks, model-independently: 0 <= w - r <= n at every step (the buffer never holds more than capacity()
   elements); an operation that starts when no other thread is inside an operation and runs uninterrupted (a quiescent
   state) succeeds iff the buffer is non-empty (pop) / not full (push); a quiescent batch push accepts at most the
   free space and at least one element when there is space. *)
Fixpoint walk (n : Z) (tr : list (Z * Z)) (w r : Z) (mid : list Z) : bool :=
  match tr with
  | [] => true
  | (t, site) :: rest =>
      let size := w - r in
      let others_idle := forallb (fun x => x =? t) mid in
      let q :=
        if others_idle then
          if site =? s_push_tail_load then
            match op_run t site rest with Some l => Bool.eqb (memb s_push_seq_store l) (size <? n) | None => true end
          else if site =? s_pop_head_load then
            match op_run t site rest with Some l => Bool.eqb (memb s_pop_seq_store l) (0 <? size) | None => true end
          else if site =? s_pushb_tail_load then
            match op_run t site rest with
            | Some l => let k := count_site s_pushb_data_write l in (k <=? n - size) && Bool.eqb (0 <? k) (size <? n)
            | None => true end
          else true
        else true in
      let w' := if (site =? s_push_data_write) || (site =? s_pushb_data_write) then w + 1 else w in
      let r' := if site =? s_pop_data_read then r + 1 else r in
      let mid' := if continues site (next_site t rest) then (if memb t mid then mid else t :: mid)
                  else filter (fun x => negb (x =? t)) mid in
      q && (0 <=? w' - r') && (w' - r' <=? n) && walk n rest w' r' mid'
  end.

Definition live_code (x : Z) : bool := (x =? 1) || (x =? 2).

(* the slots from head to tail as the implementation left them: (state, tag) *)
Definition impl_contents (c : mcase) : list (Z * Z) :=
  map (fun i => snd (nth (Z.to_nat ((i_head c + i) mod c_n c)) (i_slots c) (0, (0, 0)))) (range (i_tail c - i_head c)).

Definition property_holds (c : mcase) : bool :=
  let pushes := map (ivals r_push) (i_results c) in     (* per thread *)
  let pops := map (ivals r_pop) (i_results c) in
  let pushed := concat pushes in
  let popped := concat pops in
  let cont := impl_contents c in
  nodupb popped                                           (* no element delivered twice (tags are unique) *)
  && subsetb popped pushed                                (* nothing invented *)
  && forallb (fun pc => forallb (fun pp => subseqb (filter (fun x => memb x pp) pc) pp) pushes) pops
                                                          (* per consumer, per producer: delivered in push order *)
  && (0 <=? i_tail c - i_head c) && (i_tail c - i_head c <=? c_n c)
  && walk (c_n c) (i_trace c) 0 0 []
  && (i_errs c =? 0)
  && (negb (i_status c =? 0)
      || (forallb (fun x => fst x =? 1) cont                                  (* quiescent: slots head..tail hold live elements *)
          && (Z.of_nat (length (filter (fun x => live_code (fst (snd x))) (i_slots c))) =? Z.of_nat (length cont))
          && nodupb (popped ++ map snd cont)                                   (* pushed = popped + contents as multisets *)
          && subsetb pushed (popped ++ map snd cont) && subsetb (popped ++ map snd cont) pushed
          && (Z.of_nat (length pushed) =? Z.of_nat (length popped) + Z.of_nat (length cont))
          && (i_dtor_live c =? 0) && (i_dtor_errs c =? 0))).

(* ---------------- agreement with the model ---------------- *)
Definition model_slots (s : state) : list (Z * (Z * Z)) :=
  map (fun i => let st := lget (led s) i in
                (seq (slots s i), (lstate_code st, match st with Alive => val (slots s i) | _ => 0 end))) (range (N s)).

Definition slot_errs (l : ledger) : Z :=
  Z.of_nat (length (filter (fun e => match fst e with UseDead | UseUnborn => false | _ => true end) (l_errs l))).

Definition zslot_eqb (a b : Z * (Z * Z)) : bool := (fst a =? fst b) && zpair_eqb (snd a) (snd b).

Definition agrees (c : mcase) : bool :=
  let '(s, tr, st) := run_mpmc (c_fuel c) (c_n c) (c_progs c) (c_sched c) in
  list_eqb zpair_eqb tr (i_trace c) && (status_code st =? i_status c)
  && list_eqb (list_eqb zpair_eqb) (map (fun th => rev (res th)) (threads s)) (i_results c)
  && (head s =? i_head c) && (tail s =? i_tail c)
  && list_eqb zslot_eqb (model_slots s) (i_slots c)
  && (slot_errs (led s) =? i_errs c)
  && (negb (i_status c =? 0)
      || (let d := dtor s in
          (Z.of_nat (length (filter (fun i => is_live (lget d i)) (range (N s)))) =? i_dtor_live c)
          && (slot_errs d =? i_dtor_errs c))).

(* 0 agree & property holds; 1 differ, property holds; 2 property fails on the implementation's output *)
Definition judge_mpmc (c : mcase) : Z :=
  if negb (property_holds c) then 2 else if agrees c then 0 else 1.
