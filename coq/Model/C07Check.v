(* C07 judge: lockstep agreement + "at quiescence no pending task whose only possible takers sleep although the wake for it
   was issued" evaluated on the implementation's output. *)
From Coq Require Import ZArith List Bool Arith.
From DV Require Import Base.MachInt Base.Corr Base.Sched Model.WakeModel Model.WakeCheck.
Import ListNotations.
Local Open Scope Z_scope.

(* after pushing into ring i the same producer completed a wake that covers worker i:
   cascadeWakeSeed(c) / wakeRange(c) with i < c, wakeAll, or cascadeWake of i's group *)
Fixpoint push_then_wake (gs i : nat) (pushed : bool) (l : list op) : bool :=
  match l with
  | [] => false
  | OPushRing j :: r => push_then_wake gs i (pushed || (j =? i)%nat) r
  | OSeed n :: r | ORange n :: r => (pushed && (i <? n)%nat) || push_then_wake gs i pushed r
  | OWakeAll :: r => pushed || push_then_wake gs i pushed r
  | OCascade g :: r => (pushed && (g =? i / gs)%nat) || push_then_wake gs i pushed r
  | _ :: r => push_then_wake gs i pushed r
  end.

(* central queue: a push followed by a completed claimAndWakeOne / seed / wakeAll of the same producer *)
Fixpoint cpush_then_wake (pushed : bool) (l : list op) : bool :=
  match l with
  | [] => false
  | OPushCentral :: r => cpush_then_wake true r
  | OClaim :: r | OSeed _ :: r | OWakeAll :: r => pushed || cpush_then_wake pushed r
  | _ :: r => cpush_then_wake pushed r
  end.

Definition threads_of (c : wcase) : list nat := seq O (length (w_progs c)).

Definition ring_stranded (c : wcase) (i : nat) : bool :=
  (0 <? nth i (i_rings c) 0) &&
  existsb (fun t => match parked_for c t with Some j => (j =? i)%nat | None => false end) (i_blocked c) &&
  existsb (fun t => push_then_wake (c_gs (w_cfg c)) i false (done_ops c t)) (threads_of c).

Definition all_workers_blocked (c : wcase) : bool :=
  forallb (fun t => negb (worker_prog (nth t (w_progs c) [])) || existsb (Z.eqb (Z.of_nat t)) (i_blocked c)) (threads_of c).

Definition central_stranded (c : wcase) : bool :=
  (0 <? i_central c) && all_workers_blocked c && existsb (fun t => cpush_then_wake false (done_ops c t)) (threads_of c).

(* Only locality rings are judged here: the epoch protocol makes "pushed, then woke, yet the owner sleeps" impossible unless the wake
   went to the wrong waiter.  (A central-queue push followed by a claimAndWakeOne that found no registered sleeper legitimately leaves
   the task to the spinning workers' polls, which these scripts do not play; the central paths are judged end-to-end on a real pool;
   [central_stranded] is reported in the evidence only.) *)
(* The premise of C07 is part of the verdict: every task was pushed while ALL workers were parked ([submitted_to_parked_pool], read off
   the model run of the same schedule, which the lockstep comparison ties to the implementation's trace).  A submission that races with a
   worker which is still on its way into the futex is outside the property (see the note on the "observe-then-bump" window in props/C07.py). *)
Definition pending_unreachable (c : wcase) : bool :=
  (i_status c =? 1) && proto_case c && existsb (ring_stranded c) (seq O (c_n (w_cfg c))) && submitted_to_parked_pool c.

(* a masked wake whose count does not cover a whole group: the ring fast path's wake of popcount(mask /\ [0,count)) ARBITRARY
   waiters of the shared group futex *)
Definition partial_count (cfg0 : cfg) (n : nat) : bool :=
  let last := ((n - 1) / c_gs cfg0)%nat in
  let bits_in_last := (n - last * c_gs cfg0)%nat in
  let threads_in_last := Nat.min (c_gs cfg0) (c_n cfg0 - last * c_gs cfg0) in
  (bits_in_last <? threads_in_last)%nat.

Definition has_partial_wake (c : wcase) : bool :=
  existsb (existsb (fun o => match o with OSeed n | ORange n => partial_count (w_cfg c) n | _ => false end)) (w_progs c).

(* domain of the known finding(s): partial-group masked wake; or a claimAndWakeOne (claimed bit <> woken waiter desynchronises the
   masks) in a case that also uses a masked wake *)
Definition c07_known_domain (c : wcase) : bool := has_partial_wake c || has_claim c.

Definition judge_c07 (c : wcase) : Z :=
  if pending_unreachable c then (if c07_known_domain c then 4 else 2)
  else if agrees c then 0 else 1.
