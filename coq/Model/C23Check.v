(* Lockstep judge for C23 (DistributedRWLockImpl<N>): the same comparison and executable property as C22
   (Model/C22Check.v) on the N-slot instance of Model/RWLockModel.v, plus: a script of the distributed lock uses
   only its own operations (lock / try_lock / unlock / *_shared(index)). *)
From Coq Require Import ZArith List Bool.
From DV Require Import Base.MachInt Base.Corr Base.Sched Model.RWLockModel Model.C22Check.
Import ListNotations.
Local Open Scope Z_scope.

Definition dist_op (o : op) : bool :=
  match o with OTryLock _ | OUpgrade | ODowngrade => false | _ => true end.

(* 0 agree & property holds; 1 differ, property holds; 2 property fails; 3 malformed case (not a distributed-lock script) *)
Definition judge_dist (c : rcase) : Z :=
  if negb (forallb (forallb dist_op) (r_progs c)) then 3 else judge_rw c.
