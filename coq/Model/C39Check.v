(* Executable form of C39, evaluated on what the IMPLEMENTATION printed (harness/h_oncefn.cpp), and the comparison
   of the implementation with the model.  Used by props/C39.py through vm_compute. *)
From Coq Require Import ZArith List Bool.
From DV Require Import Base.MachInt Base.Corr Base.Life Model.BitMathModel Model.OnceFnModel.
Import ListNotations.
Local Open Scope Z_scope.

(* ---- decoding of the flat encoding produced by props/C39.py
   op:     [0; i; sz; al; tag; byCopy] OMake | [1; i] ODefault | [2; i; j] OMoveCtor | [3; i; j] OMoveAssign
           | [4; i] OCall | [5; i] OCleanup | [6; i] ODrop
   result of one op: [dispatch; n; e_1 .. e_n], e = code + 16 * locflag + 512 * (arg + 1)   (one number per event:
           the cost of a case is dominated by parsing its literals)
           dispatch: -2 not a construction, 0 invokeInline, K invokeSpill<K>, -1 neither
           code: 0 value ctor, 1 copy ctor, 2 move ctor, 3 dtor, 4 invoked, 5 pool alloc, 6 pool free, 7 malloc, 8 free
           arg: tag, or K / byte count;  locflag = 2 * loc + aligned, loc 0 = temporary, 1 = spill block, 2+v = inline in v *)
Fixpoint dec_ops (fuel : nat) (l : list Z) : list op :=
  match fuel with
  | O => []
  | S f =>
      match l with
      | 0 :: i :: sz :: al :: t :: c :: r => OMake (Z.to_nat i) sz al t (negb (c =? 0)) :: dec_ops f r
      | 1 :: i :: r => ODefault (Z.to_nat i) :: dec_ops f r
      | 2 :: i :: j :: r => OMoveCtor (Z.to_nat i) (Z.to_nat j) :: dec_ops f r
      | 3 :: i :: j :: r => OMoveAssign (Z.to_nat i) (Z.to_nat j) :: dec_ops f r
      | 4 :: i :: r => OCall (Z.to_nat i) :: dec_ops f r
      | 5 :: i :: r => OCleanup (Z.to_nat i) :: dec_ops f r
      | 6 :: i :: r => ODrop (Z.to_nat i) :: dec_ops f r
      | _ => []
      end
  end.

Definition dec_loc (lf : Z) : loc :=
  let l := lf / 2 in if l =? 0 then LTemp else if l =? 1 then LBlock else LInline (Z.to_nat (l - 2)).

Definition dec_event (code arg lf : Z) : event :=
  let a := Z.odd lf in
  if code =? 0 then EConstruct KValue arg (dec_loc lf) a
  else if code =? 1 then EConstruct KCopy arg (dec_loc lf) a
  else if code =? 2 then EConstruct KMove arg (dec_loc lf) a
  else if code =? 3 then EDestroy arg (dec_loc lf) a
  else if code =? 4 then EInvoke arg (dec_loc lf) a
  else if code =? 5 then EPoolAlloc arg
  else if code =? 6 then EPoolFree arg
  else if code =? 7 then EMalloc arg
  else EFree arg.

Fixpoint dec_events (n : nat) (l : list Z) : list event * list Z :=
  match n with
  | O => ([], l)
  | S k =>
      match l with
      | e :: r => let '(es, rest) := dec_events k r in (dec_event (e mod 16) (e / 512 - 1) ((e / 16) mod 32) :: es, rest)
      | _ => ([], [])
      end
  end.

Fixpoint dec_impl (fuel : nat) (l : list Z) : list (Z * list event) :=
  match fuel with
  | O => []
  | S f =>
      match l with
      | d :: n :: r => let '(es, rest) := dec_events (Z.to_nat n) r in (d, es) :: dec_impl f rest
      | _ => []
      end
  end.

(* ---- equality tests *)
Definition loc_eqb (a b : loc) : bool :=
  match a, b with
  | LTemp, LTemp | LBlock, LBlock => true
  | LInline x, LInline y => Nat.eqb x y
  | _, _ => false
  end.
Definition ckind_eqb (a b : ckind) : bool :=
  match a, b with KValue, KValue | KCopy, KCopy | KMove, KMove => true | _, _ => false end.
Definition event_eqb (a b : event) : bool :=
  match a, b with
  | EConstruct k t l f, EConstruct k' t' l' f' => ckind_eqb k k' && (t =? t') && loc_eqb l l' && Bool.eqb f f'
  | EInvoke t l f, EInvoke t' l' f' => (t =? t') && loc_eqb l l' && Bool.eqb f f'
  | EDestroy t l f, EDestroy t' l' f' => (t =? t') && loc_eqb l l' && Bool.eqb f f'
  | EPoolAlloc k, EPoolAlloc k' | EPoolFree k, EPoolFree k' | EMalloc k, EMalloc k' | EFree k, EFree k' => k =? k'
  | _, _ => false
  end.
Definition aevent_eqb (a b : aevent) : bool :=
  match a, b with
  | AInvoke t, AInvoke t' | ADestroy t, ADestroy t' | AAbandon t, AAbandon t' => t =? t'
  | _, _ => false
  end.

(* the harness observes allocations through counters: it reports them before, frees after, the lifetime events *)
Definition is_alloc (e : event) : bool := match e with EPoolAlloc _ | EMalloc _ => true | _ => false end.
Definition is_free (e : event) : bool := match e with EPoolFree _ | EFree _ => true | _ => false end.
Definition canon (es : list event) : list event :=
  filter is_alloc es ++ filter (fun e => negb (is_alloc e) && negb (is_free e)) es ++ filter is_free es.

(* which invoke function the model installs *)
Definition dispatch_of (x : op) : Z :=
  match x with
  | OMake _ sz al _ _ => if fits_inline sz al then 0 else alloc_size sz al
  | _ => -2
  end.

(* a spill block goes back to the allocator only after the callable living in it has been invoked and destroyed: the harness traces a
   pool free where it happens relative to the callable's own invoke / destructor events (it samples the cache when they start) *)
Fixpoint no_free_before_block_use (es : list event) (freed : bool) : bool :=
  match es with
  | [] => true
  | e :: r =>
      match e with
      | EPoolFree _ | EFree _ => no_free_before_block_use r true
      | EDestroy _ LBlock _ | EInvoke _ LBlock _ => negb freed && no_free_before_block_use r freed
      | _ => no_free_before_block_use r freed
      end
  end.

(* ---- the property on the implementation's output, against the protocol (abstract run) *)
Definition check_once (ops : list op) (av : list avar) (aevss : list (list aevent)) (impl : list (list event)) (fin : list Z) : bool :=
  (* invoked exactly when called, destroyed exactly on call / cleanupNotRun, nothing else touches a stored callable *)
  list_eqb (list_eqb aevent_eqb) (map project impl) (map (filter not_abandon) aevss) &&
  (* every constructor / call / destructor ran at an address satisfying the callable's alignment *)
  forallb (forallb ev_aligned) impl && (nth 13 fin 1 =? 0) &&
  (* the callable is destroyed (and invoked) while its spill block is still its own *)
  forallb (fun es => no_free_before_block_use es false) impl &&
  (* the callable's bytes were intact whenever it was copied/moved from, invoked or destroyed (nth 14 = corrupt), and
     no callable was placed in a OnceFunction variable outside its 56-byte buf_ (nth 15 = out of bounds) *)
  (nth 14 fin 1 =? 0) && (nth 15 fin 1 =? 0) &&
  (* no lifetime misuse; what is left alive = callables still owned + abandoned ones *)
  forallb (Z.eqb 0) (firstn 5 (skipn 8 fin)) &&
  (nth 6 fin (-1) =? Z.of_nat (length (owned av)) + Z.of_nat (length (abandoned (concat aevss)))) &&
  (nth 0 fin 0 + nth 1 fin 0 + nth 2 fin 0 - nth 5 fin 0 =? nth 6 fin (-1)).

(* one case: nv, operations, implementation results, callable ledger numbers (the first 14 of life::Ledger::line())
   followed by the harness's corrupt and out-of-bounds counters.
   Verdicts: 0 = implementation = model and the property holds on the implementation's output
             1 = the property holds but the model differs from what ran
             2 = the property fails on the implementation's output (dispatch, events and ledger are those of the model)
             5 = the property fails on the implementation's output AND the implementation differs from the model
             3 = the sequence is outside the protocol (driver error) *)
Definition judge_c39 (c : Z * list Z * list Z * list Z) : Z :=
  let '(nv, opsf, implf, fin) := c in
  let n := Z.to_nat nv in
  let ops := dec_ops (length opsf) opsf in
  let impl := dec_impl (length implf) implf in
  match arun (ainit n) ops with
  | None => 3
  | Some (av, aevss) =>
      let prop := check_once ops av aevss (map snd impl) fin && Nat.eqb (length impl) (length ops) in
      let agrees :=
        match run oracle0 (init n) ops with
        | None => false
        | Some (s, evss) =>
            let model := combine (map dispatch_of ops) (map canon evss) in
            list_eqb (fun a b => (fst a =? fst b) && list_eqb event_eqb (snd a) (snd b)) model impl &&
            zlist_eqb (ledger_obs (st_led s) ++ [0]) (firstn 14 fin)
        end in
      if prop then (if agrees then 0 else 1) else (if agrees then 2 else 5)
  end.
