(* Judge for the event-level tie of the thread-pool core (C01 / C03 / C08): fold [accept] over the implementation's trace
   (acceptance, not prediction), compare the deterministic components at the snapshot points, evaluate the executable
   properties on the implementation's own output, classify violations with the domain predicates of the known findings. *)
From Coq Require Import ZArith List Bool.
From DV Require Import Base.Corr Model.PoolModel.
Import ListNotations.
Local Open Scope Z_scope.

Record snap := SN {
  sn_pos : nat;                 (* number of trace events before the snapshot *)
  sn_wr : Z; sn_nt : Z; sn_nr : Z; sn_ns : Z; sn_central : Z;
  sn_rings : list Z; sn_steals : list Z;
  sn_final : bool }.            (* taken at "pool.dtor.end" (true) or at a quiescent point (false) *)

Record pcase := PC {
  c_n0 : Z; c_rcap : Z; c_scap : Z; c_share : Z;
  c_trace : list (nat * event);
  c_counts : list Z;            (* invocations per task id *)
  c_snaps : list snap;
  c_hang : Z;                   (* task sets whose outstanding count was not zero at the final quiescent point *)
  c_status : Z }.               (* 0 done, 1 deadlock, 2 budget *)

Definition snap_agrees (s : state) (sn : snap) : bool :=
  (wr s =? sn_wr sn) && (numThreads s =? sn_nt sn) && (numRings s =? sn_nr sn) && (numSteal s =? sn_ns sn) &&
  (len (central s) =? sn_central sn) && zlist_eqb (map len (rings s)) (sn_rings sn) && zlist_eqb (map len (steals s)) (sn_steals sn).

Fixpoint exists_from (f : nat -> Z -> bool) (i : nat) (l : list Z) : bool :=
  match l with [] => false | x :: r => f i x || exists_from f (S i) r end.

(* C03 on the implementation's snapshot: a task sits in a tier that nobody polls *)
Definition snap_stranded (sn : snap) : bool :=
  exists_from (fun i n => (0 <? n) && (sn_nr sn <=? Z.of_nat i)) 0 (sn_rings sn) ||
  exists_from (fun i n => (0 <? n) && (sn_ns sn <=? Z.of_nat i)) 0 (sn_steals sn) ||
  ((0 <? sn_central sn) && (sn_nt sn =? 0)).

Definition snap_kind (sn : snap) : Z :=   (* which tier holds the stranded task: 1 ring, 2 central, 3 steal *)
  if exists_from (fun i n => (0 <? n) && (sn_nr sn <=? Z.of_nat i)) 0 (sn_rings sn) then 1
  else if (0 <? sn_central sn) && (sn_nt sn =? 0) then 2 else 3.

(* result: [accepted; first rejected index; snapshots agree; v01; v03; v08; stale kind; model workRemaining at the end; stranded kind]
   v = 0 holds (and model agrees), 1 model and implementation disagree but the property holds on the implementation's output,
       2 property fails outside the known domain, 3 inconclusive (budget / deadlock), 4 property fails inside the known domain *)
Definition snap_empty (sn : snap) : bool :=
  (sn_central sn =? 0) && forallb (fun n => n =? 0) (sn_rings sn) && forallb (fun n => n =? 0) (sn_steals sn).

Definition judge_pool (c : pcase) : list Z :=
  let s0 := init (c_share c) (c_n0 c) in
  let '(sEnd, k, ok, stale) := run_trace (c_rcap c) (c_scap c) (c_share c) s0 (c_trace c) 0 0 in
  let at_ := fun sn => state_at (c_rcap c) (c_scap c) (c_share c) s0 (c_trace c) (sn_pos sn) in
  let snaps_ok := forallb (fun sn => match at_ sn with Some s => snap_agrees s sn | None => false end) (c_snaps c) in
  let agree := ok && snaps_ok in
  let done_ := c_status c =? 0 in
  let once := forallb (fun n => n =? 1) (c_counts c) in
  let dup := existsb (fun n => 1 <? n) (c_counts c) in
  (* C01 *)
  let lateg := late_gen (c_rcap c) (c_scap c) (c_share c) s0 (c_trace c) in   (* the predicate excluded by C01_dtor_drains_all *)
  let v01 := if dup then 2 else if negb done_ then 3 else if negb once then (if ok && lateg then 4 else 2) else if agree then 0 else 1 in
  (* C03 *)
  let stranded := existsb (fun sn => negb (sn_final sn) && snap_stranded sn) (c_snaps c) || (0 <? c_hang c) in
  let skind := match filter (fun sn => negb (sn_final sn) && snap_stranded sn) (c_snaps c) with sn :: _ => snap_kind sn | [] => 1 end in
  let v03 := if dup then 2
             else if stranded then (if ok && negb (stale =? 0) then 4 else 2)
             else if negb done_ then 3 else if negb once then (if ok && lateg then 4 else 2) else if agree then 0 else 1 in
  (* C08: at every snapshot with all tiers empty (all submitted work has finished) the counter must be zero *)
  let bad08 := filter (fun sn => snap_empty sn && negb (sn_wr sn =? 0)) (c_snaps c) in
  let v08 := match bad08 with
             | [] => if negb done_ then 3 else if agree then 0 else 1
             | _ => 2
             end in
  [if ok then 1 else 0; Z.of_nat k; if snaps_ok then 1 else 0; v01; v03; v08; stale; wr sEnd; skind].
