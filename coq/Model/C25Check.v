(* C25 correspondence: the implementation's observable history is replayed through the model (list-based reference queue;
   the oracle of every dequeue is chosen so that the model hands out the resource the implementation handed out -- the
   specification allows any queued one) and the executable property is evaluated on the implementation's snapshots.
   Verdicts: 0 = agree and the property holds; 1 = differ, the property holds; 2 = the property fails on the
   implementation's output (+ 10 * index of the operation). *)
From Coq Require Import ZArith List Bool Arith.
From DV Require Import Base.Corr Model.ResPoolModel.
Import ListNotations.
Local Open Scope Z_scope.

(* what the harness did, with what it observed afterwards: handle slots (-2 dead, -1 empty, else resource id) and size_approx *)
Inductive jop :=
| JAcquire (h : nat)                         (* main thread: must not block *)
| JBlocked (h r : nat) (blocked : bool)      (* second thread acquires into h while all are held (observed: did it wait?), then slot r is released *)
| JRelease (h : nat)
| JMoveCtor (d s : nat)
| JMoveAssign (d s : nat).

Definition enc_handle (h : handle) : Z := match h with HDead => -2 | HLive None => -1 | HLive (Some x) => Z.of_nat x end.
Definition snapshot (s : lstate) : list Z := map enc_handle (p_handles s).

Fixpoint index_of (x : nat) (l : list nat) : option nat :=
  match l with
  | [] => None
  | y :: r => if Nat.eqb x y then Some O else match index_of x r with Some i => Some (S i) | None => None end
  end.

(* ---- the property on a snapshot: held ids are distinct and < size; queue size + held = size *)
Fixpoint zdistinct (l : list Z) : bool :=
  match l with [] => true | x :: r => negb (existsb (Z.eqb x) r) && zdistinct r end.
Definition held_ids (snap : list Z) : list Z := filter (fun z => 0 <=? z) snap.
Definition snap_ok (size : nat) (snap : list Z) (qsize : Z) : bool :=
  let hs := held_ids snap in
  zdistinct hs && forallb (fun z => z <? Z.of_nat size) hs && (Z.of_nat (length hs) <=? Z.of_nat size)
  && (qsize + Z.of_nat (length hs) =? Z.of_nat size).

(* model step for an acquire whose result (the id now in slot h) is read off the implementation's snapshot *)
Definition model_acquire (s : lstate) (h : nat) (snap : list Z) : option lstate :=
  match nth_error snap h with
  | Some z => if z <? 0 then None else
              match index_of (Z.to_nat z) (p_q s) with
              | Some k => lstep s (PAcquire h k)
              | None => None
              end
  | None => None
  end.

Definition model_op (s : lstate) (o : jop) (snap : list Z) : option lstate :=
  match o with
  | JAcquire h => model_acquire s h snap
  | JBlocked h r _ =>
      match lstep s (PAcquire h 0) with
      | Some _ => None                              (* the model would not have blocked: the case is not what the generator promised *)
      | None => match lstep s (PRelease r) with Some s1 => model_acquire s1 h snap | None => None end
      end
  | JRelease h => lstep s (PRelease h)
  | JMoveCtor d s' => lstep s (PMoveCtor d s')
  | JMoveAssign d s' => lstep s (PMoveAssign d s')
  end.

Fixpoint walk (size : nat) (ms : option lstate) (ops : list (jop * list Z * Z)) (agree : bool) (k : Z) : Z * option lstate * bool :=
  match ops with
  | [] => (0, ms, agree)
  | (o, snap, qsize) :: r =>
      if negb (snap_ok size snap qsize) then (2 + 10 * k, None, false) else
      match ms with
      | Some s =>
          match model_op s o snap with
          | Some s' =>
              let same := zlist_eqb (snapshot s') snap && (Z.of_nat (length (p_q s')) =? qsize)
                          && match o with JBlocked _ _ b => b | _ => true end in
              if same then walk size (Some s') r agree (k + 1) else walk size None r false (k + 1)
          | None => walk size None r false (k + 1)
          end
      | None => walk size None r false (k + 1)
      end
  end.

Definition all_ones (l : list Z) (n : nat) : bool := (length l =? n)%nat && forallb (Z.eqb 1) l.

(* release every live handle (the harness does so before destroying the pool), then destroy *)
Fixpoint release_all (s : lstate) (n : nat) : lstate :=
  match n with
  | O => s
  | S n' => let s1 := release_all s n' in match lstep s1 (PRelease n') with Some s2 => s2 | None => s1 end
  end.
Definition count_in (l : list nat) (x : nat) : Z := Z.of_nat (length (filter (Nat.eqb x) l)).

(* (size, nhandles, ops with observations, constructed counts per id, destroyed counts per id, hang, completed) *)
Definition judge_rp (c : nat * nat * list (jop * list Z * Z) * list Z * list Z * bool * bool) : Z :=
  let '(size, nh, ops, ctor, dtor, hang, completed) := c in
  let '(v, ms, agree) := walk size (Some (linit size nh)) ops true 0 in
  if negb (v =? 0) then v else
  if hang || negb completed then 2 + 10 * Z.of_nat (length ops) else      (* an acquire that must not block did, or the run died *)
  if negb (all_ones ctor size && all_ones dtor size) then 2 + 10 * Z.of_nat (length ops) else
  match ms with
  | Some s =>
      match lstep (release_all s nh) PDestroyPool with
      | Some s' => if agree && zlist_eqb (map (count_in (p_destroyed s')) (seq 0 size)) dtor
                      && zlist_eqb (map (count_in (p_constructed s')) (seq 0 size)) ctor then 0 else 1
      | None => 1
      end
  | None => 1
  end.

(* ================================================================================================ two pools of one T
   (Model/ResPoolMultiModel.v).  Resource x of pool p is printed by the harness as 32 * p + x; a handle's pool_ as 0 / 1 (-1: no object). *)
From DV Require Import Model.ResPoolMultiModel.

Inductive mjop :=
| MJAcquire (p h : nat)
| MJRelease (h : nat)
| MJMoveCtor (d s : nat)
| MJMoveAssign (d s : nat).

Definition enc_mhandle (h : mhandle) : Z :=
  match h with MDead => -2 | MLive _ None => -1 | MLive p (Some x) => 32 * Z.of_nat p + Z.of_nat x end.
Definition enc_mpool (h : mhandle) : Z := match h with MDead => -1 | MLive p _ => Z.of_nat p end.

(* the property on the implementation's snapshot: held ids distinct, each an existing resource, and for each pool
   queued + held-of-that-pool = size (so no pool is short of a resource or holds a foreign one) *)
Definition held_of_pool (p : Z) (snap : list Z) : list Z := filter (fun z => (0 <=? z) && (z / 32 =? p)) snap.
Definition msnap_ok (sizes : list nat) (snap : list Z) (qsizes : list Z) : bool :=
  let hs := held_ids snap in
  zdistinct hs
  && forallb (fun z => z mod 32 <? Z.of_nat (nth (Z.to_nat (z / 32)) sizes O)) hs
  && (length qsizes =? length sizes)%nat
  && forallb (fun pq => let '(p, q) := pq in q + Z.of_nat (length (held_of_pool (Z.of_nat p) snap)) =? Z.of_nat (nth p sizes O))
             (combine (seq 0 (length sizes)) qsizes).

Definition mmodel_op (s : mlstate) (o : mjop) (snap : list Z) : option mlstate :=
  match o with
  | MJAcquire p h =>
      match nth_error snap h, nth_error (m_qs s) p with
      | Some z, Some q => if z <? 0 then None else
                          match index_of (Z.to_nat (z - 32 * Z.of_nat p)) q with
                          | Some k => mlstep s (MAcquire p h k)
                          | None => None
                          end
      | _, _ => None
      end
  | MJRelease h => mlstep s (MRelease h)
  | MJMoveCtor d s' => mlstep s (MMoveCtor d s')
  | MJMoveAssign d s' => mlstep s (MMoveAssign d s')
  end.

Fixpoint mwalk (sizes : list nat) (ms : option mlstate) (ops : list (mjop * list Z * list Z * list Z)) (agree : bool) (k : Z)
  : Z * option mlstate * bool :=
  match ops with
  | [] => (0, ms, agree)
  | (o, snap, pools, qsizes) :: r =>
      if negb (msnap_ok sizes snap qsizes) then (2 + 10 * k, None, false) else
      match ms with
      | Some s =>
          match mmodel_op s o snap with
          | Some s' =>
              let same := zlist_eqb (map enc_mhandle (m_handles s')) snap && zlist_eqb (map enc_mpool (m_handles s')) pools
                          && zlist_eqb (map (fun q => Z.of_nat (length q)) (m_qs s')) qsizes in
              if same then mwalk sizes (Some s') r agree (k + 1) else mwalk sizes None r false (k + 1)
          | None => mwalk sizes None r false (k + 1)
          end
      | None => mwalk sizes None r false (k + 1)
      end
  end.

(* (sizes, nhandles, ops with observations, constructed / destroyed counts of all resources (pool 0 first), hang, completed):
   after the last op the harness releases every handle and destroys both pools; each resource must have been constructed and destroyed once
   (the model proves this: C25_dtor_destroys_each_once on each projection) *)
Definition judge_rq (c : list nat * nat * list (mjop * list Z * list Z * list Z) * list Z * list Z * bool * bool) : Z :=
  let '(sizes, nh, ops, ctor, dtor, hang, completed) := c in
  let '(v, ms, agree) := mwalk sizes (Some (mlinit sizes nh)) ops true 0 in
  if negb (v =? 0) then v else
  if hang || negb completed then 2 + 10 * Z.of_nat (length ops) else
  let total := fold_right Nat.add O sizes in
  if negb (all_ones ctor total && all_ones dtor total) then 2 + 10 * Z.of_nat (length ops) else
  match ms with Some _ => if agree then 0 else 1 | None => 1 end.
