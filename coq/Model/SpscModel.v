(* Interleaving model of dispenso::SPSCRingBuffer (dispenso/spsc_ring_buffer.h) at the granularity of the
   DISPENSO_VERIF_POINT hooks: one step = one atomic load/store of head_/tail_ or one slot payload access
   (placement-new of the pushed element; move-out of the popped element; its destructor call -- each its own step).
   Two threads: thread 0 and thread 1, each running a script of operations (the theorems restrict thread 0 to the
   producer-side operations and thread 1 to the consumer-side ones; the step function itself does not care).
   Indices live in [0, kBufferSize) exactly as in the code (`increment` wraps with & or %).
   Element lifetimes: a Base.Life ledger keyed by slot index.  Executable; no proofs. *)
From Coq Require Import ZArith List Bool.
From DV Require Import Base.MachInt Base.Sched Base.Life.
Import ListNotations.
Local Open Scope Z_scope.

(* ---- ring index arithmetic (shared with Model/MpmcModel.v) ---- *)
Definition is_pow2 (k : Z) : bool := Z.land k (k - 1) =? 0.                   (* kIsPowerOfTwo *)
Definition ring_wrap (k i : Z) : Z := if is_pow2 k then Z.land i (k - 1) else i mod k.   (* i & kMask  :  i % kBufferSize *)
Definition increment (k i : Z) : Z := ring_wrap k (wrap 64 (i + 1)).

Definition fupd {A} (f : Z -> A) (i : Z) (x : A) : Z -> A := fun j => if j =? i then x else f j.

Inductive op :=
| OPush (v : Z)               (* try_push(T&&) / try_push(const T&) / try_emplace(v): identical access pattern *)
| OPop                        (* try_pop(T&) / try_pop() / try_pop_into(ptr) *)
| OPushBatch (vs : list Z)    (* try_push_batch(first, last) *)
| OPopBatch (m : Z)           (* try_pop_batch(dest, m) *)
| OSize | OEmpty | OFull.

Inductive pc :=
| PStart
| PPushLoadTail (v : Z) | PPushLoadHead (v ct : Z) | PPushWrite (v ct : Z) | PPushStoreTail (v ct : Z)
| PPopLoadHead | PPopLoadTail (ch : Z) | PPopRead (ch : Z) | PPopDestroy (ch v : Z) | PPopStoreHead (ch v : Z)
| PBLoadTail (vs : list Z) | PBLoadHead (vs : list Z) (ct : Z)
| PBWrite (vs : list Z) (tp cnt avail : Z) (wr : list Z)   (* at the hook inside the loop body; wr = values written so far (ghost) *)
| PBStoreTail (tp cnt : Z) (wr : list Z)
| PQLoadHead (m : Z) | PQLoadTail (m ch : Z)
| PQRead (hp i cnt : Z) (acc : list Z)                     (* at the hook inside the loop body; acc = values read so far *)
| PQDestroy (hp i cnt : Z) (acc : list Z)                  (* element i moved out (its value is the last of acc), before its destructor *)
| PQStoreHead (hp cnt : Z) (acc : list Z)
| PSizeLoadHead | PSizeLoadTail (h : Z) | PEmpty | PFull
| PDone.

Record thread := TH { tpc : pc; prog : list op; res : list (Z * Z) }.   (* res: (tag, value), newest first *)

Record state := ST {
  K : Z;                 (* kBufferSize = capacity() + 1 *)
  head : Z; tail : Z;
  slots : Z -> Z;        (* payload tag last written to each slot *)
  led : ledger;          (* lifetime ledger, object id = slot index *)
  th0 : thread; th1 : thread }.

(* site ids = positions in props/C35.py SITES *)
Definition s_start := 0.
Definition s_push_tail_load := 1.  Definition s_push_head_load := 2.  Definition s_push_data_write := 3.  Definition s_push_tail_store := 4.
Definition s_pop_head_load := 5.   Definition s_pop_tail_load := 6.   Definition s_pop_data_read := 7.    Definition s_pop_head_store := 8.
Definition s_pushb_tail_load := 9. Definition s_pushb_head_load := 10. Definition s_pushb_data_write := 11. Definition s_pushb_tail_store := 12.
Definition s_popb_head_load := 13. Definition s_popb_tail_load := 14. Definition s_popb_data_read := 15.  Definition s_popb_head_store := 16.
Definition s_size_head_load := 17. Definition s_size_tail_load := 18. Definition s_empty_loads := 19.     Definition s_full_loads := 20.
Definition s_pop_data_destroy := 21. Definition s_popb_data_destroy := 22.

(* result tags *)
Definition r_push := 1.      (* (r_push, v): element v was accepted (single push, or one element of a batch) *)
Definition r_pushfail := 2.  (* (r_pushfail, v): try_push(v) returned false *)
Definition r_pop := 3.       (* (r_pop, v): element v was delivered (single pop, or one element of a batch) *)
Definition r_popfail := 4.   (* try_pop returned false *)
Definition r_pushb := 5.     (* return value of try_push_batch *)
Definition r_popb := 6.      (* return value of try_pop_batch *)
Definition r_size := 7. Definition r_empty := 8. Definition r_full := 9.

Definition entry (o : op) : pc :=
  match o with
  | OPush v => PPushLoadTail v
  | OPop => PPopLoadHead
  | OPushBatch vs => PBLoadTail vs
  | OPopBatch m => PQLoadHead m
  | OSize => PSizeLoadHead | OEmpty => PEmpty | OFull => PFull
  end.

Definition next (th : thread) : thread :=
  match prog th with
  | [] => TH PDone [] (res th)
  | o :: r => TH (entry o) r (res th)
  end.
Definition goto (th : thread) (p : pc) : thread := TH p (prog th) (res th).
Definition logr (th : thread) (tag v : Z) : thread := TH (tpc th) (prog th) ((tag, v) :: res th).
(* log one (tag, v) per element of vs, oldest first *)
Definition logrs (th : thread) (tag : Z) (vs : list Z) : thread :=
  TH (tpc th) (prog th) (rev (map (fun v => (tag, v)) vs) ++ res th).

Definition get_thread (s : state) (t : nat) : option thread :=
  match t with O => Some (th0 s) | S O => Some (th1 s) | _ => None end.
Definition set_thread (s : state) (t : nat) (th : thread) : state :=
  match t with
  | O => ST (K s) (head s) (tail s) (slots s) (led s) th (th1 s)
  | _ => ST (K s) (head s) (tail s) (slots s) (led s) (th0 s) th
  end.
Definition set_head (s : state) (h : Z) : state := ST (K s) h (tail s) (slots s) (led s) (th0 s) (th1 s).
Definition set_tail (s : state) (x : Z) : state := ST (K s) (head s) x (slots s) (led s) (th0 s) (th1 s).
(* placement-new of an element with tag v into slot i *)
Definition write_slot (s : state) (i v : Z) : state :=
  ST (K s) (head s) (tail s) (fupd (slots s) i v) (construct KMove i (led s)) (th0 s) (th1 s).
(* move the element out of slot i *)
Definition move_slot (s : state) (i : Z) : state :=
  ST (K s) (head s) (tail s) (slots s) (move_from i (led s)) (th0 s) (th1 s).
(* run the destructor of the (moved-from) element in slot i *)
Definition destroy_slot (s : state) (i : Z) : state :=
  ST (K s) (head s) (tail s) (slots s) (destroy i (led s)) (th0 s) (th1 s).

(* try_push_batch: free space computed from the two loaded indices *)
Definition avail_push (k ct chd : Z) : Z := if chd <=? ct then (k - 1) - (ct - chd) else chd - ct - 1.
(* try_pop_batch / size(): number of elements computed from the two loaded indices *)
Definition avail_pop (k ch ctl : Z) : Z := if ch <=? ctl then ctl - ch else k - ch + ctl.

Definition step (s : state) (t : nat) (ch : list Z) : option (state * list Z * Z) :=
  match get_thread s t with
  | None => None
  | Some th =>
      let k := K s in
      let ret (s' : state) (th' : thread) (site : Z) := Some (set_thread s' t th', ch, site) in
      match tpc th with
      | PStart => ret s (next th) s_start
      (* try_push / try_emplace *)
      | PPushLoadTail v => ret s (goto th (PPushLoadHead v (tail s))) s_push_tail_load
      | PPushLoadHead v ct =>
          if increment k ct =? head s then ret s (next (logr th r_pushfail v)) s_push_head_load
          else ret s (goto th (PPushWrite v ct)) s_push_head_load
      | PPushWrite v ct => ret (write_slot s ct v) (goto th (PPushStoreTail v ct)) s_push_data_write
      | PPushStoreTail v ct => ret (set_tail s (increment k ct)) (next (logr th r_push v)) s_push_tail_store
      (* try_pop variants *)
      | PPopLoadHead => ret s (goto th (PPopLoadTail (head s))) s_pop_head_load
      | PPopLoadTail c =>
          if c =? tail s then ret s (next (logr th r_popfail 0)) s_pop_tail_load
          else ret s (goto th (PPopRead c)) s_pop_tail_load
      | PPopRead c => ret (move_slot s c) (goto th (PPopDestroy c (slots s c))) s_pop_data_read
      | PPopDestroy c v => ret (destroy_slot s c) (goto th (PPopStoreHead c v)) s_pop_data_destroy
      | PPopStoreHead c v => ret (set_head s (increment k c)) (next (logr th r_pop v)) s_pop_head_store
      (* try_push_batch *)
      | PBLoadTail vs => ret s (goto th (PBLoadHead vs (tail s))) s_pushb_tail_load
      | PBLoadHead vs ct =>
          let avail := avail_push k ct (head s) in
          if avail =? 0 then ret s (next (logr th r_pushb 0)) s_pushb_head_load
          else match vs with
               | [] => ret s (next (logr th r_pushb 0)) s_pushb_head_load
               | _ => ret s (goto th (PBWrite vs ct 0 avail [])) s_pushb_head_load
               end
      | PBWrite vs tp cnt avail wr =>
          match vs with
          | [] => None     (* unreachable: the loop condition is evaluated by the previous step *)
          | v :: rest =>
              let tp' := increment k tp in
              let cnt' := cnt + 1 in
              let wr' := wr ++ [v] in
              let s' := write_slot s tp v in
              match rest with
              | [] => ret s' (goto th (PBStoreTail tp' cnt' wr')) s_pushb_data_write
              | _ => if cnt' <? avail then ret s' (goto th (PBWrite rest tp' cnt' avail wr')) s_pushb_data_write
                     else ret s' (goto th (PBStoreTail tp' cnt' wr')) s_pushb_data_write
              end
          end
      | PBStoreTail tp cnt wr => ret (set_tail s tp) (next (logr (logrs th r_push wr) r_pushb cnt)) s_pushb_tail_store
      (* try_pop_batch *)
      | PQLoadHead m => ret s (goto th (PQLoadTail m (head s))) s_popb_head_load
      | PQLoadTail m c =>
          let avail := avail_pop k c (tail s) in
          let cnt := Z.min avail m in
          if (avail =? 0) || (cnt =? 0) then ret s (next (logr th r_popb 0)) s_popb_tail_load
          else ret s (goto th (PQRead c 0 cnt [])) s_popb_tail_load
      | PQRead hp i cnt acc => ret (move_slot s hp) (goto th (PQDestroy hp i cnt (acc ++ [slots s hp]))) s_popb_data_read
      | PQDestroy hp i cnt acc =>
          let hp' := increment k hp in
          let s' := destroy_slot s hp in
          if i + 1 <? cnt then ret s' (goto th (PQRead hp' (i + 1) cnt acc)) s_popb_data_destroy
          else ret s' (goto th (PQStoreHead hp' cnt acc)) s_popb_data_destroy
      | PQStoreHead hp cnt acc => ret (set_head s hp) (next (logr (logrs th r_pop acc) r_popb cnt)) s_popb_head_store
      (* observers *)
      | PSizeLoadHead => ret s (goto th (PSizeLoadTail (head s))) s_size_head_load
      | PSizeLoadTail h => ret s (next (logr th r_size (avail_pop k h (tail s)))) s_size_tail_load
      | PEmpty => ret s (next (logr th r_empty (b2z (head s =? tail s)))) s_empty_loads
      | PFull => ret s (next (logr th r_full (b2z (increment k (tail s) =? head s)))) s_full_loads
      | PDone => None
      end
  end.

Definition runnable (th : thread) : bool := match tpc th with PDone => false | _ => true end.
Definition cands (s : state) : list nat :=
  (if runnable (th0 s) then [0%nat] else []) ++ (if runnable (th1 s) then [1%nat] else []).
Definition finished (s : state) : bool := negb (runnable (th0 s)) && negb (runnable (th1 s)).

Definition init (k : Z) (p0 p1 : list op) : state :=
  ST k 0 0 (fun _ => 0) ledger0 (TH PStart p0 []) (TH PStart p1 []).

Definition run_spsc (fuel : nat) (k : Z) (p0 p1 : list op) (sched : list Z) :=
  run step cands finished fuel (init k p0 p1) sched [].

(* ---- observations ---- *)
Definition occupancy (s : state) : Z := (tail s - head s) mod K s.
Fixpoint ring_read (f : Z -> Z) (k i : Z) (n : nat) : list Z :=
  match n with O => [] | S m => f i :: ring_read f k (increment k i) m end.
(* the elements between head and tail, oldest first *)
Definition contents (s : state) : list Z := ring_read (slots s) (K s) (head s) (Z.to_nat (occupancy s)).

(* values delivered / accepted according to a thread's result log, oldest first *)
Definition vals_of (tag : Z) (r : list (Z * Z)) : list Z :=
  map snd (filter (fun x => fst x =? tag) (rev r)).
Definition pushed (s : state) : list Z := vals_of r_push (res (th0 s)).
Definition popped (s : state) : list Z := vals_of r_pop (res (th1 s)).

(* ~SPSCRingBuffer(): while (head != tail) { destroy slot head; head = increment(head) }  (not concurrent);
   fuel = kBufferSize iterations suffice *)
Fixpoint dtor_loop (fuel : nat) (k : Z) (l : ledger) (i tl : Z) : ledger :=
  match fuel with
  | O => l
  | S m => if i =? tl then l else dtor_loop m k (destroy i l) (increment k i) tl
  end.
Definition dtor (s : state) : ledger := dtor_loop (Z.to_nat (K s)) (K s) (led s) (head s) (tail s).

Definition lstate_code (x : lstate) : Z := match x with Unborn => 0 | Alive => 1 | MovedFrom => 2 | Dead => 3 end.
Definition range (n : Z) : list Z := map Z.of_nat (seq 0 (Z.to_nat n)).
(* per slot: ledger state code *)
Definition slot_states (s : state) : list Z := map (fun i => lstate_code (lget (led s) i)) (range (K s)).
