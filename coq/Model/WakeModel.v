(* Interleaving model of the thread pool's wake/sleep protocol:
     dispenso/detail/thread_pool_wake.h, dispenso/thread_pool_wake.cpp (PoolWakeState),
     dispenso/detail/epoch_waiter.h (EpochWaiter, Linux futex branch),
     and the wake-relevant skeleton of dispenso/thread_pool.cpp / thread_pool.h
     (threadLoopImpl, scheduleImpl, scheduleImplPlaced, scheduleBulkEnqueue, scheduleBulkToRings, stop/wakeAll/join).
   One step = one atomic access / futex call (the DISPENSO_VERIF_POINT sites "ws.*", "ew.*", "futex.*").
   ONE futex word (EpochWaiter) per group of [c_gs] threads; FUTEX_WAKE n wakes up to n ARBITRARY waiters of that
   word (each one chosen by an oracle integer); timed waits time out only when the scheduler says so ([c_tmo]).
   Executable; no proofs.

   Abstractions (stated in props/C07.py, props/C09.py):
   * sleepMask of group g = the segment [g*gs, (g+1)*gs) of the flat list [bits] (bit i = worker i); [mask_z] gives the word.
   * tiers are counters / lists of opaque tasks: own locality ring (FIFO list of [task]), central queue (count) with the
     centralQueueNonEmpty_ hint, steal rings (count) with the stealRingsWithWork_ mask.  A ring pop / push, a dequeue /
     enqueue is ONE step.  Rings never overflow (capacity 16 / 32, at most one task per ring is pushed here).
   * one failed poll round of the worker loop polls: own ring, central queue (iff the hint is set), own steal ring, and
     one other steal ring iff preferRing -- the set of tiers the real loop polls at least once between a wake-up and the next
     park; the failCount-dependent staggering (kSpinCheckInterval, kQueueCheckInterval, kCrossRingFailThreshold) is
     abstracted by [c_spins] = number of failed rounds before parking.  Never another worker's locality ring.
   * numThreads_, numRings_, wakeState_, enableEpochWaiter_ are constants of a run ([c_n], [c_wake]). *)
From Coq Require Import ZArith List Bool Arith.
From DV Require Import Base.MachInt Base.Sched.
Import ListNotations.
Local Open Scope Z_scope.

Record cfg := CFG {
  c_n : nat;        (* numThreads *)
  c_gs : nat;       (* groupSize (wake group = steal-ring sharing = 8 by default) *)
  c_bf : nat;       (* branchFactor *)
  c_wake : bool;    (* enableEpochWaiter_ (true: threadLoopWake, false: threadLoopPoll) *)
  c_spins : nat;    (* failed poll rounds before a worker parks *)
  c_tmo : bool }.   (* may timed futex waits time out? *)

Definition ngroups (c : cfg) : nat := ((c_n c + c_gs c - 1) / c_gs c)%nat.
Definition grp (c : cfg) (i : nat) : nat := (i / c_gs c)%nat.

Inductive task := TPlain | TCasc (g : nat).

(* who runs the sleep protocol: a raw script op, the composite OPark, the worker loop, or the exit path after a failed re-check *)
Inductive wk := WRaw | WPark | WLoop | WAbortP | WAbortL.
(* who called claimAndWakeOne *)
Inductive ck := CRaw | CSched | CPlaced | CBulk (rem : nat).

Inductive op :=
| OEnter (i : nat) | OExit (i : nat) | ORunLoad (i : nat) | OWaitFor (i : nat) | OCurrent (i : nat)
| OPark (i : nat)                       (* enterSleep; running() re-check; waitFor(epoch); exitSleep -- as in threadLoopImpl *)
| OStop (i : nat) | OClaim | OTryClaim (i : nat) | OSeed (c : nat) | ORange (c : nat) | OWakeAll | OCascade (g : nat) | OTotal
| OPushRing (i : nat) | OPushCentral | OPushSteal (j : nat) | OPoll (i : nat)
| OWorker (i : nat)                     (* threadLoopImpl for ring index i *)
| OSchedule | OPlaced | OBulk (c : nat) | ORings (c : nat)   (* forceEnqueue<false>, forceEnqueue<true>, scheduleBulkEnqueue, scheduleBulkToRings *)
| OJoin (i : nat)
| OShutdown.                            (* ~ThreadPool / resizeLocked: for all t: t.stop(); wakeAll(); for all t: join *)

Inductive pc :=
| PStart | PDone
| PEnter1 (i : nat) (w : wk) | PEnter2 (i : nat) (w : wk) | PRecheck (i : nat) (w : wk)
| PWf0 (i : nat) (w : wk) | PWf1 (i : nat) (w : wk) | PFutex (i : nat) (w : wk)
| PBlocked (i : nat) (w : wk) | PWoken (i : nat) (w : wk) | PWf2 (i : nat) (w : wk)
| PExit1 (i : nat) (w : wk) | PExit2 (i : nat) (w : wk) | PProbe (i : nat)
| PRunLoad (i : nat) | PCurrent (i : nat) (w : wk) | PStop (i : nat) | PTotal | PTryClaim (i : nat)
| PClTotal (k : ck) | PClNext (k : ck) | PClMask (k : ck) (g gi : nat) | PClTry (k : ck) (g gi : nat) (m : list bool) (b : nat)
| PClBump (k : ck) (g t : nat) | PClWake (k : ck) (g t : nat) | PClStore (k : ck) (g t : nat)
| PSeedTotal (c : nat) (lg : bool) | PSeedFast (g last : nat) (lg : bool)
| PRgLoad (sd : bool) (g last c : nat) (lg : bool) | PRgBump (sd : bool) (g last c n : nat) (lg : bool)
| PRgWake (sd : bool) (g last c n : nat) (lg : bool)
| PWaLoad (g : nat) (sh : bool) | PWaBump (g : nat) (w : bool) (sh : bool) | PWaWake (g : nat) (sh : bool)
| PCaLoad (g : nat) (kc : option nat) | PCaBump (g n : nat) (kc : option nat) | PCaWake (g n : nat) (kc : option nat)
| PPushRing (i : nat) | PPushCentral | PPushSteal (j : nat) | PPoll (i : nat)
| PTop (i : nat) | PRing (i : nat) | PHint (i : nat) | PDeq (i : nat) | PHintClr (i : nat) | PSteal (i : nat)
| PCross (i : nat) | PCrossPop (i j : nat) | PCrossClr (i j : nat)
| PMarkWork (i : nat) | PWorkSub (i : nat) | PFlush (i : nat) | PMarkIdle (i : nat) (ex : bool) | PFin (i : nat)
| PScAdd | PScEnq | PScHint | PScTotal | PScWork (s : Z)
| PPlAdd | PPlTotal | PPlNotW (s : Z) | PPlPush (j : nat) | PPlMask (j : nat)
| PBkAdd (c : nat) | PBkEnq (c : nat) | PBkHint (c : nat) | PBkTotal (c : nat) | PBkNotW (c : nat) (s : Z)
| PRiAdd (c : nat) | PRiTotal (c : nat) | PRiPush (c : nat) (uc : bool) (r : nat)
| PJoin (i : nat) | PStopAll (k : nat) | PJoinAll (k : nat).

Record thread := TH {
  tpc : pc; prog : list op; res : list (Z * Z);   (* res: (tag, value), newest first *)
  lep : Z;          (* the worker's local `epoch` *)
  lpre : Z;         (* preWaitEpoch *)
  lfail : nat;      (* failed rounds since the last success / wake-up *)
  ldone : nat;      (* localWorkDone *)
  lpr : bool;       (* preferRing *)
  lwork : bool }.   (* isWorking *)

Record wakest := WK {
  bits : list bool;       (* sleepMask bits, flat: bit i = worker i *)
  epochs : list Z;        (* per group: EpochWaiter::epoch_ (uint32) *)
  total : Z;              (* totalSleeping_ *)
  nextg : nat;            (* nextWakeGroup_ *)
  wrapped : bool }.       (* ghost: some epoch fetch_add wrapped around 2^32 *)

Record poolst := PL {
  runflags : list bool;   (* PerThreadData::running_ *)
  fin : list bool;        (* worker thread i has returned (what join observes) *)
  rings : list (list task);
  central : nat; hint : bool;
  steals : list nat; stealmask : list bool;
  workrem : Z; notworking : Z }.

Record state := ST { cf : cfg; wks : wakest; pl : poolst; threads : list thread }.

(* ---------- site ids (positions in props/wake_common.py SITES) ---------- *)
Definition s_start := 0.
Definition s_enter_or := 1.   Definition s_enter_add := 2.  Definition s_exit_and := 3.   Definition s_exit_sub := 4.
Definition s_tryclaim := 5.   Definition s_total := 6.      Definition s_casc_mask := 7.  Definition s_range_mask := 8.
Definition s_cl_total := 9.   Definition s_cl_next := 10.   Definition s_cl_mask := 11.   Definition s_cl_store := 12.
Definition s_seed_total := 13. Definition s_seed_mask := 14. Definition s_wa_mask := 15.
Definition s_bumpwake := 16.  Definition s_bump := 17.      Definition s_bumpall := 18.   Definition s_bumpn := 19.
Definition s_current := 20.   Definition s_wf0 := 21.       Definition s_wf1 := 22.       Definition s_wf2 := 23.
Definition s_fwait := 24.     Definition s_fwake := 25.     Definition s_fwoken := 26.    Definition s_ftimeout := 27.
Definition s_running := 28.   Definition s_stop := 29.      Definition s_push := 30.      Definition s_poll := 31.
Definition s_join := 32.      Definition s_fin := 33.
(* sites of the worker loop / submission skeleton (model only) *)
Definition s_ring := 41. Definition s_hint := 42. Definition s_deq := 43. Definition s_hintclr := 44. Definition s_steal := 45.
Definition s_cross := 46. Definition s_crosspop := 47. Definition s_crossclr := 48. Definition s_markwork := 49.
Definition s_worksub := 50. Definition s_markidle := 51. Definition s_workadd := 52. Definition s_enq := 53.
Definition s_hintset := 54. Definition s_workload := 55. Definition s_notwload := 56. Definition s_stealpush := 57.
Definition s_stealmask := 58. Definition s_ringpush := 59. Definition s_probe := 60.

(* result tags *)
Definition r_claim := 1. Definition r_tryclaim := 2. Definition r_seed := 3. Definition r_total := 4. Definition r_running := 5.
Definition r_waitfor := 6. Definition r_current := 7. Definition r_poll := 8. Definition r_park := 9.

(* ---------- list helpers ---------- *)
Fixpoint upd {A} (l : list A) (n : nat) (x : A) : list A :=
  match l, n with
  | [], _ => []
  | _ :: r, O => x :: r
  | y :: r, S m => y :: upd r m x
  end.

Fixpoint lowest_set (m : list bool) : option nat :=
  match m with
  | [] => None
  | true :: _ => Some O
  | false :: r => match lowest_set r with Some k => Some (S k) | None => None end
  end.

Fixpoint popcount (m : list bool) : nat :=
  match m with [] => O | true :: r => S (popcount r) | false :: r => popcount r end.

Fixpoint remove_nth {A} (k : nat) (l : list A) : list A :=
  match l, k with
  | [], _ => []
  | _ :: r, O => r
  | x :: r, S k' => x :: remove_nth k' r
  end.

Fixpoint mask_z (m : list bool) : Z :=
  match m with [] => 0 | b :: r => b2z b + 2 * mask_z r end.

Definition grp_bits (c : cfg) (bs : list bool) (g : nat) : list bool := firstn (c_gs c) (skipn (g * c_gs c) bs).
Definition nextgrp (c : cfg) (g : nat) : nat := if (S g <? ngroups c)%nat then S g else O.
Definition epoch_of (s : state) (g : nat) : Z := nth g (epochs (wks s)) 0.
(* cascadeTargets_[t] = t + 1 when that is a group index (built in the PoolWakeState constructor) *)
Definition cascade_target (c : cfg) (t count : nat) : option nat :=
  if (S t <? ngroups c)%nat && (S t <=? (count - 1) / c_gs c)%nat then Some (S t) else None.

(* ---------- record setters ---------- *)
Definition set_bits (w : wakest) v := WK v (epochs w) (total w) (nextg w) (wrapped w).
Definition set_total (w : wakest) v := WK (bits w) (epochs w) v (nextg w) (wrapped w).
Definition set_nextg (w : wakest) v := WK (bits w) (epochs w) (total w) v (wrapped w).
Definition bump_epoch (w : wakest) (g : nat) :=
  let e := nth g (epochs w) 0 in
  WK (bits w) (upd (epochs w) g (wrap 32 (e + 1))) (total w) (nextg w) (wrapped w || (e + 1 =? 2 ^ 32)).

Definition set_runflags (p : poolst) v := PL v (fin p) (rings p) (central p) (hint p) (steals p) (stealmask p) (workrem p) (notworking p).
Definition set_fin (p : poolst) v := PL (runflags p) v (rings p) (central p) (hint p) (steals p) (stealmask p) (workrem p) (notworking p).
Definition set_rings (p : poolst) v := PL (runflags p) (fin p) v (central p) (hint p) (steals p) (stealmask p) (workrem p) (notworking p).
Definition set_central (p : poolst) v := PL (runflags p) (fin p) (rings p) v (hint p) (steals p) (stealmask p) (workrem p) (notworking p).
Definition set_hint (p : poolst) v := PL (runflags p) (fin p) (rings p) (central p) v (steals p) (stealmask p) (workrem p) (notworking p).
Definition set_steals (p : poolst) v := PL (runflags p) (fin p) (rings p) (central p) (hint p) v (stealmask p) (workrem p) (notworking p).
Definition set_stealmask (p : poolst) v := PL (runflags p) (fin p) (rings p) (central p) (hint p) (steals p) v (workrem p) (notworking p).
Definition set_workrem (p : poolst) v := PL (runflags p) (fin p) (rings p) (central p) (hint p) (steals p) (stealmask p) v (notworking p).
Definition set_notworking (p : poolst) v := PL (runflags p) (fin p) (rings p) (central p) (hint p) (steals p) (stealmask p) (workrem p) v.

(* ---------- thread helpers ---------- *)
Definition goto (th : thread) (p : pc) : thread := TH p (prog th) (res th) (lep th) (lpre th) (lfail th) (ldone th) (lpr th) (lwork th).
Definition logr (th : thread) (tag v : Z) : thread :=
  TH (tpc th) (prog th) ((tag, v) :: res th) (lep th) (lpre th) (lfail th) (ldone th) (lpr th) (lwork th).
Definition set_lep (th : thread) (e : Z) : thread := TH (tpc th) (prog th) (res th) e (lpre th) (lfail th) (ldone th) (lpr th) (lwork th).
Definition set_lpre (th : thread) (e : Z) : thread := TH (tpc th) (prog th) (res th) (lep th) e (lfail th) (ldone th) (lpr th) (lwork th).
Definition set_lfail (th : thread) (v : nat) : thread := TH (tpc th) (prog th) (res th) (lep th) (lpre th) v (ldone th) (lpr th) (lwork th).
Definition set_ldone (th : thread) (v : nat) : thread := TH (tpc th) (prog th) (res th) (lep th) (lpre th) (lfail th) v (lpr th) (lwork th).
Definition set_lpr (th : thread) (v : bool) : thread := TH (tpc th) (prog th) (res th) (lep th) (lpre th) (lfail th) (ldone th) v (lwork th).
Definition set_lwork (th : thread) (v : bool) : thread := TH (tpc th) (prog th) (res th) (lep th) (lpre th) (lfail th) (ldone th) (lpr th) v.
Definition finish (th : thread) : thread := TH PDone [] (res th) (lep th) (lpre th) (lfail th) (ldone th) (lpr th) (lwork th).

Definition seed_last (c : cfg) (count : nat) : nat := Nat.min ((count - 1) / c_gs c) (ngroups c - 1).

Definition entry (c : cfg) (o : op) : pc :=
  match o with
  | OEnter i => PEnter1 i WRaw
  | OExit i => PExit1 i WRaw
  | ORunLoad i => PRunLoad i
  | OWaitFor i => PWf0 i WRaw
  | OCurrent i => PCurrent i WRaw
  | OPark i => PEnter1 i WPark
  | OStop i => PStop i
  | OClaim => PClTotal CRaw
  | OTryClaim i => PTryClaim i
  | OSeed n => PSeedTotal n true
  | ORange n => PRgLoad false O (seed_last c n) n false
  | OWakeAll => PWaLoad O false
  | OCascade g => PCaLoad g None
  | OTotal => PTotal
  | OPushRing i => PPushRing i
  | OPushCentral => PPushCentral
  | OPushSteal j => PPushSteal j
  | OPoll i => PPoll i
  | OWorker i => PCurrent i WLoop
  | OSchedule => PScAdd
  | OPlaced => PPlAdd
  | OBulk n => PBkAdd n
  | ORings n => PRiAdd n
  | OJoin i => PJoin i
  | OShutdown => PStopAll O
  end.

Definition next (c : cfg) (th : thread) : thread :=
  match prog th with
  | [] => finish th
  | o :: r => TH (entry c o) r (res th) (lep th) (lpre th) (lfail th) (ldone th) (lpr th) (lwork th)
  end.

(* claimAndWakeOne returns r to caller k *)
Definition ret_claim (c : cfg) (k : ck) (r : option nat) (th : thread) : thread :=
  match k with
  | CRaw => next c (logr th r_claim (match r with Some t => Z.of_nat t | None => -1 end))
  | CSched => next c th
  | CPlaced => match r with Some t => goto th (PPlPush (t / c_gs c)%nat) | None => goto th PScEnq end
  | CBulk rem => match r with
                 | None => next c th
                 | Some _ => match rem with O => next c th | S r' => goto th (PClTotal (CBulk r')) end
                 end
  end.

(* the `while (mask)` scan of claimAndWakeOne over the local copy m of group g's mask *)
Definition claim_scan (c : cfg) (k : ck) (g gi : nat) (m : list bool) (th : thread) : thread :=
  match lowest_set m with
  | Some b => goto th (PClTry k g gi m b)
  | None => if (S gi <? ngroups c)%nat then goto th (PClMask k (nextgrp c g) (S gi)) else ret_claim c k None th
  end.

(* worker loop: after a task was taken and run *)
Definition after_task (i : nat) (th : thread) : thread :=
  let th1 := set_ldone th (S (ldone th)) in
  if (8 <=? ldone th1)%nat then goto th1 (PFlush i) else goto th1 (PRing i).

Definition park_start (c : cfg) (i : nat) (th : thread) : thread :=
  if lwork th then goto th (PMarkIdle i false)
  else if c_wake c then goto th (PEnter1 i WLoop) else goto th (PWf0 i WLoop).

(* worker loop: a whole poll round found nothing *)
Definition round_fail (c : cfg) (i : nat) (th : thread) : thread :=
  if (0 <? ldone th)%nat then (if lwork th then goto th (PWorkSub i) else goto th (PMarkWork i))
  else let th1 := set_lfail th (S (lfail th)) in
       if (lfail th1 <? c_spins c)%nat then goto th1 (PTop i) else park_start c i th1.

(* after waitFor returned *)
Definition after_wait (c : cfg) (i : nat) (w : wk) (th : thread) : thread :=
  match w with
  | WRaw => next c (logr th r_waitfor (lep th))
  | WLoop => if c_wake c then goto th (PExit1 i WLoop)
             else if lep th =? lpre th then goto th (PProbe i) else goto (set_lfail th O) (PTop i)
  | _ => goto th (PExit1 i w)
  end.

Definition after_exit (c : cfg) (i : nat) (w : wk) (th : thread) : thread :=
  match w with
  | WRaw => next c th
  | WPark => next c (logr th r_park 1)
  | WAbortP => finish (logr th r_park 0)
  | WAbortL => goto th (PFin i)
  | WLoop => if lep th =? lpre th then goto th (PProbe i) else goto (set_lfail th O) (PTop i)
  end.

(* wakeAll: after group g *)
Definition after_wakeall (c : cfg) (g : nat) (sh : bool) (th : thread) : thread :=
  if (S g <? ngroups c)%nat then goto th (PWaLoad (S g) sh)
  else if sh then goto th (PJoinAll O) else next c th.

(* ---------- futex ---------- *)
Definition blocked_on (c : cfg) (g : nat) (th : thread) : bool :=
  match tpc th with PBlocked i _ => (grp c i =? g)%nat | _ => false end.

Fixpoint tids_where (f : thread -> bool) (ths : list thread) (i : nat) : list nat :=
  match ths with
  | [] => []
  | th :: r => if f th then i :: tids_where f r (S i) else tids_where f r (S i)
  end.

Definition waiters (s : state) (g : nat) : list nat := tids_where (blocked_on (cf s) g) (threads s) O.

(* vsched: while woken < n and waiters remain: if #waiters > n - woken the next schedule integer picks the waiter, else the first *)
Fixpoint wake_pick (n : nat) (ws : list nat) (ch : list Z) (acc : list nat) : list nat * list Z :=
  match n with
  | O => (acc, ch)
  | S n' =>
      match ws with
      | [] => (acc, ch)
      | w0 :: wr =>
          if (n <? length ws)%nat then
            let c := hd 0 ch in
            let k := Z.to_nat (c mod Z.of_nat (length ws)) in
            wake_pick n' (remove_nth k ws) (tl ch) (nth k ws w0 :: acc)
          else wake_pick n' wr ch (w0 :: acc)
      end
  end.

Definition wake_thread (th : thread) : thread :=
  match tpc th with PBlocked i w => goto th (PWoken i w) | _ => th end.

Fixpoint wake_tids (ths : list thread) (i : nat) (woken : list nat) : list thread :=
  match ths with
  | [] => []
  | th :: r => (if existsb (Nat.eqb i) woken then wake_thread th else th) :: wake_tids r (S i) woken
  end.

(* ---------- one-step poll of the raw OPoll op ---------- *)
Definition is_nonempty {A} (l : list A) : bool := match l with [] => false | _ => true end.

(* ---------- the step function ---------- *)
(* what one step of a thread does: new shared wake state, new pool state, the thread's new record, an optional FUTEX_WAKE request
   (group, n) and the site that executed.  It sees the shared state only, never other threads' records. *)
Record outcome := OUT { o_w : wakest; o_p : poolst; o_th : thread; o_wake : option (nat * nat); o_site : Z }.

Definition tstep (c : cfg) (w : wakest) (p : poolst) (nthr : nat) (th : thread) : option outcome :=
      let out (w' : wakest) (p' : poolst) (th' : thread) (site : Z) := Some (OUT w' p' th' None site) in
      let fwake (g n : nat) (th' : thread) := Some (OUT w p th' (Some (g, n)) s_fwake) in
      let epoch_at (g : nat) := nth g (epochs w) 0 in
      match tpc th with
      | PStart => out w p (next c th) s_start
      | PDone => None
      (* ---- sleep protocol ---- *)
      | PEnter1 i k => out (set_bits w (upd (bits w) i true)) p (goto th (PEnter2 i k)) s_enter_or
      | PEnter2 i k => out (set_total w (total w + 1)) p
                           (match k with WRaw => next c th | _ => goto th (PRecheck i k) end) s_enter_add
      | PRecheck i k =>
          if nth i (runflags p) true then out w p (goto th (PWf0 i k)) s_running
          else out w p (goto th (PExit1 i (match k with WLoop => WAbortL | _ => WAbortP end))) s_running
      | PWf0 i k =>
          let cur := epoch_at (grp c i) in
          let th0 := set_lpre th (lep th) in
          if cur =? lep th then out w p (goto th0 (PWf1 i k)) s_wf0
          else out w p (after_wait c i k (set_lep th0 cur)) s_wf0
      | PWf1 i k =>
          let cur := epoch_at (grp c i) in
          if cur =? lep th then out w p (goto th (PFutex i k)) s_wf1
          else out w p (after_wait c i k (set_lep th cur)) s_wf1
      | PFutex i k =>
          if epoch_at (grp c i) =? lep th then out w p (goto th (PBlocked i k)) s_fwait
          else out w p (goto th (PWf2 i k)) s_fwait
      | PBlocked i k => if c_tmo c then out w p (goto th (PWf2 i k)) s_ftimeout else None
      | PWoken i k => out w p (goto th (PWf2 i k)) s_fwoken
      | PWf2 i k => out w p (after_wait c i k (set_lep th (epoch_at (grp c i)))) s_wf2
      | PExit1 i k => out (set_bits w (upd (bits w) i false)) p (goto th (PExit2 i k)) s_exit_and
      | PExit2 i k => out (set_total w (total w - 1)) p (after_exit c i k th) s_exit_sub
      | PProbe i =>
          out w (if (0 <? central p)%nat then set_hint p true else p) (goto (set_lfail th O) (PTop i)) s_probe
      | PRunLoad i => out w p (next c (logr th r_running (b2z (nth i (runflags p) true)))) s_running
      | PCurrent i k =>
          let th1 := set_lep th (epoch_at (grp c i)) in
          out w p (match k with WLoop => goto th1 (PTop i) | _ => next c (logr th1 r_current (lep th1)) end) s_current
      | PStop i => out w (set_runflags p (upd (runflags p) i false)) (next c th) s_stop
      | PTotal => out w p (next c (logr th r_total (total w))) s_total
      | PTryClaim i =>
          out (set_bits w (upd (bits w) i false)) p (next c (logr th r_tryclaim (b2z (nth i (bits w) false)))) s_tryclaim
      (* ---- claimAndWakeOne ---- *)
      | PClTotal k => if total w <=? 0 then out w p (ret_claim c k None th) s_cl_total else out w p (goto th (PClNext k)) s_cl_total
      | PClNext k => let g := if (ngroups c <=? nextg w)%nat then O else nextg w in out w p (goto th (PClMask k g O)) s_cl_next
      | PClMask k g gi => out w p (claim_scan c k g gi (grp_bits c (bits w) g) th) s_cl_mask
      | PClTry k g gi m b =>
          let ti := (g * c_gs c + b)%nat in
          if nth ti (bits w) false then out (set_bits w (upd (bits w) ti false)) p (goto th (PClBump k g ti)) s_tryclaim
          else out w p (claim_scan c k g gi (upd m b false) th) s_tryclaim
      | PClBump k g ti => out (bump_epoch w g) p (goto th (PClWake k g ti)) s_bumpwake
      | PClWake k g ti => fwake g 1%nat (goto th (PClStore k g ti))
      | PClStore k g ti => out (set_nextg w (nextgrp c g)) p (ret_claim c k (Some ti) th) s_cl_store
      (* ---- cascadeWakeSeed / wakeRange ---- *)
      | PSeedTotal n lg =>
          if total w =? 0 then out w p (goto th (PSeedFast O (seed_last c n) lg)) s_seed_total
          else out w p (goto th (PRgLoad true O (seed_last c n) n lg)) s_seed_total
      | PSeedFast g last lg =>
          out (bump_epoch w g) p
              (if (g <? last)%nat then goto th (PSeedFast (S g) last lg)
               else next c (if lg then logr th r_seed 0 else th)) s_bump
      | PRgLoad sd g last n lg =>
          let m := grp_bits c (bits w) g in
          let m' := if (g =? last)%nat then firstn (n - g * c_gs c) m else m in
          out w p (goto th (PRgBump sd g last n (popcount m') lg)) (if sd then s_seed_mask else s_range_mask)
      | PRgBump sd g last n k lg =>
          let after := if (g <? last)%nat then goto th (PRgLoad sd (S g) last n lg)
                       else next c (if lg then logr th r_seed 1 else th) in
          match k with
          | O => out (bump_epoch w g) p after s_bump
          | S _ => out (bump_epoch w g) p (goto th (PRgWake sd g last n k lg)) s_bumpn
          end
      | PRgWake sd g last n k lg =>
          fwake g k (if (g <? last)%nat then goto th (PRgLoad sd (S g) last n lg)
                     else next c (if lg then logr th r_seed 1 else th))
      (* ---- wakeAll ---- *)
      | PWaLoad g sh => out w p (goto th (PWaBump g (existsb (fun b => b) (grp_bits c (bits w) g)) sh)) s_wa_mask
      | PWaBump g any sh =>
          if any then out (bump_epoch w g) p (goto th (PWaWake g sh)) s_bumpall
          else out (bump_epoch w g) p (after_wakeall c g sh th) s_bump
      | PWaWake g sh => fwake g (nthr) (after_wakeall c g sh th)
      (* ---- cascadeWake ---- *)
      | PCaLoad g kc => out w p (goto th (PCaBump g (popcount (grp_bits c (bits w) g)) kc)) s_casc_mask
      | PCaBump g k kc =>
          match k with
          | O => out (bump_epoch w g) p (match kc with Some i => after_task i th | None => next c th end) s_bump
          | S _ => out (bump_epoch w g) p (goto th (PCaWake g k kc)) s_bumpn
          end
      | PCaWake g k kc => fwake g k (match kc with Some i => after_task i th | None => next c th end)
      (* ---- raw tier ops ---- *)
      | PPushRing i => out w (set_rings p (upd (rings p) i (nth i (rings p) [] ++ [TPlain]))) (next c th) s_push
      | PPushCentral => out w (set_hint (set_central p (S (central p))) true) (next c th) s_push
      | PPushSteal j => out w (set_stealmask (set_steals p (upd (steals p) j (S (nth j (steals p) O)))) (upd (stealmask p) j true)) (next c th) s_push
      | PPoll i =>
          match nth i (rings p) [] with
          | _ :: r => out w (set_rings p (upd (rings p) i r)) (next c (logr th r_poll 1)) s_poll
          | [] =>
              match central p with
              | S k => out w (set_central p k) (next c (logr th r_poll 2)) s_poll
              | O =>
                  match nth (grp c i) (steals p) O with
                  | S k => out w (set_steals p (upd (steals p) (grp c i) k)) (next c (logr th r_poll 3)) s_poll
                  | O => out w p (next c (logr th r_poll 0)) s_poll
                  end
              end
          end
      (* ---- worker loop ---- *)
      | PTop i =>
          if nth i (runflags p) true then out w p (goto th (PRing i)) s_running
          else out w p (if lwork th then goto th (PMarkIdle i true) else goto th (PFin i)) s_running
      | PRing i =>
          match nth i (rings p) [] with
          | tk :: r =>
              let th1 := set_lpr th true in
              out w (set_rings p (upd (rings p) i r))
                  (match tk with TPlain => after_task i th1 | TCasc g => goto th1 (PCaLoad g (Some i)) end) s_ring
          | [] => out w p (goto th (PHint i)) s_ring
          end
      | PHint i => out w p (goto th (if hint p then PDeq i else PSteal i)) s_hint
      | PDeq i =>
          match central p with
          | S k => out w (set_central p k) (after_task i (set_lpr th false)) s_deq
          | O => out w p (goto th (PHintClr i)) s_deq
          end
      | PHintClr i => out w (set_hint p false) (goto th (PSteal i)) s_hintclr
      | PSteal i =>
          match nth (grp c i) (steals p) O with
          | S k => out w (set_steals p (upd (steals p) (grp c i) k)) (after_task i th) s_steal
          | O => out w p (if lpr th then goto th (PCross i) else round_fail c i th) s_steal
          end
      | PCross i =>
          match lowest_set (upd (stealmask p) (grp c i) false) with
          | Some j => out w p (goto th (PCrossPop i j)) s_cross
          | None => out w p (round_fail c i th) s_cross
          end
      | PCrossPop i j =>
          match nth j (steals p) O with
          | S k => out w (set_steals p (upd (steals p) j k)) (after_task i th) s_crosspop
          | O => out w p (goto th (PCrossClr i j)) s_crosspop
          end
      | PCrossClr i j => out w (set_stealmask p (upd (stealmask p) j false)) (round_fail c i th) s_crossclr
      | PMarkWork i => out w (set_notworking p (notworking p - 1)) (goto (set_lwork th true) (PWorkSub i)) s_markwork
      | PWorkSub i =>
          out w (set_workrem p (workrem p - Z.of_nat (ldone th))) (goto (set_lfail (set_ldone th O) O) (PTop i)) s_worksub
      | PFlush i => out w (set_workrem p (workrem p - Z.of_nat (ldone th))) (goto (set_ldone th O) (PRing i)) s_worksub
      | PMarkIdle i ex =>
          let th1 := set_lwork th false in
          out w (set_notworking p (notworking p + 1))
              (if ex then goto th1 (PFin i) else if c_wake c then goto th1 (PEnter1 i WLoop) else goto th1 (PWf0 i WLoop)) s_markidle
      | PFin i => out w (set_fin p (upd (fin p) i true)) (finish th) s_fin
      (* ---- submissions ---- *)
      | PScAdd => out w (set_workrem p (workrem p + 1)) (goto th PScEnq) s_workadd
      | PScEnq => out w (set_central p (S (central p))) (goto th PScHint) s_enq
      | PScHint => out w (set_hint p true) (goto th PScTotal) s_hintset
      | PScTotal => if 0 <? total w then out w p (goto th (PScWork (total w))) s_total else out w p (next c th) s_total
      | PScWork sl =>
          if Z.of_nat (c_n c) - sl <? workrem p then out w p (goto th (PClTotal CSched)) s_workload
          else out w p (next c th) s_workload
      | PPlAdd => out w (set_workrem p (workrem p + 1)) (goto th PPlTotal) s_workadd
      | PPlTotal => if 0 <? total w then out w p (goto th (PPlNotW (total w))) s_total else out w p (goto th PScEnq) s_total
      | PPlNotW sl =>
          if notworking p - sl <? 2 then out w p (goto th (PClTotal CPlaced)) s_notwload else out w p (goto th PScEnq) s_notwload
      | PPlPush j => out w (set_steals p (upd (steals p) j (S (nth j (steals p) O)))) (goto th (PPlMask j)) s_stealpush
      | PPlMask j => out w (set_stealmask p (upd (stealmask p) j true)) (next c th) s_stealmask
      | PBkAdd n => out w (set_workrem p (workrem p + Z.of_nat n)) (goto th (PBkEnq n)) s_workadd
      | PBkEnq n => out w (set_central p (central p + n)%nat) (goto th (PBkHint n)) s_enq
      | PBkHint n => out w (set_hint p true) (goto th (PBkTotal n)) s_hintset
      | PBkTotal n => if 0 <? total w then out w p (goto th (PBkNotW n (total w))) s_total else out w p (next c th) s_total
      | PBkNotW n sl =>
          let spinning := Z.max 0 (notworking p - sl) in
          let eff := Z.max 0 (spinning - 2 + 1) in
          let towake := Z.to_nat (Z.min (Z.max 0 (Z.of_nat n - eff)) sl) in
          if (towake <=? c_bf c)%nat then
            match towake with
            | O => out w p (next c th) s_notwload
            | S k => out w p (goto th (PClTotal (CBulk k))) s_notwload
            end
          else out w p (goto th (PSeedTotal towake false)) s_notwload
      | PRiAdd n => out w (set_workrem p (workrem p + Z.of_nat n)) (goto th (PRiTotal n)) s_workadd
      | PRiTotal n => out w p (goto th (PRiPush n (0 <? total w) O)) s_total
      | PRiPush n uc r =>
          let tk := if uc then match cascade_target c r n with Some g => TCasc g | None => TPlain end else TPlain in
          out w (set_rings p (upd (rings p) r (nth r (rings p) [] ++ [tk])))
              (if (S r <? Nat.min n (c_n c))%nat then goto th (PRiPush n uc (S r)) else goto th (PSeedTotal n false)) s_ringpush
      | PJoin i => if nth i (fin p) false then out w p (next c th) s_join else None
      | PStopAll k =>
          out w (set_runflags p (upd (runflags p) k false))
              (if (S k <? c_n c)%nat then goto th (PStopAll (S k)) else goto th (PWaLoad O true)) s_stop
      | PJoinAll k =>
          if nth k (fin p) false then out w p (if (S k <? c_n c)%nat then goto th (PJoinAll (S k)) else next c th) s_join
          else None
      end.

Definition step (s : state) (t : nat) (ch : list Z) : option (state * list Z * Z) :=
  match nth_error (threads s) t with
  | None => None
  | Some th =>
      match tstep (cf s) (wks s) (pl s) (length (threads s)) th with
      | None => None
      | Some o =>
          match o_wake o with
          | None => Some (ST (cf s) (o_w o) (o_p o) (upd (threads s) t (o_th o)), ch, o_site o)
          | Some (g, n) =>
              let '(woken, ch') := wake_pick n (waiters s g) ch [] in
              Some (ST (cf s) (o_w o) (o_p o) (upd (wake_tids (threads s) O woken) t (o_th o)), ch', o_site o)
          end
      end
  end.

(* a join blocks until the joined worker thread has returned *)
Definition runnable_in (p : poolst) (th : thread) : bool :=
  match tpc th with
  | PDone | PBlocked _ _ => false
  | PJoin i | PJoinAll i => nth i (fin p) false
  | _ => true
  end.
Definition timed_blocked (th : thread) : bool := match tpc th with PBlocked _ _ => true | _ => false end.

Definition cands (s : state) : list nat :=
  tids_where (runnable_in (pl s)) (threads s) O ++ (if c_tmo (cf s) then tids_where timed_blocked (threads s) O else []).

Definition finished (s : state) : bool := forallb (fun th => match tpc th with PDone => true | _ => false end) (threads s).

Definition mk_thread (p : pc) (pr : list op) : thread := TH p pr [] 0 0 O O false false.

Definition init_wake (c : cfg) : wakest := WK (repeat false (c_n c)) (repeat 0 (ngroups c)) 0 O false.
Definition init_pool (c : cfg) : poolst :=
  PL (repeat true (c_n c)) (repeat false (c_n c)) (repeat [] (c_n c)) O false (repeat O (ngroups c)) (repeat false (ngroups c)) 0 (Z.of_nat (c_n c)).

Definition init (c : cfg) (progs : list (list op)) : state :=
  ST c (init_wake c) (init_pool c) (map (mk_thread PStart) progs).

Definition run_wake (fuel : nat) (c : cfg) (progs : list (list op)) (sched : list Z) :=
  run step cands finished fuel (init c progs) sched [].

(* ---------- the fully parked, clean pool: every worker i = thread i blocked in the futex with its bit set ---------- *)
Definition parked_worker (e : Z) (i : nat) : thread := TH (PBlocked i WLoop) [] [] e e O O false false.

Definition parked (c : cfg) (e : Z) (producers : list (list op)) : state :=
  ST c (WK (repeat true (c_n c)) (repeat e (ngroups c)) (Z.of_nat (c_n c)) O false)
     (init_pool c)
     (map (parked_worker e) (seq O (c_n c)) ++ map (mk_thread PStart) producers).

(* all tiers empty *)
Definition tiers_empty (s : state) : bool :=
  forallb (fun r => negb (is_nonempty r)) (rings (pl s)) && (central (pl s) =? 0)%nat && forallb (Nat.eqb O) (steals (pl s)).

(* no enabled step *)
Definition quiescent (s : state) : bool := match cands s with [] => true | _ => false end.
