(* Executable side of the C48 correspondence (see Model/C14Check.v for the observation formats).
   Result = verdict*10 + d;  d = 1: configuration in c48_dom_tail (the known finding), 0 otherwise. *)
From Coq Require Import ZArith List Bool.
From DV Require Import Base.MachInt Base.Corr Model.ChunkModel Gen.GenChunk Model.ParForModel Model.PlanModel
  Model.ForEachModel Model.C14Check.
Import ListNotations.
Local Open Scope Z_scope.

Definition c48_domcode (c : pfcfg) : Z := if c48_dom_tail c then 1 else 0.

(* the largest number of observed invocations that were inside the body at the same time
   (= max over entry points of the number of [entry, exit) intervals containing it) *)
Definition max_overlap (l : list obs) : Z :=
  fold_right Z.max 0
    (map (fun a => Z.of_nat (length (filter (fun b => (o_en b <=? o_en a) && (o_en a <? o_ex b)) l))) l).

Definition judge_plan48 (x : pfcfg * Z * list obs * (Z * Z * Z) * (bool * Z)) : Z :=
  let '(c, ring, l, (nstates, nsched, nwaits), (reuse, pre)) := x in
  let dom := c48_domcode c in
  let m := max_overlap l in
  if negb (m <=? user_maxThreads c) then 20 + dom
  else if plan_agrees c ring l nstates nsched nwaits reuse pre && (m <=? pf_width c) then dom else 10 + dom.

Definition judge_pf48 (x : pfcfg * list (Z * Z * Z) * (Z * Z * Z)) : Z :=
  let '(c, impl, (maxconc, stateconc, nstates)) := x in
  let dom := c48_domcode c in
  if negb (maxconc <=? user_maxThreads c) then 20 + dom
  else if pf_agrees c impl nstates && (maxconc <=? pf_width c) then dom else 10 + dom.

(* the model's own verdict on a configuration: does the plan's width exceed the limit?  (used to report how many
   generated cases lie in each domain, and to cross-check width against the domains) *)
Definition width_vs_domain_ok (c : pfcfg) : bool :=
  Bool.eqb (user_maxThreads c <? pf_width c) (c48_dom c).

(* for_each: fe <cat> n N maxThreads wait -> per-element counts and maxconc *)
Definition judge_fe48 (x : fecfg * Z) : Z :=
  let '(c, maxconc) := x in
  if negb (maxconc <=? Z.max 1 (wrap_s 32 (fe_maxThreads c))) then 20
  else if maxconc <=? Z.of_nat (length (fe_plan c)) then 0 else 10.
