(* Interleaving model of detail::SmallBufferAllocator<kChunkSize> (dispenso/detail/small_buffer_allocator_impl.h,
   dispenso/small_buffer_allocator.cpp): ONE size class (the classes share nothing: separate globals and thread-local caches).
   One step = one DISPENSO_VERIF_SBA_POINT hook (lock operation, guarded vector access, central-queue operation) or one
   harness point ("h.op": the thread-local part of an operation up to its first hook).  Executable; no proofs.

   Modelled AS WRITTEN:
     grabFromCentralStore: try_dequeue_bulk(ideal); if empty: fetch_add(1) on backingStoreLock; enter iff the old value was 0:
        push_back the new slab, enqueue its first pm-ideal chunks, store(0), keep the last ideal chunks; otherwise spin until the
        word reads 0 and retry;
     bytesAllocated: allocId = 0; while (!lock.compare_exchange_weak(allocId, 1)) { allocId = 0; }  -- a failed
        compare-exchange writes the observed value into allocId; the loop body resets it (the repair of the former defect
        "retry with the stale observed value", fix commit in /repo); size(); store(0);
     alloc / dealloc on the thread-local cache (tlBuffers[0..tlCount)), recycle of the upper half at kMaxNumTLBuffers,
     thread exit: PerThreadQueuingData::~PerThreadQueuingData enqueues the whole cache (only if the thread registered).
   The central store is an abstract concurrent queue (Section variables; two implementations below); its operations are atomic
   steps (moodycamel::ConcurrentQueue is trusted to be linearizable).  Blocks are identified as slab * pm + index; a slab's
   identity is its position in backingStore.  std::vector operations are atomic steps here: what a data race on the vector does
   in C++ (undefined behaviour) is outside the model -- that is why critical-section occupancy is tracked (maxocc).
   A spurious failure of compare_exchange_weak is followed by allocId = 0 like any other failure and is a stutter step;
   it adds no reachable state and is not modelled. *)
From Coq Require Import ZArith List Bool.
From DV Require Import Base.MachInt Base.Sched.
Import ListNotations.
Local Open Scope Z_scope.

Inductive op := OAlloc | ODealloc (k : Z) | OBytes | OExit.

Inductive pc :=
| PStart | PDone
| POp (o : op)                 (* harness point before each operation *)
| PGrabDeq                     (* queue.try_dequeue_bulk(buffers, kIdealNumTLBuffers) *)
| PGrabFadd                    (* allocId = lock.fetch_add(1) *)
| PGrabSpin                    (* while (lock.load()) yield *)
| PGrabPush                    (* backingStore.push_back(buffer)         -- inside the critical section *)
| PGrabEnq (slab : Z)          (* queue.enqueue_bulk(topush, kNumToPush) -- inside *)
| PGrabStore (slab : Z)        (* lock.store(0)                          -- leaves *)
| PRecycle                     (* recycleToCentralStore: enqueue_bulk(tlBuffers + ideal, ideal) *)
| PBytesCas (a : Z)            (* lock.compare_exchange_weak(allocId = a, 1); on failure allocId = 0 *)
| PBytesSize                   (* backingStore.size()                    -- inside *)
| PBytesStore (v : Z)          (* lock.store(0)                          -- leaves *)
| PExitFlush.                  (* ~PerThreadQueuingData: enqueue_bulk(buffers_, count_) *)

Record thread := TH { tpc : pc; prog : list op; res : list (Z * Z); cache : list Z; reg : bool }.   (* res newest first *)

(* per-class constants: kIdealNumTLBuffers, kBuffersPerMalloc, kMallocBytes *)
Record cfg := CFG { ideal : Z; pm : Z; mbytes : Z }.

(* result tags *)
Definition r_alloc := 1. Definition r_dealloc := 2. Definition r_bytes := 3. Definition r_grab := 4.

(* site ids = positions in props/C41.py SITES *)
Definition s_start := 0.      Definition s_op := 1.
Definition s_grab_deq := 2.   Definition s_grab_fadd := 3.  Definition s_grab_spin := 4.  Definition s_grab_push := 5.
Definition s_grab_enq := 6.   Definition s_grab_store := 7. Definition s_recycle := 8.
Definition s_bytes_cas := 9.  Definition s_bytes_size := 10. Definition s_bytes_store := 11. Definition s_exit := 12.

Fixpoint set_nth {A} (l : list A) (n : nat) (x : A) : list A :=
  match l, n with
  | [], _ => []
  | _ :: r, O => x :: r
  | y :: r, S m => y :: set_nth r m x
  end.

Fixpoint remove_nth {A} (l : list A) (n : nat) : list A :=
  match l, n with
  | [], _ => []
  | _ :: r, O => r
  | y :: r, S m => y :: remove_nth r m
  end.

(* chunks from..from+n-1 of a slab *)
Definition chunks (c : cfg) (slab from : Z) (n : nat) : list Z := map (fun i => slab * pm c + from + Z.of_nat i) (seq 0 n).

Definition in_cs (p : pc) : bool :=
  match p with PGrabPush | PGrabEnq _ | PGrabStore _ | PBytesSize | PBytesStore _ => true | _ => false end.

(* the oracle of a dequeue: n :: b1 .. bn taken from the decision list (which blocks the real queue handed out) *)
Definition take_hint (ch : list Z) : list Z * list Z :=
  match ch with
  | [] => ([], [])
  | n :: r => (firstn (Z.to_nat n) r, skipn (Z.to_nat n) r)
  end.

Section SB.
  (* the central store: any concurrent multiset container *)
  Variable Q : Type.
  Variable qenq : Q -> list Z -> Q.
  Variable qdeq : Q -> nat -> list Z -> list Z * Q.     (* at most n elements; the third argument is an oracle *)
  Variable qcont : Q -> list Z.                         (* what it holds (as a multiset) *)
  Variable c : cfg.

  Record state := ST { lock : Z; backing : list Z; central : Q; user : list Z; maxocc : Z; threads : list thread }.

  Definition npush : Z := pm c - ideal c.

  Definition next (th : thread) : thread :=
    match prog th with
    | [] => TH PDone [] (res th) (cache th) (reg th)
    | o :: r => TH (POp o) r (res th) (cache th) (reg th)
    end.
  Definition goto (th : thread) (p : pc) : thread := TH p (prog th) (res th) (cache th) (reg th).
  Definition logr (th : thread) (tag v : Z) : thread := TH (tpc th) (prog th) ((tag, v) :: res th) (cache th) (reg th).
  Definition logl (th : thread) (tag : Z) (l : list Z) : thread :=
    TH (tpc th) (prog th) (rev (map (fun b => (tag, b)) l) ++ res th) (cache th) (reg th).
  Definition setc (th : thread) (l : list Z) : thread := TH (tpc th) (prog th) (res th) l (reg th).
  Definition setreg (th : thread) (b : bool) : thread := TH (tpc th) (prog th) (res th) (cache th) b.

  (* return tlBuffers[--tlCount] *)
  Definition pop_cache (th : thread) : thread * Z :=
    (next (logr (setc th (removelast (cache th))) r_alloc (last (cache th) 0)), last (cache th) 0).

  Definition occ (ths : list thread) : Z := Z.of_nat (length (filter (fun th => in_cs (tpc th)) ths)).

  Definition mk (lk : Z) (bk : list Z) (q : Q) (us : list Z) (mo : Z) (ths : list thread) : state :=
    ST lk bk q us (Z.max mo (occ ths)) ths.

  Definition step (s : state) (t : nat) (ch : list Z) : option (state * list Z * Z) :=
    match nth_error (threads s) t with
    | None => None
    | Some th =>
        let upd th' := set_nth (threads s) t th' in
        let same th' site := Some (mk (lock s) (backing s) (central s) (user s) (maxocc s) (upd th'), ch, site) in
        match tpc th with
        | PStart => same (next th) s_start
        | PDone => None
        | POp OAlloc =>
            match cache th with
            | [] => same (goto (setreg th true) PGrabDeq) s_op
            | _ => let '(th', b) := pop_cache th in
                   Some (mk (lock s) (backing s) (central s) (user s ++ [b]) (maxocc s) (upd th'), ch, s_op)
            end
        | PGrabDeq =>
            let '(h, ch') := take_hint ch in
            let '(l, q') := qdeq (central s) (Z.to_nat (ideal c)) h in
            match l with
            | [] => Some (mk (lock s) (backing s) q' (user s) (maxocc s) (upd (goto th PGrabFadd)), ch', s_grab_deq)
            | _ => let '(th', b) := pop_cache (logl (setc th l) r_grab l) in
                   Some (mk (lock s) (backing s) q' (user s ++ [b]) (maxocc s) (upd th'), ch', s_grab_deq)
            end
        | PGrabFadd =>
            Some (mk (wrap 32 (lock s + 1)) (backing s) (central s) (user s) (maxocc s)
                     (upd (goto th (if lock s =? 0 then PGrabPush else PGrabSpin))), ch, s_grab_fadd)
        | PGrabSpin => same (goto th (if lock s =? 0 then PGrabDeq else PGrabSpin)) s_grab_spin
        | PGrabPush =>
            let slab := Z.of_nat (length (backing s)) in
            Some (mk (lock s) (backing s ++ [slab]) (central s) (user s) (maxocc s) (upd (goto th (PGrabEnq slab))), ch, s_grab_push)
        | PGrabEnq slab =>
            Some (mk (lock s) (backing s) (qenq (central s) (chunks c slab 0 (Z.to_nat npush))) (user s) (maxocc s)
                     (upd (goto th (PGrabStore slab))), ch, s_grab_enq)
        | PGrabStore slab =>
            let l := chunks c slab npush (Z.to_nat (ideal c)) in
            let '(th', b) := pop_cache (logl (setc th l) r_grab l) in
            Some (mk 0 (backing s) (central s) (user s ++ [b]) (maxocc s) (upd th'), ch, s_grab_store)
        | POp (ODealloc k) =>
            match user s with
            | [] => same (next (logr th r_dealloc (-1))) s_op
            | _ =>
                let i := Z.to_nat (k mod Z.of_nat (length (user s))) in
                let b := nth i (user s) 0 in
                let th1 := logr (setc (setreg th true) (cache th ++ [b])) r_dealloc b in
                let th2 := if Z.of_nat (length (cache th1)) =? 2 * ideal c then goto th1 PRecycle else next th1 in
                Some (mk (lock s) (backing s) (central s) (remove_nth (user s) i) (maxocc s) (upd th2), ch, s_op)
            end
        | PRecycle =>
            let n := Z.to_nat (ideal c) in
            Some (mk (lock s) (backing s) (qenq (central s) (skipn n (cache th))) (user s) (maxocc s)
                     (upd (next (setc th (firstn n (cache th))))), ch, s_recycle)
        | POp OBytes => same (goto th (PBytesCas 0)) s_op
        | PBytesCas a =>
            if lock s =? a then Some (mk 1 (backing s) (central s) (user s) (maxocc s) (upd (goto th PBytesSize)), ch, s_bytes_cas)
            else same (goto th (PBytesCas 0)) s_bytes_cas
        | PBytesSize => same (goto th (PBytesStore (mbytes c * Z.of_nat (length (backing s))))) s_bytes_size
        | PBytesStore v => Some (mk 0 (backing s) (central s) (user s) (maxocc s) (upd (next (logr th r_bytes v))), ch, s_bytes_store)
        | POp OExit => same (if reg th then goto th PExitFlush else next th) s_op
        | PExitFlush =>
            Some (mk (lock s) (backing s) (qenq (central s) (cache th)) (user s) (maxocc s)
                     (upd (next (setreg (setc th []) false))), ch, s_exit)
        end
    end.

  Definition is_done (p : pc) : bool := match p with PDone => true | _ => false end.

  Fixpoint tids_from (ths : list thread) (i : nat) : list nat :=
    match ths with
    | [] => []
    | th :: r => if is_done (tpc th) then tids_from r (S i) else i :: tids_from r (S i)
    end.

  Definition cands (s : state) : list nat := tids_from (threads s) 0.
  Definition finished (s : state) : bool := forallb (fun th => is_done (tpc th)) (threads s).

  Definition init (q0 : Q) (progs : list (list op)) : state :=
    ST 0 [] q0 [] 0 (map (fun p => TH PStart p [] [] false) progs).

  Definition run_sb (fuel : nat) (q0 : Q) (progs : list (list op)) (sched : list Z) :=
    run step cands finished fuel (init q0 progs) sched [].

  (* ---------- what the theorems speak about ---------- *)
  (* blocks a thread holds privately: its cache and, while it carves a new slab, the chunks not yet published *)
  Definition pending (p : pc) : list Z :=
    match p with
    | PGrabEnq slab => chunks c slab 0 (Z.to_nat (pm c))
    | PGrabStore slab => chunks c slab npush (Z.to_nat (ideal c))
    | _ => []
    end.
  Definition owned (th : thread) : list Z := cache th ++ pending (tpc th).
  Definition all_blocks (s : state) : list Z := user s ++ qcont (central s) ++ flat_map owned (threads s).
End SB.

Arguments ST {Q}. Arguments lock {Q}. Arguments backing {Q}. Arguments central {Q}. Arguments user {Q}.
Arguments maxocc {Q}. Arguments threads {Q}.

(* ---------- reference implementation 1: FIFO list (ignores the oracle) ---------- *)
Definition lq_enq (q l : list Z) : list Z := q ++ l.
Definition lq_deq (q : list Z) (n : nat) (_ : list Z) : list Z * list Z := (firstn n q, skipn n q).
Definition lq_cont (q : list Z) : list Z := q.

(* ---------- reference implementation 2: multiset driven by the oracle (the blocks the real queue returned) ----------
   the hint is honoured when it is a sub-multiset of the contents, has at most n elements, and is empty only if the
   container is empty; otherwise FIFO *)
Fixpoint remove_one (x : Z) (l : list Z) : option (list Z) :=
  match l with
  | [] => None
  | y :: r => if y =? x then Some r else match remove_one x r with Some r' => Some (y :: r') | None => None end
  end.
Fixpoint remove_all (h l : list Z) : option (list Z) :=
  match h with
  | [] => Some l
  | x :: r => match remove_one x l with Some l' => remove_all r l' | None => None end
  end.
Definition oq_deq (q : list Z) (n : nat) (h : list Z) : list Z * list Z :=
  match h, q with
  | [], [] => ([], [])
  | [], _ => lq_deq q n h
  | _, _ => if (length h <=? n)%nat then match remove_all h q with Some q' => (h, q') | None => lq_deq q n h end else lq_deq q n h
  end.

(* ---------- class constants (small_buffer_allocator_impl.h:47-57); log2const = Z.log2 by C44_log2const_spec ---------- *)
Definition cfg_of_chunk (chunk : Z) : cfg :=
  let logf := Z.log2 (Z.lor chunk 1) in
  let mb := 4096 * logf in
  CFG (Z.quot (Z.quot mb 4) chunk) (Z.quot mb chunk) mb.

(* getOrdinal (small_buffer_allocator.h:42) and the chunk size of the class serving a request of blockSize bytes *)
Definition ordinal (blockSize : Z) : Z := Z.max 0 (Z.log2 blockSize - 2).
Definition class_chunk (blockSize : Z) : Z := 4 * 2 ^ ordinal blockSize.
