(* C11 -- memory safe and leak free: the executable side of the roll-up.

   (1) the list of mechanisms whose memory-safety / leak-freedom reading is a theorem of Props/Properties_C11.v;
   (2) the judge over SANITIZER VERDICT RECORDS used by search-ladder step 5 (props/C11.py): the existing harnesses
       are rebuilt with ASan+UBSan(+LSan) and every case yields one record.  The judge is deliberately tiny: any
       report is a violation, EXCEPT a heap-use-after-free of a TimedTask case that lies inside the Gallina domain of
       one of C26's registered teardown findings (the mask is C26's own judge_tt verdict for the same case, computed
       on the uninstrumented build: the suppression is never wider than what C26_holds_except_* leave unproved).
   Definitions only; no proofs here (Proofs/C11Proofs.v). *)
From Coq Require Import ZArith List Bool String.
Import ListNotations.
Local Open Scope Z_scope.

(* ------------------------------------------------------------------------------------------------ mechanisms *)
Inductive mechanism :=
| MOnceFunction      (* C39: destroy-on-call / cleanupNotRun, inline and spilled storage *)
| MOpResult          (* C40 *)
| MSmallVector       (* C38: element lifetimes, heap blocks, alignment *)
| MConcurrentVector  (* C32: sequential operations, bucket storage *)
| MConcurrentVectorGrowth (* C33: concurrent growth: buckets allocated once, no construction over a live cell *)
| MMpmcRing          (* C34 *)
| MSpscRing          (* C35 *)
| MChaseLevDeque     (* C36: index bound only (elements are trivially copyable) *)
| MObjectArena       (* C37: grow_by and copies *)
| MSmallBufferAllocator (* C41 *)
| MPoolAllocator     (* C42 *)
| MAlignedMalloc     (* C44 *)
| MFutureRefcount    (* C18 *)
| MTimedTaskTeardown (* C26 (d): OUTSIDE the domain of the registered finding only *)
| MChunkArithmetic.  (* C15/C17: no division by zero / no ssize_t overflow in staticChunkSize *)

Definition all_mechanisms : list mechanism :=
  [MOnceFunction; MOpResult; MSmallVector; MConcurrentVector; MConcurrentVectorGrowth; MMpmcRing; MSpscRing; MChaseLevDeque;
   MObjectArena; MSmallBufferAllocator; MPoolAllocator; MAlignedMalloc; MFutureRefcount; MTimedTaskTeardown; MChunkArithmetic].

Definition mech_name (m : mechanism) : string :=
  match m with
  | MOnceFunction => "OnceFunction: callable destroyed exactly once on call/cleanupNotRun, spill block freed once, aligned storage (C39)"
  | MOpResult => "OpResult: no lifetime misuse, balanced when all destroyed (C40)"
  | MSmallVector => "SmallVector: no lifetime error, every heap block released once, heap storage aligned (C38)"
  | MConcurrentVector => "ConcurrentVector (sequential API): no access outside allocated buckets, balanced lifetimes (C32)"
  | MConcurrentVectorGrowth => "ConcurrentVector (concurrent growth): no cell constructed twice, constructions only into allocated buffers (C33)"
  | MMpmcRing => "MPMCRingBuffer: slot lifetimes, payload dead before slot release, destructor balanced (C34)"
  | MSpscRing => "SPSCRingBuffer: slot lifetimes, payload dead before slot release, destructor balanced (C35)"
  | MChaseLevDeque => "ChaseLevDeque: bottom - top never exceeds the capacity (C36)"
  | MObjectArena => "ConcurrentObjectArena: grow_by never reads an unwritten table entry, copy constructor defined and deep (C37)"
  | MSmallBufferAllocator => "SmallBufferAllocator: every chunk in exactly one place, never re-issued while live, inside its slab and aligned (C41)"
  | MPoolAllocator => "PoolAllocator: chunks inside slabs, no double hand-out, destructor frees each slab once (C42)"
  | MAlignedMalloc => "alignedMalloc/alignedFree: result inside the malloc block, aligned, free gets the malloc pointer back (C44)"
  | MFutureRefcount => "Future shared state: no touch after dealloc, dealloc exactly at refcount zero (C18)"
  | MTimedTaskTeardown => "TimedTask teardown: no closure access after ~TimedTask EXCEPT in the domain of finding C26 dtor-passes-inprogress-spin (C26)"
  | MChunkArithmetic => "staticChunkSize / for_each chunk count: divisor non-zero, intermediates inside ssize_t in the stated domain (C15, C17)"
  end.

(* ------------------------------------------------------------------------------------------------ sanitizer records *)
(* (harness id, report kind, owner mask).
   report kind: 0 none | 1 out-of-bounds (heap/stack/global-buffer-overflow) | 2 heap-use-after-free (incl. use-after-scope/return)
              | 3 double free / invalid free / alloc-dealloc mismatch | 4 misaligned access or construction
              | 5 signed integer overflow | 6 other UBSan report (division by zero, shift, null, bounds, ...)
              | 7 leak reported by LSan at exit | 8 SEGV / other deadly signal reported by ASan | 9 unclassified sanitizer output
              | 10 the harness' own lifetime ledger (life.h counters) shows misuse or constructions <> destructions at the end
   owner mask: TimedTask cases only: what C26's judge_tt says about the same case (value 1 = start after cancel, 2 = closure
               access after ~TimedTask returned, 4 = start after a false return: the three known-domain bits of its verdict;
               8 = its model run saw a closure use-after-free that is not after the destructor's return (the wrapper's
               func = {} after a false return while the closure is in use: verdict + 200), 16 = it saw an empty func being
               called (verdict + 100)); 0 for every other harness *)
Definition san_record : Type := (Z * Z * Z)%type.

Definition H_TIMEDTASK : Z := 11.
Definition K_UAF : Z := 2.

(* the finding domains, as far as C11 inherits them: only a heap-use-after-free, only in a TimedTask case, only when C26's own
   judge put the case inside the corresponding domain *)
Definition known_c26_dtor (r : san_record) : bool :=
  let '(h, k, mask) := r in (h =? H_TIMEDTASK) && (k =? K_UAF) && Z.testbit mask 1.
Definition known_c26_false (r : san_record) : bool :=
  let '(h, k, mask) := r in (h =? H_TIMEDTASK) && (k =? K_UAF) && Z.testbit mask 3.

(* verdict: 0 clean | 2 violation | 4 known finding C26-dtor-func-uaf | 5 known finding C26-false-return-func-uaf *)
Definition judge_san (r : san_record) : Z :=
  let '(h, k, mask) := r in
  if k =? 0 then 0 else if known_c26_dtor r then 4 else if known_c26_false r then 5 else 2.

Definition san_clean (l : list san_record) : bool := forallb (fun r => judge_san r =? 0) l.

(* ------------------------------------------------------------------------------------------------ the property as stated *)
(* C11 quantifies over programs using the whole library.  A semantics of such programs is NOT part of this development
   (thread pool, task sets, parallel_for closures, pipelines, graphs, moodycamel's queue, ... have no memory model), so the
   property text can only be written RELATIVE to one: what a sanitizer-exact semantics would report for a program used
   within its documented contract.  Documentation only: no instance is constructed, nothing is proved about it. *)
Record library_semantics := {
  ls_program : Type;                                   (* API usage program + inputs + fault sequence (throwing user code, cancellation points) *)
  ls_in_contract : ls_program -> Prop;                 (* "used within its documented contract" *)
  ls_reports : ls_program -> list san_record -> Prop   (* the reports some execution (schedule) of the program produces *)
}.
Definition C11_statement_for (L : library_semantics) : Prop :=
  forall p tr, ls_in_contract L p -> ls_reports L p tr -> san_clean tr = true.

(* ------------------------------------------------------------------------------------------------ what no theorem covers *)
(* parts of the library for which no memory-safety statement can even be written here (no lifetime / ownership model) *)
Local Open Scope string_scope.
Definition not_covered_names : list string :=
  ["ThreadPool / TaskSet / ConcurrentTaskSet: lifetime of queued OnceFunctions and their payloads (incl. the cancelled-task skip path task_set_impl.h:117), PerThreadInfo, wake state";
   "pipeline: stage buffers, discard path after an exception (pipeline_impl.h:154), OpResult payloads in flight";
   "parallel_for / for_each: closures, per-thread states, exception propagation";
   "Graph / Subgraph: node functor buffers, SubgraphT::clear, BiProp sets";
   "Future: then-chains, result storage and exception_ptr (only the reference count is modelled)";
   "TimedTask: everything except func teardown by the destructor; the wrapper's func = {} after a false return while the closure is in use is a use-after-free (C26 observation, C11 finding C26-false-return-func-uaf)";
   "moodycamel::ConcurrentQueue (third-party): raw pointer arithmetic, block recycling (enters C41 as a hypothesis)";
   "ResourcePool, AsyncRequest, RWLock, Latch, CompletionEvent: no heap ownership modelled";
   "allocation failure (bad_alloc) paths, stack exhaustion (C46 covers the dispenso-induced depth only)";
   "SmallBufferAllocator thread-exit path and global teardown order"].
Local Close Scope string_scope.
