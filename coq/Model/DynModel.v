(* Executable model of the dynamic ("shared counter") path of dispenso::parallel_for
   (parallel_for.h:632-685, detail/par_for_dynamic.h) on top of the REGENERATED leaves (Gen/GenChunk.v).
   No proofs here.

   Schedules enter only through a list of claim events: event [w] = "worker w performs its next
   index.fetch_add(1)".  The value it obtains decides what it hands to the body; a worker whose claim fails
   leaves its loop (and, on the no-wait path, may be the one that runs the granularity tail). *)
From Coq Require Import ZArith List Bool.
From DV Require Import Base.MachInt Model.ChunkModel Gen.GenChunk Model.ParForModel.
Import ListNotations.
Local Open Scope Z_scope.

(* which implementation runs: parallel_for.h:640-657 -- the adaptive (stripe) implementation is used only when
   options.wait is set; an auto-chunked range with wait=false goes through the dynamic no-wait dispatch *)
Inductive mode := MEmpty | MSerial | MStatic | MAdaptive | MDynamic.
Definition pf_mode (c : pfcfg) : mode :=
  match d_path (pf_decide c) with
  | PEmpty => MEmpty | PSerial => MSerial | PStatic => MStatic
  | PAdaptive => if pf_wait c then MAdaptive else MDynamic
  | PDynamic => MDynamic
  end.
Definition mode_code (m : mode) : Z :=
  match m with MEmpty => 0 | MSerial => 1 | MStatic => 2 | MAdaptive => 3 | MDynamic => 4 end.

(* parallel_for.h:632  numToLaunch = min<size_type>(maxThreads - wait, N) *)
Definition pf_numToLaunch (c : pfcfg) : Z :=
  Z.min (d_maxThreads (pf_decide c) - b2z (pf_wait c)) (pf_N c).

(* the granularity tail [trimmedEnd, end) handed to the body (runTail / the no-wait exit action) *)
Definition pf_tail (c : pfcfg) : list (Z * Z) :=
  let d := pf_decide c in if d_hasTail d then [(d_trimmedEnd d, pf_e c)] else [].

(* ------------------------------------------------------------------ the dynamic implementation *)
Record dyncfg := DC {
  dc_k : ikind; dc_s : Z; dc_e : Z;          (* parRange.start, parRange.end (= trimmedEnd) *)
  dc_cs : Z; dc_nc : Z;                      (* chunkSize, numChunks (size_type) *)
  dc_launch : Z; dc_wait : bool;             (* numToLaunch, options.wait *)
  dc_groups : Z;                             (* effectiveGroups *)
  dc_tail : list (Z * Z) }.

Definition dc_workers (c : dyncfg) : Z := dc_launch c + b2z (dc_wait c).      (* totalWorkers *)

(* par_for_dynamic.h:183-189; l3 = CpuSet::l3CacheGroups().size() is a property of the machine *)
Definition effective_groups (l3 totalWorkers : Z) : Z :=
  if (1 <? l3) && (16 <? totalWorkers) then Z.min l3 totalWorkers
  else Z.max 1 (Z.quot (totalWorkers + 15) 16).

(* par_for_dynamic.h:82-90 *)
Definition grp_base (c : dyncfg) : Z := Z.quot (dc_nc c) (dc_groups c).
Definition grp_extra (c : dyncfg) : Z := Z.rem (dc_nc c) (dc_groups c).
Definition grp_count (c : dyncfg) (g : Z) : Z := grp_base c + (if g <? grp_extra c then 1 else 0).
Definition grp_start (c : dyncfg) (g : Z) : Z := g * grp_base c + Z.min g (grp_extra c).

(* par_for_dynamic.h:132 and 140-143: the group a worker claims from (worker index dc_launch = the caller) *)
Definition grp_of_worker (c : dyncfg) (w : Z) : Z :=
  let gi := Z.quot (w * dc_groups c) (dc_workers c) in
  if (w =? dc_launch c) && (dc_groups c <=? gi) then dc_groups c - 1 else gi.

(* par_for_dynamic.h:106-113 / 217-222: what chunk number gc means; arithmetic in size_type, then narrowed *)
Definition dyn_chunk (c : dyncfg) (gc : Z) : Z * Z :=
  let k := dc_k c in
  let sidx := castk k (wop (wide k) (dc_s c + wop (wide k) (gc * dc_cs c))) in
  if wop (wide k) (gc + 1) =? dc_nc c then (sidx, dc_e c)
  else (sidx, castk k (wop (wide k) (sidx + dc_cs c))).

Definition upd {A} (f : nat -> A) (i : nat) (v : A) : nat -> A := fun j => if Nat.eqb j i then v else f j.

Record dstate := DS { ds_ctr : nat -> Z; ds_exit : Z; ds_done : nat -> bool }.
Definition dyn_init : dstate := DS (fun _ => 0) 0 (fun _ => false).

(* one claim event of worker w.  Returns the new state, the successful claim (global chunk number) if any,
   and whether this worker's exit action runs the tail (no-wait path: ParallelFor's lastExit arithmetic) *)
Definition dyn_step (c : dyncfg) (st : dstate) (w : nat) : dstate * option Z * bool :=
  if ds_done st w || negb (Z.of_nat w <? dc_workers c) then (st, None, false) else
  if dc_groups c <=? 1 then
    (* single group: index.fetch_add(1); exitAction(cur) with cur == lastExit = numChunks + numToLaunch - 1 *)
    let cur := ds_ctr st 0%nat in
    let st1 := DS (upd (ds_ctr st) 0%nat (cur + 1)) (ds_exit st) (ds_done st) in
    if dc_nc c <=? cur then
      (DS (ds_ctr st1) (ds_exit st1) (upd (ds_done st1) w true), None,
       negb (dc_wait c) && (cur =? dc_nc c + dc_launch c - 1))
    else (st1, Some cur, false)
  else
    let g := grp_of_worker c (Z.of_nat w) in
    let gi := Z.to_nat g in
    let cur := ds_ctr st gi in
    let st1 := DS (upd (ds_ctr st) gi (cur + 1)) (ds_exit st) (ds_done st) in
    if grp_count c g <=? cur then
      (* exitCounter.fetch_add(1); the worker that observes the final count runs exitAction(numChunks+totalWorkers-1) *)
      let prev := ds_exit st in
      (DS (ds_ctr st1) (prev + 1) (upd (ds_done st1) w true), None,
       negb (dc_wait c) && (prev + 1 =? dc_workers c) && (dc_nc c + dc_workers c - 1 =? dc_nc c + dc_launch c - 1))
    else (st1, Some (grp_start c g + cur), false).

(* run a schedule: body invocations in the order in which they are claimed *)
Fixpoint dyn_run (c : dyncfg) (st : dstate) (sched : list nat) : dstate * list (Z * Z) :=
  match sched with
  | [] => (st, [])
  | w :: r =>
      let '(st1, claim, tl) := dyn_step c st w in
      let '(st2, calls) := dyn_run c st1 r in
      (st2, (match claim with Some gc => [dyn_chunk c gc] | None => [] end)
            ++ (if tl then dc_tail c else []) ++ calls)
  end.

Definition dyn_all_done (c : dyncfg) (st : dstate) : bool :=
  forallb (ds_done st) (seq 0 (Z.to_nat (dc_workers c))).

(* everything the body is called with once all workers have left their loops; on the wait path the caller
   runs the tail after taskSet.wait() (parallel_for.h:673) *)
Definition dyn_calls (c : dyncfg) (sched : list nat) : list (Z * Z) :=
  snd (dyn_run c dyn_init sched) ++ (if dc_wait c then dc_tail c else []).
Definition dyn_complete (c : dyncfg) (sched : list nat) : bool :=
  dyn_all_done c (fst (dyn_run c dyn_init sched)).

(* the schedule-independent answer: chunk 0 .. numChunks-1 in index order, then the tail *)
Definition dyn_canon (c : dyncfg) : list (Z * Z) :=
  map (fun i => dyn_chunk c (Z.of_nat i)) (seq 0 (Z.to_nat (dc_nc c))) ++ dc_tail c.

(* configuration as parallel_for builds it (parallel_for.h:632-644); l3 = number of L3 groups of the machine *)
Definition pf_dyncfg (c : pfcfg) (l3 : Z) : option dyncfg :=
  let d := pf_decide c in
  let nl := pf_numToLaunch c in
  match gen_calcChunkSize_of (pf_kn c) (pf_s c) (d_trimmedEnd d) (pf_chunk c) nl (pf_wait c) (d_minItems d) (d_g d) 16 with
  | None => None
  | Some (cs, nc) =>
      Some (DC (kind_of (pf_kn c)) (pf_s c) (d_trimmedEnd d) cs nc nl (pf_wait c)
               (effective_groups l3 (nl + b2z (pf_wait c))) (pf_tail c))
  end.

(* a round-robin schedule that lets every worker run to its exit (used for non-vacuity and by the checks) *)
Definition round_robin (workers : nat) (rounds : nat) : list nat :=
  flat_map (fun _ => seq 0 workers) (seq 0 rounds).
