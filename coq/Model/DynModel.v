(* Executable model of the dynamic ("shared counter") path of dispenso::parallel_for
   (parallel_for.h:632-685, detail/par_for_dynamic.h) on top of the REGENERATED leaves (Gen/GenChunk.v).
   No proofs here.

   Schedules enter only through a list of claim events: event [w] = "worker w performs its next
   index.fetch_add(1)".  The value it obtains decides what it hands to the body; a worker whose claim fails
   leaves its loop (and, on the no-wait path, may be the one that runs the granularity tail). *)
From Coq Require Import ZArith List Bool.
From DV Require Import Base.MachInt Model.ChunkModel Gen.GenChunk Model.ParForModel.
Import ListNotations.
Local Open Scope Z_scope.

(* which implementation runs: parallel_for.h:640-657 -- the adaptive (stripe) implementation is used only when
   options.wait is set; an auto-chunked range with wait=false goes through the dynamic no-wait dispatch *)
Inductive mode := MEmpty | MSerial | MStatic | MAdaptive | MDynamic.
Definition pf_mode (c : pfcfg) : mode :=
  match d_path (pf_decide c) with
  | PEmpty => MEmpty | PSerial => MSerial | PStatic => MStatic
  | PAdaptive => if pf_wait c then MAdaptive else MDynamic
  | PDynamic => MDynamic
  end.
Definition mode_code (m : mode) : Z :=
  match m with MEmpty => 0 | MSerial => 1 | MStatic => 2 | MAdaptive => 3 | MDynamic => 4 end.

(* parallel_for.h:632  numToLaunch = min<size_type>(maxThreads - wait, N) *)
Definition pf_numToLaunch (c : pfcfg) : Z :=
  Z.min (d_maxThreads (pf_decide c) - b2z (pf_wait c)) (pf_N c).

(* the granularity tail [trimmedEnd, end) handed to the body (runTail / the no-wait exit action) *)
Definition pf_tail (c : pfcfg) : list (Z * Z) :=
  let d := pf_decide c in if d_hasTail d then [(d_trimmedEnd d, pf_e c)] else [].

(* ------------------------------------------------------------------ the dynamic implementation *)
Record dyncfg := DC {
  dc_k : ikind; dc_s : Z; dc_e : Z;          (* parRange.start, parRange.end (= trimmedEnd) *)
  dc_cs : Z; dc_nc : Z;                      (* chunkSize, numChunks (size_type) *)
  dc_launch : Z; dc_wait : bool;             (* numToLaunch, options.wait *)
  dc_groups : Z;                             (* effectiveGroups *)
  dc_tail : list (Z * Z) }.

Definition dc_workers (c : dyncfg) : Z := dc_launch c + b2z (dc_wait c).      (* totalWorkers *)

(* par_for_dynamic.h:183-189; l3 = CpuSet::l3CacheGroups().size() is a property of the machine *)
Definition effective_groups (l3 totalWorkers : Z) : Z :=
  if (1 <? l3) && (16 <? totalWorkers) then Z.min l3 totalWorkers
  else Z.max 1 (Z.quot (totalWorkers + 15) 16).

(* par_for_dynamic.h:82-90 *)
Definition grp_base (c : dyncfg) : Z := Z.quot (dc_nc c) (dc_groups c).
Definition grp_extra (c : dyncfg) : Z := Z.rem (dc_nc c) (dc_groups c).
Definition grp_count (c : dyncfg) (g : Z) : Z := grp_base c + (if g <? grp_extra c then 1 else 0).
Definition grp_start (c : dyncfg) (g : Z) : Z := g * grp_base c + Z.min g (grp_extra c).

(* par_for_dynamic.h:132 and 140-143: the group a worker claims from (worker index dc_launch = the caller) *)
Definition grp_of_worker (c : dyncfg) (w : Z) : Z :=
  let gi := Z.quot (w * dc_groups c) (dc_workers c) in
  if (w =? dc_launch c) && (dc_groups c <=? gi) then dc_groups c - 1 else gi.

(* par_for_dynamic.h:106-113 / 217-222: what chunk number gc means; arithmetic in size_type, then narrowed *)
Definition dyn_chunk (c : dyncfg) (gc : Z) : Z * Z :=
  let k := dc_k c in
  let sidx := castk k (wop (wide k) (dc_s c + wop (wide k) (gc * dc_cs c))) in
  if wop (wide k) (gc + 1) =? dc_nc c then (sidx, dc_e c)
  else (sidx, castk k (wop (wide k) (sidx + dc_cs c))).

Definition upd {A} (f : nat -> A) (i : nat) (v : A) : nat -> A := fun j => if Nat.eqb j i then v else f j.

Record dstate := DS { ds_ctr : nat -> Z; ds_exit : Z; ds_done : nat -> bool }.
Definition dyn_init : dstate := DS (fun _ => 0) 0 (fun _ => false).

(* the counter a worker claims from, its chunk count and first chunk; with one group that is the shared index *)
Definition wgroup (c : dyncfg) (w : nat) : nat :=
  if dc_groups c <=? 1 then 0%nat else Z.to_nat (grp_of_worker c (Z.of_nat w)).
Definition gcount (c : dyncfg) (g : nat) : Z := if dc_groups c <=? 1 then dc_nc c else grp_count c (Z.of_nat g).
Definition gstart (c : dyncfg) (g : nat) : Z := if dc_groups c <=? 1 then 0 else grp_start c (Z.of_nat g).
Definition ngroups (c : dyncfg) : nat := if dc_groups c <=? 1 then 1%nat else Z.to_nat (dc_groups c).

(* one claim event of worker w: index.fetch_add(1) on its counter.  Returns the new state, the successful claim
   (counter, value) if any, and whether this worker's exit action runs the tail.
   Tail (no-wait path only, parallel_for_dynamicNoWaitDispatch): single group: exitAction(cur) with
   cur == lastExit = numChunks + numToLaunch - 1; several groups: the worker that takes exitCounter to totalWorkers
   calls exitAction(numChunks + totalWorkers - 1).  ds_exit counts exited workers (exitCounter; ghost with one group). *)
Definition dyn_step (c : dyncfg) (st : dstate) (w : nat) : dstate * option (nat * Z) * bool :=
  if ds_done st w || negb (Z.of_nat w <? dc_workers c) then (st, None, false) else
  let g := wgroup c w in
  let cur := ds_ctr st g in
  let ctr1 := upd (ds_ctr st) g (cur + 1) in
  if gcount c g <=? cur then
    let prev := ds_exit st in
    (DS ctr1 (prev + 1) (upd (ds_done st) w true), None,
     negb (dc_wait c) &&
     (if dc_groups c <=? 1 then cur =? dc_nc c + dc_launch c - 1
      else (prev + 1 =? dc_workers c) && (dc_nc c + dc_workers c - 1 =? dc_nc c + dc_launch c - 1)))
  else (DS ctr1 (ds_exit st) (ds_done st), Some (g, cur), false).

(* run a schedule: successful claims in claim order, and how often an exit action ran the tail *)
Fixpoint dyn_run (c : dyncfg) (st : dstate) (sched : list nat) : dstate * list (nat * Z) * nat :=
  match sched with
  | [] => (st, [], 0%nat)
  | w :: r =>
      let '(st1, claim, tl) := dyn_step c st w in
      let '(st2, claims, tails) := dyn_run c st1 r in
      (st2, (match claim with Some cl => [cl] | None => [] end) ++ claims, ((if tl then 1 else 0) + tails)%nat)
  end.

Definition claim_call (c : dyncfg) (cl : nat * Z) : Z * Z := dyn_chunk c (gstart c (fst cl) + snd cl).

Definition dyn_all_done (c : dyncfg) (st : dstate) : bool :=
  forallb (ds_done st) (seq 0 (Z.to_nat (dc_workers c))).

(* everything the body is called with once all workers have left their loops (as a multiset; the list is in claim
   order followed by the tail invocations).  On the wait path the caller runs the tail after taskSet.wait()
   (parallel_for.h:673); on the no-wait path it runs as often as an exit action fired *)
Definition dyn_calls (c : dyncfg) (sched : list nat) : list (Z * Z) :=
  let '(_, claims, tails) := dyn_run c dyn_init sched in
  map (claim_call c) claims ++ (if dc_wait c then dc_tail c else concat (repeat (dc_tail c) tails)).
Definition dyn_complete (c : dyncfg) (sched : list nat) : bool :=
  dyn_all_done c (fst (fst (dyn_run c dyn_init sched))).

(* the schedule-independent answer: chunk 0 .. numChunks-1 in index order, then the tail *)
Definition dyn_canon (c : dyncfg) : list (Z * Z) :=
  map (fun i => dyn_chunk c (Z.of_nat i)) (seq 0 (Z.to_nat (dc_nc c))) ++ dc_tail c.

(* configuration as parallel_for builds it (parallel_for.h:632-644); l3 = number of L3 groups of the machine *)
Definition pf_dyncfg (c : pfcfg) (l3 : Z) : option dyncfg :=
  let d := pf_decide c in
  let nl := pf_numToLaunch c in
  match gen_calcChunkSize_of (pf_kn c) (pf_s c) (d_trimmedEnd d) (pf_chunk c) nl (pf_wait c) (d_minItems d) (d_g d) 16 with
  | None => None
  | Some (cs, nc) =>
      Some (DC (kind_of (pf_kn c)) (pf_s c) (d_trimmedEnd d) cs nc nl (pf_wait c)
               (effective_groups l3 (nl + b2z (pf_wait c))) (pf_tail c))
  end.

(* a round-robin schedule that lets every worker run to its exit (used for non-vacuity and by the checks) *)
Definition round_robin (workers : nat) (rounds : nat) : list nat :=
  flat_map (fun _ => seq 0 workers) (seq 0 rounds).

(* ------------------------------------------------------------------ static path: who runs which chunk *)
(* parallel_for_staticImpl (par_for_static.h:106-126): the chunk the calling thread runs itself and the remap of the
   scheduler index around it.  ring = PerPoolPerThreadInfo::ringIndex(&pool) of the calling thread (-1 = not a worker of
   this pool).  static_calls (ParForModel.v) lists chunk 0 .. n-1 and has no ring parameter: the ring only decides WHO runs
   a chunk; static_chunk_indices is the list of chunk indices that are actually executed (scheduled ones, then the caller's) *)
Definition static_caller_chunk (n : Z) (wait : bool) (ring : Z) : Z :=
  if wait && (0 <=? ring) && (ring <? n) then ring else n - 1.
Definition static_sched_chunk (callerChunk : Z) (wait : bool) (idx : Z) : Z :=
  if wait && (callerChunk <=? idx) then idx + 1 else idx.
Definition static_chunk_indices (n : Z) (wait : bool) (ring : Z) : list Z :=
  let cc := static_caller_chunk n wait ring in
  map (fun i => static_sched_chunk cc wait (Z.of_nat i)) (seq 0 (Z.to_nat (if wait then n - 1 else n)))
  ++ (if wait then [cc] else []).
