(* Lockstep judge for C41: the implementation's trace under harness/vsched.h vs. the model run on the same schedule (dequeue
   oracles = the blocks the real central queue handed out), plus the executable properties evaluated on what the
   implementation did: no block handed to two owners, every block aligned / inside its slab, critical-section occupancy <= 1. *)
From Coq Require Import ZArith List Bool.
From DV Require Import Base.MachInt Base.Corr Base.Sched Model.SmallBufModel.
Import ListNotations.
Local Open Scope Z_scope.

Record scase := SC {
  k_chunk : Z; k_fuel : nat; k_progs : list (list op);
  k_sched : list Z;                  (* decisions, each sba.grab.dequeue step followed by its oracle  n :: b1 .. bn *)
  j_trace : list (Z * Z);            (* implementation: (tid, site) per step *)
  j_results : list (list (Z * Z));   (* per thread, oldest first: (1,b) alloc, (2,b) dealloc, (3,v) bytes, (4,b) block obtained by a refill *)
  j_lock : Z; j_slabs : Z;
  j_consts : Z * Z * Z;              (* kIdealNumTLBuffers, kBuffersPerMalloc, kMallocBytes of the real class *)
  j_maxocc : Z;                      (* counted by the harness at its own wrapper of the hook points *)
  j_bad : Z;                         (* alloc results failing the harness's alignment / in-slab / ownership-map checks *)
  j_events : list (Z * Z);           (* global order of (1,b) alloc / (2,b) dealloc *)
  j_status : Z }.                    (* 0 done 1 deadlock 2 budget *)

(* ownership map replayed over the implementation's own event order *)
Fixpoint own_ok (ev : list (Z * Z)) (live : list Z) : bool :=
  match ev with
  | [] => true
  | (k, b) :: r =>
      if k =? 1 then (if existsb (Z.eqb b) live then false else own_ok r (b :: live))
      else (if existsb (Z.eqb b) live then own_ok r (filter (fun x => negb (x =? b)) live) else false)
  end.

Definition excl_ok (c : scase) : bool := own_ok (j_events c) [] && (j_bad c =? 0).
Definition occ_ok (c : scase) : bool := j_maxocc c <=? 1.

Definition consts_agree (c : scase) : bool :=
  let k := cfg_of_chunk (k_chunk c) in
  let '(i, p, m) := j_consts c in (ideal k =? i) && (pm k =? p) && (mbytes k =? m).

(* harness/vsched.h looks at "all finished" and "nobody runnable" BEFORE it looks at the step budget, Base.Sched.run looks at the
   fuel first: a run whose last step is exactly the budget-th is 'done' for vsched and SBudget for run; same state, same trace *)
Definition vstatus (s : state (list Z)) (st : status) : status :=
  match st with
  | SBudget => if finished (list Z) s then SDone else match cands (list Z) s with [] => SDeadlock | _ => SBudget end
  | x => x
  end.

Definition agrees (c : scase) : bool :=
  consts_agree c &&
  let '(s, tr, st) := run_sb (list Z) lq_enq oq_deq (cfg_of_chunk (k_chunk c)) (k_fuel c) [] (k_progs c) (k_sched c) in
  list_eqb zpair_eqb tr (j_trace c) && (status_code (vstatus s st) =? j_status c) && (lock s =? j_lock c) &&
  (Z.of_nat (length (backing s)) =? j_slabs c) && (maxocc s =? j_maxocc c) &&
  list_eqb (list_eqb zpair_eqb) (map (fun th => rev (res th)) (threads s)) (j_results c).

(* 0 agree & properties hold; 1 differ, properties hold; 2 a property fails on the implementation's output
   (a block handed to two owners / misaligned / outside its slab, or two threads inside the critical section) *)
Definition judge_sb (c : scase) : Z :=
  if negb (excl_ok c) || negb (occ_ok c) then 2
  else if agrees c then 0 else 1.
