(* Executable side of the C15 correspondence.
   `fe`     (harness/h_parfor.cpp, real TaskSet/ThreadPool): per-element application counts.
   `feplan` (harness/h_loops.cpp, the real for_each_n template with an instrumented task set): per element its count
            and its runner (-1 calling thread before wait(), -2 calling thread after wait(), j = scheduled closure j),
            number of closures scheduled and number of wait() calls made by for_each_n.
   A crash of the implementation is reported by the driver as crashed = true.
   Verdict 0 = agrees with the model and the property holds; 1 = differs but the property holds; 2 = the property fails. *)
From Coq Require Import ZArith List Bool.
From DV Require Import Base.MachInt Base.Corr Model.ChunkModel Gen.GenChunk Model.ParForModel Model.PlanModel Model.ForEachModel.
Import ListNotations.
Local Open Scope Z_scope.

Definition all_one (counts : list Z) : bool := forallb (fun x => x =? 1) counts.

Fixpoint idx_ok (p : list call) (i : Z) (l : list (Z * Z)) : bool :=
  match l with
  | [] => true
  | (cnt, who) :: r => (cnt =? visit_count p i) && (who =? runner_of p i) && idx_ok p (i + 1) r
  end.

Definition fe_expected_nsched (c : fecfg) : Z :=
  match fe_decide c with
  | FPar => if fe_wait c then fe_numThreads c - 1 else fe_numThreads c
  | FSerial => 0
  end.

(* real pool: (cfg, crashed, counts) *)
Definition judge_fe15 (x : fecfg * bool * list Z) : Z :=
  let '(c, crashed, counts) := x in
  if crashed || negb (all_one counts) || negb (Z.of_nat (length counts) =? fe_n c) then 2 else 0.

(* instrumented task set: (cfg, crashed, [(count, runner)], nsched, nwaits) *)
Definition judge_feplan15 (x : fecfg * bool * list (Z * Z) * (Z * Z)) : Z :=
  let '(c, crashed, l, (nsched, nwaits)) := x in
  if crashed || negb (all_one (map fst l)) || negb (Z.of_nat (length l) =? fe_n c) then 2
  else if idx_ok (fe_plan c) 0 l && (nsched =? fe_expected_nsched c) && (nwaits =? b2z (fe_wait c)) then 0 else 1.

(* `fecap` (harness/h_loops.cpp): wait=false, all chunks kept queued until the caller's heap-allocated functor has been
   retargeted to a decoy, poisoned and freed.  (cfg, crashed, counts through the ORIGINAL functor state,
   (applications that saw the poisoned canary, applications that landed in the decoy), closures scheduled or -1 when
   not observable (real pool)).  Every element must have been applied exactly once through the original state =
   functor version 0 of the model. *)
Definition judge_fecap15 (x : fecfg * bool * list Z * (Z * Z) * Z) : Z :=
  let '(c, crashed, counts, (bad, decoy), nsched) := x in
  if crashed || negb (all_one counts) || negb (Z.of_nat (length counts) =? fe_n c) || negb (bad =? 0) || negb (decoy =? 0) then 2
  else if forallb (fun a => c_state a =? 0) (fe_plan c) && ((nsched =? -1) || (nsched =? fe_expected_nsched c)) &&
          forallb (fun i => visit_count (fe_plan c) (Z.of_nat i) =? 1) (seq 0 (length counts)) then 0 else 1.
