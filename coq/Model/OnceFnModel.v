(* Model/OnceFnModel.v -- executable model of dispenso::OnceFunction (dispenso/once_function.h) and
   createOnceCallable / invokeInline / invokeSpill (dispenso/detail/once_callable_impl.h).  Definitions only.

   CONCRETE MODEL.  A OnceFunction variable is 64 bytes: buf_ (56 bytes, alignas(64), offset 0) and invoke_.
   The model keeps what those bytes mean: [Some payload] (which invoke function was installed, and what buf_
   holds: the callable itself or a pointer to a spill block) or [None] (never initialised: the default constructor
   does not write anything in a non-DISPENSO_DEBUG build).  There is NO ownership information in the concrete
   state: moves are memcpy, the source keeps its bytes, operator() does not clear anything.  Calling through stale
   bytes is therefore expressible and shows up as a misuse in the ledgers (use/destroy of a Dead callable, double
   free of a block).

   ABSTRACT MODEL = the documented protocol ("operator() must be called exactly once for valid OnceFunctions";
   cleanupNotRun() instead when it will not be called; a moved-from / invoked / default-constructed OnceFunction is
   invalid).  It only tracks which variable currently OWNS which callable (by tag).  An operation sequence respects
   the protocol iff the abstract run is defined; [AAbandon] events mark the two documented ways of leaking (dropping
   or overwriting a OnceFunction that still owns its callable).

   Callable sizes and alignments are arbitrary integers [sz], [al] (sizeof / alignof of the functor type).
   Addresses come from an [oracle]: where the variables live, which block the small-buffer pool hands out, what
   ::malloc returns; alignment statements hold for every oracle satisfying [oracle_ok]. *)
From Coq Require Import ZArith List Bool.
From DV Require Import Base.MachInt Base.Life Model.BitMathModel.
Import ListNotations.
Local Open Scope Z_scope.

Inductive op :=
| OMake (i : nat) (sz al tag : Z) (byCopy : bool)   (* OnceFunction(F&&) from an rvalue / lvalue functor  once_function.h:75 *)
| ODefault (i : nat)                                (* OnceFunction()                                     once_function.h:58 *)
| OMoveCtor (i j : nat)                             (* OnceFunction(OnceFunction&&)                       once_function.h:83 *)
| OMoveAssign (i j : nat)                           (* operator=(OnceFunction&&)                          once_function.h:90 *)
| OCall (i : nat)                                   (* operator()()                                       once_function.h:124 *)
| OCleanup (i : nat)                                (* cleanupNotRun()                                    once_function.h:110 *)
| ODrop (i : nat).                                  (* ~OnceFunction(): trivial, nothing runs *)

(* ------------------------------------------------------------------------------------------ generic option lists *)
Definition nget {A} (l : list (option A)) (i : nat) : option A := nth i l None.
Fixpoint nset {A} (l : list (option A)) (i : nat) (x : option A) : list (option A) :=
  match l, i with
  | [], _ => []
  | _ :: r, O => x :: r
  | y :: r, S k => y :: nset r k x
  end.
Definition in_range {A} (l : list A) (i : nat) : bool := Nat.ltb i (length l).

(* ------------------------------------------------------------------------------------------ concrete state *)
(* which invoke function createOnceCallable installed *)
Inductive skind := SInline | SSpill (K : Z).

Record payload := mkPay {
  p_kind : skind;
  p_tag : Z;      (* test tag of the callable (what the harness prints) *)
  p_ser : Z;      (* identity of the stored callable object in the callable ledger *)
  p_blk : Z;      (* spill: identity of the block in the heap ledger *)
  p_addr : Z;     (* spill: address of the block (the pointer stored in buf_) *)
  p_al : Z        (* alignof the callable type (known to the instantiated invoke function) *)
}.

(* a variable: no OnceFunction object / an object whose bytes are uninitialised / an object with these bytes *)
Definition var := option (option payload).

Record oracle := mkOracle {
  vaddr : nat -> Z;            (* address of variable i (= address of its buf_) *)
  pool_addr : Z -> Z -> Z;     (* block handed out by SmallBufferAllocator<K> for allocation number b *)
  malloc_ret : Z -> Z          (* what ::malloc returns for allocation number b *)
}.

(* what the environment guarantees: OnceFunction objects are 64-aligned (alignof(OnceFunction) = 64), the
   small-buffer pool hands out blocks aligned to their size class (C41), ::malloc returns some address *)
Definition oracle_ok (o : oracle) : Prop :=
  (forall i, (64 | vaddr o i)) /\
  (forall K b, (K | pool_addr o K b)) /\
  (forall b, 0 <= malloc_ret o b < 2 ^ 63).

Record state := mkSt {
  st_vars : list var;
  st_led : ledger;     (* callable objects, keyed by serial number *)
  st_heap : ledger;    (* spill blocks, keyed by allocation number *)
  st_ser : Z;          (* next serial number *)
  st_blk : Z           (* next allocation number *)
}.

Definition init (nv : nat) : state := mkSt (repeat None nv) ledger0 ledger0 0 0.

(* where an event happened *)
Inductive loc := LTemp | LInline (v : nat) | LBlock.

Inductive event :=
| EConstruct (k : ckind) (tag : Z) (l : loc) (aligned : bool)
| EInvoke (tag : Z) (l : loc) (aligned : bool)
| EDestroy (tag : Z) (l : loc) (aligned : bool)
| EPoolAlloc (K : Z)       (* allocSmallBuffer<K>, K <= 256 *)
| EPoolFree (K : Z)        (* deallocSmallBuffer<K> *)
| EMalloc (n : Z)          (* alignedMalloc(K, K): ::malloc(n) *)
| EFree (n : Z).           (* alignedFree of that block *)

Definition moved_tag : Z := -1.
Definition kOnceFunctionInlineSize : Z := 56.
Definition kMaxSmallBufferSize : Z := 256.

(* sizeof(FNoRef) <= kOnceFunctionInlineSize && alignof(FNoRef) <= 64 *)
Definition fits_inline (sz al : Z) : bool := (sz <=? kOnceFunctionInlineSize) && (al <=? 64).
(* kAllocSize = nextPow2(std::max(sizeof(FNoRef), alignof(FNoRef))) *)
Definition alloc_size (sz al : Z) : Z := nextPow2_m (Z.max sz al).
Definition from_pool (K : Z) : bool := K <=? kMaxSmallBufferSize.

Definition alignedb (addr al : Z) : bool := addr mod al =? 0.

(* invoke_(buf_, run): what invokeInline<F> / invokeSpill<K, F> do with the bytes of variable i *)
Definition invoke (o : oracle) (s : state) (i : nat) (p : payload) (run : bool) : ledger * ledger * list event :=
  match p_kind p with
  | SInline =>
      let fl := alignedb (vaddr o i) (p_al p) in
      let g := if run then use (p_ser p) (st_led s) else st_led s in
      let g := destroy (p_ser p) g in
      (g, st_heap s, (if run then [EInvoke (p_tag p) (LInline i) fl] else []) ++ [EDestroy (p_tag p) (LInline i) fl])
  | SSpill K =>
      let fl := alignedb (p_addr p) (p_al p) && alignedb (p_addr p) K in
      let g := if run then use (p_ser p) (st_led s) else st_led s in
      let g := destroy (p_ser p) g in
      let h := destroy (p_blk p) (st_heap s) in
      (g, h, (if run then [EInvoke (p_tag p) LBlock fl] else []) ++ [EDestroy (p_tag p) LBlock fl] ++
             [if from_pool K then EPoolFree K else EFree (am_request K K)])
  end.

(* One operation.  [None]: not a C++ program the model covers (constructing a variable that holds an object, using
   one that does not, calling through never-initialised bytes). *)
Definition step (o : oracle) (s : state) (x : op) : option (state * list event) :=
  let vs := st_vars s in
  match x with
  | OMake i sz al t byCopy =>
      if negb (in_range vs i) then None else
      match nget vs i with
      | Some _ => None
      | None =>
          let s0 := st_ser s in
          let s1 := s0 + 1 in
          let k := if byCopy then KCopy else KMove in
          (* the functor the caller passes (a temporary, or a named object destroyed right after) *)
          let g := construct KValue s0 (st_led s) in
          let e0 := EConstruct KValue t LTemp true in
          let e2 := EDestroy (if byCopy then t else moved_tag) LTemp true in
          if fits_inline sz al then
            (* new (inlineBuf) FNoRef(std::forward<F>(f)); invoke = &invokeInline<FNoRef> *)
            let g := if byCopy then use s0 g else move_from s0 g in
            let g := construct k s1 g in
            let g := destroy s0 g in
            let p := mkPay SInline t s1 0 0 al in
            Some (mkSt (nset vs i (Some (Some p))) g (st_heap s) (s0 + 2) (st_blk s),
                  [e0; EConstruct k t (LInline i) (alignedb (vaddr o i) al); e2])
          else
            (* ptr = allocSmallBuffer<kAllocSize>(); new (ptr) FNoRef(...); *inlineBuf = ptr; invoke = &invokeSpill<kAllocSize, FNoRef> *)
            let K := alloc_size sz al in
            let b := st_blk s in
            let h := construct KValue b (st_heap s) in
            let a := if from_pool K then pool_addr o K b else am_base (malloc_ret o b) K in
            let ea := if from_pool K then EPoolAlloc K else EMalloc (am_request K K) in
            let g := if byCopy then use s0 g else move_from s0 g in
            let g := construct k s1 g in
            let g := destroy s0 g in
            let p := mkPay (SSpill K) t s1 b a al in
            Some (mkSt (nset vs i (Some (Some p))) g h (s0 + 2) (b + 1),
                  [e0; ea; EConstruct k t LBlock (alignedb a al && alignedb a K); e2])
      end
  | ODefault i =>
      if negb (in_range vs i) then None else
      match nget vs i with
      | None => Some (mkSt (nset vs i (Some None)) (st_led s) (st_heap s) (st_ser s) (st_blk s), [])
      | Some _ => None
      end
  | OMoveCtor i j =>
      (* std::memcpy(this, &other, sizeof(OnceFunction)) *)
      if negb (in_range vs i) then None else
      match nget vs i, nget vs j with
      | None, Some bj => Some (mkSt (nset vs i (Some bj)) (st_led s) (st_heap s) (st_ser s) (st_blk s), [])
      | _, _ => None
      end
  | OMoveAssign i j =>
      (* if (this != &other) std::memcpy(this, &other, sizeof(OnceFunction)) *)
      match nget vs i, nget vs j with
      | Some _, Some bj => Some (mkSt (nset vs i (Some bj)) (st_led s) (st_heap s) (st_ser s) (st_blk s), [])
      | _, _ => None
      end
  | OCall i =>
      match nget vs i with
      | Some (Some p) =>
          let '(g, h, evs) := invoke o s i p true in
          Some (mkSt vs g h (st_ser s) (st_blk s), evs)
      | _ => None
      end
  | OCleanup i =>
      match nget vs i with
      | Some (Some p) =>
          let '(g, h, evs) := invoke o s i p false in
          Some (mkSt vs g h (st_ser s) (st_blk s), evs)
      | _ => None
      end
  | ODrop i =>
      match nget vs i with
      | Some _ => Some (mkSt (nset vs i None) (st_led s) (st_heap s) (st_ser s) (st_blk s), [])
      | None => None
      end
  end.

(* run a sequence; the events of every operation separately (that is how the harness reports them) *)
Fixpoint run (o : oracle) (s : state) (ops : list op) : option (state * list (list event)) :=
  match ops with
  | [] => Some (s, [])
  | x :: r =>
      match step o s x with
      | Some (s', e) => match run o s' r with Some (s'', es) => Some (s'', e :: es) | None => None end
      | None => None
      end
  end.

(* ------------------------------------------------------------------------------------------ abstract protocol *)
(* no object / an object that owns nothing (default, moved-from, consumed) / an object owning the callable tagged t *)
Definition avar := option (option Z).

Inductive aevent := AInvoke (t : Z) | ADestroy (t : Z) | AAbandon (t : Z).

Definition abandon (x : option Z) : list aevent := match x with Some t => [AAbandon t] | None => [] end.

(* [None]: the sequence is outside the documented protocol (operator() / cleanupNotRun() on an invalid
   OnceFunction) or not a program at all *)
Definition astep (av : list avar) (x : op) : option (list avar * list aevent) :=
  match x with
  | OMake i _ _ t _ =>
      if negb (in_range av i) then None else
      match nget av i with None => Some (nset av i (Some (Some t)), []) | Some _ => None end
  | ODefault i =>
      if negb (in_range av i) then None else
      match nget av i with None => Some (nset av i (Some None), []) | Some _ => None end
  | OMoveCtor i j =>
      if negb (in_range av i) then None else
      match nget av i, nget av j with
      | None, Some xj => Some (nset (nset av i (Some xj)) j (Some None), [])
      | _, _ => None
      end
  | OMoveAssign i j =>
      match nget av i, nget av j with
      | Some xi, Some xj =>
          if Nat.eqb i j then Some (av, [])
          else Some (nset (nset av i (Some xj)) j (Some None), abandon xi)
      | _, _ => None
      end
  | OCall i =>
      match nget av i with
      | Some (Some t) => Some (nset av i (Some None), [AInvoke t; ADestroy t])
      | _ => None
      end
  | OCleanup i =>
      match nget av i with
      | Some (Some t) => Some (nset av i (Some None), [ADestroy t])
      | _ => None
      end
  | ODrop i =>
      match nget av i with
      | Some xi => Some (nset av i None, abandon xi)
      | None => None
      end
  end.

Fixpoint arun (av : list avar) (ops : list op) : option (list avar * list (list aevent)) :=
  match ops with
  | [] => Some (av, [])
  | x :: r =>
      match astep av x with
      | Some (av', e) => match arun av' r with Some (av'', es) => Some (av'', e :: es) | None => None end
      | None => None
      end
  end.

Definition ainit (nv : nat) : list avar := repeat None nv.

(* ------------------------------------------------------------------------------------------ observations *)
(* what the concrete events say about the STORED callables (everything that does not happen in a temporary) *)
Definition stored (l : loc) : bool := match l with LTemp => false | _ => true end.
Fixpoint project (evs : list event) : list aevent :=
  match evs with
  | [] => []
  | EInvoke t l _ :: r => AInvoke t :: project r
  | EDestroy t l _ :: r => if stored l then ADestroy t :: project r else project r
  | _ :: r => project r
  end.

Definition not_abandon (e : aevent) : bool := match e with AAbandon _ => false | _ => true end.

Definition ev_aligned (e : event) : bool :=
  match e with
  | EConstruct _ _ _ a | EInvoke _ _ a | EDestroy _ _ a => a
  | _ => true
  end.

Definition make_tags (ops : list op) : list Z :=
  flat_map (fun x => match x with OMake _ _ _ t _ => [t] | _ => [] end) ops.

Definition invoked (aevs : list aevent) : list Z := flat_map (fun e => match e with AInvoke t => [t] | _ => [] end) aevs.
Definition destroyed (aevs : list aevent) : list Z := flat_map (fun e => match e with ADestroy t => [t] | _ => [] end) aevs.
Definition abandoned (aevs : list aevent) : list Z := flat_map (fun e => match e with AAbandon t => [t] | _ => [] end) aevs.
(* tags still owned by some variable *)
Definition owned (av : list avar) : list Z := flat_map (fun v => match v with Some (Some t) => [t] | _ => [] end) av.

(* functor types that exist in C++: alignment a power of two, size a positive multiple of it (bounded so that the
   size_t arithmetic of createOnceCallable cannot wrap) *)
Definition type_ok (sz al : Z) : bool :=
  (0 <? al) && (al =? 2 ^ Z.log2 al) && (0 <? sz) && (sz mod al =? 0) && (sz <=? 2 ^ 40) && (al <=? 2 ^ 40).
Definition types_ok (ops : list op) : bool :=
  forallb (fun x => match x with OMake _ sz al _ _ => type_ok sz al | _ => true end) ops.

(* a concrete oracle to execute the model with *)
Definition oracle0 : oracle := mkOracle (fun i => 64 * (Z.of_nat i + 3)) (fun K b => K * (b + 5)) (fun b => 16 * (b mod 1000000) + 4096 + 8).
