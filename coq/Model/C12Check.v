(* Executable form of C12 (parallel_for covers each index exactly once), evaluated on what the IMPLEMENTATION
   did (correspondence step), plus the Gallina domain predicates of the known findings.  No proofs here. *)
From Coq Require Import ZArith List Bool.
From DV Require Import Base.MachInt Base.Corr Model.ChunkModel Gen.GenChunk Model.ParForModel Model.DynModel Model.StripeModel.
Import ListNotations.
Local Open Scope Z_scope.

(* the body invocations, sorted by begin, tile [s, e) exactly: first begins at s, each begins where the previous
   ended, last ends at e; nothing at all for an empty range *)
Definition partitionb (s e : Z) (l : list (Z * Z)) : bool :=
  if e <=? s then match l with [] => true | _ => false end else contiguousb s l e.

(* the checks transmit the implementation's invocation list run-length encoded (lossless): a run (a, len, n) stands for
   the n invocations [a + i*len, a + (i+1)*len), i < n *)
Fixpoint run_chunks (a len : Z) (n : nat) : list (Z * Z) :=
  match n with O => [] | S n' => (a, a + len) :: run_chunks (a + len) len n' end.
Definition expand_runs (rs : list (Z * Z * Z)) : list (Z * Z) :=
  flat_map (fun r => let '(a, len, n) := r in run_chunks a len (Z.to_nat n)) rs.

(* ---- domains of the known findings (functions of the configuration only) ---- *)

(* (the former finding adaptive-chunksize-narrowing -- StripeState::chunkSize narrowed to IntegerT -- is fixed in /repo) *)

(* adaptive-cursor-wrap-64bit: a stripe cursor that has been advanced [fails] times beyond its last successful
   claim leaves the 64-bit cursor type.  [fails] bounds the failed claims per stripe (owner: 1; a stealer: 1 per
   pick, unbounded only while a retiring thread is stalled between its fetch_add and its has-work-bit clear) *)
Definition c12_wrap_domain (fails : Z) (c : pfcfg) : bool :=
  match pf_mode c, pf_scfg c with
  | MAdaptive, Some sc => kmax (wide (sc_k sc)) <? sc_e sc + (fails + 1) * sc_step sc
  | _, _ => false
  end.
(* budget used to classify what the implementation did: anything that needs more than 2^20 failed claims on one
   stripe to wrap is not attributed to the finding *)
Definition c12_fail_budget : Z := 2 ^ 20.

(* one parallel_for case: configuration, L3 group count of the machine, "the body was called too often to
   record" flag, the recorded invocations sorted by (begin, end).
   0 = equals the model's plan and is a partition; 1 = partition but differs from the plan;
   2 = not a partition (outside every known-finding domain); 11 = not a partition, inside the
   cursor-wrap domain *)
Definition judge_c12 (x : pfcfg * Z * bool * list (Z * Z * Z)) : Z :=
  let '(cfg, l3, overrun, runs) := x in
  let impl := expand_runs runs in
  if overrun || negb (partitionb (pf_s cfg) (pf_e cfg) impl) then
    if c12_wrap_domain c12_fail_budget cfg then 11
    else 2
  else match pf_canon cfg l3 with
       | Some m => if zpairs_eqb m impl then 0 else 1
       | None => 1
       end.

(* flat transmission format (fast to type-check): kn s e chunk N maxThreads minItems gran wait l3 overrun a1 len1 n1 a2 len2 n2 ... *)
Fixpoint decode_runs (fuel : nat) (l : list Z) : list (Z * Z * Z) :=
  match fuel, l with
  | S f, a :: len :: n :: r => (a, len, n) :: decode_runs f r
  | _, _ => []
  end.
Definition decode_case (l : list Z) : pfcfg * Z * bool * list (Z * Z * Z) :=
  match l with
  | kn :: s :: e :: chunk :: N :: maxT :: minItems :: g :: wait :: l3 :: ovr :: r =>
      (PF (Z.to_nat kn) s e chunk N maxT minItems g (negb (wait =? 0)), l3, negb (ovr =? 0), decode_runs (length r) r)
  | _ => (PF 0 0 0 0 0 0 0 0 true, 0, true, [])
  end.
Definition judge_c12_flat (l : list Z) : Z := judge_c12 (decode_case l).

(* what the model predicts, for the samples shown in the evidence *)
Definition describe_c12 (x : pfcfg * Z) : Z * Z :=
  let '(cfg, l3) := x in
  (mode_code (pf_mode cfg), match pf_canon cfg l3 with Some m => Z.of_nat (length m) | None => -1 end).
