(* Executable model of dispenso::parallel_invoke (parallel_invoke.h) on a ConcurrentTaskSet (task_set.h:
   ConcurrentTaskSet::schedule(f, skipRecheck=true) -> schedulePlaced / the light-weight branch).  No proofs here.

   A program is a tree of functors: running a functor does its own work once and, when it has children, calls
   parallel_invoke(tasks, child_0, ..., child_{n-1}).  parallel_invoke peels the arguments: child_i for i < n-1
   goes through tasks.schedule(child_i, /*skipRecheck=*/true); child_{n-1} is called directly.
   schedule(f, true) has three outcomes (the pool-level recheck is skipped):
     HInline   outstandingTaskCount_ > threshold && !canceled && inlineDepth < kMaxInlineDepth:
               InlineDepthGuard; f() on the scheduling thread, inline depth + 1
     HPoolNow  otherwise pool_.schedulePlaced(packageTask(f), ForceQueuingTag) on a pool with zero threads:
               ThreadPool::forceEnqueue runs f() at once on the scheduling thread, no guard (same inline depth)
     HQueued   otherwise the packaged task is queued and run later by a pool thread or a waiter, at that thread's
               base inline depth 0
   Whether the load test passes is the oracle `want : path -> bool`; the depth test is part of the model.
   Both TaskCost kinds have this shape: kHeavy goes through schedulePlaced (threshold max(numThreads+1, loadFactor/2)),
   kLightweight through the body of schedule() itself (threshold loadFactor = 4*numThreads); in both the gate is
   `outstanding > threshold && !canceled() && canInlineSchedule()` as ONE condition, so an overloaded set whose
   thread is already kMaxInlineDepth deep falls through to the force-queued enqueue: inline -> queue at depth 32. *)
From Coq Require Import ZArith List Bool.
Import ListNotations.
Local Open Scope Z_scope.

Inductive tree := Node (kids : list tree).

Definition path := list nat.     (* child positions, innermost first; [] = the root functor *)

Inductive how := HRoot | HInline | HPoolNow | HQueued | HLast.

Record run := RUN { r_path : path; r_how : how; r_depth : Z; r_oncaller : bool }.

Definition kMaxInlineDepth : Z := 32.

Section Exec.
  Variable zeroThreads : bool.          (* the pool has no threads *)
  Variable want : path -> bool.         (* the load test of schedule() says "inline" for the functor at this path *)

  (* the runs caused by parallel_invoke(tasks, ks...) called at inline depth d by the functor at path p;
     `below` = the runs below one functor (the recursion through the program tree) *)
  Section Kids.
    Variable below : path -> Z -> tree -> list run.
    Fixpoint kids_runs (p : path) (d : Z) (ks : list tree) (i : nat) {struct ks} : list run :=
      match ks with
      | [] => []
      | k :: r =>
          let here := i :: p in
          match r with
          | [] => (* the last functor: called directly on the calling thread *)
              RUN here HLast d true :: below here d k
          | _ :: _ =>
              (if want here && (d <? kMaxInlineDepth) then RUN here HInline (d + 1) true :: below here (d + 1) k
               else if zeroThreads then RUN here HPoolNow d true :: below here d k
               else RUN here HQueued 0 false :: below here 0 k)
              ++ kids_runs p d r (S i)
          end
      end.
  End Kids.

  (* all runs below a functor `t` that is itself running at inline depth d on some thread; p = its path *)
  Fixpoint exec_below (p : path) (d : Z) (t : tree) {struct t} : list run :=
    match t with Node kids => kids_runs exec_below p d kids 0%nat end.

  (* the driver runs the root functor itself at depth 0 *)
  Definition exec (t : tree) : list run := RUN [] HRoot 0 true :: exec_below [] 0 t.
End Exec.

(* all functors of the program, in the same (pre)order *)
Section KidsPaths.
  Variable below : path -> tree -> list path.
  Fixpoint kids_paths (p : path) (ks : list tree) (i : nat) {struct ks} : list path :=
    match ks with
    | [] => []
    | k :: r => ((i :: p) :: below (i :: p) k) ++ kids_paths p r (S i)
    end.
End KidsPaths.
Fixpoint paths_below (p : path) (t : tree) {struct t} : list path :=
  match t with Node kids => kids_paths paths_below p kids 0%nat end.
Definition all_paths (t : tree) : list path := [] :: paths_below [] t.

Fixpoint size (t : tree) : nat := match t with Node kids => S (list_sum (map size kids)) end.

(* ---- program shapes used by the correspondence ---- *)
Fixpoint regular (shape : list nat) : tree :=
  match shape with
  | [] => Node []
  | a :: r => Node (repeat (regular r) a)
  end.
(* left comb: the FIRST (scheduled) functor recurses, the last is a leaf; right comb: the LAST (direct) one recurses *)
Fixpoint comb_l (n : nat) : tree := match n with O => Node [] | S m => Node [comb_l m; Node []] end.
Fixpoint comb_r (n : nat) : tree := match n with O => Node [] | S m => Node [Node []; comb_r m] end.

(* zigzag comb: recursion through the first (scheduled) functor on even levels, through the last (direct) one on odd levels *)
Fixpoint comb_z_from (lvl n : nat) : tree :=
  match n with
  | O => Node []
  | S m => if Nat.even lvl then Node [comb_z_from (S lvl) m; Node []] else Node [Node []; comb_z_from (S lvl) m]
  end.
Definition comb_z (n : nat) : tree := comb_z_from 0 n.

Definition how_code (h : how) : Z := match h with HRoot => -1 | HInline => 0 | HPoolNow => 1 | HQueued => 2 | HLast => 3 end.
