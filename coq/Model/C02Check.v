(* C02 judge: 0 = model and implementation agree and every completed wait on the implementation's log is a barrier; 1 = they differ,
   property holds; 2 = the property fails on the implementation's log. *)
From Coq Require Import ZArith List Bool.
From DV Require Import Base.MachInt Base.Sched Model.TaskSetModel Gen.GenTaskSet Model.TaskSetCheck.
Import ListNotations.
Local Open Scope Z_scope.

Definition judge_C02 (c : lcase) : Z := if negb (check_C02 c) then 2 else if agrees c then 0 else 1.
