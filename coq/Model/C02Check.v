(* C02 judges: barrier (lockstep log) and exactly-once under forced load.  The judge functions themselves are shared: judge_C02 / judge_C02_impl in Model/TaskSetImplCheck.v (independent of the
   regenerated decision functions) and, for the decision runs, judge_*_d in Model/TaskSetCheck.v. *)
From Coq Require Import ZArith List Bool.
From DV Require Export Model.TaskSetImplCheck Model.TaskSetCheck.
Local Open Scope Z_scope.
Definition C02_judge_lockstep := judge_C02.
