(* Executable model of the adaptive ("stripe") path of dispenso::parallel_for
   (parallel_for.h:476-517 parallel_for_adaptiveWaitDispatch, detail/par_for_stripe.h) -- no proofs here.

   The iteration space [start, trimmedEnd) is cut into P stripes (initStripeState); every stripe has one
   64-bit cursor; owner and stealers claim with cursor.fetch_add(chunkSize) (stripeClaim).  Schedules enter only
   through a list of events (worker, victim): "worker w takes its next step; if that step is a mask scan, the
   scan returns victim v".  The victim choice is an oracle: pickStripeFromMasks depends on L3 topology and on
   has-work bits read earlier, so every stripe that was non-empty at init is a possible (stale) answer; the
   theorems quantify over all event lists, a superset of the feasible ones. *)
From Coq Require Import ZArith List Bool.
From DV Require Import Base.MachInt Model.ChunkModel Gen.GenChunk Model.ParForModel Model.DynModel.
Import ListNotations.
Local Open Scope Z_scope.

(* par_for_stripe.h:416-451: end of stripe i given the running cursor.  The stripe length (offset from start) is
   aligned down to a multiple of the granularity (state.granularity = max 1 g), then clamped into [cursor, end] *)
Definition stripe_end (k : ikind) (s e P g i cursor : Z) : Z :=
  if i + 1 =? P then e else
  let total := wop (wide k) (e - s) in
  let per := Z.quot total P in
  let off := wop (wide k) (wrap 32 (i + 1) * per) in
  let off1 := wop (wide k) (off - Z.rem off (Z.max 1 g)) in
  let se := castk k (wop (wide k) (s + off1)) in
  let se1 := if se <=? cursor then cursor else se in
  if e <=? se1 then e else se1.

Fixpoint stripe_bounds_from (k : ikind) (s e P g : Z) (n : nat) (i cursor : Z) : list (Z * Z) :=
  match n with
  | O => []
  | S n' => let se := stripe_end k s e P g i cursor in
            (cursor, se) :: stripe_bounds_from k s e P g n' (i + 1) se
  end.

Record scfg := SC {
  sc_k : ikind; sc_s : Z; sc_e : Z;     (* parRange.start, parRange.end (= trimmedEnd) *)
  sc_P : nat;                            (* numStripeWorkers = numToLaunch + 1 *)
  sc_cs : Z;                             (* adaptiveChunkSize as computed in size_type *)
  sc_g : Z;
  sc_tail : list (Z * Z) }.

Definition stripe_bounds (c : scfg) : list (Z * Z) :=
  stripe_bounds_from (sc_k c) (sc_s c) (sc_e c) (Z.of_nat (sc_P c)) (sc_g c) (sc_P c) 0 (sc_s c).
(* stripe j's [begin, end); indices beyond the last stripe never occur (the default is an empty stripe at the end) *)
Definition sb (c : scfg) (j : nat) : Z * Z := nth j (stripe_bounds c) (sc_e c, sc_e c).

(* state.chunkSize: kept in the wide (cursor) type, exactly the size_type chunk size computed by calcChunkSize *)
Definition sc_step (c : scfg) : Z := sc_cs c.

Inductive wphase := WOwn | WSteal (last : option nat) | WDone.
Record sstate := SS {
  ss_cur : nat -> Z;          (* StripeCursor::next, per stripe (WideT) *)
  ss_ret : nat -> bool;       (* StripeCursor::retired (= has-work bit cleared) *)
  ss_active : Z;              (* activeStripes *)
  ss_ph : nat -> wphase;      (* where each worker is in runStripeWorker *)
  ss_nowrap : bool;           (* no fetch_add so far has left the 64-bit range of the cursor *)
  ss_cnt : nat -> Z }.        (* ghost: number of fetch_adds performed on each stripe's cursor *)

Definition nonempty (c : scfg) (j : nat) : bool := Nat.ltb j (sc_P c) && (fst (sb c j) <? snd (sb c j)).

Definition stripe_init (c : scfg) : sstate :=
  SS (fun j => fst (sb c j)) (fun j => negb (nonempty c j))
     (Z.of_nat (length (filter (nonempty c) (seq 0 (sc_P c))))) (fun _ => WOwn) true (fun _ => 0).

(* stripeClaim(state, j): fetch_add on the cursor; on failure try to retire the stripe.  Result: new state and the
   claimed cursor value on success.  The atomic fetch_add wraps in the 64-bit cursor type (also for int64) *)
Definition claim (c : scfg) (st : sstate) (j : nat) : sstate * option Z :=
  let prev := ss_cur st j in
  let nxt := castk (wide (sc_k c)) (prev + sc_step c) in
  let ok := ss_nowrap st && (nxt =? prev + sc_step c) in
  let cur1 := upd (ss_cur st) j nxt in
  let cnt1 := upd (ss_cnt st) j (ss_cnt st j + 1) in
  if snd (sb c j) <=? prev then
    if ss_ret st j then (SS cur1 (ss_ret st) (ss_active st) (ss_ph st) ok cnt1, None)
    else (SS cur1 (upd (ss_ret st) j true) (wrap 32 (ss_active st - 1)) (ss_ph st) ok cnt1, None)
  else (SS cur1 (ss_ret st) (ss_active st) (ss_ph st) ok cnt1, Some prev).

Definition set_ph (st : sstate) (w : nat) (p : wphase) : sstate :=
  SS (ss_cur st) (ss_ret st) (ss_active st) (upd (ss_ph st) w p) (ss_nowrap st) (ss_cnt st).

(* one step of worker w in runStripeWorker; v = what a mask scan returns if this step scans.
   Emits the successful claim (stripe, cursor value) if the step hands a chunk to the body. *)
Definition stripe_step (c : scfg) (st : sstate) (ev : nat * nat) : sstate * list (nat * Z) :=
  let '(w, v) := ev in
  if negb (Nat.ltb w (sc_P c)) then (st, []) else
  match ss_ph st w with
  | WDone => (st, [])
  | WOwn =>
      let '(st1, r) := claim c st w in
      match r with Some p => (st1, [(w, p)]) | None => (set_ph st1 w (WSteal None), []) end
  | WSteal lv =>
      if ss_active st =? 0 then (set_ph st w WDone, []) else
      match lv with
      | Some u =>
          let '(st1, r) := claim c st u in
          match r with Some p => (st1, [(u, p)]) | None => (set_ph st1 w (WSteal None), []) end
      | None =>
          if nonempty c v && negb (Nat.eqb v w) then
            let '(st1, r) := claim c st v in
            match r with Some p => (set_ph st1 w (WSteal (Some v)), [(v, p)]) | None => (st1, []) end
          else (st, [])
      end
  end.

Fixpoint stripe_run (c : scfg) (st : sstate) (sched : list (nat * nat)) : sstate * list (nat * Z) :=
  match sched with
  | [] => (st, [])
  | ev :: r =>
      let '(st1, cl) := stripe_step c st ev in
      let '(st2, cls) := stripe_run c st1 r in
      (st2, cl ++ cls)
  end.

(* stripeClaim's output for a successful claim: [prev, min(prev + chunkSize, stripe end)) narrowed to IntegerT *)
Definition claim_chunk (c : scfg) (cl : nat * Z) : Z * Z :=
  let '(j, prev) := cl in
  let k := sc_k c in
  let endWide := castk (wide k) (prev + sc_step c) in
  (castk k prev, castk k (if snd (sb c j) <? endWide then snd (sb c j) else endWide)).

Definition stripe_nclaims (b e step : Z) : Z := if e <=? b then 0 else (e - b + step - 1) / step.

Definition phase_done (p : wphase) : bool := match p with WDone => true | _ => false end.
Definition stripe_all_done (c : scfg) (st : sstate) : bool :=
  forallb (fun w => phase_done (ss_ph st w)) (seq 0 (sc_P c)).

Definition stripe_calls (c : scfg) (sched : list (nat * nat)) : list (Z * Z) :=
  map (claim_chunk c) (snd (stripe_run c (stripe_init c) sched)) ++ sc_tail c.
Definition stripe_complete (c : scfg) (sched : list (nat * nat)) : bool :=
  stripe_all_done c (fst (stripe_run c (stripe_init c) sched)).
Definition stripe_nowrap (c : scfg) (sched : list (nat * nat)) : bool :=
  ss_nowrap (fst (stripe_run c (stripe_init c) sched)).
(* number of fetch_adds the run performed on stripe j beyond the ones that can succeed (failed claims) *)
Definition stripe_excess (c : scfg) (sched : list (nat * nat)) (j : nat) : Z :=
  ss_cnt (fst (stripe_run c (stripe_init c) sched)) j - stripe_nclaims (fst (sb c j)) (snd (sb c j)) (sc_step c).

(* the schedule-independent answer when no cursor wraps: per stripe, consecutive claims of chunkSize from the
   stripe's begin, the last one clipped at the stripe's end *)
Definition stripe_chunks (step : Z) (be : Z * Z) : list (Z * Z) :=
  let '(b, e) := be in
  map (fun i => (b + Z.of_nat i * step, Z.min (b + (Z.of_nat i + 1) * step) e))
      (seq 0 (Z.to_nat (stripe_nclaims b e step))).
Definition stripe_canon (c : scfg) : list (Z * Z) :=
  flat_map (stripe_chunks (sc_step c)) (stripe_bounds c) ++ sc_tail c.

(* configuration as parallel_for_adaptiveWaitDispatch builds it *)
Definition pf_scfg (c : pfcfg) : option scfg :=
  let d := pf_decide c in
  let nl := pf_numToLaunch c in
  match gen_calcChunkSize_of (pf_kn c) (pf_s c) (d_trimmedEnd d) (pf_chunk c) nl true (d_minItems d) (d_g d) 64 with
  | None => None
  | Some (cs, _) =>
      Some (SC (kind_of (pf_kn c)) (pf_s c) (d_trimmedEnd d) (Z.to_nat (wrap 32 (nl + 1))) cs (d_g d) (pf_tail c))
  end.

(* ------------------------------------------------------------------ all modes together *)
(* an execution: the machine's L3 group count (dynamic path), the dynamic claim events, the stripe events *)
Record exec := EX { ex_l3 : Z; ex_dyn : list nat; ex_stripe : list (nat * nat) }.

Definition pf_calls (c : pfcfg) (x : exec) : option (list (Z * Z)) :=
  match pf_mode c with
  | MDynamic => match pf_dyncfg c (ex_l3 x) with Some dc => Some (dyn_calls dc (ex_dyn x)) | None => None end
  | MAdaptive => match pf_scfg c with Some sc => Some (stripe_calls sc (ex_stripe x)) | None => None end
  | _ => static_calls c
  end.

(* all workers have left their loops (parallel_for / taskSet.wait() has returned, C02) *)
Definition pf_complete (c : pfcfg) (x : exec) : bool :=
  match pf_mode c with
  | MDynamic => match pf_dyncfg c (ex_l3 x) with Some dc => dyn_complete dc (ex_dyn x) | None => false end
  | MAdaptive => match pf_scfg c with Some sc => stripe_complete sc (ex_stripe x) | None => false end
  | _ => true
  end.

(* schedule-independent plan (what the correspondence compares the implementation's sorted chunk list with) *)
Definition pf_canon (c : pfcfg) (l3 : Z) : option (list (Z * Z)) :=
  match pf_mode c with
  | MDynamic => match pf_dyncfg c l3 with Some dc => Some (dyn_canon dc) | None => None end
  | MAdaptive => match pf_scfg c with Some sc => Some (stripe_canon sc) | None => None end
  | _ => static_calls c
  end.

(* a simple complete stripe schedule: every worker drains its own stripe, then everybody polls until done *)
Definition own_then_poll (P : nat) (rounds : nat) : list (nat * nat) :=
  flat_map (fun _ => map (fun w => (w, w)) (seq 0 P)) (seq 0 rounds).
