(* Judge for C29: exception behaviour of the real pipeline, evaluated on the implementation's own output. *)
From Coq Require Import ZArith List Bool.
From DV Require Import Base.MachInt Base.Corr Base.Sched Model.PipelineModel Model.C27Check.
Import ListNotations.
Local Open Scope Z_scope.

Definition thrown_ids (l : list (list Z)) : list Z :=
  flat_map (fun r => if r_kind r =? 3 then [(r_j r + 1) * 1000 + r_tag r] else if r_kind r =? 5 then [r_tag r] else []) l.

(* pipeline() rethrows iff something was thrown, and what it rethrows was thrown; no (stage, item) twice; pool left empty *)
Definition c29_basic (c : pcase) : bool :=
  c27_safety (p_cfg c) (i_log c) &&
  (if i_status c =? 0 then
     (if has_throw_event (i_log c) then existsb (Z.eqb (i_ret c)) (thrown_ids (i_log c)) else i_ret c =? -1) &&
     (i_wr c =? 0) && (i_q c =? 0)
   else true).
(* every payload destroyed when pipeline() has returned *)
Definition c29_leak (c : pcase) : bool := (i_status c =? 0) && (0 <? i_live c).
(* the run ended with the caller asleep in the completion latch and nothing queued or running in the pool *)
Definition c29_hang (c : pcase) : bool := (i_status c =? 2) && (i_blk c =? 1) && (i_wr c =? 0) && (i_q c =? 0).

(* 0 agree & holds; 1 differ & holds; 2 fails outside the known finding (this includes a caller asleep for ever in the completion
   latch, repaired in /repo 0db1b9f); 4 the known leak: inside its domain AND exactly the payloads the model predicts (tasks skipped
   by the cancelled wrapper / stranded in a queue) *)
Definition judge_c29 (c : pcase) : Z :=
  if negb (c29_basic c) then 2
  else if c29_hang c then 2
  else if c29_leak c then (if leak_domain (p_cfg c) && agrees c then 4 else 2)
  else if negb (i_status c =? 1) then (if agrees c then 0 else 1) else 2.
(* native histories (no schedule, no model run): the leak is classified by its domain only *)
Definition judge_c29n (c : pcase) : Z :=
  if negb (c29_basic c) then 2 else if c29_leak c then (if leak_domain (p_cfg c) then 4 else 2) else 0.
