(* Interleaving model of detail::FutureImplBase (dispenso/detail/future_impl.h, future.h, Linux CompletionEventImpl)
   at the granularity of the DISPENSO_VERIF_POINT hooks: one step = one atomic access / futex call (plus three
   harness-visible non-atomic actions: the functor body "h.func", a continuation dispatch "h.dispatch", and the
   result read in get() "fut.get.result").  One antecedent future (status word, refCount, result cell, then-chain,
   task-set counter); threads run programs over run / wait / get / wait_for / wait_until / is_ready / copy / drop /
   then / taskset-wait.  Executable; no proofs.  Style of Model/EventModel.v (not imported: the status word here
   carries more shared state than the event's word). *)
From Coq Require Import ZArith List Bool.
From DV Require Import Base.MachInt Base.Sched.
Import ListNotations.
Local Open Scope Z_scope.

(* status word values: FutureImplBase::Status *)
Definition kNotStarted := 0. Definition kRunning := 1. Definition kReady := 2.

Inductive op :=
| ORun                      (* the scheduled OnceFunction: run(kNotStarted); decRefCountMaybeDestroy() *)
| OWait                     (* Future::wait *)
| OGet                      (* Future::get = wait; result() *)
| OWaitFor (pos : bool)     (* wait_for(d), pos = d > 0 *)
| OWaitUntil (pos : bool)   (* wait_until(t), pos = t > now *)
| OIsReady
| OCopy                     (* copy construction: incRefCount *)
| ODrop                     (* destruction of a handle: decRefCountMaybeDestroy *)
| OThen (k : Z)             (* then(f, sched): copy (incRef) + addToThenChainOrExecute; k = identity of the link *)
| OTsWait.                  (* spin until the task-set counter is 0, then sample readiness *)

(* who called run()/tryExecuteThenChain and what happens afterwards *)
Inductive kont :=
| KRunner                   (* OnceFunction: afterwards decRef *)
| KWait (get : bool)        (* wait()/get(): waitCommon(true) *)
| KTimed (pos until : bool) (* wait_for / wait_until: waitCommon(allowInline_) *)
| KThen.                    (* addToThenChainOrExecute's post-push drain *)

Inductive pc :=
| PStart
| PRunCas (k : kont) | PFunc (k : kont) | PNotifyStore (k : kont) | PNotifyWake (k : kont) | PTsc (k : kont)
| PChainLoad (k : kont) | PChainCas (k : kont) (h : Z) | PDispatch (k : kont) (id : Z) (rest : list Z)
| PDecRef (runner : bool)
| PWcLoad (k : kont)
| PWaitLoad (k : kont) | PWaitFutex (k : kont) (cur : Z) | PBlocked (k : kont) | PWoken (k : kont)
| PWfLoad0 (k : kont) | PWuLoad (k : kont)
| PGetResult | PReadyLoad | PIncRef
| PThenInc (id : Z) | PThenLoad0 (id : Z) | PThenDirect (id : Z) | PThenLoadHead (id : Z)
| PThenCas (id nx : Z) | PThenRecheck
| PTsLoad
| PDone.

(* hnd = Future handles owned by the thread; tok = 1 when the thread owns the not-yet-invoked OnceFunction *)
Record thread := TH { tpc : pc; prog : list op; res : list (Z * Z); hnd : Z; tok : Z }.

Record cfg := CFG {
  allowInline : bool;      (* deferredPolicy == std::launch::deferred *)
  hasTsc : bool;           (* taskSetCounter_ != nullptr *)
  val : Z;                 (* what the functor returns / the id of what it throws *)
  exc : bool;              (* the functor throws *)
  spur : bool;             (* compare_exchange_weak may fail spuriously (consumes an oracle integer) *)
  timeouts : bool;         (* timed futex waits may time out *)
  orphan : Z }.            (* 1 when no thread owns the OnceFunction (its reference is never released) *)

(* shared state.  cell = 0: result not yet written.  Monitors (sticky): bad_touch = a step accessed the impl after
   dealloc; bad_disp = a continuation was dispatched while status <> Ready; bad_get = get() read an unwritten cell
   or read while status <> Ready. *)
Record shared := SH {
  word : Z; refc : Z; conts : Z; cell : Z; fcount : Z; freed : Z; tsc : Z;
  chain : list Z; disp : list Z;
  bad_touch : bool; bad_disp : bool; bad_get : bool }.

Record state := ST { conf : cfg; sh : shared; threads : list thread }.

(* site ids = positions in props/fut_common.py SITES *)
Definition s_start := 0.      Definition s_run_cas := 1.    Definition s_func := 2.       Definition s_notify_store := 3.
Definition s_futex_wake := 4. Definition s_run_tsc := 5.    Definition s_chain_load := 6. Definition s_chain_cas := 7.
Definition s_dispatch := 8.   Definition s_decref := 9.     Definition s_wc_load := 10.   Definition s_wait_load := 11.
Definition s_futex_wait := 12. Definition s_futex_woken := 13. Definition s_futex_timeout := 14.
Definition s_wf_load0 := 15.  Definition s_wf_load := 16.   Definition s_wu_load := 17.   Definition s_get_result := 18.
Definition s_ready_load := 19. Definition s_incref := 20.   Definition s_then_load0 := 21. Definition s_then_loadhead := 22.
Definition s_then_cas := 23.  Definition s_then_recheck := 24. Definition s_ts_load := 25.

(* result tags *)
Definition r_wait := 1. Definition r_get := 2. Definition r_getx := 3. Definition r_waitfor := 4. Definition r_ready := 5.
Definition r_func := 6. Definition r_disp := 7. Definition r_dealloc := 8. Definition r_tswait := 9.

Definition entry (o : op) : pc :=
  match o with
  | ORun => PRunCas KRunner
  | OWait => PWcLoad (KWait false)
  | OGet => PWcLoad (KWait true)
  | OWaitFor p => PWcLoad (KTimed p false)
  | OWaitUntil p => PWcLoad (KTimed p true)
  | OIsReady => PReadyLoad
  | OCopy => PIncRef
  | ODrop => PDecRef false
  | OThen k => PThenInc k
  | OTsWait => PTsLoad
  end.

Definition next (th : thread) : thread :=
  match prog th with
  | [] => TH PDone [] (res th) (hnd th) (tok th)
  | o :: r => TH (entry o) r (res th) (hnd th) (tok th)
  end.
Definition goto (th : thread) (p : pc) : thread := TH p (prog th) (res th) (hnd th) (tok th).
Definition logr (th : thread) (tag v : Z) : thread := TH (tpc th) (prog th) ((tag, v) :: res th) (hnd th) (tok th).
Definition addh (th : thread) (d : Z) : thread := TH (tpc th) (prog th) (res th) (hnd th + d) (tok th).
Definition untok (th : thread) : thread := TH (tpc th) (prog th) (res th) (hnd th) 0.

Fixpoint set_nth {A} (l : list A) (n : nat) (x : A) : list A :=
  match l, n with
  | [], _ => []
  | _ :: r, O => x :: r
  | y :: r, S m => y :: set_nth r m x
  end.

Definition wake1 (th : thread) : thread := match tpc th with PBlocked k => goto th (PWoken k) | _ => th end.
Definition wake_all (ths : list thread) : list thread := map wake1 ths.

(* the operation completed with "ready" (waitCommon returned true, the wait loop saw kReady, the drain finished) *)
Definition finish (th : thread) (k : kont) : thread :=
  match k with
  | KRunner => goto th (PDecRef true)
  | KWait false => next (logr th r_wait 1)
  | KWait true => goto th PGetResult
  | KTimed _ _ => next (logr th r_waitfor 1)
  | KThen => next th
  end.

(* run(s) returned false: what the caller does next *)
Definition fallback (th : thread) (k : kont) : thread :=
  match k with
  | KRunner => goto th (PDecRef true)
  | KWait _ => goto th (PWaitLoad k)
  | KTimed _ false => goto th (PWfLoad0 k)
  | KTimed _ true => goto th (PWuLoad k)
  | KThen => next th
  end.

Definition k_timed (k : kont) : bool := match k with KTimed _ _ => true | _ => false end.
Definition k_pos (k : kont) : bool := match k with KTimed p _ => p | _ => true end.
Definition k_inline (c : cfg) (k : kont) : bool := match k with KTimed _ _ => allowInline c | _ => true end.

(* oracle for compare_exchange_weak: (fails spuriously?, remaining oracle integers) *)
Definition spurious (c : cfg) (ch : list Z) : bool * list Z :=
  if spur c then match ch with x :: r => (Z.odd x, r) | [] => (false, []) end else (false, ch).

(* ---------- shared-state updates ---------- *)
Definition set_word (g : shared) (w : Z) : shared :=
  SH w (refc g) (conts g) (cell g) (fcount g) (freed g) (tsc g) (chain g) (disp g) (bad_touch g) (bad_disp g) (bad_get g).
Definition set_refc (g : shared) (r : Z) : shared :=
  SH (word g) r (conts g) (cell g) (fcount g) (freed g) (tsc g) (chain g) (disp g) (bad_touch g) (bad_disp g) (bad_get g).
Definition set_conts (g : shared) (x : Z) : shared :=
  SH (word g) (refc g) x (cell g) (fcount g) (freed g) (tsc g) (chain g) (disp g) (bad_touch g) (bad_disp g) (bad_get g).
Definition set_result (g : shared) (v : Z) : shared :=
  SH (word g) (refc g) (conts g) v (fcount g + 1) (freed g) (tsc g) (chain g) (disp g) (bad_touch g) (bad_disp g) (bad_get g).
Definition set_freed (g : shared) (x : Z) : shared :=
  SH (word g) (refc g) (conts g) (cell g) (fcount g) x (tsc g) (chain g) (disp g) (bad_touch g) (bad_disp g) (bad_get g).
Definition set_tsc (g : shared) (x : Z) : shared :=
  SH (word g) (refc g) (conts g) (cell g) (fcount g) (freed g) x (chain g) (disp g) (bad_touch g) (bad_disp g) (bad_get g).
Definition set_chain (g : shared) (l : list Z) : shared :=
  SH (word g) (refc g) (conts g) (cell g) (fcount g) (freed g) (tsc g) l (disp g) (bad_touch g) (bad_disp g) (bad_get g).
(* a continuation is handed to its schedulable *)
Definition dispatch (g : shared) (id : Z) : shared :=
  SH (word g) (refc g) (conts g) (cell g) (fcount g) (freed g) (tsc g) (chain g) (id :: disp g)
     (bad_touch g) (bad_disp g || negb (word g =? kReady)) (bad_get g).
Definition read_result (g : shared) : shared :=
  SH (word g) (refc g) (conts g) (cell g) (fcount g) (freed g) (tsc g) (chain g) (disp g)
     (bad_touch g) (bad_disp g) (bad_get g || negb (word g =? kReady) || (cell g =? 0)).
(* every step except a thread's start accesses the impl *)
Definition touch (g : shared) : shared :=
  SH (word g) (refc g) (conts g) (cell g) (fcount g) (freed g) (tsc g) (chain g) (disp g)
     (bad_touch g || (0 <? freed g)) (bad_disp g) (bad_get g).

(* one step of thread [th] in shared state [g0]: (new shared, new thread, wake-all?, remaining oracle, site) *)
Definition tstep (c : cfg) (g0 : shared) (th : thread) (ch : list Z) : option (shared * thread * bool * list Z * Z) :=
  let g := touch g0 in
  let w := word g0 in
  let ret (g' : shared) (th' : thread) (site : Z) := Some (g', th', false, ch, site) in
  match tpc th with
  | PStart => Some (g0, next th, false, ch, s_start)
  | PRunCas k =>
      let '(sp, ch') := spurious c ch in
      if sp then Some (g, th, false, ch', s_run_cas)
      else if w =? kNotStarted then Some (set_word g kRunning, goto th (PFunc k), false, ch', s_run_cas)
      else Some (g, fallback th k, false, ch', s_run_cas)
  | PFunc k => ret (set_result g (val c)) (logr (goto th (PNotifyStore k)) r_func (fcount g + 1)) s_func
  | PNotifyStore k => ret (set_word g kReady) (goto th (PNotifyWake k)) s_notify_store
  | PNotifyWake k => Some (g, goto th (if hasTsc c then PTsc k else PChainLoad k), true, ch, s_futex_wake)
  | PTsc k => ret (set_tsc g (tsc g - 1)) (goto th (PChainLoad k)) s_run_tsc
  | PChainLoad k =>
      match chain g with
      | [] => ret g (finish th k) s_chain_load
      | h :: _ => ret g (goto th (PChainCas k h)) s_chain_load
      end
  | PChainCas k h =>
      let '(sp, ch') := spurious c ch in
      if sp then Some (g, th, false, ch', s_chain_cas)
      else match chain g with
           | [] => Some (g, finish th k, false, ch', s_chain_cas)
           | id :: rest =>
               if id =? h then Some (set_chain g [], goto th (PDispatch k id rest), false, ch', s_chain_cas)
               else Some (g, goto th (PChainCas k id), false, ch', s_chain_cas)
           end
  | PDispatch k id rest =>
      let th1 := logr th r_disp id in
      match rest with
      | [] => ret (dispatch g id) (finish th1 k) s_dispatch
      | id' :: r' => ret (dispatch g id) (goto th1 (PDispatch k id' r')) s_dispatch
      end
  | PDecRef runner =>
      let old := refc g in
      let g1 := set_refc g (wrap 32 (old - 1)) in
      let th1 := if runner then untok th else addh th (-1) in
      if old =? 1 then ret (set_freed g1 (freed g + 1)) (next (if exc c then th1 else logr th1 r_dealloc 1)) s_decref
      else ret g1 (next th1) s_decref
  | PWcLoad k =>
      if w =? kReady then ret g (finish th k) s_wc_load
      else if k_inline c k && (w =? kNotStarted) then ret g (goto th (PRunCas k)) s_wc_load
      else ret g (fallback th k) s_wc_load
  | PWaitLoad k =>
      let site := if k_timed k then s_wf_load else s_wait_load in
      if w =? kReady then ret g (finish th k) site else ret g (goto th (PWaitFutex k w)) site
  | PWaitFutex k cur =>
      if w =? cur then ret g (goto th (PBlocked k)) s_futex_wait else ret g (goto th (PWaitLoad k)) s_futex_wait
  | PBlocked k =>
      if k_timed k && timeouts c then ret g (next (logr th r_waitfor 0)) s_futex_timeout else None
  | PWoken k => ret g (goto th (PWaitLoad k)) s_futex_woken
  | PWfLoad0 k =>
      if w =? kReady then ret g (finish th k) s_wf_load0
      else if k_pos k then ret g (goto th (PWaitLoad k)) s_wf_load0
      else ret g (next (logr th r_waitfor 0)) s_wf_load0
  | PWuLoad k =>
      if w =? kReady then ret g (finish th k) s_wu_load else ret g (goto th (PWfLoad0 k)) s_wu_load
  | PGetResult => ret (read_result g) (next (logr th (if exc c then r_getx else r_get) (cell g))) s_get_result
  | PReadyLoad => ret g (next (logr th r_ready (b2z (w =? kReady)))) s_ready_load
  | PIncRef => ret (set_refc g (wrap 32 (refc g + 1))) (next (addh th 1)) s_incref
  | PThenInc id => ret (set_conts (set_refc g (wrap 32 (refc g + 1))) (conts g + 1)) (goto th (PThenLoad0 id)) s_incref
  | PThenLoad0 id =>
      if w =? kReady then ret g (goto th (PThenDirect id)) s_then_load0 else ret g (goto th (PThenLoadHead id)) s_then_load0
  | PThenDirect id => ret (dispatch g id) (next (logr th r_disp id)) s_dispatch
  | PThenLoadHead id => ret g (goto th (PThenCas id (hd 0 (chain g)))) s_then_loadhead
  | PThenCas id nx =>
      let '(sp, ch') := spurious c ch in
      if sp then Some (g, th, false, ch', s_then_cas)
      else if hd 0 (chain g) =? nx then Some (set_chain g (id :: chain g), goto th PThenRecheck, false, ch', s_then_cas)
      else Some (g, goto th (PThenCas id (hd 0 (chain g))), false, ch', s_then_cas)
  | PThenRecheck =>
      if w =? kReady then ret g (goto th (PChainLoad KThen)) s_then_recheck else ret g (next th) s_then_recheck
  | PTsLoad =>
      if tsc g =? 0 then ret g (next (logr th r_tswait (b2z (w =? kReady)))) s_ts_load else ret g th s_ts_load
  | PDone => None
  end.

Definition step (s : state) (t : nat) (ch : list Z) : option (state * list Z * Z) :=
  match nth_error (threads s) t with
  | None => None
  | Some th =>
      match tstep (conf s) (sh s) th ch with
      | None => None
      | Some (g', th', wk, ch', site) =>
          Some (ST (conf s) g' (set_nth (if wk then wake_all (threads s) else threads s) t th'), ch', site)
      end
  end.

Definition runnable_pc (p : pc) : bool := match p with PDone | PBlocked _ => false | _ => true end.
Definition timed_blocked_pc (p : pc) : bool := match p with PBlocked k => k_timed k | _ => false end.

Fixpoint tids_where (f : pc -> bool) (ths : list thread) (i : nat) : list nat :=
  match ths with
  | [] => []
  | th :: r => if f (tpc th) then i :: tids_where f r (S i) else tids_where f r (S i)
  end.

Definition cands (s : state) : list nat :=
  tids_where runnable_pc (threads s) 0 ++ (if timeouts (conf s) then tids_where timed_blocked_pc (threads s) 0 else []).

Definition finished (s : state) : bool :=
  forallb (fun th => match tpc th with PDone => true | _ => false end) (threads s).

(* a thread description: (initial handles, owns the OnceFunction?, program) *)
Definition tdesc := (Z * Z * list op)%type.
Definition mk_thread (d : tdesc) : thread := let '(h, k, p) := d in TH PStart p [] h k.
Definition zsum {A} (f : A -> Z) (l : list A) : Z := fold_right (fun x a => f x + a) 0 l.

(* a freshly constructed future: refCount = (handles) + 1 for the OnceFunction *)
Definition init_sh (c : cfg) (ds : list tdesc) : shared :=
  SH kNotStarted (orphan c + zsum (fun d => let '(h, k, _) := d in h + k) ds) 0 0 0 0 (if hasTsc c then 1 else 0) [] [] false false false.
Definition init (c : cfg) (ds : list tdesc) : state := ST c (init_sh c ds) (map mk_thread ds).

Definition run_future (fuel : nat) (c : cfg) (ds : list tdesc) (sched : list Z) :=
  run step cands finished fuel (init c ds) sched [].
