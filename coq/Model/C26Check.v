(* Lockstep judge for C26: the implementation's trace under harness/vsched.h vs. Model/TimedTaskModel.v run on the
   same schedule, and the executable form of the property evaluated on the implementation's own log. *)
From Coq Require Import ZArith List Bool.
From DV Require Import Base.MachInt Base.Corr Base.Sched Model.TimedTaskModel.
Import ListNotations.
Local Open Scope Z_scope.

Record tcase := TC {
  c_n : Z; c_npool : nat; c_fuel : nat; c_rets : list bool; c_prog : list uop; c_sched : list Z;
  i_trace : list (Z * Z);            (* implementation: (tid, site) per step *)
  i_results : list (list (Z * Z));   (* per thread, oldest first; tags below *)
  i_status : Z;                      (* 0 done, 1 deadlock, 2 budget, 3 crash (signal), 4 AddressSanitizer report *)
  i_ttr : Z; i_flags : Z; i_inprog : Z; i_count : Z; i_alive : Z; i_q : Z;
  i_dret : Z }.                      (* index of the first step after the destructor of a non-detached task returned; -1: none *)

(* result tags *)
Definition t_calls := 1. Definition t_start := 2. Definition t_uafcall := 3. Definition t_badcall := 4.

(* ---------- the property, evaluated on the implementation's trace and results ---------- *)
Definition is_access (site : Z) : bool :=
  (site =? s_kick_call) || (site =? s_func_flags) || (site =? s_func_inc) || (site =? s_func_sched) || (site =? s_wrap_call).

(* site of the first / last step of thread t in l *)
Fixpoint first_of (t : Z) (l : list (Z * Z)) : option Z :=
  match l with [] => None | (u, s) :: r => if u =? t then Some s else first_of t r end.
Definition last_of (t : Z) (l : list (Z * Z)) : option Z := first_of t (rev l).
Definition opt_is (o : option Z) (v : Z) : bool := match o with Some x => x =? v | None => false end.

Definition count_starts (res : list (list (Z * Z))) : Z :=
  fold_right (fun l a => a + Z.of_nat (length (filter (fun p => fst p =? t_start) l))) 0 res.

(* P1: the functor is started at most timesToRun times *)
Definition p_runs_ok (c : tcase) : bool := count_starts (i_results c) <=? c_n c.

(* One left-to-right pass over the trace.  Scanner state:
     pre     steps already seen, newest first
     nst     number of invocations started so far (the k-th tt.wrap.call step is invocation k: the harness's functor
             numbers its invocations with an atomic counter and steps are serialised)
     canc    an explicit cancel() has returned (user step tt.cancel.flags.or outside the destructor)
     ored    some fetch_or of the cancelled bit has executed (cancel / destructor / wrapper after a false return)
     falsed  some invocation has returned false
     dret    the destructor has executed func = {} (it returns right after)
     indtor  the user thread has entered the destructor
     infl    at the destructor's latest inProgress load the scheduler role was in flight: its previous step was the
             fetch_sub, the call of func, or func's cancelled-check
     clean   pool threads whose latest tt.wrap.flags.load happened before any fetch_or of the cancelled bit *)
Record scan_st := SS {
  pre : list (Z * Z); nst : nat; canc : bool; ored : bool; falsed : bool; dret : bool; indtor : bool; infl : bool;
  clean : list Z;
  v_cancel : bool; v_dtor : bool; v_false : bool;          (* the three clauses violated ... *)
  o_cancel : bool; o_dtor : bool; o_false : bool }.        (* ... outside the domain of the corresponding known finding *)

Definition zmem (t : Z) (l : list Z) : bool := existsb (Z.eqb t) l.

Definition scan_step (rets : list bool) (dpos : Z) (a : scan_st) (e : Z * Z) : scan_st :=
  let '(t, s) := e in
  let prev := first_of t (pre a) in
  let start := s =? s_wrap_call in
  let clean_t := opt_is prev s_wrap_flags && zmem t (clean a) in
  let late_c := start && canc a in
  let late_f := start && falsed a in
  (* the destructor has returned: it executed func = {} (its last step), or -- whatever path it took -- the harness saw it return *)
  let late_d := is_access s && (dret a || ((0 <=? dpos) && (dpos <=? Z.of_nat (length (pre a))))) in
  let in_dom_d := (t =? 0) && infl a in
  let sched_prev := first_of 0 (pre a) in
  let infl' := if s =? s_dtor_spin
               then opt_is sched_prev s_kick_sub || opt_is sched_prev s_kick_call || opt_is sched_prev s_func_flags
               else infl a in
  let clean' := if s =? s_wrap_flags then (if ored a then filter (fun u => negb (u =? t)) (clean a) else t :: clean a)
                else clean a in
  let is_or := ((s =? s_cancel_or) || (s =? s_wrap_or)) in
  SS (e :: pre a)
     (if start then S (nst a) else nst a)
     (canc a || ((s =? s_cancel_or) && negb (indtor a)))
     (ored a || is_or)
     (falsed a || (start && negb (nth (nst a) rets true)))
     (dret a || (s =? s_dtor_clear))
     (indtor a || (s =? s_dtor_flags))
     infl' clean'
     (v_cancel a || late_c) (v_dtor a || late_d) (v_false a || late_f)
     (o_cancel a || (late_c && negb clean_t)) (o_dtor a || (late_d && negb in_dom_d)) (o_false a || (late_f && negb clean_t)).

Definition scan0 : scan_st := SS [] O false false false false false false [] false false false false false false.
Definition scan (rets : list bool) (dpos : Z) (tr : list (Z * Z)) : scan_st := fold_left (scan_step rets dpos) tr scan0.

(* ---------- agreement with the model ---------- *)
Definition model_results (s : state) (npool : nat) : list (list (Z * Z)) :=
  let g0 := g s in
  (if 0 <? badcall g0 then [(t_badcall, 1)] else []) ::
  rev (ures s) ::
  map (fun i => flat_map (fun e : Z * Z * bool => let '(tid, idx, dead) := e in
                            if tid =? Z.of_nat i + 2 then (t_start, idx) :: (if dead then [(t_uafcall, 1)] else []) else [])
                         (rev (slog g0)))
      (seq 0 npool).

Definition model_run (c : tcase) (fuel : nat) := run_tt fuel (c_n c) (c_npool c) (c_rets c) (c_prog c) (c_sched c).

Definition mem_agrees (c : tcase) (x : mem) : bool :=
  (ttr x =? i_ttr c) && (flags_word x =? i_flags c) && (inprog x =? i_inprog c) && (count x =? i_count c) &&
  (b2z (alive x) =? i_alive c) && (q x =? i_q c).

Definition agrees (c : tcase) : bool :=
  if i_status c <? 3 then
    let '(s, tr, st) := model_run c (c_fuel c) in
    (* vsched reports "done" when everything finished exactly at the budget *)
    let stc := match st with SBudget => if finished s then 0 else 2 | _ => status_code st end in
    list_eqb zpair_eqb tr (i_trace c) && (stc =? i_status c) && mem_agrees c (m s) &&
    list_eqb (list_eqb zpair_eqb) (model_results s (c_npool c)) (i_results c)
  else
    (* the child died (signal / ASan report) inside its last step: the model must have executed the same steps and
       must have seen a use-after-free of the closure by then; what freed memory contains is outside the model *)
    let '(s, tr, st) := model_run c (length (i_trace c)) in
    list_eqb zpair_eqb tr (i_trace c) && (0 <? uaf (g s)).

(* verdict:  0 agree, property holds    1 model and implementation differ (property holds or only known findings)
             2 property violated outside the domains of the known findings
             8 + mask  agree, violated only inside known domains: mask 1 = body start after cancel() returned,
                        2 = closure access after the destructor returned, 4 = body start after an invocation returned false
   + 100 when the model run saw an empty func being called (std::bad_function_call), + 200 when it saw a closure
   use-after-free that is not after the destructor's return (wrapper's func = {} while the closure is in use). *)
Definition judge_tt (c : tcase) : Z :=
  let a := scan (c_rets c) (i_dret c) (i_trace c) in
  let '(s, _, _) := model_run c (if i_status c <? 3 then c_fuel c else length (i_trace c)) in
  let obs := (if 0 <? badcall (g s) then 100 else 0) + (if (0 <? uaf (g s)) && (late_acc (g s) =? 0) then 200 else 0) in
  let mask := b2z (v_cancel a) + 2 * b2z (v_dtor a) + 4 * b2z (v_false a) in
  obs +
  (if o_cancel a || o_dtor a || o_false a || negb (p_runs_ok c) then 2
   else if negb (agrees c) then 1
   else if 0 <? mask then 8 + mask else 0).

(* ---------- native one-sided timing run ----------
   (eps, period, n, steady, calls() after the wait, invocations started, start times relative to the requested first time; ns)
   steady:  invocation k is scheduled for first + k*period, so it must not start before first + k*period - eps;
   normal:  each re-queue uses curTime + period with curTime >= (previous scheduled time) - eps, so invocation k must not
            start before first + k*period - (k+1)*eps.
   verdict: 0 ok; 2 an invocation started too early or more than n invocations; 3 fewer than n completed within the wait
   (inconclusive: the machine was too slow) *)
Fixpoint early_from (eps period : Z) (steady : bool) (k : Z) (ts : list Z) : bool :=
  match ts with
  | [] => false
  | t :: r => (t <? k * period - (if steady then eps else (k + 1) * eps)) || early_from eps period steady (k + 1) r
  end.

Definition judge_native (c : Z * Z * Z * bool * Z * Z * list Z) : Z :=
  let '(eps, period, n, steady, calls, k, ts) := c in
  if early_from eps period steady 0 ts || (n <? k) || (n <? calls) then 2
  else if (k <? n) || (calls <? n) then 3 else 0.
