(* Clock layer over Model/EventModel.v for C20 (timed waits).  The base model lets a timed futex wait time out
   whenever the scheduler says so; here an abstract nanosecond clock is added and a timed wait may time out only
   when the kernel contract allows it: now - (time the futex wait began) >= requested.  Executable; no proofs. *)
From Coq Require Import ZArith List Bool.
From DV Require Import Base.MachInt Base.Sched Model.EventModel.
Import ListNotations.
Local Open Scope Z_scope.

Record tstate := TS {
  base : state;
  now : Z;                          (* abstract clock, ns *)
  tcall : list Z;                   (* per thread: clock value when its current waitFor was entered (first load) *)
  tblock : list Z;                  (* per thread: clock value when its current timed futex wait began *)
  flog : list (Z * Z * bool) }.     (* one entry per waitFor that returned false: (elapsed since call, requested, requested > 0) *)

Inductive tev := Tick (d : Z) | Thr (t : nat).

Definition getz (l : list Z) (t : nat) : Z := nth t l 0.
Arguments getz : simpl never.

(* requested timeout (ns) of thread t's waitFor operations *)
Definition tstep (req : nat -> Z) (s : tstate) (e : tev) (ch : list Z) : option tstate :=
  match e with
  | Tick d => if 0 <=? d then Some (TS (base s) (now s + d) (tcall s) (tblock s) (flog s)) else None
  | Thr t =>
      match nth_error (threads (base s)) t with
      | None => None
      | Some th =>
          match step (base s) t ch with
          | None => None
          | Some (b', _, _) =>
              match tpc th with
              | PWfLoad0 v pos =>
                  let fl := if negb (word (base s) =? v) && negb pos then (0, req t, false) :: flog s else flog s in
                  Some (TS b' (now s) (set_nth (tcall s) t (now s)) (tblock s) fl)
              | PWaitFutex v cur 1 =>
                  Some (TS b' (now s) (tcall s) (set_nth (tblock s) t (now s)) (flog s))
              | PBlocked v 1 =>
                  if getz (tblock s) t + req t <=? now s
                  then Some (TS b' (now s) (tcall s) (tblock s) ((now s - getz (tcall s) t, req t, true) :: flog s))
                  else None
              | _ => Some (TS b' (now s) (tcall s) (tblock s) (flog s))
              end
          end
      end
  end.

Definition tinit (w0 : Z) (progs : list (list op)) : tstate :=
  TS (init w0 true progs) 0 (map (fun _ => 0) progs) (map (fun _ => 0) progs) [].

Fixpoint trun (req : nat -> Z) (s : tstate) (evs : list tev) : option tstate :=
  match evs with
  | [] => Some s
  | e :: r => match tstep req s e [] with Some s' => trun req s' r | None => None end
  end.

(* double seconds -> timespec, on integer nanoseconds (the floating-point truncation itself is outside the model) *)
Definition to_timespec (r : Z) : Z * Z := (Z.quot r 1000000000, Z.rem r 1000000000).

(* Future::wait_for / wait_until: waitCommon(allowInline_) runs the functor on the caller iff ... *)
Definition timed_wait_runs_inline (allowInline : bool) (status : Z) : bool := allowInline && (status =? 0).
Definition untimed_wait_runs_inline (status : Z) : bool := status =? 0.
