(* Executable model of dispenso's static chunking arithmetic (platform.h, par_for_static.h, for_each.h).
   No proofs here.  The leaf functions mirror the source; GenTie/ChunkGenTie.v proves that what the
   translator regenerates from /repo is equal to them. *)
From Coq Require Import ZArith List Bool.
From DV Require Import Base.MachInt.
Import ListNotations.
Local Open Scope Z_scope.

(* result of an arithmetic operation carried out in kind k under the modelling convention:
   unsigned wraps, signed is unbounded (overflow = UB, obligations stated separately) *)
Definition wop (k : ikind) (z : Z) : Z := if ik_signed k then z else wrap (ik_w k) z.

(* static_cast<IntegerT>(a op b) where a, b : IntegerT.  For kinds narrower than int the operation is carried
   out in int and the cast really narrows; for unsigned 32/64 it wraps; for int32/int64 the cast is a no-op and
   an out-of-range result is signed overflow (UB) -- the model then keeps the unbounded value, exactly as the
   translator does, and the theorems carry the no-overflow hypothesis explicitly. *)
Definition acast (k : ikind) (z : Z) : Z := if ik_signed k && (32 <=? ik_w k) then z else castk k z.

(* detail::staticChunkSize : (transitionTaskIndex, ceilChunkSize) *)
Definition static_chunk (items chunks : Z) : Z * Z :=
  let ceil := Z.quot (items + chunks - 1) chunks in
  let numLeft := ceil * chunks - items in
  (chunks - numLeft, ceil).

Definition static_chunk_gran (items chunks g : Z) : Z * Z :=
  if g <=? 1 then static_chunk items chunks
  else
    let gUnits := Z.quot items g in
    let ceilG := Z.quot (gUnits + chunks - 1) chunks in
    let numLeft := ceilG * chunks - gUnits in
    (chunks - numLeft, ceilG * g).

(* size of chunk i as the callers interpret a StaticChunking: ceil for i < transition, ceil - unit after *)
Definition unit_of (g : Z) : Z := if 1 <? g then g else 1.
Definition chunk_len (items chunks g i : Z) : Z :=
  let '(t, c) := static_chunk_gran items chunks g in
  if i <? t then c else c - unit_of g.

(* ChunkedRange<IntegerT>::size() : computed in the 64-bit size_type *)
Definition range_size (k : ikind) (s e : Z) : Z := wop (wide k) (e - s).

(* StaticChunkMapper<IntegerT>::operator()(idx) *)
Definition mapper (k : ikind) (numThreads chunkSize smallChunk transIdx rangeStart rangeEnd idx : Z) : Z * Z :=
  let start :=
    if idx <? transIdx then
      acast k (rangeStart + acast k (castk k idx * chunkSize))
    else
      acast k (rangeStart + acast k (castk k transIdx * chunkSize)
                 + acast k (castk k (wop (wide k) (idx - transIdx)) * smallChunk)) in
  let end_ :=
    if wop (wide k) (idx + 1) =? numThreads then rangeEnd
    else if idx <? transIdx then acast k (start + chunkSize)
    else acast k (start + smallChunk) in
  (start, end_).

(* the mapper configuration that parallel_for_staticImpl builds from a StaticChunking *)
Definition static_mapper_cfg (k : ikind) (size numThreads g : Z) : Z * Z * Z :=   (* chunkSize, smallChunk, transIdx *)
  let '(t, c) := if 1 <? g then static_chunk_gran size numThreads g else static_chunk size numThreads in
  let chunkSize := castk k c in
  let perfect := castk (wide k) t =? numThreads in
  let step := if 1 <? g then castk k g else 1 in
  let smallChunk := acast k (chunkSize - (if perfect then 0 else step)) in
  (chunkSize, smallChunk, if perfect then numThreads else castk (wide k) t).

Definition static_bounds (k : ikind) (s e numThreads g : Z) : list (Z * Z) :=
  let size := range_size k s e in
  let '(cs, sc, ti) := static_mapper_cfg k size numThreads g in
  map (fun i => mapper k numThreads cs sc ti s e (Z.of_nat i)) (seq 0 (Z.to_nat numThreads)).

(* for_each_n (random access): offsets into [0, n) *)
Definition foreach_bounds (n numThreads : Z) : list (Z * Z) :=
  let '(t, c) := static_chunk n numThreads in
  let perfect := t =? numThreads in
  let small := c - (if perfect then 0 else 1) in
  map (fun i => let i := Z.of_nat i in
                let off := if i <? t then i * c else t * c + (i - t) * small in
                (off, off + (if i <? t then c else small)))
      (seq 0 (Z.to_nat numThreads)).

(* a list of [b,e) pairs is a contiguous partition of [s,e) *)
Fixpoint contiguous (s : Z) (l : list (Z * Z)) (e : Z) : Prop :=
  match l with
  | [] => s = e
  | (a, b) :: r => a = s /\ a <= b /\ contiguous b r e
  end.
Fixpoint contiguousb (s : Z) (l : list (Z * Z)) (e : Z) : bool :=
  match l with
  | [] => s =? e
  | (a, b) :: r => (a =? s) && (a <=? b) && contiguousb b r e
  end.
