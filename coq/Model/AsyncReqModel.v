(* Interleaving model of dispenso::AsyncRequest<T> (dispenso/async_request.h) at the granularity of the
   DISPENSO_VERIF_POINT hooks: one step = one atomic access of state_ or one access of obj_.  Executable; no proofs.

     requestUpdate    : CAS(state_, kNone -> kNeedsUpdate)                                      1 step
     updateRequested  : load(state_) == kNeedsUpdate                                            1 step
     tryEmplaceUpdate : CAS(state_, kNeedsUpdate -> kUpdating) [fail: return false];
                        obj_.emplace(v); store(state_, kReady); return true                     1 or 3 steps
     getUpdate        : CAS(state_, kReady -> kUpdating) [fail: return {}]; obj = std::move(obj_);
                        store(state_, kNone); return obj                                        1, 3 or 4 steps
                        (the code after the repair "fix: AsyncRequest::getUpdate must claim the update before moving
                        it"; before it the first step was a plain load(state_) == kReady)

   The move of obj_ is not one atomic access: OpResult's / std::optional's move constructor tests the engaged flag,
   runs T's move constructor (user code; the lockstep harness's T has a scheduling point at its end) and only then
   (detail::OpResult) clears the source's engaged flag.  It is therefore two steps when obj_ is engaged:
     PMove   : read engaged flag + payload (site ar.getUpdate.move)        [not engaged: result {} , go to the store]
     PMoveT  : return from T(T&&); OpResult: obj_.ptr_ = nullptr; std::optional: nothing (site T.moved)

   [keep] selects the OpResult type: true = std::optional (C++17 builds: a moved-from optional stays engaged and, for
   the integer tags used here, keeps its value), false = detail::OpResult (C++14 builds: the move constructor
   disengages the source).  [hist] is a ghost log of the globally ordered successful requests, emplacements and
   value-returning moves; it influences nothing. *)
From Coq Require Import ZArith List Bool.
From DV Require Import Base.MachInt Base.Sched.
Import ListNotations.
Local Open Scope Z_scope.

Inductive op :=
| OReq                 (* requestUpdate() *)
| OUpdReq              (* updateRequested() *)
| OEmplace (v : Z)     (* tryEmplaceUpdate(v) *)
| OGet.                (* getUpdate() *)

Inductive pc :=
| PStart
| PReqCas | PUpdLoad
| PEmpCas (v : Z) | PEmplace (v : Z) | PStoreReady
| PGetCas | PMove | PMoveT (r : option Z) | PStoreNone (r : option Z)
| PDone.

Inductive ev := EvReq | EvEmplace (v : Z) | EvGet (v : Z).

Record thread := TH { tpc : pc; prog : list op; res : list (Z * Z) }.   (* res: (tag, value), newest first *)
Record state := ST { word : Z; obj : option Z; keep : bool; hist : list ev; threads : list thread }.

(* RequestState *)
Definition kNone := 0. Definition kNeedsUpdate := 1. Definition kUpdating := 2. Definition kReady := 3.

(* site ids = positions in props/C24.py SITES *)
Definition s_start := 0.     Definition s_req_cas := 1.   Definition s_upd_load := 2.
Definition s_emp_cas := 3.   Definition s_emp_emplace := 4. Definition s_emp_store := 5.
Definition s_get_cas := 6.  Definition s_get_move := 7.  Definition s_get_store := 8.
Definition s_t_moved := 9.

(* result tags *)
Definition r_updreq := 1. Definition r_emplace := 2. Definition r_get := 3. Definition r_getnone := 4.

Definition entry (o : op) : pc :=
  match o with
  | OReq => PReqCas
  | OUpdReq => PUpdLoad
  | OEmplace v => PEmpCas v
  | OGet => PGetCas
  end.

Definition next (th : thread) : thread :=
  match prog th with
  | [] => TH PDone [] (res th)
  | o :: r => TH (entry o) r (res th)
  end.
Definition goto (th : thread) (p : pc) : thread := TH p (prog th) (res th).
Definition logr (th : thread) (tag v : Z) : thread := TH (tpc th) (prog th) ((tag, v) :: res th).
Definition log_get (th : thread) (r : option Z) : thread :=
  match r with Some v => logr th r_get v | None => logr th r_getnone 0 end.

Fixpoint set_nth {A} (l : list A) (n : nat) (x : A) : list A :=
  match l, n with
  | [], _ => []
  | _ :: r, O => x :: r
  | y :: r, S m => y :: set_nth r m x
  end.

Definition step (s : state) (t : nat) (ch : list Z) : option (state * list Z * Z) :=
  match nth_error (threads s) t with
  | None => None
  | Some th =>
      let w := word s in
      let upd (w' : Z) (o' : option Z) (h' : list ev) (th' : thread) (site : Z) :=
        Some (ST w' o' (keep s) h' (set_nth (threads s) t th'), ch, site) in
      match tpc th with
      | PStart => upd w (obj s) (hist s) (next th) s_start
      | PReqCas =>
          if w =? kNone then upd kNeedsUpdate (obj s) (EvReq :: hist s) (next th) s_req_cas
          else upd w (obj s) (hist s) (next th) s_req_cas
      | PUpdLoad => upd w (obj s) (hist s) (next (logr th r_updreq (b2z (w =? kNeedsUpdate)))) s_upd_load
      | PEmpCas v =>
          if w =? kNeedsUpdate then upd kUpdating (obj s) (hist s) (goto th (PEmplace v)) s_emp_cas
          else upd w (obj s) (hist s) (next (logr th r_emplace 0)) s_emp_cas
      | PEmplace v => upd w (Some v) (EvEmplace v :: hist s) (goto th PStoreReady) s_emp_emplace
      | PStoreReady => upd kReady (obj s) (hist s) (next (logr th r_emplace 1)) s_emp_store
      | PGetCas =>
          if w =? kReady then upd kUpdating (obj s) (hist s) (goto th PMove) s_get_cas
          else upd w (obj s) (hist s) (next (logr th r_getnone 0)) s_get_cas
      | PMove =>
          match obj s with
          | Some v => upd w (obj s) (EvGet v :: hist s) (goto th (PMoveT (Some v))) s_get_move
          | None => upd w (obj s) (hist s) (goto th (PStoreNone None)) s_get_move
          end
      | PMoveT r => upd w (if keep s then obj s else None) (hist s) (goto th (PStoreNone r)) s_t_moved
      | PStoreNone r => upd kNone (obj s) (hist s) (next (log_get th r)) s_get_store
      | PDone => None
      end
  end.

Definition runnable_pc (p : pc) : bool := match p with PDone => false | _ => true end.

Fixpoint tids_where (f : pc -> bool) (ths : list thread) (i : nat) : list nat :=
  match ths with
  | [] => []
  | th :: r => if f (tpc th) then i :: tids_where f r (S i) else tids_where f r (S i)
  end.

Definition cands (s : state) : list nat := tids_where runnable_pc (threads s) 0.
Definition finished (s : state) : bool :=
  forallb (fun th => match tpc th with PDone => true | _ => false end) (threads s).

Definition init (kp : bool) (progs : list (list op)) : state :=
  ST kNone None kp [] (map (fun p => TH PStart p []) progs).

Definition run_ar (fuel : nat) (kp : bool) (progs : list (list op)) (sched : list Z) :=
  run step cands finished fuel (init kp progs) sched [].

(* ---- observables used by the theorems ---- *)
Definition op_tags (o : op) : list Z := match o with OEmplace v => [v] | _ => [] end.
Definition all_tags (progs : list (list op)) : list Z := flat_map (flat_map op_tags) progs.

(* how many times value v was returned by getUpdate calls of a thread / of all threads *)
Definition got_count (v : Z) (l : list (Z * Z)) : Z :=
  Z.of_nat (length (filter (fun e => (fst e =? r_get) && (snd e =? v)) l)).
Fixpoint total {A} (f : A -> Z) (l : list A) : Z :=
  match l with [] => 0 | x :: r => f x + total f r end.
Definition delivered (v : Z) (s : state) : Z := total (fun th => got_count v (res th)) (threads s).
