(* Executable model of dispenso/cpu_set.{h,cpp} (Linux backing): CpuSet over cpu_set_t, parseLinuxCpuList,
   buildGroupsFromCacheTopology.  Definitions only; proofs are in Proofs/C43Proofs.v.

   cpu_set_t (glibc, x86-64) = unsigned long __bits[16]; CPU id i lives in word i / 64, bit i mod 64;
   CPU_SETSIZE = 1024.  A model set is the list of the 16 words (each a Z in [0, 2^64)). *)
From Coq Require Import ZArith List Bool.
Import ListNotations.
Local Open Scope Z_scope.

(* ------------------------------------------------------------------------------------------- the set *)
Definition CAP : Z := 1024.
Definition NWORDS : nat := 16.
Definition cpuset := list Z.

Definition in_cap (i : Z) : bool := (0 <=? i) && (i <? CAP).

Definition cs_empty : cpuset := repeat 0 NWORDS.                     (* CPU_ZERO *)

Fixpoint upd_nth (n : nat) (f : Z -> Z) (l : list Z) : list Z :=
  match l with
  | [] => []
  | x :: r => match n with O => f x :: r | S n' => x :: upd_nth n' f r end
  end.

(* __CPUELT(cpu) = cpu / 64 and the bit position cpu % 64 of __CPUMASK, written the way they are compiled
   (shift / mask; Proofs: widx_eq, bidx_eq show they are the quotient and the remainder) *)
Definition widx (i : Z) : nat := Z.to_nat (Z.shiftr i 6).
Definition bidx (i : Z) : Z := Z.land i 63.

(* CPU_SET / CPU_CLR / CPU_ISSET for an index already known to be in range *)
Definition set_bit (s : cpuset) (i : Z) : cpuset :=
  upd_nth (widx i) (fun w => Z.lor w (Z.shiftl 1 (bidx i))) s.
Definition clr_bit (s : cpuset) (i : Z) : cpuset :=
  upd_nth (widx i) (fun w => Z.ldiff w (Z.shiftl 1 (bidx i))) s.   (* w & ~mask on uint64 *)
Definition test_bit (s : cpuset) (i : Z) : bool :=
  Z.testbit (nth (widx i) s 0) (bidx i).

(* CpuSet::add / remove / contains : range check, then the macro *)
Definition cs_add (s : cpuset) (i : Z) : cpuset := if in_cap i then set_bit s i else s.
Definition cs_remove (s : cpuset) (i : Z) : cpuset := if in_cap i then clr_bit s i else s.
Definition cs_contains (s : cpuset) (i : Z) : bool := if in_cap i then test_bit s i else false.

(* for (i = a; i < a + n; ++i) s = f s i *)
Fixpoint loop_from (f : cpuset -> Z -> cpuset) (n : nat) (i : Z) (s : cpuset) : cpuset :=
  match n with O => s | S n' => loop_from f n' (i + 1) (f s i) end.

(* CpuSet::addRange / removeRange : start = max(start,0); end = min(end, CPU_SETSIZE); loop *)
Definition cs_addRange (s : cpuset) (a b : Z) : cpuset :=
  let a' := Z.max a 0 in let b' := Z.min b CAP in loop_from set_bit (Z.to_nat (b' - a')) a' s.
Definition cs_removeRange (s : cpuset) (a b : Z) : cpuset :=
  let a' := Z.max a 0 in let b' := Z.min b CAP in loop_from clr_bit (Z.to_nat (b' - a')) a' s.

(* CPU_COUNT = sum of the population counts of the words *)
Fixpoint popcount (n : nat) (w : Z) : Z :=
  match n with O => 0 | S n' => (if Z.odd w then 1 else 0) + popcount n' (Z.div2 w) end.
Definition cs_count (s : cpuset) : Z := fold_right (fun w acc => popcount 64 w + acc) 0 s.

Definition cs_wf (s : cpuset) : Prop := length s = NWORDS /\ Forall (fun w => 0 <= w < 2 ^ 64) s.
Definition cs_wfb (s : cpuset) : bool := (length s =? NWORDS)%nat && forallb (fun w => (0 <=? w) && (w <? 2 ^ 64)) s.

(* operation sequences on one CpuSet object *)
Inductive op :=
| OAdd (i : Z) | OAddRange (a b : Z) | ORem (i : Z) | ORemRange (a b : Z) | OClear
| OContains (i : Z) | OCount.

Definition op_apply (s : cpuset) (o : op) : cpuset :=
  match o with
  | OAdd i => cs_add s i | OAddRange a b => cs_addRange s a b
  | ORem i => cs_remove s i | ORemRange a b => cs_removeRange s a b
  | OClear => cs_empty
  | OContains _ | OCount => s
  end.
Definition op_result (s : cpuset) (o : op) : list Z :=            (* what a query returns (bool as 0/1) *)
  match o with
  | OContains i => [if cs_contains s i then 1 else 0]
  | OCount => [cs_count s]
  | _ => []
  end.
Fixpoint run_ops (s : cpuset) (ops : list op) : cpuset * list Z :=
  match ops with
  | [] => (s, [])
  | o :: r => let '(s', res) := run_ops (op_apply s o) r in (s', op_result s o ++ res)
  end.

(* The mathematical set after an operation sequence, most recent operation first: membership of an
   (unbounded) integer in the set built by the operations read as operations on subsets of Z. *)
Fixpoint ref_mem (rops : list op) (i : Z) : bool :=
  match rops with
  | [] => false
  | OAdd a :: r => (i =? a) || ref_mem r i
  | OAddRange a b :: r => ((a <=? i) && (i <? b)) || ref_mem r i
  | ORem a :: r => negb (i =? a) && ref_mem r i
  | ORemRange a b :: r => negb ((a <=? i) && (i <? b)) && ref_mem r i
  | OClear :: _ => false
  | OContains _ :: r | OCount :: r => ref_mem r i
  end.

Fixpoint zrange (a : Z) (n : nat) : list Z := match n with O => [] | S n' => a :: zrange (a + 1) n' end.
Definition all_ids : list Z := zrange 0 1024.
(* cardinality of a predicate on the representable ids *)
Definition card (p : Z -> bool) : Z := Z.of_nat (length (filter p all_ids)).

(* what the queries of an operation sequence must return according to the mathematical set
   (rops = the operations already performed, most recent first) *)
Definition math_mem (rops : list op) (i : Z) : bool := in_cap i && ref_mem rops i.
Fixpoint ref_results (rops : list op) (ops : list op) : list Z :=
  match ops with
  | [] => []
  | o :: r => (match o with
               | OContains i => [if math_mem rops i then 1 else 0]
               | OCount => [card (math_mem rops)]
               | _ => []
               end) ++ ref_results (o :: rops) r
  end.

(* ------------------------------------------------------------------------------------------- the parser *)
(* characters are byte codes 0..255; a C string ends at the first 0 *)
Fixpoint cstr (l : list Z) : list Z :=
  match l with [] => [] | c :: r => if c =? 0 then [] else c :: cstr r end.

Definition is_space (c : Z) : bool := (c =? 32) || ((9 <=? c) && (c <=? 13)).      (* isspace, "C" locale *)
Definition is_digit (c : Z) : bool := (48 <=? c) && (c <=? 57).
Definition CH_MINUS : Z := 45.  Definition CH_PLUS : Z := 43.  Definition CH_COMMA : Z := 44.

Definition LONG_MAX : Z := 2 ^ 63 - 1.
Definition LONG_MIN : Z := - 2 ^ 63.

Fixpoint skip_ws (l : list Z) : list Z :=
  match l with c :: r => if is_space c then skip_ws r else l | [] => [] end.
(* value of the maximal digit prefix *)
Fixpoint digits_acc (acc : Z) (l : list Z) : Z :=
  match l with c :: r => if is_digit c then digits_acc (acc * 10 + (c - 48)) r else acc | [] => acc end.

(* strtol(s, &end, 10): None = no conversion performed (end == s); otherwise the value, saturated to long *)
Definition strtol10 (l : list Z) : option Z :=
  let l1 := skip_ws l in
  let '(neg, l2) := match l1 with
                    | c :: r => if c =? CH_MINUS then (true, r) else if c =? CH_PLUS then (false, r) else (false, l1)
                    | [] => (false, l1)
                    end in
  match l2 with
  | c :: _ => if is_digit c
              then let v := digits_acc 0 l2 in Some (if neg then Z.max LONG_MIN (- v) else Z.min LONG_MAX v)
              else None
  | [] => None
  end.

Definition kMaxReasonableCpuId : Z := 2 ^ 20.
Definition parseIntClamped (l : list Z) : Z :=
  match strtol10 l with
  | None => -1
  | Some v => if (v <? 0) || (kMaxReasonableCpuId <? v) then -1 else v
  end.

(* strchr: split at the first occurrence of c *)
Fixpoint split_first (c : Z) (l : list Z) : option (list Z * list Z) :=
  match l with
  | [] => None
  | x :: r => if x =? c then Some ([], r)
              else match split_first c r with Some (a, b) => Some (x :: a, b) | None => None end
  end.

Definition parseAndAddRange (buf : list Z) (set : cpuset) : cpuset :=
  match buf with
  | [] => set
  | _ => match split_first CH_MINUS buf with
         | Some (a, b) =>
             let lo := parseIntClamped a in let hi := parseIntClamped b in
             if (0 <=? lo) && (0 <=? hi) then cs_addRange set lo (hi + 1) else set
         | None => let v := parseIntClamped buf in if 0 <=? v then cs_add set v else set
         end
  end.

(* the pieces between commas, in order (never the empty list of pieces) *)
Fixpoint split_on (c : Z) (l : list Z) : list (list Z) :=
  match l with
  | [] => [[]]
  | x :: r => match split_on c r with
              | h :: t => if x =? c then [] :: h :: t else (x :: h) :: t
              | [] => [[]]
              end
  end.

Definition parseLinuxCpuList (input : list Z) : cpuset :=
  fold_left (fun set buf => parseAndAddRange buf set) (split_on CH_COMMA (cstr input)) cs_empty.

(* what one comma-separated piece contributes, for ANY piece (well- or malformed) *)
Definition piece_mem (buf : list Z) (i : Z) : bool :=
  match buf with
  | [] => false
  | _ => match split_first CH_MINUS buf with
         | Some (a, b) =>
             let lo := parseIntClamped a in let hi := parseIntClamped b in
             (0 <=? lo) && (0 <=? hi) && (lo <=? i) && (i <=? hi)
         | None => let v := parseIntClamped buf in (0 <=? v) && (i =? v)
         end
  end.

(* the grammar  list ::= item ("," item)* ;  item ::= n | n "-" m ;  n, m non-empty decimal digit strings *)
Inductive item := ISingle (n : list Z) | IRange (n m : list Z).
Definition digitsb (ds : list Z) : bool := negb (match ds with [] => true | _ => false end) && forallb is_digit ds.
Definition item_okb (it : item) : bool :=
  match it with ISingle n => digitsb n | IRange n m => digitsb n && digitsb m end.
Definition render_item (it : item) : list Z :=
  match it with ISingle n => n | IRange n m => n ++ CH_MINUS :: m end.
Fixpoint render_list (its : list item) : list Z :=
  match its with
  | [] => []
  | [it] => render_item it
  | it :: r => render_item it ++ CH_COMMA :: render_list r
  end.
Definition dval (ds : list Z) : Z := digits_acc 0 ds.          (* the number a digit string denotes *)
Definition item_mem (it : item) (i : Z) : bool :=
  match it with ISingle n => i =? dval n | IRange n m => (dval n <=? i) && (i <=? dval m) end.
Definition denotes (its : list item) (i : Z) : bool := existsb (fun it => item_mem it i) its.
(* the domain of the finding: a range that starts at a representable id but whose end exceeds the
   parser's sanity bound 2^20 is dropped as a whole *)
Definition item_lossy (it : item) : bool :=
  match it with ISingle _ => false | IRange n m => (dval n <? CAP) && (kMaxReasonableCpuId <? dval m) end.
Definition list_lossy (its : list item) : bool := existsb item_lossy its.

(* ------------------------------------------------------------------------------------------- grouping *)
(* a CacheGroup is its cpu list (cacheId is not read by the algorithm) *)
Definition memb (c : Z) (l : list Z) : bool := existsb (Z.eqb c) l.

(* buildCpuToL3Map + l3IndexForCpu: index of the LAST L3 group listing the cpu, -1 if none *)
Fixpoint l3_index_from (g : Z) (l3s : list (list Z)) (cpu : Z) : Z :=
  match l3s with
  | [] => -1
  | grp :: r => let rest := l3_index_from (g + 1) r cpu in
                if 0 <=? rest then rest else if memb cpu grp then g else -1
  end.
Definition l3_index (l3s : list (list Z)) (cpu : Z) : Z := l3_index_from 0 l3s cpu.

Fixpoint insert_sorted (x : Z) (l : list Z) : list Z :=
  match l with [] => [x] | y :: r => if x <=? y then x :: l else y :: insert_sorted x r end.
Definition isort (l : list Z) : list Z := fold_right insert_sorted [] l.          (* std::sort on int32 *)

Definition zlen (l : list Z) : Z := Z.of_nat (length l).
Definition largest (gs : list (list Z)) : Z := fold_left (fun m g => Z.max m (zlen g)) gs 0.

Record gstate := GS { g_out : list (list Z); g_pending : list Z; g_cur : Z }.

Definition flush (pending : list Z) (out : list (list Z)) : list (list Z) :=
  match pending with [] => out | _ => out ++ [isort pending] end.

Definition gstep (l3s : list (list Z)) (maxG : Z) (st : gstate) (l2 : list Z) : gstate :=
  match l2 with
  | [] => st
  | c0 :: _ =>
      let l2L3 := l3_index l3s c0 in
      let crosses := negb (l2L3 =? g_cur st) && (0 <=? g_cur st) in
      let exceeds := maxG <? zlen (g_pending st) + zlen l2 in
      if crosses || exceeds
      then GS (flush (g_pending st) (g_out st)) l2 l2L3
      else GS (g_out st) (g_pending st ++ l2) l2L3
  end.

Definition buildGroups (l2s l3s : list (list Z)) (maxGroupSize : Z) : list (list Z) :=
  let maxG := Z.max maxGroupSize (largest l2s) in
  let st := fold_left (gstep l3s maxG) l2s (GS [] [] (-1)) in
  flush (g_pending st) (g_out st).

(* ThreadGroup::affinityMask = cpuSetFromIds(cpus) *)
Definition cs_from_ids (cpus : list Z) : cpuset := fold_left cs_add cpus cs_empty.
