(* Private lifetime theory for the SmallVector model (C38): cells of raw storage with an object-lifetime state,
   a ledger (constructor / destructor counters, heap blocks with a live bit) and an error monad whose errors
   ARE the lifetime violations (constructing over a live object, destroying / reading a dead one, freeing twice,
   releasing storage that still holds a live object).  Executable Gallina only, no proofs.
   Memory is block-structured: an element is identified by (storage block, index); two distinct allocations
   never overlap (allocator contract), addresses only matter for alignment. *)
From Coq Require Import ZArith List Bool.
Import ListNotations.
Local Open Scope Z_scope.

(* one T-sized slot of storage: no object / a live object with value v / a live moved-from object *)
Inductive cell := Raw | Alive (v : Z) | Moved.

Inductive err :=
| EDoubleCtor   (* placement-new over a live object *)
| EDtorDead     (* destructor call on storage without a live object *)
| EReadDead     (* read through a reference to a destroyed object (storage still there) *)
| EReadFreed    (* read through a reference into a freed block *)
| EReadMoved    (* value of a moved-from object used *)
| EAssignDead   (* assignment to storage without a live object *)
| EOob          (* access outside the storage block *)
| EDoubleFree   (* operator delete on a block that is not live *)
| ELeak         (* storage released / vector object gone while it still holds a live object *)
| EPrecond      (* the std::vector precondition of the operation is violated (pop_back on empty, erase(end())) *)
| EBadSlot.     (* test-driver error: operation on a vector object that does not exist / already exists *)

Inductive res (A : Type) := Ok (a : A) | Err (e : err).
Arguments Ok {A} a.
Arguments Err {A} e.

Record blk := mkBlk { b_base : Z; b_bytes : Z; b_live : bool }.
Record ledger := mkLed { nctor : Z; ndtor : Z; blocks : list blk }.

Definition M (A : Type) := ledger -> res (A * ledger).
Definition ret {A} (a : A) : M A := fun g => Ok (a, g).
Definition fail {A} (e : err) : M A := fun _ => Err e.
Definition bind {A B} (m : M A) (f : A -> M B) : M B :=
  fun g => match m g with Ok (a, g') => f a g' | Err e => Err e end.
Notation "x <- m ;; f" := (bind m (fun x => f)) (at level 61, m at next level, right associativity).

Fixpoint upd {A} (l : list A) (i : nat) (x : A) : list A :=
  match l, i with
  | [], _ => []
  | _ :: r, O => x :: r
  | y :: r, S i' => y :: upd r i' x
  end.

Definition ctor_inc (g : ledger) := mkLed (nctor g + 1) (ndtor g) (blocks g).
Definition dtor_inc (g : ledger) := mkLed (nctor g) (ndtor g + 1) (blocks g).

(* objects constructed and destroyed by the CLIENT around a call (temporaries bound to const T& / T&&) *)
Definition client_tmp (n : Z) : M unit := fun g => Ok (tt, mkLed (nctor g + n) (ndtor g + n) (blocks g)).

(* new (l + i) T(v) *)
Definition construct (l : list cell) (i : nat) (v : Z) : M (list cell) :=
  match nth_error l i with
  | Some Raw => fun g => Ok (upd l i (Alive v), ctor_inc g)
  | Some _ => fail EDoubleCtor
  | None => fail EOob
  end.

(* l[i].~T() *)
Definition destroy (l : list cell) (i : nat) : M (list cell) :=
  match nth_error l i with
  | Some Raw => fail EDtorDead
  | Some _ => fun g => Ok (upd l i Raw, dtor_inc g)
  | None => fail EOob
  end.

(* value of l[i] *)
Definition readv (l : list cell) (i : nat) : M Z :=
  match nth_error l i with
  | Some (Alive v) => ret v
  | Some Moved => fail EReadMoved
  | Some Raw => fail EReadDead
  | None => fail EOob
  end.

(* std::move(l[i]) consumed by a move constructor / move assignment: value out, l[i] stays alive as moved-from *)
Definition take (l : list cell) (i : nat) : M (Z * list cell) :=
  v <- readv l i ;; ret (v, upd l i Moved).

(* l[i] = v  (assignment to a live object) *)
Definition assign (l : list cell) (i : nat) (v : Z) : M (list cell) :=
  match nth_error l i with
  | Some Raw => fail EAssignDead
  | Some _ => ret (upd l i (Alive v))
  | None => fail EOob
  end.

Definition is_raw (c : cell) : bool := match c with Raw => true | _ => false end.
Definition all_raw (l : list cell) : bool := forallb is_raw l.

(* for (i = i0; i < i0 + n; ++i) { new (dst + i) T(std::move(src[i])); src[i].~T(); } *)
Fixpoint move_loop (n i : nat) (src dst : list cell) : M (list cell * list cell) :=
  match n with
  | O => ret (src, dst)
  | S n' =>
      r <- take src i ;;
      dst1 <- construct dst i (fst r) ;;
      src2 <- destroy (snd r) i ;;
      move_loop n' (S i) src2 dst1
  end.

(* for (i = i0; i < i0 + n; ++i) l[i].~T(); *)
Fixpoint destroy_loop (n i : nat) (l : list cell) : M (list cell) :=
  match n with
  | O => ret l
  | S n' => l1 <- destroy l i ;; destroy_loop n' (S i) l1
  end.

(* for (i = i0; i < i0 + n; ++i) new (l + i) T(v); *)
Fixpoint fill_loop (n i : nat) (v : Z) (l : list cell) : M (list cell) :=
  match n with
  | O => ret l
  | S n' => l1 <- construct l i v ;; fill_loop n' (S i) v l1
  end.

(* for (i = i0; i < i0 + n; ++i) l[i] = std::move(l[i + 1]); *)
Fixpoint shift_loop (n i : nat) (l : list cell) : M (list cell) :=
  match n with
  | O => ret l
  | S n' =>
      r <- take l (S i) ;;
      l2 <- assign (snd r) i (fst r) ;;
      shift_loop n' (S i) l2
  end.

(* ::operator new(bytes): the oracle [alloc] maps (allocation counter, bytes) to the base address *)
Definition new_block (alloc : nat -> Z -> Z) (bytes : Z) : M nat :=
  fun g => let id := length (blocks g) in
           Ok (id, mkLed (nctor g) (ndtor g) (blocks g ++ [mkBlk (alloc id bytes) bytes true])).

(* ::operator delete(block id) *)
Definition free_block (id : nat) : M unit :=
  fun g => match nth_error (blocks g) id with
           | Some b => if b_live b
                       then Ok (tt, mkLed (nctor g) (ndtor g) (upd (blocks g) id (mkBlk (b_base b) (b_bytes b) false)))
                       else Err EDoubleFree
           | None => Err EDoubleFree
           end.

Definition cell_val (c : cell) : Z := match c with Alive v => v | Moved => -1 | Raw => -2 end.
