Base/MachInt.vo Base/MachInt.glob Base/MachInt.v.beautified Base/MachInt.required_vo: Base/MachInt.v 
Base/MachInt.vio: Base/MachInt.v 
Base/MachInt.vos Base/MachInt.vok Base/MachInt.required_vos: Base/MachInt.v 
Model/ChunkModel.vo Model/ChunkModel.glob Model/ChunkModel.v.beautified Model/ChunkModel.required_vo: Model/ChunkModel.v Base/MachInt.vo
Model/ChunkModel.vio: Model/ChunkModel.v Base/MachInt.vio
Model/ChunkModel.vos Model/ChunkModel.vok Model/ChunkModel.required_vos: Model/ChunkModel.v Base/MachInt.vos
Proofs/ChunkProofs.vo Proofs/ChunkProofs.glob Proofs/ChunkProofs.v.beautified Proofs/ChunkProofs.required_vo: Proofs/ChunkProofs.v Base/MachInt.vo Model/ChunkModel.vo
Proofs/ChunkProofs.vio: Proofs/ChunkProofs.v Base/MachInt.vio Model/ChunkModel.vio
Proofs/ChunkProofs.vos Proofs/ChunkProofs.vok Proofs/ChunkProofs.required_vos: Proofs/ChunkProofs.v Base/MachInt.vos Model/ChunkModel.vos
Proofs/StaticBoundsProofs.vo Proofs/StaticBoundsProofs.glob Proofs/StaticBoundsProofs.v.beautified Proofs/StaticBoundsProofs.required_vo: Proofs/StaticBoundsProofs.v Base/MachInt.vo Model/ChunkModel.vo Proofs/ChunkProofs.vo
Proofs/StaticBoundsProofs.vio: Proofs/StaticBoundsProofs.v Base/MachInt.vio Model/ChunkModel.vio Proofs/ChunkProofs.vio
Proofs/StaticBoundsProofs.vos Proofs/StaticBoundsProofs.vok Proofs/StaticBoundsProofs.required_vos: Proofs/StaticBoundsProofs.v Base/MachInt.vos Model/ChunkModel.vos Proofs/ChunkProofs.vos
Gen/GenChunk.vo Gen/GenChunk.glob Gen/GenChunk.v.beautified Gen/GenChunk.required_vo: Gen/GenChunk.v Base/MachInt.vo
Gen/GenChunk.vio: Gen/GenChunk.v Base/MachInt.vio
Gen/GenChunk.vos Gen/GenChunk.vok Gen/GenChunk.required_vos: Gen/GenChunk.v Base/MachInt.vos
GenTie/ChunkGenTie.vo GenTie/ChunkGenTie.glob GenTie/ChunkGenTie.v.beautified GenTie/ChunkGenTie.required_vo: GenTie/ChunkGenTie.v Base/MachInt.vo Model/ChunkModel.vo Proofs/ChunkProofs.vo Gen/GenChunk.vo
GenTie/ChunkGenTie.vio: GenTie/ChunkGenTie.v Base/MachInt.vio Model/ChunkModel.vio Proofs/ChunkProofs.vio Gen/GenChunk.vio
GenTie/ChunkGenTie.vos GenTie/ChunkGenTie.vok GenTie/ChunkGenTie.required_vos: GenTie/ChunkGenTie.v Base/MachInt.vos Model/ChunkModel.vos Proofs/ChunkProofs.vos Gen/GenChunk.vos
