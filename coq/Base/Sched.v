(* Generic interleaving semantics driven by a schedule, shared by the lockstep models (DESIGN §4 "L").
   A system is a step function: [step s t ch] executes the next atomic action of thread [t] in state [s];
   [ch] is the remaining list of oracle/schedule integers (a step may consume some, e.g. a futex wake that
   must pick which waiters to wake); the result carries the id of the site that executed.
   [cands s] lists the threads the scheduler may pick, in ascending order (mirrors harness/vsched.h). *)
From Coq Require Import ZArith List Bool Lia.
Import ListNotations.
Local Open Scope Z_scope.

Inductive status := SDone | SDeadlock | SBudget | SStuck.
Definition status_code (x : status) : Z := match x with SDone => 0 | SDeadlock => 1 | SBudget => 2 | SStuck => 3 end.

Section Sched.
  Context {St : Type}.
  Variable step : St -> nat -> list Z -> option (St * list Z * Z).
  Variable cands : St -> list nat.
  Variable finished : St -> bool.          (* every thread has finished *)

  (* states reachable from s0 by any thread choices and any oracle integers *)
  Inductive reach (s0 : St) : St -> Prop :=
  | reach_refl : reach s0 s0
  | reach_step s t ch s' ch' site : reach s0 s -> step s t ch = Some (s', ch', site) -> reach s0 s'.

  Lemma reach_inv (Inv : St -> Prop) s0 :
    Inv s0 -> (forall s t ch s' ch' site, Inv s -> step s t ch = Some (s', ch', site) -> Inv s') ->
    forall s, reach s0 s -> Inv s.
  Proof. intros H0 Hs s R. induction R as [|s t ch s' ch' site R IH E]; [exact H0 | eapply Hs; eauto]. Qed.

  Lemma reach_trans s0 s1 s2 : reach s0 s1 -> reach s1 s2 -> reach s0 s2.
  Proof. intros R1 R2. induction R2 as [|s t ch s' ch' site R IH E]; [exact R1 | eapply reach_step; eauto]. Qed.

  (* the executable scheduler: decision c picks cands[c mod |cands|]; trace of (tid, site) *)
  Fixpoint run (fuel : nat) (s : St) (ch : list Z) (tr : list (Z * Z)) : St * list (Z * Z) * status :=
    match fuel with
    | O => (s, rev tr, SBudget)
    | S fuel' =>
        if finished s then (s, rev tr, SDone) else
        match cands s with
        | [] => (s, rev tr, SDeadlock)
        | (c0 :: _) as cs =>
            match ch with
            | [] => (s, rev tr, SBudget)
            | c :: ch1 =>
                let t := nth (Z.to_nat (c mod Z.of_nat (length cs))) cs c0 in
                match step s t ch1 with
                | None => (s, rev tr, SStuck)
                | Some (s', ch2, site) => run fuel' s' ch2 ((Z.of_nat t, site) :: tr)
                end
            end
        end
    end.

  Lemma run_reach fuel : forall s ch tr s0, reach s0 s -> reach s0 (fst (fst (run fuel s ch tr))).
  Proof.
    induction fuel as [|fuel IH]; intros s ch tr s0 R; cbn [run]; [exact R|].
    destruct (finished s); [exact R|].
    destruct (cands s) as [|c0 cs]; [exact R|].
    destruct ch as [|c ch1]; [exact R|].
    destruct (step s _ ch1) as [[[s' ch2] site]|] eqn:E; [|exact R].
    apply IH. eapply reach_step; eauto.
  Qed.
End Sched.
