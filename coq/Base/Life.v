(* Base/Life.v -- shared lifetime theory (C++ mirror: harness/life.h).

   A LEDGER records, for every object id, where the object is in its life:

        Unborn --construct--> Alive --move_from--> MovedFrom --destroy--> Dead --construct--> Alive ...
                                 \______________destroy_______________/

   (a moved-from object is still alive in the C++ sense: it still needs exactly one destructor call), together
   with counters (constructions by kind, assignments by kind, destructor calls) and the list of MISUSES seen so
   far.  Operations are total: a misuse is LOGGED ([l_errs], newest first) and the run continues the way the real
   program would (the destructor still runs, the placement-new still happens), so a model of code that has a bug
   keeps describing what that code does.  "The run returned [Err kind]" is [status l = LErr kind id];
   theorems state [ok l] (no misuse) and [balanced l] (nothing left that needs a destructor).

   Object ids are [Z] and are chosen by the client model: storage slots (an object constructed in the same
   storage after the previous one died re-uses the id: this is what the address-keyed registry of
   [life::L] does) or serial numbers (what [life::S] does for bitwise-relocated objects).
   A second ledger instance serves as a heap of blocks (id = block, construct = allocate, destroy = free:
   double free, free of a never-allocated block and leaked blocks are then the corresponding ledger errors).

   Nothing in this file is specific to one property. *)
From Coq Require Import ZArith List Bool Lia.
Import ListNotations.
Local Open Scope Z_scope.

Inductive lstate := Unborn | Alive | MovedFrom | Dead.

Inductive lerr :=
| ConstructOverLive   (* placement-new / allocation over an object that still needs its destructor *)
| DoubleDestroy       (* destructor / free on a Dead object *)
| DestroyUnborn       (* destructor / free on something never constructed *)
| UseDead             (* read, move-from or assignment involving a destroyed object *)
| UseUnborn.          (* read, move-from or assignment involving a never-constructed object *)

(* how an object came to be / how it was assigned *)
Inductive ckind := KValue | KCopy | KMove.

Record counters := mkCnt {
  c_value : Z; c_copy : Z; c_move : Z;     (* constructions by kind *)
  c_cassign : Z; c_massign : Z;            (* assignments by kind *)
  c_dtor : Z                               (* destructor calls, erroneous ones included *)
}.

Record ledger := mkLedger {
  l_reg : list (Z * lstate);               (* association list, first binding wins; absent = Unborn *)
  l_cnt : counters;
  l_errs : list (lerr * Z)                 (* misuses, newest first, with the object id *)
}.

Definition cnt0 : counters := mkCnt 0 0 0 0 0 0.
Definition ledger0 : ledger := mkLedger [] cnt0 [].

(* ---------------------------------------------------------------------------------------------- registry *)
Fixpoint rget (r : list (Z * lstate)) (id : Z) : lstate :=
  match r with
  | [] => Unborn
  | (k, s) :: t => if k =? id then s else rget t id
  end.

(* replace the first binding of [id], append one if there is none (so keys stay duplicate-free) *)
Fixpoint rset (r : list (Z * lstate)) (id : Z) (s : lstate) : list (Z * lstate) :=
  match r with
  | [] => [(id, s)]
  | (k, s0) :: t => if k =? id then (k, s) :: t else (k, s0) :: rset t id s
  end.

Definition lget (l : ledger) (id : Z) : lstate := rget (l_reg l) id.

(* still needs a destructor call *)
Definition is_live (s : lstate) : bool := match s with Alive | MovedFrom => true | _ => false end.
Definition lstate_eqb (a b : lstate) : bool :=
  match a, b with Unborn, Unborn | Alive, Alive | MovedFrom, MovedFrom | Dead, Dead => true | _, _ => false end.
Definition lerr_eqb (a b : lerr) : bool :=
  match a, b with
  | ConstructOverLive, ConstructOverLive | DoubleDestroy, DoubleDestroy | DestroyUnborn, DestroyUnborn
  | UseDead, UseDead | UseUnborn, UseUnborn => true
  | _, _ => false
  end.

Fixpoint rcount (p : lstate -> bool) (r : list (Z * lstate)) : Z :=
  match r with [] => 0 | (_, s) :: t => (if p s then 1 else 0) + rcount p t end.

(* number of objects that still need a destructor call / that are in the moved-from state *)
Definition live_count (l : ledger) : Z := rcount is_live (l_reg l).
Definition moved_count (l : ledger) : Z := rcount (lstate_eqb MovedFrom) (l_reg l).

(* ---------------------------------------------------------------------------------------------- counters *)
Definition n_ctor (l : ledger) : Z := c_value (l_cnt l) + c_copy (l_cnt l) + c_move (l_cnt l).
Definition n_dtor (l : ledger) : Z := c_dtor (l_cnt l).
Definition count_err (e : lerr) (l : ledger) : Z :=
  Z.of_nat (length (filter (fun x => lerr_eqb e (fst x)) (l_errs l))).

Definition bump_ctor (k : ckind) (c : counters) : counters :=
  match k with
  | KValue => mkCnt (c_value c + 1) (c_copy c) (c_move c) (c_cassign c) (c_massign c) (c_dtor c)
  | KCopy => mkCnt (c_value c) (c_copy c + 1) (c_move c) (c_cassign c) (c_massign c) (c_dtor c)
  | KMove => mkCnt (c_value c) (c_copy c) (c_move c + 1) (c_cassign c) (c_massign c) (c_dtor c)
  end.
(* KValue is not an assignment kind; it is counted as a copy assignment *)
Definition bump_assign (k : ckind) (c : counters) : counters :=
  match k with
  | KMove => mkCnt (c_value c) (c_copy c) (c_move c) (c_cassign c) (c_massign c + 1) (c_dtor c)
  | _ => mkCnt (c_value c) (c_copy c) (c_move c) (c_cassign c + 1) (c_massign c) (c_dtor c)
  end.
Definition bump_dtor (c : counters) : counters :=
  mkCnt (c_value c) (c_copy c) (c_move c) (c_cassign c) (c_massign c) (c_dtor c + 1).

Definition log_err (e : lerr) (id : Z) (l : ledger) : ledger :=
  mkLedger (l_reg l) (l_cnt l) ((e, id) :: l_errs l).
Definition set_state (id : Z) (s : lstate) (l : ledger) : ledger :=
  mkLedger (rset (l_reg l) id s) (l_cnt l) (l_errs l).
Definition with_cnt (f : counters -> counters) (l : ledger) : ledger :=
  mkLedger (l_reg l) (f (l_cnt l)) (l_errs l).

(* ---------------------------------------------------------------------------------------------- operations *)
(* a constructor of kind k runs on storage id *)
Definition construct (k : ckind) (id : Z) (l : ledger) : ledger :=
  let l1 := if is_live (lget l id) then log_err ConstructOverLive id l else l in
  set_state id Alive (with_cnt (bump_ctor k) l1).

(* a destructor runs on id *)
Definition destroy (id : Z) (l : ledger) : ledger :=
  let l1 := with_cnt bump_dtor l in
  match lget l id with
  | Alive | MovedFrom => set_state id Dead l1
  | Dead => log_err DoubleDestroy id l1
  | Unborn => log_err DestroyUnborn id l1
  end.

(* id is the source of a move construction / move assignment *)
Definition move_from (id : Z) (l : ledger) : ledger :=
  match lget l id with
  | Alive | MovedFrom => set_state id MovedFrom l
  | Dead => log_err UseDead id l
  | Unborn => log_err UseUnborn id l
  end.

(* id is read (copy source, value access) *)
Definition use (id : Z) (l : ledger) : ledger :=
  match lget l id with
  | Alive | MovedFrom => l
  | Dead => log_err UseDead id l
  | Unborn => log_err UseUnborn id l
  end.

(* id is the target of an assignment of kind k (a moved-from object becomes Alive again) *)
Definition assign_to (k : ckind) (id : Z) (l : ledger) : ledger :=
  let l1 := with_cnt (bump_assign k) l in
  match lget l id with
  | Alive | MovedFrom => set_state id Alive l1
  | Dead => log_err UseDead id l1
  | Unborn => log_err UseUnborn id l1
  end.

(* ---------------------------------------------------------------------------------------------- verdicts *)
Inductive lresult := LOk | LErr (e : lerr) (id : Z).
(* the first misuse of the run, if any *)
Definition status (l : ledger) : lresult :=
  match rev (l_errs l) with [] => LOk | (e, id) :: _ => LErr e id end.

Definition ok (l : ledger) : Prop := l_errs l = [].
Definition okb (l : ledger) : bool := match l_errs l with [] => true | _ => false end.

(* nothing is left that needs a destructor call: "balanced at the end" *)
Definition balanced (l : ledger) : Prop := forall id, is_live (lget l id) = false.
Definition balancedb (l : ledger) : bool := live_count l =? 0.

(* the numbers life::Ledger::line() prints, in the same order (without the two address counters):
   cv cc cm ac am d live moved e0..e4 *)
Definition ledger_obs (l : ledger) : list Z :=
  [c_value (l_cnt l); c_copy (l_cnt l); c_move (l_cnt l); c_cassign (l_cnt l); c_massign (l_cnt l); c_dtor (l_cnt l);
   live_count l; moved_count l;
   count_err ConstructOverLive l; count_err DoubleDestroy l; count_err DestroyUnborn l; count_err UseDead l;
   count_err UseUnborn l].

(* ============================================================================================== lemmas *)

Lemma rget_rset_same r id s : rget (rset r id s) id = s.
Proof.
  induction r as [|[k s0] t IH]; simpl.
  - rewrite Z.eqb_refl. reflexivity.
  - destruct (k =? id) eqn:E; simpl; rewrite E; auto.
Qed.

Lemma rget_rset_other r id id' s : id <> id' -> rget (rset r id s) id' = rget r id'.
Proof.
  intros Hne. induction r as [|[k s0] t IH]; simpl.
  - destruct (id =? id') eqn:E; [apply Z.eqb_eq in E; contradiction | reflexivity].
  - destruct (k =? id) eqn:E; simpl.
    + apply Z.eqb_eq in E. subst k. destruct (id =? id') eqn:E2; [apply Z.eqb_eq in E2; contradiction | reflexivity].
    + destruct (k =? id'); auto.
Qed.

Lemma rget_rset r id id' s : rget (rset r id s) id' = if id =? id' then s else rget r id'.
Proof.
  destruct (id =? id') eqn:E.
  - apply Z.eqb_eq in E. subst. apply rget_rset_same.
  - apply Z.eqb_neq in E. apply rget_rset_other. exact E.
Qed.

Definition b2z (b : bool) : Z := if b then 1 else 0.

(* effect of an update on the number of live objects *)
Lemma rcount_rset_live r id s :
  rcount is_live (rset r id s) = rcount is_live r - b2z (is_live (rget r id)) + b2z (is_live s).
Proof.
  induction r as [|[k s0] t IH]; simpl.
  - unfold b2z. destruct (is_live s); lia.
  - destruct (k =? id) eqn:E; simpl.
    + unfold b2z. destruct (is_live s0), (is_live s); lia.
    + rewrite IH. lia.
Qed.

Lemma rcount_nonneg p r : 0 <= rcount p r.
Proof. induction r as [|[k s] t IH]; simpl; [lia | destruct (p s); lia]. Qed.

Lemma live_count_nonneg l : 0 <= live_count l.
Proof. apply rcount_nonneg. Qed.

(* no live entry at all => every lookup is non-live *)
Lemma rcount_zero_get r id : rcount is_live r = 0 -> is_live (rget r id) = false.
Proof.
  induction r as [|[k s] t IH]; simpl; intros H; [reflexivity|].
  pose proof (rcount_nonneg is_live t) as P.
  destruct (is_live s) eqn:Es; [lia|].
  destruct (k =? id); [exact Es | apply IH; lia].
Qed.

Lemma balancedb_sound l : balancedb l = true -> balanced l.
Proof. unfold balancedb, balanced, live_count, lget. intros H id. apply Z.eqb_eq in H. apply rcount_zero_get. exact H. Qed.

(* keys of the registry are duplicate-free in every ledger built from ledger0 by the operations *)
Definition reg_wf (r : list (Z * lstate)) : Prop := NoDup (map fst r).

Lemma rset_keys_in r id s k : In k (map fst (rset r id s)) -> k = id \/ In k (map fst r).
Proof.
  induction r as [|[k0 s0] t IH]; simpl.
  - intros [H|[]]; auto.
  - destruct (k0 =? id) eqn:E; simpl; intros [H|H]; auto.
    destruct (IH H); auto.
Qed.

Lemma rset_wf r id s : reg_wf r -> reg_wf (rset r id s).
Proof.
  unfold reg_wf. induction r as [|[k0 s0] t IH]; simpl; intros H.
  - constructor; [intros [] | constructor].
  - inversion H as [|x xs Hn Hd]; subst. destruct (k0 =? id) eqn:E; simpl.
    + constructor; assumption.
    + constructor; [|apply IH; exact Hd].
      intros Hin. apply rset_keys_in in Hin. destruct Hin as [Hk|Hk]; [|contradiction].
      apply Z.eqb_neq in E. contradiction.
Qed.

Lemma rget_in r id : reg_wf r -> forall s, In (id, s) r -> rget r id = s.
Proof.
  unfold reg_wf. induction r as [|[k0 s0] t IH]; simpl; intros H s Hin; [contradiction|].
  inversion H as [|x xs Hn Hd]; subst. destruct Hin as [Heq|Hin].
  - inversion Heq; subst. rewrite Z.eqb_refl. reflexivity.
  - destruct (k0 =? id) eqn:E.
    + apply Z.eqb_eq in E. subst. exfalso. apply Hn. apply in_map_iff. exists (id, s). auto.
    + apply IH; assumption.
Qed.

Lemma balanced_rcount r : reg_wf r -> (forall id, is_live (rget r id) = false) -> rcount is_live r = 0.
Proof.
  induction r as [|[k0 s0] t IH]; simpl; intros H Hb; [reflexivity|].
  inversion H as [|x xs Hn Hd]; subst.
  pose proof (Hb k0) as H0. simpl in H0. rewrite Z.eqb_refl in H0. rewrite H0.
  rewrite IH; [lia | exact Hd |].
  intros id. specialize (Hb id). simpl in Hb. destruct (k0 =? id) eqn:E; [|exact Hb].
  apply Z.eqb_eq in E. subst id.
  (* k0 does not occur in t: rget t k0 = Unborn *)
  clear -Hn. induction t as [|[k s] t IH]; simpl; [reflexivity|].
  destruct (k =? k0) eqn:E.
  - apply Z.eqb_eq in E. subst k. exfalso. apply Hn. simpl. auto.
  - apply IH. intros Hin. apply Hn. simpl. auto.
Qed.

Definition ledger_wf (l : ledger) : Prop := reg_wf (l_reg l).

Lemma balanced_complete l : ledger_wf l -> balanced l -> balancedb l = true.
Proof. unfold balancedb, balanced, live_count, lget, ledger_wf. intros W B. apply Z.eqb_eq. apply balanced_rcount; assumption. Qed.

(* ---- the accounting invariant: constructions - destructor calls = objects that still need a destructor,
        corrected by the logged misuses *)
Definition accounted (l : ledger) : Prop :=
  n_ctor l - n_dtor l =
  live_count l + count_err ConstructOverLive l - count_err DoubleDestroy l - count_err DestroyUnborn l.

Definition linv (l : ledger) : Prop := ledger_wf l /\ accounted l.

Lemma linv0 : linv ledger0.
Proof. split; [constructor | reflexivity]. Qed.

Ltac life_unf :=
  unfold accounted, n_ctor, n_dtor, live_count, count_err, lget, log_err, set_state, with_cnt,
    bump_ctor, bump_dtor, bump_assign, ledger_wf in *; simpl in *.

Lemma construct_linv k id l : linv l -> linv (construct k id l).
Proof.
  intros [W A]. unfold construct. split.
  - destruct (is_live (lget l id)); life_unf; apply rset_wf; exact W.
  - destruct (is_live (lget l id)) eqn:E; life_unf; rewrite rcount_rset_live; rewrite E; unfold b2z; simpl;
      destruct k; simpl; lia.
Qed.

Lemma destroy_linv id l : linv l -> linv (destroy id l).
Proof.
  intros [W A]. unfold destroy. split.
  - destruct (lget l id); life_unf; try apply rset_wf; exact W.
  - destruct (lget l id) eqn:E; life_unf; try rewrite rcount_rset_live; try rewrite E; unfold b2z; simpl; lia.
Qed.

Lemma move_from_linv id l : linv l -> linv (move_from id l).
Proof.
  intros [W A]. unfold move_from. split.
  - destruct (lget l id); life_unf; try apply rset_wf; exact W.
  - destruct (lget l id) eqn:E; life_unf; try rewrite rcount_rset_live; try rewrite E; unfold b2z; simpl; lia.
Qed.

Lemma use_linv id l : linv l -> linv (use id l).
Proof.
  intros [W A]. unfold use. split.
  - destruct (lget l id); life_unf; exact W.
  - destruct (lget l id) eqn:E; life_unf; lia.
Qed.

Lemma assign_to_linv k id l : linv l -> linv (assign_to k id l).
Proof.
  intros [W A]. unfold assign_to. split.
  - destruct (lget l id); life_unf; try apply rset_wf; exact W.
  - destruct (lget l id) eqn:E; destruct k; life_unf; try rewrite rcount_rset_live; try rewrite E; unfold b2z; simpl; lia.
Qed.

(* without misuse: constructed - destroyed = still alive; balanced <-> every constructed object was destroyed *)
Lemma ok_count_err e l : ok l -> count_err e l = 0.
Proof. unfold ok, count_err. intros ->. reflexivity. Qed.

Lemma linv_ok_live l : linv l -> ok l -> n_ctor l - n_dtor l = live_count l.
Proof. intros [_ A] O. unfold accounted in A. rewrite !ok_count_err in A by exact O. lia. Qed.

Lemma linv_ok_balanced l : linv l -> ok l -> (balanced l <-> n_ctor l = n_dtor l).
Proof.
  intros I O. pose proof (linv_ok_live l I O) as E. destruct I as [W _]. split.
  - intros B. apply balanced_complete in B; [|exact W]. unfold balancedb in B. apply Z.eqb_eq in B. lia.
  - intros Heq. apply balancedb_sound. unfold balancedb. apply Z.eqb_eq. lia.
Qed.

(* ---- state lookups after each operation (for client invariants) *)
Lemma lget_set_state id s l id' : lget (set_state id s l) id' = if id =? id' then s else lget l id'.
Proof. unfold lget, set_state; simpl. apply rget_rset. Qed.
Lemma lget_log_err e i l id : lget (log_err e i l) id = lget l id.
Proof. reflexivity. Qed.
Lemma lget_with_cnt f l id : lget (with_cnt f l) id = lget l id.
Proof. reflexivity. Qed.

Lemma lget_construct k id l id' : lget (construct k id l) id' = if id =? id' then Alive else lget l id'.
Proof. unfold construct. rewrite lget_set_state. destruct (id =? id'); [reflexivity|]. destruct (is_live (lget l id)); reflexivity. Qed.

Lemma lget_destroy_live id l id' : is_live (lget l id) = true ->
  lget (destroy id l) id' = if id =? id' then Dead else lget l id'.
Proof. unfold destroy. intros H. destruct (lget l id) eqn:E; try discriminate; rewrite lget_set_state; reflexivity. Qed.

Lemma lget_move_from_live id l id' : is_live (lget l id) = true ->
  lget (move_from id l) id' = if id =? id' then MovedFrom else lget l id'.
Proof. unfold move_from. intros H. destruct (lget l id) eqn:E; try discriminate; rewrite lget_set_state; reflexivity. Qed.

Lemma use_live id l : is_live (lget l id) = true -> use id l = l.
Proof. unfold use. destruct (lget l id); try discriminate; reflexivity. Qed.

(* errors after each operation, when the operation is legal *)
Lemma errs_construct_fresh k id l : is_live (lget l id) = false -> l_errs (construct k id l) = l_errs l.
Proof. unfold construct. intros ->. reflexivity. Qed.
Lemma errs_destroy_live id l : is_live (lget l id) = true -> l_errs (destroy id l) = l_errs l.
Proof. unfold destroy. destruct (lget l id); try discriminate; reflexivity. Qed.
Lemma errs_move_from_live id l : is_live (lget l id) = true -> l_errs (move_from id l) = l_errs l.
Proof. unfold move_from. destruct (lget l id); try discriminate; reflexivity. Qed.
Lemma errs_assign_to_live k id l : is_live (lget l id) = true -> l_errs (assign_to k id l) = l_errs l.
Proof. unfold assign_to. destruct (lget l id); try discriminate; reflexivity. Qed.

(* errors are never removed *)
Lemma errs_mono_construct k id l : exists p, l_errs (construct k id l) = p ++ l_errs l.
Proof. unfold construct. destruct (is_live (lget l id)); [exists [(ConstructOverLive, id)] | exists []]; reflexivity. Qed.
Lemma errs_mono_destroy id l : exists p, l_errs (destroy id l) = p ++ l_errs l.
Proof. unfold destroy. destruct (lget l id); [exists [(DestroyUnborn, id)] | exists [] | exists [] | exists [(DoubleDestroy, id)]]; reflexivity. Qed.
Lemma errs_mono_move_from id l : exists p, l_errs (move_from id l) = p ++ l_errs l.
Proof. unfold move_from. destruct (lget l id); [exists [(UseUnborn, id)] | exists [] | exists [] | exists [(UseDead, id)]]; reflexivity. Qed.
Lemma errs_mono_use id l : exists p, l_errs (use id l) = p ++ l_errs l.
Proof. unfold use. destruct (lget l id); [exists [(UseUnborn, id)] | exists [] | exists [] | exists [(UseDead, id)]]; reflexivity. Qed.
Lemma errs_mono_assign_to k id l : exists p, l_errs (assign_to k id l) = p ++ l_errs l.
Proof. unfold assign_to. destruct (lget l id); [exists [(UseUnborn, id)] | exists [] | exists [] | exists [(UseDead, id)]]; reflexivity. Qed.

(* "fact form" of the operations for client proofs: errors and lookups after a LEGAL operation *)
Lemma construct_fact k x g : l_errs g = [] -> is_live (lget g x) = false ->
  l_errs (construct k x g) = [] /\ forall id, lget (construct k x g) id = if x =? id then Alive else lget g id.
Proof. intros E Hn. split; [rewrite errs_construct_fresh; assumption | intros; apply lget_construct]. Qed.

Lemma destroy_fact x g : l_errs g = [] -> is_live (lget g x) = true ->
  l_errs (destroy x g) = [] /\ forall id, lget (destroy x g) id = if x =? id then Dead else lget g id.
Proof. intros E Hn. split; [rewrite errs_destroy_live; assumption | intros; apply lget_destroy_live; assumption]. Qed.

Lemma move_from_fact x g : l_errs g = [] -> is_live (lget g x) = true ->
  l_errs (move_from x g) = [] /\ forall id, lget (move_from x g) id = if x =? id then MovedFrom else lget g id.
Proof. intros E Hn. split; [rewrite errs_move_from_live; assumption | intros; apply lget_move_from_live; assumption]. Qed.

(* counters after each operation *)
Lemma n_ctor_construct k x g : n_ctor (construct k x g) = n_ctor g + 1.
Proof. unfold construct, n_ctor. destruct (is_live (lget g x)); destruct k; simpl; lia. Qed.
Lemma n_dtor_construct k x g : n_dtor (construct k x g) = n_dtor g.
Proof. unfold construct, n_dtor. destruct (is_live (lget g x)); destruct k; reflexivity. Qed.
Lemma n_ctor_destroy x g : n_ctor (destroy x g) = n_ctor g.
Proof. unfold destroy, n_ctor. destruct (lget g x); reflexivity. Qed.
Lemma n_dtor_destroy x g : n_dtor (destroy x g) = n_dtor g + 1.
Proof. unfold destroy, n_dtor. destruct (lget g x); reflexivity. Qed.
Lemma n_ctor_move_from x g : n_ctor (move_from x g) = n_ctor g.
Proof. unfold move_from, n_ctor. destruct (lget g x); reflexivity. Qed.
Lemma n_dtor_move_from x g : n_dtor (move_from x g) = n_dtor g.
Proof. unfold move_from, n_dtor. destruct (lget g x); reflexivity. Qed.
Lemma n_ctor_use x g : n_ctor (use x g) = n_ctor g.
Proof. unfold use, n_ctor. destruct (lget g x); reflexivity. Qed.
Lemma n_dtor_use x g : n_dtor (use x g) = n_dtor g.
Proof. unfold use, n_dtor. destruct (lget g x); reflexivity. Qed.
