(* Machine-integer conventions shared by the generated (Gen/) and hand-written models. *)
From Coq Require Import ZArith Lia Bool List.
Local Open Scope Z_scope.

Definition wrap (w z : Z) : Z := z mod 2 ^ w.
Definition wrap_s (w z : Z) : Z := (z + 2 ^ (w - 1)) mod 2 ^ w - 2 ^ (w - 1).
Definition b2z (b : bool) : Z := if b then 1 else 0.

(* integer kinds: width and signedness *)
Record ikind := IK { ik_w : Z; ik_signed : bool }.
Definition castk (k : ikind) (z : Z) : Z := if ik_signed k then wrap_s (ik_w k) z else wrap (ik_w k) z.
Definition kmin (k : ikind) : Z := if ik_signed k then - 2 ^ (ik_w k - 1) else 0.
Definition kmax (k : ikind) : Z := if ik_signed k then 2 ^ (ik_w k - 1) - 1 else 2 ^ ik_w k - 1.
Definition in_kind (k : ikind) (z : Z) : Prop := kmin k <= z <= kmax k.
Definition in_kindb (k : ikind) (z : Z) : bool := (kmin k <=? z) && (z <=? kmax k).
(* the 64-bit "size_type" associated with an index kind *)
Definition wide (k : ikind) : ikind := IK 64 (ik_signed k).

Definition I8 := IK 8 true.   Definition U8 := IK 8 false.
Definition I16 := IK 16 true. Definition U16 := IK 16 false.
Definition I32 := IK 32 true. Definition U32 := IK 32 false.
Definition I64 := IK 64 true. Definition U64 := IK 64 false.
Definition all_kinds := (I8 :: U8 :: I16 :: U16 :: I32 :: U32 :: I64 :: U64 :: nil)%list.
Definition wf_kind (k : ikind) : Prop := 0 < ik_w k.

Lemma pow2_pos w : 0 <= w -> 0 < 2 ^ w.
Proof. intros; apply Z.pow_pos_nonneg; lia. Qed.

Lemma wrap_range w z : 0 <= w -> 0 <= wrap w z < 2 ^ w.
Proof. intros Hw; unfold wrap; apply Z.mod_pos_bound, pow2_pos; exact Hw. Qed.

Lemma wrap_small w z : 0 <= z < 2 ^ w -> wrap w z = z.
Proof. intros H; unfold wrap; apply Z.mod_small; exact H. Qed.

Lemma wrap_wrap w z : 0 <= w -> wrap w (wrap w z) = wrap w z.
Proof. intros Hw; apply wrap_small, wrap_range; exact Hw. Qed.

Lemma wrap_s_small w z : 0 < w -> - 2 ^ (w - 1) <= z < 2 ^ (w - 1) -> wrap_s w z = z.
Proof.
  intros Hw H; unfold wrap_s.
  assert (E : 2 ^ w = 2 * 2 ^ (w - 1)).
  { replace w with (Z.succ (w - 1)) at 1 by lia. rewrite Z.pow_succ_r by lia. reflexivity. }
  rewrite Z.mod_small; lia.
Qed.

Lemma wrap_s_range w z : 0 < w -> - 2 ^ (w - 1) <= wrap_s w z < 2 ^ (w - 1).
Proof.
  intros Hw; unfold wrap_s.
  assert (E : 2 ^ w = 2 * 2 ^ (w - 1)).
  { replace w with (Z.succ (w - 1)) at 1 by lia. rewrite Z.pow_succ_r by lia. reflexivity. }
  assert (P : 0 < 2 ^ (w - 1)) by (apply pow2_pos; lia).
  pose proof (Z.mod_pos_bound (z + 2 ^ (w - 1)) (2 ^ w)) as B. lia.
Qed.

Lemma wrap_s_wrap_s w z : 0 < w -> wrap_s w (wrap_s w z) = wrap_s w z.
Proof. intros Hw; apply wrap_s_small; [exact Hw | apply wrap_s_range; exact Hw]. Qed.

Lemma castk_id k z : wf_kind k -> in_kind k z -> castk k z = z.
Proof.
  unfold wf_kind, in_kind, castk, kmin, kmax; destruct k as [w s]; simpl; intros Hw H.
  destruct s; [apply wrap_s_small | apply wrap_small]; lia.
Qed.

Lemma castk_in k z : wf_kind k -> in_kind k (castk k z).
Proof.
  unfold wf_kind, in_kind, castk, kmin, kmax; destruct k as [w s]; simpl; intros Hw.
  destruct s.
  - pose proof (wrap_s_range w z Hw); lia.
  - pose proof (wrap_range w z); lia.
Qed.

Lemma quot_div_nonneg a b : 0 <= a -> 0 < b -> Z.quot a b = a / b.
Proof. intros; apply Z.quot_div_nonneg; lia. Qed.
Lemma rem_mod_nonneg a b : 0 <= a -> 0 < b -> Z.rem a b = a mod b.
Proof. intros; apply Z.rem_mod_nonneg; lia. Qed.

(* ceil division facts used everywhere *)
Lemma ceil_div_bounds a b : 0 <= a -> 0 < b ->
  let c := (a + b - 1) / b in c * b - b < a <= c * b.
Proof.
  intros Ha Hb c. subst c.
  pose proof (Z.div_mod (a + b - 1) b ltac:(lia)) as E.
  pose proof (Z.mod_pos_bound (a + b - 1) b Hb) as B. nia.
Qed.
