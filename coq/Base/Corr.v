(* helpers for the correspondence files written by the checks (evaluated with vm_compute) *)
From Coq Require Import ZArith List Bool.
Import ListNotations.
Local Open Scope Z_scope.

(* indices of the cases on which [ok] is false *)
Fixpoint mism_from {A} (ok : A -> bool) (l : list A) (i : nat) : list nat :=
  match l with
  | [] => []
  | x :: r => if ok x then mism_from ok r (S i) else i :: mism_from ok r (S i)
  end.
Definition mismatches {A} (ok : A -> bool) (l : list A) : list nat := mism_from ok l 0.

Definition zpair_eqb (a b : Z * Z) : bool := (fst a =? fst b) && (snd a =? snd b).
Fixpoint list_eqb {A} (eqb : A -> A -> bool) (l1 l2 : list A) : bool :=
  match l1, l2 with
  | [], [] => true
  | x :: r1, y :: r2 => eqb x y && list_eqb eqb r1 r2
  | _, _ => false
  end.
Definition zlist_eqb := list_eqb Z.eqb.
Definition zpairs_eqb := list_eqb zpair_eqb.
Definition opt_eqb {A} (eqb : A -> A -> bool) (a b : option A) : bool :=
  match a, b with Some x, Some y => eqb x y | None, None => true | _, _ => false end.
