(* Ownership discipline over traces, and happens-before built from the DECLARED memory orders (DESIGN §6.F, C10).

   Executions considered.  A trace is ONE total order of the events of all threads (list index = time) that is consistent
   with each thread's program order, and in which every atomic read reads the LATEST earlier write to the same atomic
   object: modification order and reads-from of every atomic are embedded in the trace order.  These are the
   "interleaving-consistent" executions -- SC per location, and moreover explainable by a single interleaving (what a
   dynamic race detector such as ThreadSanitizer observes).  Store-buffering / load-buffering outcomes of relaxed atomics,
   out-of-thin-air values and mixed-size accesses are OUTSIDE this class and outside every theorem built on this file.
   Happens-before is NOT the trace order: it is the transitive closure of program order and synchronizes-with, and
   synchronizes-with exists only where the declared orders give it (release / acquire / fences, C++20 release sequences:
   the head store followed by read-modify-writes; a plain store by anyone ends the sequence). *)
From Coq Require Import ZArith List Bool Arith Lia.
From DV Require Import Gen.GenOrders.
Import ListNotations.

Definition tid := nat.
Definition loc := nat.        (* non-atomic location *)
Definition aloc := nat.       (* atomic object *)

Inductive akind := ALoad | AStore | ARmw.

Inductive ev :=
| Na_read (l : loc)
| Na_write (l : loc)
| At_op (a : aloc) (k : akind) (m : mo) (vread vwritten : Z)     (* values are informational: reads-from is positional *)
| Fence (m : mo)
(* ghost events (no run-time content): the thread gives up / receives permission token [tok] of location [l] *)
| Offer (l : loc) (tok : nat)
| Take (l : loc) (tok : nat).

Definition trace := list (tid * ev).

Definition akind_eqb (a b : akind) : bool :=
  match a, b with ALoad, ALoad | AStore, AStore | ARmw, ARmw => true | _, _ => false end.

(* ---- classification of events *)
Definition writes_to (a : aloc) (e : ev) : bool :=
  match e with At_op a' k _ _ _ => Nat.eqb a a' && negb (akind_eqb k ALoad) | _ => false end.
Definition reads_from_a (a : aloc) (e : ev) : bool :=
  match e with At_op a' k _ _ _ => Nat.eqb a a' && negb (akind_eqb k AStore) | _ => false end.
Definition is_rmw (e : ev) : bool := match e with At_op _ ARmw _ _ _ => true | _ => false end.
Definition ev_mo (e : ev) : mo := match e with At_op _ _ m _ _ => m | Fence m => m | _ => Relaxed end.
Definition is_fence (e : ev) : bool := match e with Fence _ => true | _ => false end.

(* a release operation / fence; an acquire operation / fence (order_ge comes from the generated table's prelude) *)
Definition rel_mo (m : mo) : bool := order_ge m Release.
Definition acq_mo (m : mo) : bool := order_ge m Acquire.

Section Trace.
  Variable tr : trace.

  Definition thr (i : nat) : option tid := option_map fst (nth_error tr i).
  Definition evt (i : nat) : option ev := option_map snd (nth_error tr i).

  (* program order: same thread, earlier in the trace *)
  Definition po (i j : nat) : Prop := i < j /\ exists t, thr i = Some t /\ thr j = Some t.

  (* every write to [a] strictly between x and y is a read-modify-write: y reads from the release sequence headed by x *)
  Definition only_rmw_between (a : aloc) (x y : nat) : Prop :=
    forall w e, x < w < y -> evt w = Some e -> writes_to a e = true -> is_rmw e = true.

  (* r acts as the release end for the atomic write x: x itself when it is a release operation, or an earlier release
     fence of the same thread (then x may be relaxed) *)
  Definition rel_src (r x : nat) : Prop :=
    (r = x /\ exists e, evt x = Some e /\ rel_mo (ev_mo e) = true) \/
    (po r x /\ exists m, evt r = Some (Fence m) /\ rel_mo m = true).

  (* k acts as the acquire end for the atomic read y: y itself when it is an acquire operation, or a later acquire fence *)
  Definition acq_dst (y k : nat) : Prop :=
    (k = y /\ exists e, evt y = Some e /\ acq_mo (ev_mo e) = true) \/
    (po y k /\ exists m, evt k = Some (Fence m) /\ acq_mo m = true).

  (* synchronizes-with *)
  Definition sw (r k : nat) : Prop :=
    exists a x y ex ey,
      rel_src r x /\ acq_dst y k /\ x < y /\
      evt x = Some ex /\ writes_to a ex = true /\ evt y = Some ey /\ reads_from_a a ey = true /\
      only_rmw_between a x y.

  Inductive hb : nat -> nat -> Prop :=
  | hb_po i j : po i j -> hb i j
  | hb_sw i j : sw i j -> hb i j
  | hb_trans i j k : hb i j -> hb j k -> hb i k.

  (* ---- ghost permission state.  Every location has [N] tokens; reading needs one, writing needs all. *)
  Inductive hstate := Held (t : tid) | Transit (offered_at : nat).
  Definition gstate := loc -> nat -> hstate.

  Definition upd (g : gstate) (l : loc) (tok : nat) (h : hstate) : gstate :=
    fun l' tok' => if Nat.eqb l l' && Nat.eqb tok tok' then h else g l' tok'.

  Definition gstep (g : gstate) (i : nat) (te : tid * ev) : gstate :=
    match snd te with
    | Offer l tok => upd g l tok (Transit i)
    | Take l tok => upd g l tok (Held (fst te))
    | _ => g
    end.

  Variable init : gstate.

  (* ghost state BEFORE event n (after the first n events) *)
  Fixpoint gs (n : nat) : gstate :=
    match n with
    | O => init
    | S m => match nth_error tr m with Some te => gstep (gs m) m te | None => gs m end
    end.

  (* a transfer offered at o and taken at k rides on a synchronizes-with edge: offer, then (program order) the release
     end r; the acquire end a, then (program order) the take *)
  Definition xfer_ok (o k : nat) : Prop :=
    exists r a, po o r /\ sw r a /\ po a k.

  Variable N : nat.

  Definition ev_ok (i : nat) (t : tid) (e : ev) : Prop :=
    match e with
    | Na_read l => exists tok, tok < N /\ gs i l tok = Held t
    | Na_write l => forall tok, tok < N -> gs i l tok = Held t
    | Offer l tok => gs i l tok = Held t
    | Take l tok => exists o, gs i l tok = Transit o /\ xfer_ok o i
    | _ => True
    end.

  Definition disciplined : Prop :=
    1 <= N /\ forall i t e, nth_error tr i = Some (t, e) -> ev_ok i t e.

  (* ---- data races *)
  Definition na_access (e : ev) : option (loc * bool) :=
    match e with Na_read l => Some (l, false) | Na_write l => Some (l, true) | _ => None end.

  Definition conflict (i j : nat) : Prop :=
    exists ti tj ei ej l wi wj,
      nth_error tr i = Some (ti, ei) /\ nth_error tr j = Some (tj, ej) /\ ti <> tj /\
      na_access ei = Some (l, wi) /\ na_access ej = Some (l, wj) /\ (wi || wj) = true.

  (* data-race freedom: conflicting non-atomic accesses are ordered by happens-before (hb is included in the trace
     order, so for i < j "ordered" can only mean hb i j) *)
  Definition drf : Prop := forall i j, i < j -> conflict i j -> hb i j.
End Trace.
