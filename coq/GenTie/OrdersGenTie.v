(* C10 tie (order table O): every side condition of the per-protocol theorems, closed by COMPUTATION against the order table
   that tools/orders.py regenerated from /repo (coq/Gen/GenOrders.v).  One lemma per hand-off: weakening an order a hand-off
   depends on (or renaming / removing a site) makes exactly its lemma fail; strengthening an order does not. *)
From Coq Require Import ZArith List Bool String.
From DV Require Import Gen.GenOrders Base.Own Model.OwnProtocols Proofs.OwnProofs Proofs.C10Proofs.
Import ListNotations.

Lemma tie_table_nonempty : Nat.ltb 100 n_sites = true.
Proof. vm_compute. reflexivity. Qed.

Lemma tie_kinds : forallb kinds_ok handoffs = true.
Proof. vm_compute. reflexivity. Qed.

Lemma tie_spsc_push_pop : handoff_ok h_spsc_push_pop = true.
Proof. vm_compute. reflexivity. Qed.

Lemma tie_spsc_pop_push : handoff_ok h_spsc_pop_push = true.
Proof. vm_compute. reflexivity. Qed.

Lemma tie_mpmc_push_pop : handoff_ok h_mpmc_push_pop = true.
Proof. vm_compute. reflexivity. Qed.

Lemma tie_mpmc_pop_push : handoff_ok h_mpmc_pop_push = true.
Proof. vm_compute. reflexivity. Qed.

Lemma tie_event : handoff_ok h_event = true.
Proof. vm_compute. reflexivity. Qed.

Lemma tie_latch_direct : handoff_ok h_latch_direct = true.
Proof. vm_compute. reflexivity. Qed.

Lemma tie_latch_last : handoff_ok h_latch_last = true.
Proof. vm_compute. reflexivity. Qed.

Lemma tie_future_result : handoff_ok h_future_result = true.
Proof. vm_compute. reflexivity. Qed.

Lemma tie_then_chain : handoff_ok h_then_chain = true.
Proof. vm_compute. reflexivity. Qed.

Lemma tie_whenall : handoff_ok h_whenall = true.
Proof. vm_compute. reflexivity. Qed.

Lemma tie_async_ready : handoff_ok h_async_ready = true.
Proof. vm_compute. reflexivity. Qed.

Lemma tie_async_consumed : handoff_ok h_async_consumed = true.
Proof. vm_compute. reflexivity. Qed.

Lemma tie_cvec : handoff_ok h_cvec = true.
Proof. vm_compute. reflexivity. Qed.

Lemma tie_arena_size : handoff_ok h_arena_size = true.
Proof. vm_compute. reflexivity. Qed.

Lemma tie_arena_table : handoff_ok h_arena_table = true.
Proof. vm_compute. reflexivity. Qed.

Lemma tie_rw_unlock_lock : handoff_ok h_rw_unlock_lock = true.
Proof. vm_compute. reflexivity. Qed.

Lemma tie_rw_readers_writer_rmw : handoff_ok h_rw_readers_writer_rmw = true.
Proof. vm_compute. reflexivity. Qed.

Lemma tie_rw_readers_writer_load : handoff_ok h_rw_readers_writer_load = true.
Proof. vm_compute. reflexivity. Qed.

Lemma tie_taskset : handoff_ok h_taskset = true.
Proof. vm_compute. reflexivity. Qed.

Lemma tie_ts_exception : handoff_ok h_ts_exception = true.
Proof. vm_compute. reflexivity. Qed.

Lemma tie_graph : handoff_ok h_graph = true.
Proof. vm_compute. reflexivity. Qed.

Lemma tie_numrings : handoff_ok h_numrings = true.
Proof. vm_compute. reflexivity. Qed.

Lemma tie_future_refcount : handoff_ok h_future_refcount = true.
Proof. vm_compute. reflexivity. Qed.

Lemma tie_all : forallb handoff_ok handoffs = true.
Proof.
  unfold handoffs. cbn [forallb].
  rewrite tie_spsc_push_pop, tie_spsc_pop_push, tie_mpmc_push_pop, tie_mpmc_pop_push, tie_event, tie_latch_direct, tie_latch_last, tie_future_result, tie_then_chain, tie_whenall, tie_async_ready, tie_async_consumed, tie_cvec, tie_arena_size, tie_arena_table, tie_rw_unlock_lock, tie_rw_readers_writer_rmw, tie_rw_readers_writer_load, tie_taskset, tie_ts_exception, tie_graph, tie_numrings, tie_future_refcount.
  reflexivity.
Qed.

(* the per-protocol theorems with their side conditions discharged: what holds for the source as it is NOW *)
Theorem protocols_race_free : forall h, In h handoffs ->
  forall noff ntake s, noff_ok h noff = true -> 1 <= ntake -> reach (proto_of h noff ntake) s ->
    disciplined (s_tr s) init_g ntake /\ drf (s_tr s).
Proof.
  intros h Hin noff ntake s Hn Ht R.
  pose proof tie_all as A. rewrite forallb_forall in A.
  pose proof tie_kinds as K. rewrite forallb_forall in K.
  exact (protocol_disciplined h noff ntake (K h Hin) (A h Hin) Hn Ht s R).
Qed.
Print Assumptions protocols_race_free.
