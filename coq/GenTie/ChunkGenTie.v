(* Tie between what tools/gen.py regenerated from /repo (Gen/GenChunk.v) and the hand-written model.
   Each lemma breaks when the source's arithmetic changes meaning. *)
From Coq Require Import ZArith List Bool Lia.
From DV Require Import Base.MachInt Model.ChunkModel Proofs.ChunkProofs Gen.GenChunk.
Import ListNotations.
Local Open Scope Z_scope.

(* StaticChunking's field order is what the model's pairs assume: (transitionTaskIndex, ceilChunkSize) *)
Lemma tie_StaticChunking_fields : gen_StaticChunking_fields = [0%nat; 1%nat].
Proof. reflexivity. Qed.

Lemma tie_staticChunkSize items chunks : gen_staticChunkSize items chunks = static_chunk items chunks.
Proof. reflexivity. Qed.

Lemma tie_staticChunkSizeGranular items chunks g :
  gen_staticChunkSizeGranular items chunks g = static_chunk_gran items chunks g.
Proof. unfold gen_staticChunkSizeGranular, static_chunk_gran. rewrite tie_staticChunkSize. reflexivity. Qed.

Lemma acast_small k z : ik_signed k && (32 <=? ik_w k) = false -> acast k z = castk k z.
Proof. unfold acast; intros ->; reflexivity. Qed.
Lemma acast_big k z : ik_signed k && (32 <=? ik_w k) = true -> acast k z = z.
Proof. unfold acast; intros ->; reflexivity. Qed.
Lemma wrap_add_l w a b : 0 < w -> wrap w (wrap w a + b) = wrap w (a + b).
Proof. intros Hw. apply (castk_add_l (IK w false)). exact Hw. Qed.

Lemma tie_mapper_i8 n cs sc ti s e i : gen_mapper_i8 n cs sc ti s e i = mapper I8 n cs sc ti s e i.
Proof.
  unfold gen_mapper_i8, mapper.
  rewrite !(acast_small I8) by reflexivity.
  change (wop (wide I8)) with (fun z : Z => z). cbv beta.
  change (castk I8) with (wrap_s 8).
  destruct (i <? ti) eqn:E1; destruct (i + 1 =? n) eqn:E2; cbv zeta; rewrite ?wrap_add_l, ?wrap_wrap by lia; reflexivity.
Qed.
Lemma tie_mapper_u8 n cs sc ti s e i : gen_mapper_u8 n cs sc ti s e i = mapper U8 n cs sc ti s e i.
Proof.
  unfold gen_mapper_u8, mapper.
  rewrite !(acast_small U8) by reflexivity.
  change (wop (wide U8)) with (wrap 64). cbv beta.
  change (castk U8) with (wrap 8).
  destruct (i <? ti) eqn:E1; destruct (wrap 64 (i + 1) =? n) eqn:E2; cbv zeta; rewrite ?wrap_add_l, ?wrap_wrap by lia; reflexivity.
Qed.
Lemma tie_mapper_i16 n cs sc ti s e i : gen_mapper_i16 n cs sc ti s e i = mapper I16 n cs sc ti s e i.
Proof.
  unfold gen_mapper_i16, mapper.
  rewrite !(acast_small I16) by reflexivity.
  change (wop (wide I16)) with (fun z : Z => z). cbv beta.
  change (castk I16) with (wrap_s 16).
  destruct (i <? ti) eqn:E1; destruct (i + 1 =? n) eqn:E2; cbv zeta; rewrite ?wrap_add_l, ?wrap_wrap by lia; reflexivity.
Qed.
Lemma tie_mapper_u16 n cs sc ti s e i : gen_mapper_u16 n cs sc ti s e i = mapper U16 n cs sc ti s e i.
Proof.
  unfold gen_mapper_u16, mapper.
  rewrite !(acast_small U16) by reflexivity.
  change (wop (wide U16)) with (wrap 64). cbv beta.
  change (castk U16) with (wrap 16).
  destruct (i <? ti) eqn:E1; destruct (wrap 64 (i + 1) =? n) eqn:E2; cbv zeta; rewrite ?wrap_add_l, ?wrap_wrap by lia; reflexivity.
Qed.
Lemma tie_mapper_i32 n cs sc ti s e i : gen_mapper_i32 n cs sc ti s e i = mapper I32 n cs sc ti s e i.
Proof.
  unfold gen_mapper_i32, mapper.
  rewrite !(acast_big I32) by reflexivity.
  change (wop (wide I32)) with (fun z : Z => z). cbv beta.
  change (castk I32) with (wrap_s 32).
  destruct (i <? ti) eqn:E1; destruct (i + 1 =? n) eqn:E2; cbv zeta; rewrite ?wrap_add_l, ?wrap_wrap by lia; reflexivity.
Qed.
Lemma tie_mapper_u32 n cs sc ti s e i : gen_mapper_u32 n cs sc ti s e i = mapper U32 n cs sc ti s e i.
Proof.
  unfold gen_mapper_u32, mapper.
  rewrite !(acast_small U32) by reflexivity.
  change (wop (wide U32)) with (wrap 64). cbv beta.
  change (castk U32) with (wrap 32).
  destruct (i <? ti) eqn:E1; destruct (wrap 64 (i + 1) =? n) eqn:E2; cbv zeta; rewrite ?wrap_add_l, ?wrap_wrap by lia; reflexivity.
Qed.
Lemma tie_mapper_i64 n cs sc ti s e i : - 2 ^ 63 <= i < 2 ^ 63 -> - 2 ^ 63 <= ti < 2 ^ 63 -> - 2 ^ 63 <= i - ti < 2 ^ 63 ->
  gen_mapper_i64 n cs sc ti s e i = mapper I64 n cs sc ti s e i.
Proof.
  intros Hi Hti Hd.
  unfold gen_mapper_i64, mapper.
  rewrite !(acast_big I64) by reflexivity.
  change (wop (wide I64)) with (fun z : Z => z). cbv beta.
  change (castk I64) with (wrap_s 64).
  rewrite (wrap_s_small 64 i), (wrap_s_small 64 ti), (wrap_s_small 64 (i - ti)) by (simpl; lia).
  destruct (i <? ti) eqn:E1; destruct (i + 1 =? n) eqn:E2; cbv zeta; reflexivity.
Qed.
Lemma tie_mapper_u64 n cs sc ti s e i : 0 <= i < 2 ^ 64 -> 0 <= ti < 2 ^ 64 ->
  gen_mapper_u64 n cs sc ti s e i = mapper U64 n cs sc ti s e i.
Proof.
  intros Hi Hti.
  unfold gen_mapper_u64, mapper.
  rewrite !(acast_small U64) by reflexivity.
  change (wop (wide U64)) with (wrap 64). cbv beta.
  change (castk U64) with (wrap 64).
  rewrite (wrap_small 64 i), (wrap_small 64 ti) by lia.
  destruct (i <? ti) eqn:E1; destruct (wrap 64 (i + 1) =? n) eqn:E2; cbv zeta; rewrite ?wrap_add_l, ?wrap_wrap by lia; reflexivity.
Qed.
