(* Tie between what tools/gen.py regenerated from /repo (Gen/GenChunk.v) and the hand-written model.
   Each lemma breaks when the source's arithmetic changes meaning. *)
From Coq Require Import ZArith List Bool Lia.
From DV Require Import Base.MachInt Model.ChunkModel Proofs.ChunkProofs Gen.GenChunk.
Import ListNotations.
Local Open Scope Z_scope.

(* StaticChunking's field order is what the model's pairs assume: (transitionTaskIndex, ceilChunkSize) *)
Lemma tie_StaticChunking_fields : gen_StaticChunking_fields = [0%nat; 1%nat].
Proof. reflexivity. Qed.

Lemma tie_staticChunkSize items chunks : gen_staticChunkSize items chunks = static_chunk items chunks.
Proof. reflexivity. Qed.

Lemma tie_staticChunkSizeGranular items chunks g :
  gen_staticChunkSizeGranular items chunks g = static_chunk_gran items chunks g.
Proof. unfold gen_staticChunkSizeGranular, static_chunk_gran. rewrite tie_staticChunkSize. reflexivity. Qed.

Lemma wf8 s : wf_kind (IK 8 s).   Proof. unfold wf_kind; simpl; lia. Qed.
Lemma wf16 s : wf_kind (IK 16 s). Proof. unfold wf_kind; simpl; lia. Qed.
Lemma wf32 s : wf_kind (IK 32 s). Proof. unfold wf_kind; simpl; lia. Qed.
Lemma wf64 s : wf_kind (IK 64 s). Proof. unfold wf_kind; simpl; lia. Qed.
#[global] Hint Resolve wf8 wf16 wf32 wf64 : wfk.

(* fold the translator's wrap / wrap_s of width w back into castk, so that both sides speak one language *)
Ltac fold_casts w :=
  repeat match goal with
  | |- context [wrap w ?x] => change (wrap w x) with (castk (IK w false) x)
  | |- context [wrap_s w ?x] => change (wrap_s w x) with (castk (IK w true) x)
  end.

(* equality of two IntegerT-valued expressions that differ only by redundant re-narrowing *)
Ltac strip_eq K :=
  first [ reflexivity
        | apply (castk_eq_of_eqk K); [auto with wfk|];
          rewrite ?(castk_eqm K) by auto with wfk; first [reflexivity | apply eqk_refl2; ring] ].

Ltac tie_mapper K w :=
  intros;
  cbv beta iota zeta delta [mapper acast wop wide ik_signed ik_w I8 U8 I16 U16 I32 U32 I64 U64 andb Z.leb Z.compare Pos.compare Pos.compare_cont];
  fold_casts w;
  repeat match goal with |- context [if ?c then _ else _] => destruct c eqn:? end;
  try reflexivity; try congruence;
  repeat match goal with |- (_, _) = (_, _) => f_equal end;
  strip_eq K.

Lemma tie_mapper_i8 n cs sc ti s e i : gen_mapper_i8 n cs sc ti s e i = mapper I8 n cs sc ti s e i.
Proof. unfold gen_mapper_i8. tie_mapper (IK 8 true) 8. Qed.
Lemma tie_mapper_u8 n cs sc ti s e i : gen_mapper_u8 n cs sc ti s e i = mapper U8 n cs sc ti s e i.
Proof. unfold gen_mapper_u8. tie_mapper (IK 8 false) 8. Qed.
Lemma tie_mapper_i16 n cs sc ti s e i : gen_mapper_i16 n cs sc ti s e i = mapper I16 n cs sc ti s e i.
Proof. unfold gen_mapper_i16. tie_mapper (IK 16 true) 16. Qed.
Lemma tie_mapper_u16 n cs sc ti s e i : gen_mapper_u16 n cs sc ti s e i = mapper U16 n cs sc ti s e i.
Proof. unfold gen_mapper_u16. tie_mapper (IK 16 false) 16. Qed.
Lemma tie_mapper_i32 n cs sc ti s e i : gen_mapper_i32 n cs sc ti s e i = mapper I32 n cs sc ti s e i.
Proof. unfold gen_mapper_i32. tie_mapper (IK 32 true) 32. Qed.
Lemma tie_mapper_u32 n cs sc ti s e i : gen_mapper_u32 n cs sc ti s e i = mapper U32 n cs sc ti s e i.
Proof. unfold gen_mapper_u32. tie_mapper (IK 32 false) 32. Qed.
Lemma tie_mapper_i64 n cs sc ti s e i : gen_mapper_i64 n cs sc ti s e i = mapper I64 n cs sc ti s e i.
Proof. unfold gen_mapper_i64. tie_mapper (IK 64 true) 64. Qed.
(* uint64: idx is already of the index type, so the source has no narrowing cast of idx; equal for idx in range *)
Lemma tie_mapper_u64 n cs sc ti s e i : 0 <= i < 2 ^ 64 -> 0 <= ti < 2 ^ 64 ->
  gen_mapper_u64 n cs sc ti s e i = mapper U64 n cs sc ti s e i.
Proof. unfold gen_mapper_u64. tie_mapper (IK 64 false) 64. Qed.
