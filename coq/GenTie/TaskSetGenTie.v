(* Tie between the regenerated decision trees (Gen/GenTaskSet.v, from dispenso/task_set.h, detail/task_set_impl.h, thread_pool.h)
   and the stage functions the step model (Model/TaskSetModel.v) evaluates at its load points, plus the decision-level
   contracts the properties C04 and C47 need.  A change of the source conditions (a dropped or added canceled() conjunct,
   a ForceQueuingTag overload routed through shouldRunInline, a different threshold) changes Gen and breaks a lemma here. *)
From Coq Require Import ZArith List Bool Lia.
From DV Require Import Base.MachInt Model.TaskSetModel Gen.GenTaskSet Model.TaskSetCheck.
Import ListNotations.
Local Open Scope Z_scope.

(* the composition of the model's stages, as pure functions of the values the stages read *)
Definition force_code (placed : bool) (n : Z) : Z := if n =? 0 then 1 else if placed then 6 else 5.
Definition comp_pool (placed force recursive : bool) (w n lf : Z) : Z :=
  if negb force && dec_pool_inline recursive w n lf then 1 else force_code placed n.
Definition comp_tsk (out lf : Z) (canc recursive : bool) (w n plf : Z) : Z :=
  if canc then 0 else if lf <? out then 1 else 10 + comp_pool false false recursive w n plf.
Definition comp_cts (placed : bool) (out lf : Z) (canc ci skip recursive : bool) (w n plf l2 : Z) : Z :=
  if (cts_threshold placed n lf <? out) && negb canc && ci then 1
  else if negb skip && dec_overloaded recursive w n plf l2 then (if canc || negb ci then 10 + force_code placed n else 1)
  else 10 + force_code placed n.

Section Ties.
  Variables (out lf : Z) (canc ci skip recursive : bool) (w n plf l2 cost : Z).
  Local Notation ARGS g := (g out lf canc ci skip recursive w n plf l2 cost).

  Lemma tie_shouldRunInline : ARGS gen_pool_shouldRunInline = dec_pool_inline recursive w n plf.
  Proof. reflexivity. Qed.
  Lemma tie_forceEnqueue_central : ARGS gen_pool_forceEnqueue_central = force_code false n.
  Proof. unfold gen_pool_forceEnqueue_central, force_code. destruct (n =? 0); reflexivity. Qed.
  Lemma tie_forceEnqueue_placed : ARGS gen_pool_forceEnqueue_placed = force_code true n.
  Proof. unfold gen_pool_forceEnqueue_placed, force_code. destruct (n =? 0); reflexivity. Qed.
  (* every ForceQueuingTag overload of the pool is forceEnqueue and nothing else *)
  Lemma tie_pool_force :
    ARGS gen_pool_schedule_force = force_code false n /\ ARGS gen_pool_schedule_tok_force = force_code false n /\
    ARGS gen_pool_schedulePlaced_force = force_code true n /\ ARGS gen_pool_schedulePlaced_tok_force = force_code true n.
  Proof. repeat split; first [apply tie_forceEnqueue_central | apply tie_forceEnqueue_placed]. Qed.
  Lemma tie_pool_schedule :
    ARGS gen_pool_schedule = comp_pool false false recursive w n plf /\ ARGS gen_pool_schedule_tok = comp_pool false false recursive w n plf /\
    ARGS gen_pool_schedulePlaced = comp_pool true false recursive w n plf /\ ARGS gen_pool_schedulePlaced_tok = comp_pool true false recursive w n plf.
  Proof.
    unfold gen_pool_schedule, gen_pool_schedule_tok, gen_pool_schedulePlaced, gen_pool_schedulePlaced_tok, comp_pool.
    rewrite tie_shouldRunInline. cbn [negb andb].
    destruct tie_pool_force as (A & B & C & D). rewrite A, B, C, D.
    repeat split; destruct (dec_pool_inline recursive w n plf); reflexivity.
  Qed.
End Ties.

Lemma tpf_c out lf canc ci skip recursive w n plf l2 cost : gen_pool_schedule_force out lf canc ci skip recursive w n plf l2 cost = force_code false n.
Proof. apply tie_pool_force. Qed.
Lemma tpf_ct out lf canc ci skip recursive w n plf l2 cost : gen_pool_schedule_tok_force out lf canc ci skip recursive w n plf l2 cost = force_code false n.
Proof. apply tie_pool_force. Qed.
Lemma tpf_p out lf canc ci skip recursive w n plf l2 cost : gen_pool_schedulePlaced_force out lf canc ci skip recursive w n plf l2 cost = force_code true n.
Proof. apply tie_pool_force. Qed.
Lemma tpf_pt out lf canc ci skip recursive w n plf l2 cost : gen_pool_schedulePlaced_tok_force out lf canc ci skip recursive w n plf l2 cost = force_code true n.
Proof. apply tie_pool_force. Qed.
Lemma tps_t out lf canc ci skip recursive w n plf l2 cost : gen_pool_schedule_tok out lf canc ci skip recursive w n plf l2 cost = comp_pool false false recursive w n plf.
Proof. apply tie_pool_schedule. Qed.

Section SetTies.
  Variables (out lf : Z) (canc ci skip recursive : bool) (w n plf l2 cost : Z).
  Local Notation ARGS g := (g out lf canc ci skip recursive w n plf l2 cost).

  Lemma tie_tsk_schedule : ARGS gen_tsk_schedule = comp_tsk out lf canc recursive w n plf.
  Proof.
    unfold gen_tsk_schedule, comp_tsk. destruct canc; cbn [b2z Z.eqb negb]; [reflexivity|].
    destruct (lf <? out); [reflexivity|]. rewrite tps_t. reflexivity.
  Qed.
  Lemma tie_tsk_schedule_force : ARGS gen_tsk_schedule_force = 10 + force_code false n.
  Proof. unfold gen_tsk_schedule_force. rewrite tpf_ct. reflexivity. Qed.
  Lemma tie_cts_schedulePlaced : ARGS gen_cts_schedulePlaced = comp_cts true out lf canc ci skip recursive w n plf l2.
  Proof.
    unfold gen_cts_schedulePlaced, comp_cts, cts_threshold, dec_overloaded, prim_fscale, fscale.
    rewrite !tpf_p.
    destruct (Z.max (n + 1) (Z.quot lf 2) <? out); destruct canc; destruct ci; destruct skip; cbn [b2z Z.eqb negb andb];
      try reflexivity; destruct (recursive && (Z.quot (n * l2) 2 <? w) || (plf <? w)); reflexivity.
  Qed.
  Lemma tie_cts_schedule :
    ARGS gen_cts_schedule = if cost =? c_kHeavy then comp_cts true out lf canc ci skip recursive w n plf l2
                            else comp_cts false out lf canc ci skip recursive w n plf l2.
  Proof.
    unfold gen_cts_schedule. destruct (cost =? c_kHeavy); [apply tie_cts_schedulePlaced|].
    unfold comp_cts, cts_threshold, dec_overloaded, prim_fscale, fscale.
    rewrite !tpf_c.
    destruct (lf <? out); destruct canc; destruct ci; destruct skip; cbn [b2z Z.eqb negb andb];
      try reflexivity; destruct (recursive && (Z.quot (n * l2) 2 <? w) || (plf <? w)); reflexivity.
  Qed.
  Lemma tie_cts_schedule_force : ARGS gen_cts_schedule_force = 10 + force_code (cost =? c_kHeavy) n.
  Proof.
    unfold gen_cts_schedule_force.
    rewrite tpf_c, tpf_p. destruct (cost =? c_kHeavy); reflexivity.
  Qed.
  Lemma tie_shouldInlineBulk cw np l : ARGS gen_shouldInlineBulk cw np l = dec_overloaded recursive cw np plf l.
  Proof. reflexivity. Qed.

  (* ---- C04 at decision level ---- *)
  (* TaskSet::schedule: any path that reaches the functor (raw or packaged) read canceled() = false first *)
  Lemma tsk_decide_inline_implies_not_cancelled : ARGS gen_tsk_schedule <> 0 -> canc = false.
  Proof. rewrite tie_tsk_schedule. unfold comp_tsk. destruct canc; [intros H; exfalso; apply H; reflexivity | reflexivity]. Qed.
  (* ConcurrentTaskSet::schedule / schedulePlaced: the raw functor is called (first or second inline path) only if canceled() read false *)
  Lemma cts_decide_inline_implies_not_cancelled : ARGS gen_cts_schedule = 1 -> canc = false.
  Proof.
    rewrite tie_cts_schedule. unfold comp_cts, force_code.
    destruct canc; [|reflexivity]. cbn [negb andb orb]. rewrite !andb_false_r. cbn [andb].
    destruct (cost =? c_kHeavy); destruct (negb skip && dec_overloaded recursive w n plf l2); destruct (n =? 0); intros H; try discriminate; lia.
  Qed.
  (* ... and a cancelled set never gets its functor run by the scheduling call itself: the decision is skip (0) or hand the packaged wrapper to the pool (>= 10) *)
  Lemma cancelled_decision_never_raw : canc = true -> ARGS gen_tsk_schedule = 0 /\ ARGS gen_cts_schedule <> 1.
  Proof.
    intros C. split.
    - rewrite tie_tsk_schedule. unfold comp_tsk. rewrite C. reflexivity.
    - intros H. apply cts_decide_inline_implies_not_cancelled in H. congruence.
  Qed.

  (* ---- C47 at decision level: with numThreads >= 1 every ForceQueuingTag overload enqueues ---- *)
  Lemma force_decision_is_queue : 1 <= n ->
    ARGS gen_pool_schedule_force = 5 /\ ARGS gen_pool_schedule_tok_force = 5 /\ ARGS gen_pool_schedulePlaced_force = 6 /\ ARGS gen_pool_schedulePlaced_tok_force = 6 /\
    ARGS gen_tsk_schedule_force = 15 /\ (ARGS gen_cts_schedule_force = 15 \/ ARGS gen_cts_schedule_force = 16).
  Proof.
    intros Hn. rewrite tpf_c, tpf_ct, tpf_p, tpf_pt, tie_tsk_schedule_force, tie_cts_schedule_force.
    unfold force_code. assert (E : (n =? 0) = false) by (apply Z.eqb_neq; lia). rewrite E.
    repeat split. destruct (cost =? c_kHeavy); [right | left]; reflexivity.
  Qed.
End SetTies.

(* regression: the decision-level witness of the former C04 finding (cancelled, workRemaining_ 40 > poolLoadFactor_ 32, one thread, not
   pool-recursive) now queues the packaged wrapper *)
Lemma c04_decision_regression : gen_cts_schedule 0 4 true true false false 40 1 32 3 c_kLightweight = 15 /\ gen_cts_schedule 0 4 true true false false 40 1 32 3 c_kHeavy = 16.
Proof. split; vm_compute; reflexivity. Qed.
