(* Tie between what tools/gen.py regenerated from /repo (Gen/GenChunk.v, parallel_for.h leaves, one copy per index
   type) and the kind-generic mirrors of Model/DynLeafModel.v.  Each lemma breaks when the source's arithmetic
   changes meaning.  The mirrors are normalised by controlled unfolding, after which both sides are syntactically equal. *)
From Coq Require Import ZArith List Bool Lia.
From DV Require Import Base.MachInt Model.ChunkModel Gen.GenChunk Model.ParForModel Model.DynLeafModel.
Import ListNotations.
Local Open Scope Z_scope.

(* ---------------- I8 ---------------- *)
Ltac norm_i8 := cbv beta iota zeta delta [W wop wide ik_signed ik_w I8 range_size gen_range_size_i8 m_isAuto m_isStatic
  gen_range_isAuto_i8 gen_range_isStatic_i8 m_trim castk m_range_empty gen_range_empty_i8].
Lemma tie_range_size_i8 s e : gen_range_size_i8 s e = range_size I8 s e.
Proof. reflexivity. Qed.
Lemma tie_range_empty_i8 s e : gen_range_empty_i8 s e = m_range_empty s e.
Proof. reflexivity. Qed.
Lemma tie_isStatic_i8 c : gen_range_isStatic_i8 c = m_isStatic I8 c.
Proof. reflexivity. Qed.
Lemma tie_computeGranularity_i8 s e c r : gen_computeGranularity_i8 s e c r = m_computeGranularity I8 s e c r.
Proof. unfold gen_computeGranularity_i8, m_computeGranularity. norm_i8. reflexivity. Qed.
Lemma tie_adjustChunkSizing_i8 s e c mt st mi n w :
  gen_adjustChunkSizing_i8 s e c mt st mi n w = m_adjustChunkSizing I8 s e c mt st mi n w.
Proof. unfold gen_adjustChunkSizing_i8, m_adjustChunkSizing. norm_i8. reflexivity. Qed.
Lemma tie_ccs_loop_i8 fuel a b c d e f g h i j l :
  gen_calcChunkSize_i8_loop1 fuel a b c d e f g h i j l = m_ccs_loop I8 fuel a b c d e f g h i j l.
Proof.
  unfold I8. revert a b. induction fuel as [|fuel IH]; intros a b; [reflexivity|].
  cbn [gen_calcChunkSize_i8_loop1 m_ccs_loop]. norm_i8. rewrite IH. reflexivity.
Qed.
Lemma tie_calcChunkSize_i8 s e c nl one mc g md :
  gen_calcChunkSize_i8 s e c nl one mc g md = m_calcChunkSize I8 s e c nl one mc g md.
Proof. unfold gen_calcChunkSize_i8, m_calcChunkSize. rewrite tie_ccs_loop_i8. norm_i8. reflexivity. Qed.

(* ---------------- U8 ---------------- *)
Ltac norm_u8 := cbv beta iota zeta delta [W wop wide ik_signed ik_w U8 range_size gen_range_size_u8 m_isAuto m_isStatic
  gen_range_isAuto_u8 gen_range_isStatic_u8 m_trim castk m_range_empty gen_range_empty_u8].
Lemma tie_range_size_u8 s e : gen_range_size_u8 s e = range_size U8 s e.
Proof. reflexivity. Qed.
Lemma tie_range_empty_u8 s e : gen_range_empty_u8 s e = m_range_empty s e.
Proof. reflexivity. Qed.
Lemma tie_isStatic_u8 c : gen_range_isStatic_u8 c = m_isStatic U8 c.
Proof. reflexivity. Qed.
Lemma tie_computeGranularity_u8 s e c r : gen_computeGranularity_u8 s e c r = m_computeGranularity U8 s e c r.
Proof. unfold gen_computeGranularity_u8, m_computeGranularity. norm_u8. reflexivity. Qed.
Lemma tie_adjustChunkSizing_u8 s e c mt st mi n w :
  gen_adjustChunkSizing_u8 s e c mt st mi n w = m_adjustChunkSizing U8 s e c mt st mi n w.
Proof. unfold gen_adjustChunkSizing_u8, m_adjustChunkSizing. norm_u8. reflexivity. Qed.
Lemma tie_ccs_loop_u8 fuel a b c d e f g h i j l :
  gen_calcChunkSize_u8_loop1 fuel a b c d e f g h i j l = m_ccs_loop U8 fuel a b c d e f g h i j l.
Proof.
  unfold U8. revert a b. induction fuel as [|fuel IH]; intros a b; [reflexivity|].
  cbn [gen_calcChunkSize_u8_loop1 m_ccs_loop]. norm_u8. rewrite IH. reflexivity.
Qed.
Lemma tie_calcChunkSize_u8 s e c nl one mc g md :
  gen_calcChunkSize_u8 s e c nl one mc g md = m_calcChunkSize U8 s e c nl one mc g md.
Proof. unfold gen_calcChunkSize_u8, m_calcChunkSize. rewrite tie_ccs_loop_u8. norm_u8. reflexivity. Qed.

(* ---------------- I16 ---------------- *)
Ltac norm_i16 := cbv beta iota zeta delta [W wop wide ik_signed ik_w I16 range_size gen_range_size_i16 m_isAuto m_isStatic
  gen_range_isAuto_i16 gen_range_isStatic_i16 m_trim castk m_range_empty gen_range_empty_i16].
Lemma tie_range_size_i16 s e : gen_range_size_i16 s e = range_size I16 s e.
Proof. reflexivity. Qed.
Lemma tie_range_empty_i16 s e : gen_range_empty_i16 s e = m_range_empty s e.
Proof. reflexivity. Qed.
Lemma tie_isStatic_i16 c : gen_range_isStatic_i16 c = m_isStatic I16 c.
Proof. reflexivity. Qed.
Lemma tie_computeGranularity_i16 s e c r : gen_computeGranularity_i16 s e c r = m_computeGranularity I16 s e c r.
Proof. unfold gen_computeGranularity_i16, m_computeGranularity. norm_i16. reflexivity. Qed.
Lemma tie_adjustChunkSizing_i16 s e c mt st mi n w :
  gen_adjustChunkSizing_i16 s e c mt st mi n w = m_adjustChunkSizing I16 s e c mt st mi n w.
Proof. unfold gen_adjustChunkSizing_i16, m_adjustChunkSizing. norm_i16. reflexivity. Qed.
Lemma tie_ccs_loop_i16 fuel a b c d e f g h i j l :
  gen_calcChunkSize_i16_loop1 fuel a b c d e f g h i j l = m_ccs_loop I16 fuel a b c d e f g h i j l.
Proof.
  unfold I16. revert a b. induction fuel as [|fuel IH]; intros a b; [reflexivity|].
  cbn [gen_calcChunkSize_i16_loop1 m_ccs_loop]. norm_i16. rewrite IH. reflexivity.
Qed.
Lemma tie_calcChunkSize_i16 s e c nl one mc g md :
  gen_calcChunkSize_i16 s e c nl one mc g md = m_calcChunkSize I16 s e c nl one mc g md.
Proof. unfold gen_calcChunkSize_i16, m_calcChunkSize. rewrite tie_ccs_loop_i16. norm_i16. reflexivity. Qed.

(* ---------------- U16 ---------------- *)
Ltac norm_u16 := cbv beta iota zeta delta [W wop wide ik_signed ik_w U16 range_size gen_range_size_u16 m_isAuto m_isStatic
  gen_range_isAuto_u16 gen_range_isStatic_u16 m_trim castk m_range_empty gen_range_empty_u16].
Lemma tie_range_size_u16 s e : gen_range_size_u16 s e = range_size U16 s e.
Proof. reflexivity. Qed.
Lemma tie_range_empty_u16 s e : gen_range_empty_u16 s e = m_range_empty s e.
Proof. reflexivity. Qed.
Lemma tie_isStatic_u16 c : gen_range_isStatic_u16 c = m_isStatic U16 c.
Proof. reflexivity. Qed.
Lemma tie_computeGranularity_u16 s e c r : gen_computeGranularity_u16 s e c r = m_computeGranularity U16 s e c r.
Proof. unfold gen_computeGranularity_u16, m_computeGranularity. norm_u16. reflexivity. Qed.
Lemma tie_adjustChunkSizing_u16 s e c mt st mi n w :
  gen_adjustChunkSizing_u16 s e c mt st mi n w = m_adjustChunkSizing U16 s e c mt st mi n w.
Proof. unfold gen_adjustChunkSizing_u16, m_adjustChunkSizing. norm_u16. reflexivity. Qed.
Lemma tie_ccs_loop_u16 fuel a b c d e f g h i j l :
  gen_calcChunkSize_u16_loop1 fuel a b c d e f g h i j l = m_ccs_loop U16 fuel a b c d e f g h i j l.
Proof.
  unfold U16. revert a b. induction fuel as [|fuel IH]; intros a b; [reflexivity|].
  cbn [gen_calcChunkSize_u16_loop1 m_ccs_loop]. norm_u16. rewrite IH. reflexivity.
Qed.
Lemma tie_calcChunkSize_u16 s e c nl one mc g md :
  gen_calcChunkSize_u16 s e c nl one mc g md = m_calcChunkSize U16 s e c nl one mc g md.
Proof. unfold gen_calcChunkSize_u16, m_calcChunkSize. rewrite tie_ccs_loop_u16. norm_u16. reflexivity. Qed.

(* ---------------- I32 ---------------- *)
Ltac norm_i32 := cbv beta iota zeta delta [W wop wide ik_signed ik_w I32 range_size gen_range_size_i32 m_isAuto m_isStatic
  gen_range_isAuto_i32 gen_range_isStatic_i32 m_trim castk m_range_empty gen_range_empty_i32].
Lemma tie_range_size_i32 s e : gen_range_size_i32 s e = range_size I32 s e.
Proof. reflexivity. Qed.
Lemma tie_range_empty_i32 s e : gen_range_empty_i32 s e = m_range_empty s e.
Proof. reflexivity. Qed.
Lemma tie_isStatic_i32 c : gen_range_isStatic_i32 c = m_isStatic I32 c.
Proof. reflexivity. Qed.
Lemma tie_computeGranularity_i32 s e c r : gen_computeGranularity_i32 s e c r = m_computeGranularity I32 s e c r.
Proof. unfold gen_computeGranularity_i32, m_computeGranularity. norm_i32. reflexivity. Qed.
Lemma tie_adjustChunkSizing_i32 s e c mt st mi n w :
  gen_adjustChunkSizing_i32 s e c mt st mi n w = m_adjustChunkSizing I32 s e c mt st mi n w.
Proof. unfold gen_adjustChunkSizing_i32, m_adjustChunkSizing. norm_i32. reflexivity. Qed.
Lemma tie_ccs_loop_i32 fuel a b c d e f g h i j l :
  gen_calcChunkSize_i32_loop1 fuel a b c d e f g h i j l = m_ccs_loop I32 fuel a b c d e f g h i j l.
Proof.
  unfold I32. revert a b. induction fuel as [|fuel IH]; intros a b; [reflexivity|].
  cbn [gen_calcChunkSize_i32_loop1 m_ccs_loop]. norm_i32. rewrite IH. reflexivity.
Qed.
Lemma tie_calcChunkSize_i32 s e c nl one mc g md :
  gen_calcChunkSize_i32 s e c nl one mc g md = m_calcChunkSize I32 s e c nl one mc g md.
Proof. unfold gen_calcChunkSize_i32, m_calcChunkSize. rewrite tie_ccs_loop_i32. norm_i32. reflexivity. Qed.

(* ---------------- U32 ---------------- *)
Ltac norm_u32 := cbv beta iota zeta delta [W wop wide ik_signed ik_w U32 range_size gen_range_size_u32 m_isAuto m_isStatic
  gen_range_isAuto_u32 gen_range_isStatic_u32 m_trim castk m_range_empty gen_range_empty_u32].
Lemma tie_range_size_u32 s e : gen_range_size_u32 s e = range_size U32 s e.
Proof. reflexivity. Qed.
Lemma tie_range_empty_u32 s e : gen_range_empty_u32 s e = m_range_empty s e.
Proof. reflexivity. Qed.
Lemma tie_isStatic_u32 c : gen_range_isStatic_u32 c = m_isStatic U32 c.
Proof. reflexivity. Qed.
Lemma tie_computeGranularity_u32 s e c r : gen_computeGranularity_u32 s e c r = m_computeGranularity U32 s e c r.
Proof. unfold gen_computeGranularity_u32, m_computeGranularity. norm_u32. reflexivity. Qed.
Lemma tie_adjustChunkSizing_u32 s e c mt st mi n w :
  gen_adjustChunkSizing_u32 s e c mt st mi n w = m_adjustChunkSizing U32 s e c mt st mi n w.
Proof. unfold gen_adjustChunkSizing_u32, m_adjustChunkSizing. norm_u32. reflexivity. Qed.
Lemma tie_ccs_loop_u32 fuel a b c d e f g h i j l :
  gen_calcChunkSize_u32_loop1 fuel a b c d e f g h i j l = m_ccs_loop U32 fuel a b c d e f g h i j l.
Proof.
  unfold U32. revert a b. induction fuel as [|fuel IH]; intros a b; [reflexivity|].
  cbn [gen_calcChunkSize_u32_loop1 m_ccs_loop]. norm_u32. rewrite IH. reflexivity.
Qed.
Lemma tie_calcChunkSize_u32 s e c nl one mc g md :
  gen_calcChunkSize_u32 s e c nl one mc g md = m_calcChunkSize U32 s e c nl one mc g md.
Proof. unfold gen_calcChunkSize_u32, m_calcChunkSize. rewrite tie_ccs_loop_u32. norm_u32. reflexivity. Qed.

(* ---------------- I64 ---------------- *)
Ltac norm_i64 := cbv beta iota zeta delta [W wop wide ik_signed ik_w I64 range_size gen_range_size_i64 m_isAuto m_isStatic
  gen_range_isAuto_i64 gen_range_isStatic_i64 m_trim castk m_range_empty gen_range_empty_i64].
Lemma tie_range_size_i64 s e : gen_range_size_i64 s e = range_size I64 s e.
Proof. reflexivity. Qed.
Lemma tie_range_empty_i64 s e : gen_range_empty_i64 s e = m_range_empty s e.
Proof. reflexivity. Qed.
Lemma tie_isStatic_i64 c : gen_range_isStatic_i64 c = m_isStatic I64 c.
Proof. reflexivity. Qed.
Lemma tie_computeGranularity_i64 s e c r : gen_computeGranularity_i64 s e c r = m_computeGranularity I64 s e c r.
Proof. unfold gen_computeGranularity_i64, m_computeGranularity. norm_i64. reflexivity. Qed.
Lemma tie_adjustChunkSizing_i64 s e c mt st mi n w :
  gen_adjustChunkSizing_i64 s e c mt st mi n w = m_adjustChunkSizing I64 s e c mt st mi n w.
Proof. unfold gen_adjustChunkSizing_i64, m_adjustChunkSizing. norm_i64. reflexivity. Qed.
Lemma tie_ccs_loop_i64 fuel a b c d e f g h i j l :
  gen_calcChunkSize_i64_loop1 fuel a b c d e f g h i j l = m_ccs_loop I64 fuel a b c d e f g h i j l.
Proof.
  unfold I64. revert a b. induction fuel as [|fuel IH]; intros a b; [reflexivity|].
  cbn [gen_calcChunkSize_i64_loop1 m_ccs_loop]. norm_i64. rewrite IH. reflexivity.
Qed.
Lemma tie_calcChunkSize_i64 s e c nl one mc g md :
  gen_calcChunkSize_i64 s e c nl one mc g md = m_calcChunkSize I64 s e c nl one mc g md.
Proof. unfold gen_calcChunkSize_i64, m_calcChunkSize. rewrite tie_ccs_loop_i64. norm_i64. reflexivity. Qed.

(* ---------------- U64 ---------------- *)
Ltac norm_u64 := cbv beta iota zeta delta [W wop wide ik_signed ik_w U64 range_size gen_range_size_u64 m_isAuto m_isStatic
  gen_range_isAuto_u64 gen_range_isStatic_u64 m_trim castk m_range_empty gen_range_empty_u64].
Lemma tie_range_size_u64 s e : gen_range_size_u64 s e = range_size U64 s e.
Proof. reflexivity. Qed.
Lemma tie_range_empty_u64 s e : gen_range_empty_u64 s e = m_range_empty s e.
Proof. reflexivity. Qed.
Lemma tie_isStatic_u64 c : gen_range_isStatic_u64 c = m_isStatic U64 c.
Proof. reflexivity. Qed.
Lemma tie_computeGranularity_u64 s e c r : gen_computeGranularity_u64 s e c r = m_computeGranularity U64 s e c r.
Proof. unfold gen_computeGranularity_u64, m_computeGranularity. norm_u64. reflexivity. Qed.
Lemma tie_adjustChunkSizing_u64 s e c mt st mi n w :
  gen_adjustChunkSizing_u64 s e c mt st mi n w = m_adjustChunkSizing U64 s e c mt st mi n w.
Proof. unfold gen_adjustChunkSizing_u64, m_adjustChunkSizing. norm_u64. reflexivity. Qed.
Lemma tie_ccs_loop_u64 fuel a b c d e f g h i j l :
  gen_calcChunkSize_u64_loop1 fuel a b c d e f g h i j l = m_ccs_loop U64 fuel a b c d e f g h i j l.
Proof.
  unfold U64. revert a b. induction fuel as [|fuel IH]; intros a b; [reflexivity|].
  cbn [gen_calcChunkSize_u64_loop1 m_ccs_loop]. norm_u64. rewrite IH. reflexivity.
Qed.
Lemma tie_calcChunkSize_u64 s e c nl one mc g md :
  gen_calcChunkSize_u64 s e c nl one mc g md = m_calcChunkSize U64 s e c nl one mc g md.
Proof. unfold gen_calcChunkSize_u64, m_calcChunkSize. rewrite tie_ccs_loop_u64. norm_u64. reflexivity. Qed.

(* ---------------- dispatchers ---------------- *)
Lemma tie_range_size_of kn s e : (kn < 8)%nat -> gen_range_size_of kn s e = range_size (kind_of kn) s e.
Proof.
  intros Hkn. do 8 (destruct kn as [|kn]; [first [apply tie_range_size_i8 | apply tie_range_size_u8 | apply tie_range_size_i16 | apply tie_range_size_u16 | apply tie_range_size_i32 | apply tie_range_size_u32 | apply tie_range_size_i64 | apply tie_range_size_u64] |]). lia.
Qed.
Lemma tie_range_empty_of kn s e : (kn < 8)%nat -> gen_range_empty_of kn s e = m_range_empty s e.
Proof.
  intros Hkn. do 8 (destruct kn as [|kn]; [first [apply tie_range_empty_i8 | apply tie_range_empty_u8 | apply tie_range_empty_i16 | apply tie_range_empty_u16 | apply tie_range_empty_i32 | apply tie_range_empty_u32 | apply tie_range_empty_i64 | apply tie_range_empty_u64] |]). lia.
Qed.
Lemma tie_isStatic_of kn c : (kn < 8)%nat -> gen_range_isStatic_of kn c = m_isStatic (kind_of kn) c.
Proof.
  intros Hkn. do 8 (destruct kn as [|kn]; [first [apply tie_isStatic_i8 | apply tie_isStatic_u8 | apply tie_isStatic_i16 | apply tie_isStatic_u16 | apply tie_isStatic_i32 | apply tie_isStatic_u32 | apply tie_isStatic_i64 | apply tie_isStatic_u64] |]). lia.
Qed.
Lemma tie_computeGranularity_of kn s e c r : (kn < 8)%nat -> gen_computeGranularity_of kn s e c r = m_computeGranularity (kind_of kn) s e c r.
Proof.
  intros Hkn. do 8 (destruct kn as [|kn]; [first [apply tie_computeGranularity_i8 | apply tie_computeGranularity_u8 | apply tie_computeGranularity_i16 | apply tie_computeGranularity_u16 | apply tie_computeGranularity_i32 | apply tie_computeGranularity_u32 | apply tie_computeGranularity_i64 | apply tie_computeGranularity_u64] |]). lia.
Qed.
Lemma tie_adjustChunkSizing_of kn s e c mt st mi n w : (kn < 8)%nat -> gen_adjustChunkSizing_of kn s e c mt st mi n w = m_adjustChunkSizing (kind_of kn) s e c mt st mi n w.
Proof.
  intros Hkn. do 8 (destruct kn as [|kn]; [first [apply tie_adjustChunkSizing_i8 | apply tie_adjustChunkSizing_u8 | apply tie_adjustChunkSizing_i16 | apply tie_adjustChunkSizing_u16 | apply tie_adjustChunkSizing_i32 | apply tie_adjustChunkSizing_u32 | apply tie_adjustChunkSizing_i64 | apply tie_adjustChunkSizing_u64] |]). lia.
Qed.
Lemma tie_calcChunkSize_of kn s e c nl one mc g md : (kn < 8)%nat -> gen_calcChunkSize_of kn s e c nl one mc g md = m_calcChunkSize (kind_of kn) s e c nl one mc g md.
Proof.
  intros Hkn. do 8 (destruct kn as [|kn]; [first [apply tie_calcChunkSize_i8 | apply tie_calcChunkSize_u8 | apply tie_calcChunkSize_i16 | apply tie_calcChunkSize_u16 | apply tie_calcChunkSize_i32 | apply tie_calcChunkSize_u32 | apply tie_calcChunkSize_i64 | apply tie_calcChunkSize_u64] |]). lia.
Qed.
