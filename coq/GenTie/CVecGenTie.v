(* Tie between what tools/gen.py regenerated from /repo (Gen/GenCVec.v: bucketAndSubIndex, bucketAndSubIndexForIndex,
   allocCheckIndex) and the hand-written model (Model/CVecModel.v).  Each lemma breaks when the source's arithmetic
   changes meaning. *)
From Coq Require Import ZArith List Bool Lia.
From DV Require Import Base.MachInt Model.CVecModel Gen.GenCVec Proofs.CVecBucketProofs.
Import ListNotations.
Local Open Scope Z_scope.

(* cv::BucketInfo's field order is what the model's triples assume: (bucket, bucketIndex, bucketCapacity) *)
Lemma tie_BucketInfo_fields : gen_BucketInfo_fields = [0%nat; 1%nat; 2%nat].
Proof. reflexivity. Qed.

Lemma log2_lor_1 i : 1 <= i -> Z.log2 (Z.lor i 1) = Z.log2 i.
Proof. intros H. rewrite Z.log2_lor by lia. change (Z.log2 1) with 0. pose proof (Z.log2_nonneg i). lia. Qed.

(* the generated bucketAndSubIndex, called with firstBucketLen_ = 2^firstBucketShift_ (the class invariant set up by
   every constructor), is the model's bsi on all 63-bit indices *)
Lemma tie_bucketAndSubIndex shift index : 0 <= shift -> 0 <= index < 2 ^ 63 ->
  gen_bucketAndSubIndex shift (2 ^ shift) index = bsi shift index.
Proof.
  intros Hs Hi. unfold gen_bucketAndSubIndex, bsi, prim_log2. cbv zeta.
  destruct (index <? 2 ^ shift) eqn:E; [reflexivity|].
  assert (P : 0 < 2 ^ shift) by (apply pow2_pos; lia).
  assert (H1 : 1 <= index) by lia.
  rewrite log2_lor_1 by exact H1.
  pose proof (Z.log2_spec index ltac:(lia)) as [L1 L2].
  assert (Hl : shift <= Z.log2 index) by (apply Z.log2_le_pow2; lia).
  assert (Hl63 : Z.log2 index < 63) by (apply Z.log2_lt_pow2; lia).
  assert (P63 : 2 ^ Z.log2 index < 2 ^ 64).
  { assert (2 ^ 63 < 2 ^ 64) by (apply Z.pow_lt_mono_r; lia). lia. }
  rewrite Z.shiftl_mul_pow2 by lia. rewrite Z.mul_1_l.
  rewrite (wrap_small 64 (Z.log2 index + 1)) by lia.
  rewrite (wrap_small 64 (Z.log2 index + 1 - shift)) by lia.
  rewrite (wrap_small 64 (2 ^ Z.log2 index)) by lia.
  rewrite (wrap_small 64 (index - 2 ^ Z.log2 index)) by lia.
  reflexivity.
Qed.

Lemma tie_bucketAndSubIndexForIndex shift index : 0 <= shift -> 0 <= index < 2 ^ 63 ->
  gen_bucketAndSubIndexForIndex shift (2 ^ shift) index = bsi shift index.
Proof. intros; unfold gen_bucketAndSubIndexForIndex; apply tie_bucketAndSubIndex; assumption. Qed.

(* the strategy numbers the model uses are the enumerators' values *)
Lemma tie_strategy_enumerators : (c_kFullBufferAhead, c_kHalfBufferAhead, c_kAsNeeded) = (0, 1, 2).
Proof. reflexivity. Qed.

Lemma tie_allocCheckIndex strat cap : 1 <= cap < 2 ^ 64 -> gen_allocCheckIndex strat cap = alloc_check_index strat cap.
Proof.
  intros H. unfold gen_allocCheckIndex, alloc_check_index, c_kFullBufferAhead, c_kHalfBufferAhead.
  destruct (strat =? 0); [reflexivity|]. destruct (strat =? 1); [reflexivity|]. apply wrap_small. lia.
Qed.

(* bucket_bijection on the regenerated function: index <-> (bucket, sub-index) with the documented capacities *)
Lemma bucket_bijection_gen shift : 0 <= shift ->
  (forall index, 0 <= index < 2 ^ 63 ->
     let '(b, s, c) := gen_bucketAndSubIndex shift (2 ^ shift) index in
     0 <= b /\ 0 <= s < c /\ c = bucket_cap shift b /\ bucket_start shift b + s = index) /\
  (forall b s, 0 <= b -> 0 <= s < bucket_cap shift b -> bucket_start shift b + s < 2 ^ 63 ->
     gen_bucketAndSubIndex shift (2 ^ shift) (bucket_start shift b + s) = (b, s, bucket_cap shift b)).
Proof.
  intros Hs. split.
  - intros index Hi. rewrite tie_bucketAndSubIndex by assumption. apply bsi_spec; lia.
  - intros b s Hb Hsub Hlt.
    assert (0 <= bucket_start shift b).
    { pose proof (bucket_start_mono shift 0 b Hs ltac:(lia)) as M. unfold bucket_start at 1 in M. simpl in M. exact M. }
    rewrite tie_bucketAndSubIndex by lia. apply bsi_inv; assumption.
Qed.

(* the documented capacities: the first two buffers hold firstBucketLen_ elements, each later one twice its predecessor;
   buffer b starts at the total capacity of its predecessors *)
Lemma bucket_layout shift : 0 <= shift ->
  bucket_cap shift 0 = 2 ^ shift /\ bucket_cap shift 1 = 2 ^ shift /\ bucket_start shift 0 = 0 /\
  (forall b, 1 <= b -> bucket_cap shift (b + 1) = 2 * bucket_cap shift b) /\
  (forall b, 0 <= b -> bucket_start shift (b + 1) = bucket_start shift b + bucket_cap shift b).
Proof.
  intros Hs. split; [reflexivity|]. split; [reflexivity|]. split; [reflexivity|]. split.
  - intros b Hb. apply bucket_cap_next; assumption.
  - intros b Hb. apply bucket_start_next; assumption.
Qed.
