(* C44 -- tie between what tools/gen.py (group `bitmath`) regenerated from /repo (Gen/GenBitMath.v) and the
   hand-written model (Model/BitMathModel.v).  Each lemma breaks when the source's arithmetic changes meaning. *)
From Coq Require Import ZArith List Bool Lia.
From DV Require Import Base.MachInt Model.BitMathModel Gen.GenBitMath.
Import ListNotations.
Local Open Scope Z_scope.

Lemma tie_nextPow2 v : gen_nextPow2 v = nextPow2_m v.
Proof. unfold gen_nextPow2, nextPow2_m, smear_all, smear. cbv zeta. reflexivity. Qed.

Lemma tie_kCacheLineSize : c_bm_kCacheLineSize = cacheLine.
Proof. reflexivity. Qed.

Lemma tie_alignToCacheLine v : gen_bm_alignToCacheLine v = alignToCacheLine_m v.
Proof. reflexivity. Qed.

(* one turn of `for (uint32_t i = N; i--;) { if (v & b[i]) { v >>= S[i]; r |= S[i]; } }` is one [l2step] *)
Lemma loop64_step f tS tb i i' mask s r v :
  i <> 0 -> wrap 32 (i - 1) = i' -> nth (Z.to_nat i') tb 0 = mask -> nth (Z.to_nat i') tS 0 = s ->
  gen_log2const_u64_loop1 (S f) tS tb i r v =
  let '(r', v') := l2step mask s (r, v) in gen_log2const_u64_loop1 f tS tb i' r' v'.
Proof.
  intros Hi Ei Em Es. cbn [gen_log2const_u64_loop1]. cbv zeta. rewrite Ei, Em, Es.
  apply Z.eqb_neq in Hi. rewrite Hi. cbn [negb]. unfold l2step.
  destruct (negb (Z.land v mask =? 0)); reflexivity.
Qed.
Lemma loop64_exit f tS tb r v :
  gen_log2const_u64_loop1 (S f) tS tb 0 r v = Some (tS, tb, wrap 32 (0 - 1), r, v).
Proof. reflexivity. Qed.

Lemma tie_log2const_u64 v : gen_log2const_u64 v = Some (log2const64_m v).
Proof.
  unfold gen_log2const_u64, log2const64_m, l2run, l2_table64. cbn [fold_left fst snd]. cbv zeta.
  rewrite (loop64_step _ _ _ 6 5 18446744069414584320 32) by (lia || reflexivity).
  destruct (l2step 18446744069414584320 32 (0, v)) as [r5 v5].
  rewrite (loop64_step _ _ _ 5 4 4294901760 16) by (lia || reflexivity).
  destruct (l2step 4294901760 16 (r5, v5)) as [r4 v4].
  rewrite (loop64_step _ _ _ 4 3 65280 8) by (lia || reflexivity).
  destruct (l2step 65280 8 (r4, v4)) as [r3 v3].
  rewrite (loop64_step _ _ _ 3 2 240 4) by (lia || reflexivity).
  destruct (l2step 240 4 (r3, v3)) as [r2 v2].
  rewrite (loop64_step _ _ _ 2 1 12 2) by (lia || reflexivity).
  destruct (l2step 12 2 (r2, v2)) as [r1 v1].
  rewrite (loop64_step _ _ _ 1 0 2 1) by (lia || reflexivity).
  destruct (l2step 2 1 (r1, v1)) as [r0 v0].
  rewrite loop64_exit. reflexivity.
Qed.

Lemma loop32_step f tS tb i i' mask s r v :
  i <> 0 -> wrap 32 (i - 1) = i' -> nth (Z.to_nat i') tb 0 = mask -> nth (Z.to_nat i') tS 0 = s ->
  gen_log2const_u32_loop1 (S f) tS tb i r v =
  let '(r', v') := l2step mask s (r, v) in gen_log2const_u32_loop1 f tS tb i' r' v'.
Proof.
  intros Hi Ei Em Es. cbn [gen_log2const_u32_loop1]. cbv zeta. rewrite Ei, Em, Es.
  apply Z.eqb_neq in Hi. rewrite Hi. cbn [negb]. unfold l2step.
  destruct (negb (Z.land v mask =? 0)); reflexivity.
Qed.
Lemma loop32_exit f tS tb r v :
  gen_log2const_u32_loop1 (S f) tS tb 0 r v = Some (tS, tb, wrap 32 (0 - 1), r, v).
Proof. reflexivity. Qed.

Lemma tie_log2const_u32 v : gen_log2const_u32 v = Some (log2const32_m v).
Proof.
  unfold gen_log2const_u32, log2const32_m, l2run, l2_table32. cbn [fold_left fst snd]. cbv zeta.
  rewrite (loop32_step _ _ _ 5 4 4294901760 16) by (lia || reflexivity).
  destruct (l2step 4294901760 16 (0, v)) as [r4 v4].
  rewrite (loop32_step _ _ _ 4 3 65280 8) by (lia || reflexivity).
  destruct (l2step 65280 8 (r4, v4)) as [r3 v3].
  rewrite (loop32_step _ _ _ 3 2 240 4) by (lia || reflexivity).
  destruct (l2step 240 4 (r3, v3)) as [r2 v2].
  rewrite (loop32_step _ _ _ 2 1 12 2) by (lia || reflexivity).
  destruct (l2step 12 2 (r2, v2)) as [r1 v1].
  rewrite (loop32_step _ _ _ 1 0 2 1) by (lia || reflexivity).
  destruct (l2step 2 1 (r1, v1)) as [r0 v0].
  rewrite loop32_exit. reflexivity.
Qed.
