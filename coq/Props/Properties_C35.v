(* C35 -- SPSCRingBuffer is an exactly-once bounded FIFO.
   Statements only.  Model: Model/SpscModel.v (one step = one atomic load/store of head_/tail_ or one slot payload access (placement-new, move-out, destructor call) of
   dispenso::SPSCRingBuffer: try_push/try_emplace, the try_pop variants, try_push_batch, try_pop_batch, size/empty/full;
   thread 0 = producer, thread 1 = consumer, arbitrary operation scripts, any schedule, any buffer size
   2 <= kBufferSize < 2^63, power of two or not).  Element lifetimes: Base/Life.v ledger keyed by slot.
   Tie: lockstep under harness/vsched.h (props/C35.py).
   pushed s / popped s = the values the producer's / consumer's RESULT LOG reports as accepted / delivered, oldest first;
   contents s = the slots from head to tail in ring order; occupancy s = (tail - head) mod kBufferSize. *)
From Coq Require Import ZArith List Bool.
From DV Require Import Base.MachInt Base.Sched Base.Life Model.SpscModel Proofs.C35Proofs.
Import ListNotations.
Local Open Scope Z_scope.

(* hypotheses shared by all statements: buffer size in range (index + 1 never wraps in size_t), thread 0 runs
   producer-side operations only and thread 1 consumer-side operations only (size/empty/full allowed on both) *)
Definition C35_domain (k : Z) (p0 p1 : list op) : Prop :=
  2 <= k < 2 ^ 63 /\ Forall prod_op p0 /\ Forall cons_op p1.   (* = Proofs.C35Proofs.spsc_domain *)

(* exactly-once + FIFO, at EVERY reachable state (also in the middle of operations): what was accepted = what was
   delivered, in the same order, followed by what is in the ring.  Hence no element is delivered twice, none is lost,
   none is invented, pops return values in push order, and at quiescence delivered ++ contents = accepted. *)
Theorem C35_exactly_once_in_order : forall k p0 p1 s, C35_domain k p0 p1 ->
  reach step (init k p0 p1) s -> pushed s = popped s ++ contents s.
Proof. exact spsc_exactly_once_in_order. Qed.
Print Assumptions C35_exactly_once_in_order.

(* bounded: the ring never holds more than capacity() = kBufferSize - 1 elements, also counting the elements a push
   in flight has already constructed *)
Theorem C35_bounded : forall k p0 p1 s, C35_domain k p0 p1 -> reach step (init k p0 p1) s ->
  zlen (contents s) = occupancy s /\ 0 <= occupancy s <= K s - 1 /\
  zlen (pushed s) + zlen (wl (tpc (th0 s))) - zlen (popped s) <= K s - 1.
Proof. exact spsc_bounded. Qed.
Print Assumptions C35_bounded.

(* a push is rejected iff the ring is full when the producer loads head (then nothing else happens), accepted otherwise *)
Theorem C35_push_ok_iff_not_full_as_observed : forall k p0 p1 s v ct ch s' ch' site, C35_domain k p0 p1 ->
  reach step (init k p0 p1) s -> tpc (th0 s) = PPushLoadHead v ct -> step s 0 ch = Some (s', ch', site) ->
  (occupancy s = K s - 1 /\ res (th0 s') = (r_pushfail, v) :: res (th0 s)) \/
  (occupancy s < K s - 1 /\ tpc (th0 s') = PPushWrite v ct).
Proof. exact push_ok_iff_not_full_as_observed. Qed.
Print Assumptions C35_push_ok_iff_not_full_as_observed.

(* a pop is rejected iff the ring is empty when the consumer loads tail, accepted otherwise *)
Theorem C35_pop_ok_iff_not_empty_as_observed : forall k p0 p1 s c ch s' ch' site, C35_domain k p0 p1 ->
  reach step (init k p0 p1) s -> tpc (th1 s) = PPopLoadTail c -> step s 1 ch = Some (s', ch', site) ->
  (occupancy s = 0 /\ res (th1 s') = (r_popfail, 0) :: res (th1 s)) \/
  (0 < occupancy s /\ tpc (th1 s') = PPopRead c).
Proof. exact pop_ok_iff_not_empty_as_observed. Qed.
Print Assumptions C35_pop_ok_iff_not_empty_as_observed.

(* batch operations: the free space / element count computed from the two loaded indices (with the wrapped-index case
   split of the code) is exactly capacity - occupancy / occupancy at the second load *)
Theorem C35_push_batch_space_as_observed : forall k p0 p1 s vs ct, C35_domain k p0 p1 ->
  reach step (init k p0 p1) s -> tpc (th0 s) = PBLoadHead vs ct -> avail_push (K s) ct (head s) = K s - 1 - occupancy s.
Proof. exact pushb_avail_as_observed. Qed.
Print Assumptions C35_push_batch_space_as_observed.

Theorem C35_pop_batch_count_as_observed : forall k p0 p1 s m c, C35_domain k p0 p1 ->
  reach step (init k p0 p1) s -> tpc (th1 s) = PQLoadTail m c -> avail_pop (K s) c (tail s) = occupancy s.
Proof. exact popb_avail_as_observed. Qed.
Print Assumptions C35_pop_batch_count_as_observed.

(* lifetimes: the ledger never records a misuse (no placement-new over a live element, no destructor on a dead or
   never-constructed slot, no move-out of a dead slot).  With rl = the values the pop in flight has moved out and
   dl = how many of them it has also destroyed (dl <= |rl|; the payload is destroyed BEFORE the head store that frees the
   slot: the head store happens with dl = |rl|, see Inv / G_commit_r): the positions delivered + |rl| .. accepted (+ in
   flight) hold live elements, delivered + dl .. delivered + |rl| hold a moved-from element that still awaits its destructor,
   every other slot holds none. *)
Theorem C35_lifetimes : forall k p0 p1 s, C35_domain k p0 p1 -> reach step (init k p0 p1) s ->
  l_errs (led s) = [] /\
  (forall p, zlen (popped s) + zlen (rl (tpc (th1 s))) <= p < zlen (pushed s) + zlen (wl (tpc (th0 s))) ->
             lget (led s) (p mod K s) = Alive) /\
  (forall p, zlen (popped s) + dl (tpc (th1 s)) <= p < zlen (popped s) + zlen (rl (tpc (th1 s))) ->
             lget (led s) (p mod K s) = MovedFrom) /\
  (forall p, zlen (pushed s) + zlen (wl (tpc (th0 s))) <= p < zlen (popped s) + dl (tpc (th1 s)) + K s ->
             is_live (lget (led s) (p mod K s)) = false) /\
  0 <= dl (tpc (th1 s)) <= zlen (rl (tpc (th1 s))).
Proof. exact spsc_lifetimes. Qed.
Print Assumptions C35_lifetimes.

(* the payload is dead before the head store that hands its slot back to the producer: when the consumer is about to store
   head (single pop or batch), every slot it is about to release holds no live element *)
Theorem C35_payload_dead_before_release : forall k p0 p1 s, C35_domain k p0 p1 -> reach step (init k p0 p1) s ->
  match tpc (th1 s) with
  | PPopStoreHead c v => is_live (lget (led s) c) = false
  | PQStoreHead hp cnt acc => forall j, 0 <= j < cnt -> is_live (lget (led s) ((zlen (popped s) + j) mod K s)) = false
  | _ => True
  end.
Proof. exact spsc_payload_dead_before_release. Qed.
Print Assumptions C35_payload_dead_before_release.

(* ~SPSCRingBuffer() run in a state where no transfer is in flight leaves no slot with a live element and records no
   misuse: every element constructed by a push was destroyed exactly once (by a pop or by the destructor) *)
Theorem C35_destructor_balanced : forall k p0 p1 s, C35_domain k p0 p1 -> reach step (init k p0 p1) s ->
  rl (tpc (th1 s)) = [] -> wl (tpc (th0 s)) = [] ->
  l_errs (dtor s) = [] /\ forall i, 0 <= i < K s -> is_live (lget (dtor s) i) = false.
Proof. exact spsc_dtor_balanced. Qed.
Print Assumptions C35_destructor_balanced.

(* `increment` as written (& kMask when the size is a power of two, % otherwise) is +1 modulo the size *)
Theorem C35_increment_is_succ_mod : forall k i, 0 < k < 2 ^ 63 -> 0 <= i < k -> increment k i = (i + 1) mod k.
Proof. exact increment_is_succ_mod. Qed.
Print Assumptions C35_increment_is_succ_mod.

(* the full inductive invariant, for reference *)
Theorem C35_invariant : forall k p0 p1 s, C35_domain k p0 p1 -> reach step (init k p0 p1) s -> Inv s.
Proof. exact spsc_reach_inv. Qed.
Print Assumptions C35_invariant.

(* every state the executable scheduler visits is reachable, so the theorems apply to the runs compared with the real code *)
Theorem C35_run_reach : forall fuel k p0 p1 sched,
  reach step (init k p0 p1) (fst (fst (run_spsc fuel k p0 p1 sched))).
Proof. exact spsc_run_reach. Qed.
Print Assumptions C35_run_reach.

(* non-vacuity: a script in the domain on a 3-slot ring (capacity 2, not a power of two) that fills the ring, has a push
   rejected, wraps the indices, and ends with delivered ++ contents = accepted, all non-trivial *)
Example C35_nonvacuous :
  let p0 := [OPush 1; OPushBatch [2; 3; 4]; OPush 5; OPush 6] in
  let p1 := [OPop; OPopBatch 1; OSize] in
  let sched := [0;0;0;0;0;0;0;0;0;0;0;1;1;1;1;1;1;0;0;0;0;1;1;1;1;1;1;1;1;1;1;1;1;1] in
  C35_domain 3 p0 p1 /\
  let '(s, tr, st) := run_spsc 100 3 p0 p1 sched in
  st = SDone /\ pushed s = [1; 2; 6] /\ popped s = [1; 2] /\ contents s = [6] /\
  rev (res (th0 s)) = [(1,1); (1,2); (5,1); (2,5); (1,6)] /\
  rev (res (th1 s)) = [(3,1); (3,2); (6,1); (7,1)] /\ head s = 2 /\ tail s = 0.
Proof.
  cbv zeta. split.
  - split; [split; [discriminate | reflexivity]|]. split; repeat constructor; cbn; discriminate.
  - vm_compute. repeat split; reflexivity.
Qed.
