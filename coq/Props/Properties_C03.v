(* C03 -- pool resize never loses, duplicates or strands work.
   Statements only.  Model: Model/PoolModel.v (resizeLocked as the event sequence stop-all, wake-all, drain central, join, drain rings,
   drain steal rings, store numRings_/numStealRings_/numThreads_, start threads, final drain for n = 0; producers' loads of numThreads_ /
   numRings_ are events of their own, so every stale-read interleaving is a model trace).  Tie: event-level lockstep (props/C03.py). *)
From Coq Require Import ZArith List Bool Lia.
From DV Require Import Model.PoolModel Proofs.PoolProofs Proofs.C03Proofs Proofs.C01Proofs Proofs.C08Proofs.
Import ListNotations.
Local Open Scope Z_scope.

(* resize_conservation: every event of resizeLocked (and every other event) preserves the C01 ledger invariant: no loss, no duplication *)
Theorem C03_resize_conservation : forall rcap scap share s tid e s',
  Cons s -> accept rcap scap share s tid e = Some s' -> Cons s'.
Proof. exact step_conservation. Qed.
Print Assumptions C03_resize_conservation.

(* no_strand, the statement one would like: whenever no resize / destructor is in progress, every queued task is in a tier that
   somebody polls: ring j with j < numRings_, steal ring j with j < numStealRings_, the central queue only while numThreads_ > 0 *)
Definition C03_full_statement : Prop :=
  forall rcap scap share n0 tr s, accepts rcap scap share (init share n0) tr = Some s -> strand_free s.

(* It is FALSE of the code as written.  Witness 1 (= the event trace of the real code, replayed deterministically on every run):
   a producer inside scheduleBulkToRings has loaded ringCount = 4, a concurrent resize(2) completes, the producer then pushes tasks into
   rings 0..3; rings 2 and 3 are polled by nobody (no worker owns them, tryExecuteNextFromRings scans numRings_ = 2): with every thread
   idle and no resize in progress tasks 2 and 3 sit there until the next resize or the destructor. *)
Theorem C03_refuted : exists n0 tr s,
  accepts 16 32 8 (init 8 n0) tr = Some s /\ rz s = RIdle /\ forallb idle_thread (threads s) = true /\ ~ strand_free s.
Proof.
  destruct c03_refuted_ring as (s & H & Hi & Hr & _ & H2 & _ & _ & Hidle).
  exists 4, c03_witness_ring, s. repeat split; try assumption.
  intros Hs. destruct (Hs Hi) as [Hrings _]. specialize (Hrings 2%nat). rewrite H2, Hr in Hrings.
  assert (Z.of_nat 2 < 2) by (apply Hrings; discriminate). lia.
Qed.
Print Assumptions C03_refuted.

(* Witness 2: resize(0) racing a plain force-queued schedule whose numThreads_ load predates it: the task lands in the central queue of
   a pool without threads after resizeLocked's final drain. *)
Theorem C03_refuted_central : exists n0 tr s,
  accepts 16 32 8 (init 8 n0) tr = Some s /\ rz s = RIdle /\ forallb idle_thread (threads s) = true /\ nworkers s = 0 /\ ~ strand_free s.
Proof.
  destruct c03_refuted_central as (s & H & Hi & Ht & Hw & Hc & _ & Hidle).
  exists 2, c03_witness_central, s. repeat split; try assumption.
  intros Hs. destruct (Hs Hi) as (_ & _ & Hcen). rewrite Hc, Ht in Hcen. assert (0 < 0) by (apply Hcen; discriminate). lia.
Qed.
Print Assumptions C03_refuted_central.

(* It HOLDS on the complement of the finding's domain: in every accepted trace in which no placement goes into a tier that is closed at
   the time of the placement ([stale_place] = 0 for every event: the Gallina predicate the check uses to classify violations), every queued
   task is covered at every moment -- its tier will still be polled or a pending drain of the resize / destructor in progress will run
   it -- and nothing is stranded when no resize is in progress. *)
Theorem C03_holds_except : forall rcap scap share n0 tr s,
  accepts_fresh rcap scap share (init share n0) tr = Some s -> CovP share s /\ strand_free s.
Proof. exact no_strand_except. Qed.
Print Assumptions C03_holds_except.

(* a resize / destructor event by itself never strands queued work *)
Theorem C03_resize_never_strands : forall rcap scap share s tid e s',
  is_rz_event e = true -> CovP share s -> accept rcap scap share s tid e = Some s' -> CovP share s'.
Proof. exact resize_never_strands. Qed.
Print Assumptions C03_resize_never_strands.

(* the domain predicate evaluated by the judge ([run_trace] reports the first stale placement) is the one of C03_holds_except *)
Theorem C03_judge_domain : forall rcap scap share tr s k s' k',
  run_trace rcap scap share s tr k 0 = (s', k', true, 0) -> accepts_fresh rcap scap share s tr = Some s'.
Proof. exact run_trace_fresh. Qed.
Print Assumptions C03_judge_domain.

(* non-vacuity: a real trace with a ring-fast-path submission and a shrinking resize that is accepted and free of stale placements
   (harness/h_pool on "pool(4); TaskSet::scheduleBulk(2); resize(2)"), ending covered *)
Example C03_nonvacuous :
  exists s, accepts_fresh 16 32 8 (init 8 4) c08_witness = Some s /\ covered 8 s = true /\ numRings s = 2.
Proof. eexists. vm_compute. repeat split. Qed.
