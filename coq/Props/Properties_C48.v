(* C48 -- maxThreads bounds the concurrency of parallel loops.
   Statements only; every proof is `exact` of a lemma from Proofs/.
   Model: Model/PlanModel.v (parallel_for: who runs each body invocation and the order `seqb`), Model/ForEachModel.v
   (for_each), both on top of leaves REGENERATED from /repo (Gen/GenChunk.v).
   "At most maxThreads invocations at the same time" = every antichain of `seqb` (set of pairwise unordered
   invocations) has at most max(1, maxThreads) elements.
   The property is FALSE for the code as it is on the domain
     c48_dom = c48_dom_tail   static scheduling, wait=false, granularity tail, numThreads = the limit: numThreads
                              scheduled chunks + runTail() on the calling thread           (C48_refuted)
   and holds on the complement: C48_holds_except.
   (A second domain -- explicit chunk size with range.size() <= poolThreads + wait, where adjustChunkSizing
   REPLACED maxThreads by range.size() - wait -- was repaired in /repo; its witness is kept as the regression
   Example C48_override_regression, and C48_limit_respected states the repaired fact for all configurations.) *)
From Coq Require Import ZArith List Bool Lia.
From DV Require Import Base.MachInt Model.ChunkModel Gen.GenChunk Model.ParForModel Model.PlanModel Model.ForEachModel
  Proofs.PlanProofs Proofs.C15Proofs Proofs.C48Proofs.
Import ListNotations.
Local Open Scope Z_scope.

Definition C48_full_statement : Prop :=
  forall c ring cl, pf_claims_ok c cl = true ->
  forall l, NoDup l -> incl l (pf_plan c ring cl) ->
    (forall a b, In a l -> In b l -> a <> b -> seqb a b = false) ->
    Z.of_nat (length l) <= Z.max 1 (wrap_s 32 (pf_maxThreads c)).

(* static, wait=false, granularity 8, maxThreads 2, int32 [0,1003), 4 pool threads: 3 pairwise unordered invocations *)
Theorem C48_refuted :
  exists c ring cl l,
    pf_claims_ok c cl = true /\
    (NoDup l /\ incl l (pf_plan c ring cl) /\ forall a b, In a l -> In b l -> a <> b -> seqb a b = false) /\
    Z.of_nat (length l) > Z.max 1 (wrap_s 32 (pf_maxThreads c)) /\
    c48_dom_tail c = true /\ c = PF 4 0 1003 2147483647 4 2 1 8 false /\
    l = [CALL (Task 0) 0 0 0 504; CALL (Task 1) 0 1 504 1000; CALL CallerPre 1 0 1000 1003].
Proof. exact C48_refuted_proof. Qed.
Print Assumptions C48_refuted.

(* outside the domain: all index kinds, chunking modes, granularities, wait modes, pool sizes, ring indices
   and claim schedules *)
Theorem C48_holds_except : forall c ring cl,
  pf_claims_ok c cl = true -> c48_dom c = false ->
  forall l, (NoDup l /\ incl l (pf_plan c ring cl) /\ forall a b, In a l -> In b l -> a <> b -> seqb a b = false) ->
    Z.of_nat (length l) <= Z.max 1 (wrap_s 32 (pf_maxThreads c)).
Proof. exact C48_holds_except_proof. Qed.
Print Assumptions C48_holds_except.

(* maxThreads 0 or 1 (or >= 2^31, which std::max<int32_t> reads as negative) => one invocation on the caller *)
Theorem C48_serial : forall c ring cl,
  Z.max 1 (wrap_s 32 (pf_maxThreads c)) = 1 ->
  pf_plan c ring cl = [] \/ pf_plan c ring cl = [CALL CallerPre 0 0 (pf_s c) (pf_e c)].
Proof. exact C48_serial_proof. Qed.
Print Assumptions C48_serial.

(* on every parallel path the thread count that adjustChunkSizing returns respects the caller's limit *)
Theorem C48_limit_respected : forall c,
  2 <= path_code (d_path (pf_decide c)) -> d_maxThreads (pf_decide c) <= Z.max 1 (wrap_s 32 (pf_maxThreads c)).
Proof. exact C48_limit_respected_proof. Qed.
Print Assumptions C48_limit_respected.

(* regression for the repaired finding explicit-chunk-small-range-ignores-maxThreads:
   explicit chunk 1, int32 [0,5), 7 pool threads, maxThreads 2, wait=true now runs 1 task + the caller on 2 states *)
Example C48_override_regression :
  let c := PF 4 0 5 1 7 2 1 1 true in
  d_maxThreads (pf_decide c) = 2 /\ pf_numToLaunch c (pf_decide c) = 1 /\ pf_width c = 2 /\ pf_states_needed c = 2 /\ c48_dom c = false.
Proof. exact C48_override_regression_proof. Qed.

(* for_each_n: the plan has numThreads <= max(1,maxThreads) chunks in total, so any set of simultaneously running
   applications is at most that large (every n, pool size and wait mode) *)
Theorem C48_foreach : forall c l, NoDup l -> incl l (fe_plan c) ->
  Z.of_nat (length l) <= Z.max 1 (wrap_s 32 (fe_maxThreads c)).
Proof. exact C48_foreach_proof. Qed.
Print Assumptions C48_foreach.

Example C48_nonvacuous :
  let c := PF 4 0 1003 0 6 3 1 8 true in
  let cl := [(0,0,64);(1,64,128);(2,128,192);(0,192,256)] in
  pf_claims_ok c cl = true /\ c48_dom c = false /\ pf_width c = 3 /\
  antichainb (firstn 3 (pf_plan c (-1) cl)) = true /\
  c48_dom (PF 4 0 1003 2147483647 1 3 1 8 false) = false /\ pf_width (PF 4 0 1003 2147483647 1 3 1 8 false) = 3 /\
  c48_dom (PF 4 0 1003 2147483647 4 2 1 8 false) = true /\ c48_dom (PF 4 0 5 1 7 1 1 1 true) = false.
Proof. vm_compute. repeat split; reflexivity. Qed.
