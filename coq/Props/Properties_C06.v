(* C06 -- nested waits never deadlock through pool starvation.
   Statements only; every proof is `exact` of a lemma from Proofs/C06Proofs.v (C06Measure / C06Inv / C06Spawn).
   Model: Model/NestedWaitModel.v -- programs are data (bodies of ops: spawn into a task set or a future, wait on an own join, wait on a
   future of an enclosing body); agents = the external thread + N pool workers, each a STACK of activations: a set-waiter polls the
   central queue and the locality rings and runs what it finds on top of its stack, a future-waiter runs a not-started functor
   inline and otherwise sleeps on the futex, workers poll everything including the steal ring and park when they find nothing
   (timeout-free).  Where a submission goes (inline / central / steal ring + claim of a sleeper) and which task a poll returns are
   oracle integers: every outcome of every load test and every interleaving is covered by `reach`. *)
From Coq Require Import ZArith List Bool Arith Lia.
From DV Require Import Base.Sched Model.NestedWaitModel Proofs.C06Measure Proofs.C06Inv Proofs.C06Spawn Proofs.C06Proofs.
Import ListNotations.

(* the statement C06 asks for: every acyclic program terminates under every fair schedule, any pool size *)
Definition C06_full_statement : Prop :=
  forall p n rounds, acyclic p -> (forall rd, In rd rounds -> fair_round (S n) rd) -> mu (init p n) <= length rounds ->
  finished (run_sched (init p n) (concat rounds)) = true.

(* it is false: a task that waits for a future of an enclosing body can be picked up, inside a wait() of that future's own
   functor, by the thread that runs the functor -- Future::wait then sleeps on top of the frame it waits for.  The witness
   program is acyclic (rank function), the state is reachable, unfinished, and no agent can ever make a step that changes it. *)
Theorem C06_refuted : exists p n s,
  acyclic p /\ reach step (init p n) s /\ finished s = false /\
  (forall a, status_of s a <> Progress) /\ (forall s', reach step s s' -> s' = s).
Proof. exact C06_refuted_proof. Qed.
Print Assumptions C06_refuted.

Theorem C06_refuted_under_fair_schedules : ~ C06_full_statement.
Proof. exact full_statement_false. Qed.
Print Assumptions C06_refuted_under_fair_schedules.

(* ---- the property on the complement of the finding's domain (foreign_wait p = false, i.e. noup p = true) ---- *)

(* safety: in no reachable state is every agent blocked, parked or spinning while the program is unfinished -- some agent has,
   for every oracle choice, a step that strictly decreases the measure *)
Theorem C06_no_stuck_with_work : forall p n s, noup p = true -> reach step (init p n) s -> finished s = false ->
  exists a, status_of s a = Progress /\ forall ch, exists s' ch' site, step s a ch = Some (s', ch', site) /\ mu s' < mu s.
Proof. exact no_stuck_with_work_proof. Qed.
Print Assumptions C06_no_stuck_with_work.

(* who covers a queued task: every queued task sits in a tier; the central queue / locality rings are polled by every set-waiter on
   top of a stack; a non-empty steal ring has an awake worker whose stack holds only activations younger than the submitters *)
Theorem C06_waiters_cover : forall p n s, noup p = true -> reach step (init p n) s ->
  (forall t, t < length (tasks s) -> t_st (task_of s t) = TQueued -> In t (cq s ++ steal s)) /\
  (forall a x below gj, a < length (agents s) -> stack (agent_of s a) = x :: below -> a_mode x = MWaitSet gj ->
     cq s <> [] -> status_of s a = Progress) /\
  (steal s <> [] -> exists w, In w (agents s) /\ worker w = true /\ parked w = false /\
     forall t x, In t (steal s) -> In x (stack w) -> ostart_of s t < a_start x).
Proof. exact waiters_cover_proof. Qed.
Print Assumptions C06_waiters_cover.

(* the lexicographic measure closes: every step leaves the state unchanged (a spin) or decreases mu *)
Theorem C06_step_measure : forall p n s a ch s' ch' site, noup p = true -> reach step (init p n) s ->
  step s a ch = Some (s', ch', site) -> s' = s \/ mu s' < mu s.
Proof. exact step_measure_proof. Qed.

(* fair termination = C06 outside the finding's domain: any schedule made of rounds in which every agent gets a turn completes the
   program within mu(init) rounds, for every pool size and every oracle *)
Theorem C06_holds_except : forall p n rounds, foreign_wait p = false ->
  (forall rd, In rd rounds -> fair_round (S n) rd) -> mu (init p n) <= length rounds ->
  finished (run_sched (init p n) (concat rounds)) = true.
Proof. exact holds_except_proof. Qed.
Print Assumptions C06_holds_except.

Example C06_nonvacuous :
  let p := [OSpawn 1 JSet [OWork; OSpawn 2 JSet [OWork]; OWait 2]; OSpawn 1 JSet [OWork]; OSpawn 4 (JFut false) [OSpawn 5 JSet [OWork]; OWait 5]; OWait 1; OWait 4] in
  noup p = true /\ count_work p = 4 /\ mu (init p 2) = 35 /\
  finished (run_sched (init p 2) (concat (repeat (round_robin 3 1) 37))) = true /\
  finished (run_sched (init p 0) (concat (repeat (round_robin 1 2) 37))) = true /\
  foreign_wait witness = true /\ deps witness = [(1, 2); (3, 1); (0, 3); (0, 1)].
Proof. vm_compute. repeat split; reflexivity. Qed.
