(* C40 -- OpResult has optional semantics with balanced lifetimes.
   Statements only; proofs are in Proofs/C40Proofs.v.  Model: Model/OpResultModel.v (dispenso/detail/op_result.h),
   lifetime ledger: Base/Life.v.

   Reading guide.  [run (init nv) ops = Some s]: the operation sequence [ops] over nv OpResult variables is a valid
   C++ program (it constructs only variables that hold no object, uses only ones that do, calls value() only on
   engaged ones) and leaves the model in state s.  [spec_run] is the same program on std::optional, i.e. on
   [option Z].  [st_led s] is the ledger of the contained objects.

   HISTORY.  The model of the original code refuted the balanced-lifetimes half (move constructor and move
   assignment nulled the source's pointer without destroying the moved-from object: 2 constructed, 1 destroyed).
   The code was repaired (fix: commit in /repo, "destroy before nulling"); the model below is the repaired code, the
   property now holds for ALL sequences, and the former witnesses are kept as regression facts (C40_regression). *)
From Coq Require Import ZArith List Bool.
From DV Require Import Base.Life Model.OpResultModel Proofs.C40Proofs.
Import ListNotations.
Local Open Scope Z_scope.

(* The property at full strength. *)
Definition C40_full_statement : Prop :=
  forall nv ops s, run (init nv) ops = Some s ->
    (exists sp, spec_run (repeat None nv) ops = Some sp /\ vars_rel (st_vars s) sp = true) /\
    ok (st_led s) /\
    (all_gone (st_vars s) = true -> balanced (st_led s) /\ n_ctor (st_led s) = n_dtor (st_led s)).

Theorem C40_holds : C40_full_statement.
Proof. exact holds_proof. Qed.
Print Assumptions C40_holds.

(* Optional semantics, for ALL operation sequences: the variables of the OpResult program are related to those of
   the std::optional program by [vars_rel]: identical, except that a variable which std::optional leaves engaged
   with a moved-from value (content unspecified by the standard) reads as disengaged in OpResult. *)
Theorem C40_refines_optional : forall nv ops s, run (init nv) ops = Some s ->
  exists sp, spec_run (repeat None nv) ops = Some sp /\ vars_rel (st_vars s) sp = true.
Proof. exact refines_optional_proof. Qed.
Print Assumptions C40_refines_optional.

(* ... and exactly equal where no engaged value is moved *)
Theorem C40_exact_without_engaged_move : forall nv ops s,
  run (init nv) ops = Some s -> has_engaged_move (init nv) ops = false ->
  spec_run (repeat None nv) ops = Some (st_vars s).
Proof. exact exact_proof. Qed.
Print Assumptions C40_exact_without_engaged_move.

(* Balanced lifetimes, for ALL operation sequences: no lifetime misuse ever occurs (no double destroy, no
   construction over a live object, no use after destroy), at every point the live objects are exactly the contents
   of the engaged variables, and when all variables have been destroyed every constructed object (temporaries
   included) has been destroyed exactly once. *)
Theorem C40_opresult_balanced : forall nv ops s, run (init nv) ops = Some s ->
  ok (st_led s) /\
  (forall i t, vget (st_vars s) i = Some (Some t) -> lget (st_led s) (slot i) = Alive) /\
  (forall id, is_live (lget (st_led s) id) = true -> exists i t, id = slot i /\ vget (st_vars s) i = Some (Some t)) /\
  (all_gone (st_vars s) = true -> balanced (st_led s) /\ n_ctor (st_led s) = n_dtor (st_led s)).
Proof. exact opresult_balanced_proof. Qed.
Print Assumptions C40_opresult_balanced.

(* Regression: the witnesses of the repaired defect.  (all destroyed?, constructions, destructions, live, no misuse)
   move construction from an engaged OpResult; move assignment; re-use of the moved-from OpResult. *)
Example C40_regression :
  summary [ODefault 0; OEmplace 0 7; OMove 1 0; ODestroy 0; ODestroy 1] = Some (true, 2, 2, 0, true) /\
  summary [OValueMove 0 5; ODefault 1; OMoveAssign 1 0; ODestroy 0; ODestroy 1] = Some (true, 3, 3, 0, true) /\
  summary [ODefault 0; OEmplace 0 7; OMove 1 0; OEmplace 0 8; ODestroy 0; ODestroy 1] = Some (true, 3, 3, 0, true).
Proof. exact regression_proof. Qed.

(* the hypotheses are satisfiable by a non-trivial program: value/copy/move (of engaged and disengaged values)/
   assignments/emplace/poke over three variables, ending with all destroyed *)
Example C40_nonvacuous :
  let ops := [OValueMove 0 5; OCopy 1 0; OMove 2 1; OMoveAssign 1 2; OCopyAssign 2 0; OEmplace 1 9; OPoke 1 4;
              OCopyAssign 0 1; OMoveAssign 2 0; ODestroy 0; ODestroy 1; ODestroy 2] in
  has_engaged_move (init 3) ops = true /\
  option_map (fun s => (st_vars s, n_ctor (st_led s), n_dtor (st_led s), okb (st_led s))) (run (init 3) ops)
    = Some ([None; None; None], 9, 9, true).
Proof. split; vm_compute; reflexivity. Qed.

(* ---- throwing payload constructors.  When T's constructor throws, OpResult (after /repo c75ee64) does what this desugaring into the
   model's own operations says: a copy/move CONSTRUCTION from an engaged source, and a copy/move ASSIGNMENT of an engaged source to a
   disengaged target, change nothing (no object was constructed; the source keeps its value); an emplace destroys the held value and
   leaves the variable disengaged, which is exactly ~OpResult followed by OpResult().  The correspondence (harness ops F G f g e, real
   exceptions) checks the implementation against this desugaring; every theorem above then covers programs with such faults. *)
Inductive fop := FOk (o : op) | FCtorThrow (i j : nat) | FAssignThrow (i j : nat) | FEmplaceThrow (i : nat).
Definition desugar (f : fop) : list op :=
  match f with
  | FOk o => [o]
  | FCtorThrow _ _ | FAssignThrow _ _ => []
  | FEmplaceThrow i => [ODestroy i; ODefault i]
  end.
Definition frun (s : state) (fops : list fop) : option state := run s (flat_map desugar fops).

Theorem C40_faults_balanced : forall nv fops s, frun (init nv) fops = Some s ->
  ok (st_led s) /\
  (forall i t, vget (st_vars s) i = Some (Some t) -> lget (st_led s) (slot i) = Alive).
Proof.
  intros nv fops s H. destruct (C40_opresult_balanced nv (flat_map desugar fops) s H) as (H1 & H2 & _). split; [exact H1|exact H2].
Qed.
Print Assumptions C40_faults_balanced.

Theorem C40_faults_refine_optional : forall nv fops s, frun (init nv) fops = Some s ->
  exists sp, spec_run (repeat None nv) (flat_map desugar fops) = Some sp /\ vars_rel (st_vars s) sp = true.
Proof. intros nv fops s H. exact (C40_refines_optional nv (flat_map desugar fops) s H). Qed.
Print Assumptions C40_faults_refine_optional.

(* the throwing emplace of the regression witness: value 5 destroyed exactly once, variable disengaged, nothing live *)
Example C40_faults_nonvacuous :
  match frun (init 1) [FOk (OValueMove 0 5); FEmplaceThrow 0] with
  | Some s => st_vars s = [Some None] /\ live_count (st_led s) = 0 /\ l_errs (st_led s) = []
  | None => False
  end.
Proof. vm_compute. repeat split; reflexivity. Qed.
