(* C40 -- OpResult has optional semantics with balanced lifetimes.
   Statements only; proofs are in Proofs/C40Proofs.v.  Model: Model/OpResultModel.v (dispenso/detail/op_result.h),
   lifetime ledger: Base/Life.v.

   Reading guide.  [run (init nv) ops = Some s]: the operation sequence [ops] over nv OpResult variables is a valid
   C++ program (it constructs only variables that hold no object, uses only ones that do, calls value() only on
   engaged ones) and leaves the model in state s.  [spec_run] is the same program on std::optional, i.e. on
   [option Z].  [st_led s] is the ledger of the contained objects.

   RESULT: the optional-semantics half holds for every sequence (C40_refines_optional); the balanced-lifetimes
   half is FALSE (C40_refuted): the move constructor and move assignment null the source's pointer without
   destroying the moved-from object.  Outside that domain both halves hold exactly (C40_holds_except). *)
From Coq Require Import ZArith List Bool.
From DV Require Import Base.Life Model.OpResultModel Proofs.C40Proofs.
Import ListNotations.
Local Open Scope Z_scope.

(* The property at full strength (not a theorem: see C40_refuted). *)
Definition C40_full_statement : Prop :=
  forall nv ops s, run (init nv) ops = Some s ->
    (exists sp, spec_run (repeat None nv) ops = Some sp /\ vars_rel (st_vars s) sp = true) /\
    ok (st_led s) /\
    (all_gone (st_vars s) = true -> balanced (st_led s) /\ n_ctor (st_led s) = n_dtor (st_led s)).

(* Optional semantics, for ALL operation sequences: the variables of the OpResult program are related to those of
   the std::optional program by [vars_rel]: identical, except that a variable which std::optional leaves engaged
   with a moved-from value (content unspecified by the standard) reads as disengaged in OpResult. *)
Theorem C40_refines_optional : forall nv ops s, run (init nv) ops = Some s ->
  exists sp, spec_run (repeat None nv) ops = Some sp /\ vars_rel (st_vars s) sp = true.
Proof. exact refines_optional_proof. Qed.
Print Assumptions C40_refines_optional.

(* Balanced lifetimes are refuted: default-construct a, emplace 7, move-construct b from a, destroy both.
   Two objects constructed, one destructor call, the moved-from object in a's buffer is never destroyed. *)
Theorem C40_refuted : exists s,
  run (init 2) [ODefault 0; OEmplace 0 7; OMove 1 0; ODestroy 0; ODestroy 1] = Some s /\
  all_gone (st_vars s) = true /\ ok (st_led s) /\
  n_ctor (st_led s) = 2 /\ n_dtor (st_led s) = 1 /\ lget (st_led s) (slot 0) = MovedFrom /\ ~ balanced (st_led s).
Proof. exact refuted_proof. Qed.
Print Assumptions C40_refuted.

Theorem C40_full_statement_false : ~ C40_full_statement.
Proof. exact full_statement_false_proof. Qed.
Print Assumptions C40_full_statement_false.

(* Consequence of the same defect: re-using the moved-from OpResult constructs a new object on top of the one that
   was never destroyed. *)
Theorem C40_refuted_overwrite : exists s,
  run (init 2) [ODefault 0; OEmplace 0 7; OMove 1 0; OEmplace 0 8; ODestroy 0; ODestroy 1] = Some s /\
  all_gone (st_vars s) = true /\
  status (st_led s) = LErr ConstructOverLive (slot 0) /\ n_ctor (st_led s) = 3 /\ n_dtor (st_led s) = 2.
Proof. exact refuted_overwrite_proof. Qed.
Print Assumptions C40_refuted_overwrite.

(* Everything holds on the complement of the finding's domain: for every sequence in which no move construction /
   move assignment takes an ENGAGED OpResult as its source ([has_engaged_move] = false; moves of disengaged
   values and self-move-assignment are inside), the variables are EXACTLY those of the std::optional program, no
   lifetime misuse occurs, the live objects are exactly the contents of the engaged variables, and when all
   variables have been destroyed every constructed object has been destroyed exactly once. *)
Theorem C40_holds_except : forall nv ops s,
  run (init nv) ops = Some s -> has_engaged_move (init nv) ops = false ->
  spec_run (repeat None nv) ops = Some (st_vars s) /\
  ok (st_led s) /\
  (forall i t, vget (st_vars s) i = Some (Some t) -> lget (st_led s) (slot i) = Alive) /\
  (forall id, is_live (lget (st_led s) id) = true -> exists i t, id = slot i /\ vget (st_vars s) i = Some (Some t)) /\
  (all_gone (st_vars s) = true -> balanced (st_led s) /\ n_ctor (st_led s) = n_dtor (st_led s)).
Proof. exact holds_except_proof. Qed.
Print Assumptions C40_holds_except.

(* the hypotheses of C40_holds_except are satisfiable by a non-trivial program: value/copy/move(of a disengaged
   value)/assignments/emplace/poke over three variables, ending with all destroyed: 6 objects constructed
   (temporary included), 6 destroyed *)
Example C40_nonvacuous :
  let ops := [OValueMove 0 5; OCopy 1 0; ODefault 2; OMoveAssign 1 2; OCopyAssign 2 0; OEmplace 1 9; OPoke 1 4;
              OCopyAssign 0 1; ODestroy 0; ODestroy 1; ODestroy 2] in
  has_engaged_move (init 3) ops = false /\
  option_map (fun s => (st_vars s, n_ctor (st_led s), n_dtor (st_led s), okb (st_led s))) (run (init 3) ops)
    = Some ([None; None; None], 6, 6, true).
Proof. split; vm_compute; reflexivity. Qed.
