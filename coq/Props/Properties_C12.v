(* C12 -- parallel_for covers each index exactly once.
   Statements only; every proof is `exact` of a lemma from Proofs/.  All theorems speak about executable models
   (Model/ParForModel.v, DynModel.v, StripeModel.v) whose leaves are REGENERATED from /repo (Gen/GenChunk.v) and whose
   glue is tied to the real parallel_for by props/C12.py.

   Vocabulary: pfcfg = (index kind, start, end, chunk spec, pool threads N, ParForOptions);  pf_dom = documented domain
   (= pf_dom_wide);  an execution (exec) = machine L3 group count + the claim
   events of the dynamic path + the (worker, victim) events of the stripe path;  pf_complete = every worker has left
   its loop;  pf_calls = the (begin, end) pairs handed to the body;  is_partition s e l = l is empty for an empty range,
   otherwise some ordering of l is a contiguous chain from s to e. *)
From Coq Require Import ZArith List Bool Lia Permutation.
From DV Require Import Base.MachInt Model.ChunkModel Gen.GenChunk Model.ParForModel Model.DynModel Model.StripeModel
  Model.C12Check Proofs.DynListProofs Proofs.DynDecideProofs Proofs.C12Proofs.
Import ListNotations.
Local Open Scope Z_scope.

(* what a partition means for indices: every index of [s,e) is in exactly one invocation, no invocation leaves [s,e) *)
Theorem C12_partition_means_every_index_once : forall s e l, is_partition s e l ->
  (forall i, s <= i < e -> length (filter (covers i) l) = 1%nat) /\
  (forall a b, In (a, b) l -> s <= a /\ a <= b /\ b <= e).
Proof. exact partition_indices. Qed.
Print Assumptions C12_partition_means_every_index_once.

(* empty range, serial fallbacks, static chunking (from the C17 theorems): no schedule involved *)
Theorem C12_static_partition : forall c, pf_dom c ->
  pf_mode c = MEmpty \/ pf_mode c = MSerial \/ pf_mode c = MStatic ->
  exists l, static_calls c = Some l /\ is_partition (pf_s c) (pf_e c) l.
Proof. exact C12_static_partition_proof. Qed.
Print Assumptions C12_static_partition.

(* static path, parallel_for called from a worker of the pool (ring index r): the caller runs chunk r instead of the last
   one and the scheduler index is remapped around it (par_for_static.h:106-126).  For EVERY ring index the chunk indices
   that are executed are a permutation of 0 .. n-1, hence the chunks executed are, as a multiset, the plan static_calls
   lists (B = its chunk list) -- the ring only decides who runs which chunk *)
Theorem C12_static_caller_ring_irrelevant : forall n wait ring, 1 <= n ->
  Permutation (static_chunk_indices n wait ring) (zrange 0 (Z.to_nat n)).
Proof. exact static_chunk_indices_perm. Qed.
Print Assumptions C12_static_caller_ring_irrelevant.

Theorem C12_static_chunks_any_caller : forall (B : list (Z * Z)) wait ring, (1 <= length B)%nat ->
  Permutation (map (fun i => nth (Z.to_nat i) B (0, 0)) (static_chunk_indices (Z.of_nat (length B)) wait ring)) B.
Proof. intros B wait ring. exact (static_ring_independent B (0, 0) wait ring). Qed.
Print Assumptions C12_static_chunks_any_caller.

(* dynamic path (explicit chunk size; auto chunking with wait=false): for EVERY claim order and every L3 group count
   (single shared counter and per-group counters), once all workers have left their loops the invocations -- including
   the granularity tail run by the last exiting worker resp. the caller -- tile [start, end) *)
Theorem C12_dynamic_partition : forall c l3 sched, pf_dom c -> pf_mode c = MDynamic ->
  exists dc, pf_dyncfg c l3 = Some dc /\
    (dyn_complete dc sched = true -> is_partition (pf_s c) (pf_e c) (dyn_calls dc sched)).
Proof. exact C12_dynamic_partition_proof. Qed.
Print Assumptions C12_dynamic_partition.

(* adaptive (stripe) path: for EVERY schedule of claims and steals (victim choice = oracle), under the explicit
   hypothesis that no cursor fetch_add of the run left the 64-bit cursor type; the no-wrap hypothesis follows from a bound F on the failed claims per stripe when the configuration is
   outside the wrap domain for F *)
Theorem C12_adaptive_partition : forall c sched, pf_dom c -> pf_mode c = MAdaptive ->
  exists sc, pf_scfg c = Some sc /\
    (stripe_complete sc sched = true -> stripe_nowrap sc sched = true ->
     is_partition (pf_s c) (pf_e c) (stripe_calls sc sched)) /\
    (forall F, 0 <= F -> (forall j, stripe_excess sc sched j <= F) -> c12_wrap_domain F c = false ->
               stripe_nowrap sc sched = true).
Proof. exact C12_adaptive_partition_proof. Qed.
Print Assumptions C12_adaptive_partition.

(* the property at full strength -- FALSE for the code that exists (one finding remains: adaptive-cursor-wrap-64bit) *)
Definition C12_full_statement : Prop :=
  forall c x, pf_dom_wide c -> pf_complete c x = true ->
  exists l, pf_calls c x = Some l /\ is_partition (pf_s c) (pf_e c) l.

(* finding adaptive-cursor-wrap-64bit: uint64 [2^64-101, 2^64-1), adaptive, 2 workers, chunk size 7.  After the
   deterministic prefix "every worker drains its own stripe" the body has been called with [5,12); no continuation of
   the execution can be a partition.  (Reproduced on the real code: props/C12.py WITNESS_WRAP.) *)
Theorem C12_refuted :
  pf_dom c12_witness /\ pf_mode c12_witness = MAdaptive /\
  forall more l, pf_calls c12_witness (EX 0 [] (c12_witness_prefix ++ more)) = Some l ->
    In (5, 12) l /\ ~ is_partition (pf_s c12_witness) (pf_e c12_witness) l.
Proof. exact C12_refuted_proof. Qed.
Print Assumptions C12_refuted.

(* regression: the witness of the former finding explicit-chunk-overflow-64bit (uint64 [0,100), explicit chunk 2^64-50,
   4-thread pool: numChunks wrapped to 0 and the body was never called) is now in the domain and handled: one chunk *)
Example C12_regression_chunk_overflow_witness :
  pf_dom c12_chunkovf_witness /\ pf_mode c12_chunkovf_witness = MDynamic /\
  let x := EX 0 (round_robin 5 2) [] in
  pf_complete c12_chunkovf_witness x = true /\ pf_calls c12_chunkovf_witness x = Some [(0, 100)].
Proof.
  split.
  { unfold pf_dom, pf_dom_wide. cbn [c12_chunkovf_witness pf_kn pf_s pf_e pf_chunk pf_N pf_maxThreads pf_minItems pf_gran].
    split; [lia|]. unfold kind_of, in_kind; cbn [nth all_kinds U64 kmin kmax ik_signed ik_w].
    repeat split; try lia; try (intros; discriminate). }
  vm_compute. repeat split; reflexivity.
Qed.

(* regression: the witness of the former finding adaptive-chunksize-narrowing (int8 [-128,127), adaptive, 1-thread pool,
   minItemsPerChunk 85: the size_type chunk size 128 was narrowed to int8 -128 and the cursor ran backwards) *)
Example C12_regression_narrowing_witness :
  let c := PF 0 (-128) 127 0 1 2147483647 85 1 true in
  let x := EX 0 [] (own_then_poll 2 6) in
  pf_mode c = MAdaptive /\ pf_complete c x = true /\ c12_nowrap c x = true /\
  pf_calls c x = Some [(-128, -1); (-1, 127)].
Proof. vm_compute. repeat split; reflexivity. Qed.

(* the property on the complement of the findings' domains, all modes, all executions:
   the cursor wrap is excluded explicitly (trace-level) ... *)
Theorem C12_holds_except : forall c x, pf_dom c -> pf_complete c x = true ->
  c12_nowrap c x = true ->
  exists l, pf_calls c x = Some l /\ is_partition (pf_s c) (pf_e c) l.
Proof. exact C12_holds_except_proof. Qed.
Print Assumptions C12_holds_except.

(* ... or by the configuration-level domain predicate used by the check to classify violations, given a bound F on
   the failed claims per stripe (c12_fail_bound) *)
Theorem C12_holds_except_domain : forall c x F, pf_dom c -> pf_complete c x = true -> 0 <= F ->
  c12_wrap_domain F c = false -> c12_fail_bound F c x ->
  exists l, pf_calls c x = Some l /\ is_partition (pf_s c) (pf_e c) l.
Proof. exact C12_holds_except_budget_proof. Qed.
Print Assumptions C12_holds_except_domain.

(* the hypotheses are satisfiable by non-trivial inputs: an adaptive run (int32 [3,1003), g = 8, 5 workers, 125
   invocations) and a dynamic no-wait run with a tail, both complete, no wrap, outside every finding domain *)
Example C12_nonvacuous :
  let c := PF 4 3 1003 0 4 2147483647 1 8 true in
  let x := EX 0 [] (own_then_poll 5 40) in
  pf_mode c = MAdaptive /\ pf_complete c x = true /\ c12_nowrap c x = true /\
  c12_wrap_domain c12_fail_budget c = false /\ option_map (@length _) (pf_calls c x) = Some 125%nat /\
  let c' := PF 4 3 1003 0 4 2147483647 1 8 false in
  let x' := EX 0 (round_robin 4 20) [] in
  pf_mode c' = MDynamic /\ pf_complete c' x' = true /\ option_map (@length _) (pf_calls c' x') = Some 63%nat.
Proof. vm_compute. repeat split; reflexivity. Qed.
